# /verif setup: generate tables from /repo, full Coq build (.vo, never -vos), extraction + OCaml runner.
.PHONY: setup clean
setup:
	/venv/bin/python -m harness.setup
clean:
	rm -rf .work coq/Makefile coq/Makefile.conf coq/.Makefile.d coq/.Makefile.files
	find coq -name '*.vo' -o -name '*.vos' -o -name '*.vok' -o -name '*.glob' -o -name '.*.aux' | xargs rm -f
