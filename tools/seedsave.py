#!/usr/bin/env python3
# maintenance helper: store a confirmed seeded change under /verif/seeded/<name>/ with the rows of tools/seedrun.sh
# usage: tools/seedsave.py <src dir> <name> <property> "<description>" <round-1 summary or -> <latest summary>
import json, os, re, shutil, sys
src, name, prop, desc, s1, s2 = sys.argv[1:7]
dst = os.path.join('/verif/seeded', name)
os.makedirs(dst, exist_ok=True)
shutil.copy(os.path.join(src, 'patch.diff'), os.path.join(dst, 'patch.diff'))
shutil.copy(os.path.join(src, 'demo.py'), os.path.join(dst, 'demo.py'))


def rows(path):
    if path == '-' or not os.path.exists(path):
        return None
    res = {'checks': {}}
    for line in open(path):
        m = re.match(r'^(C\d\d) rc=(\d+) viol=(\d+)\s*(.*)', line)
        if m:
            res['checks'][m.group(1)] = {'exit': int(m.group(2)), 'violations': int(m.group(3)), 'first': m.group(4).strip()[:200]}
        elif line.startswith('tests:'):
            res['tests'] = line.strip()
        elif line.startswith('demo on changed'):
            res['demo_changed_tree_exit'] = int(line.strip().rsplit('=', 1)[1])
        elif line.startswith('demo on /repo'):
            res['demo_unchanged_tree_exit'] = int(line.strip().rsplit('=', 1)[1])
    res['caught_by'] = sorted(c for c, r in res['checks'].items() if r['exit'] == 1)
    return res


r1, r2 = rows(s1), rows(s2)
meta = {'property': prop, 'description': desc, 'files': ['patch.diff', 'demo.py'],
        'how_to_run': 'git -C /repo apply /verif/seeded/%s/patch.diff; cd /verif && ./check %s --tier quick; git -C /repo checkout -- .' % (name, prop),
        'demonstration': 'PYTHONPATH=<tree> /venv/bin/python demo.py  (exit 1 on the changed tree, 0 on /repo)',
        'confirmed': r2 or r1}
if r1 is not None:
    meta['checks_as_committed_before_the_campaign'] = {'caught_by': r1['caught_by'], 'target_check_caught': prop in r1['caught_by']}
if r2 is not None:
    meta['current_checks'] = {'caught_by': r2['caught_by'], 'target_check_caught': prop in r2['caught_by']}
json.dump(meta, open(os.path.join(dst, 'meta.json'), 'w'), indent=1)
print(name, (r2 or r1)['caught_by'])
