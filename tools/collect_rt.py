# maintenance helper (run by hand): enumerate current C01/C05 round-trip findings over many seeds
import sys, random, json
sys.path.insert(0, '/verif')
from harness import common; common.use_repo()
from harness import rt, sweep
from harness.c01 import family, C01_PREDICATES
seen = {}
vectors = sweep.library_vectors()
for seed in range(int(sys.argv[1]), int(sys.argv[2])):
    rng = random.Random(seed)
    for cls in sorted(vectors, key=sweep.qualname):
        name = sweep.qualname(cls)
        for v in vectors[cls]:
            extras = rt.extra_vectors(name, rng, 20)
            cands = [(v, 'orig')] + [(b, 'orig') for b in extras] + [(sweep.mutate(rng, v), 'mut') for _ in range(100)]
            for b, kind in cands:
                for pred, detail in rt.roundtrip_failures(cls, b):
                    key = rt.finding_key(family(name), name, pred, kind, b)
                    if key not in seen:
                        seen[key] = {'class': name, 'input': b.hex(), 'detail': detail}
json.dump(seen, open('/tmp/rt_keys_%s.json' % sys.argv[1], 'w'), indent=1)
print(len(seen))
