# maintenance helper (run by hand): enumerate current C01/C05 round-trip findings over many seeds
import sys, random, json
sys.path.insert(0, '/verif')
from harness import common; common.use_repo()
from harness import rt, sweep
from harness.c01 import family, C01_PREDICATES
seen = {}
vectors = sweep.library_vectors()
for seed in range(int(sys.argv[1]), int(sys.argv[2])):
    rng = random.Random(seed)
    for cls in sorted(vectors, key=sweep.qualname):
        name = sweep.qualname(cls)
        for v in vectors[cls]:
            for k, b in enumerate([v] + [sweep.mutate(rng, v) for _ in range(100)]):
                for pred, detail in rt.roundtrip_failures(cls, b):
                    key = '%s/%s/%s' % (family(name), pred, 'orig' if k == 0 else 'mut')
                    if key not in seen:
                        seen[key] = {'class': name, 'input': b.hex(), 'detail': detail}
json.dump(seen, open('/tmp/rt_keys_%s.json' % sys.argv[1], 'w'), indent=1)
print(len(seen))
