#!/bin/bash
# usage: tools/mk.sh [targets...]   (regenerates coq/Makefile when the file list changed, then make)
root=$(cd "$(dirname "$0")/.." && pwd)
cd $root && /venv/bin/python -c "
import sys; sys.path.insert(0,'$root')
from harness import common; common.regen_makefile()"
cd $root/coq && timeout ${MK_TIMEOUT:-900} make -j${MK_JOBS:-16} "$@" 2>&1 | grep -v "^Warning\|^COQDEP\|^make\[" | tail -${MK_TAIL:-40}
