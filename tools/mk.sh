#!/bin/bash
# usage: tools/mk.sh [targets...]   (regenerates coq/Makefile when the file list changed, then make)
cd /verif && /venv/bin/python -c "
import sys; sys.path.insert(0,'/verif')
from harness import common; common.regen_makefile()"
cd /verif/coq && timeout ${MK_TIMEOUT:-900} make -j16 "$@" 2>&1 | grep -v "^Warning\|^COQDEP\|^make\[" | tail -${MK_TAIL:-40}
