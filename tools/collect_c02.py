# maintenance helper (run by hand, never by a check): enumerate current C02 leak root causes over many seeds
import sys, random, json
sys.path.insert(0, '/verif')
from harness import common; common.use_repo()
from harness import c02, sweep
class C: coverage = {}
seen = {}
for seed in range(int(sys.argv[1]), int(sys.argv[2])):
    rng = random.Random(seed)
    for cls, name, b, ep, key, line, e in c02.class_sweep(C, rng, 60, True):
        if key not in seen:
            seen[key] = {'class': name, 'input': b.hex(), 'exc': type(e).__name__, 'msg': str(e)[:100], 'ep': ep, 'classes': set()}
        seen[key]['classes'].add(name.rsplit('.', 1)[1])
for k, v in seen.items():
    v['classes'] = sorted(v['classes'])
json.dump(seen, open('/tmp/c02_keys_%s.json' % sys.argv[1], 'w'), indent=1)
print(len(seen))
