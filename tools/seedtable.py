#!/usr/bin/env python3
# maintenance helper: markdown table of /verif/seeded/*/meta.json for DESIGN.md section 9
import glob, json, os
rows = []
for f in sorted(glob.glob('/verif/seeded/*/meta.json')):
    m = json.load(open(f))
    name = os.path.basename(os.path.dirname(f))
    before = m.get('checks_as_committed_before_the_campaign')
    cur = m.get('current_checks', {})
    rows.append('| %s | %s | %s | %s | %s |' % (
        name, m['property'], m['description'].replace('|', '/')[:170],
        '-' if before is None else (', '.join(before['caught_by']) or 'none'),
        ', '.join(cur.get('caught_by', [])) or 'none'))
print('| change | property | what it does | caught by the checks as they were when it was made | caught by the current checks |')
print('|---|---|---|---|---|')
print('\n'.join(rows))
