#!/bin/bash
# usage: tools/mutant.sh <patch.diff> <Cxx> [tier]  -- apply patch to a scratch worktree of /repo HEAD and run the check there
set -e
wt=/tmp/wt_mut_$$
git -C /repo worktree add -q --detach $wt HEAD
trap "cd /; git -C /repo worktree remove --force $wt" EXIT
git -C $wt apply "$1"
shift
for c in "$@"; do
  (cd /verif && VERIF_REPO=$wt ./check $c --tier quick | grep -v "^  " | cut -c1-250) || true
done
