#!/bin/bash
# usage: tools/seedrun.sh <dir with patch.diff and demo.py> <name> [Cxx ...]
# Confirms a seeded change (tests unchanged, demonstration fails on the changed tree and passes on /repo) in a scratch
# worktree, then runs the given checks (default: all) from a scratch copy of /verif against that worktree.
# Everything lives under /tmp/mutrun/<name> and the worktree is removed at the end; logs stay for inspection.
src=$1; name=$2; shift; shift
checks=${@:-C01 C02 C03 C04 C05 C06 C07 C08 C09 C10 C11 C12 C13 C14 C15 C16 C17 C18 C19}
work=/tmp/mutrun/$name
rm -rf $work; mkdir -p $work
git -C /repo worktree prune
git -C /repo worktree add -q --detach $work/repo ${SEED_BASE:-HEAD} || exit 2
trap "git -C /repo worktree remove --force $work/repo" EXIT
if ! git -C $work/repo apply $src/patch.diff; then echo "PATCH-DOES-NOT-APPLY"; exit 2; fi
cp $src/demo.py $work/demo.py
(cd $work/repo && PYTHONPATH=$work/repo /venv/bin/python -m pytest -q -p no:cacheprovider --timeout=900 2>&1 | tail -12) > $work/tests.log
echo "tests: $(grep -c '^FAILED' $work/tests.log) failed; $(tail -1 $work/tests.log)"
(cd $work && PYTHONPATH=$work/repo PYTHONHASHSEED=0 timeout 600 /venv/bin/python $work/demo.py > $work/demo_mut.log 2>&1); echo "demo on changed tree rc=$?"
(cd $work && PYTHONPATH=/repo PYTHONHASHSEED=0 timeout 600 /venv/bin/python $work/demo.py > $work/demo_clean.log 2>&1); echo "demo on /repo rc=$?"
rsync -a --exclude .git --exclude replays --exclude evidence --exclude seeded ${VERIF_SRC:-/verif}/ $work/verif/
mkdir -p $work/verif/replays $work/verif/evidence
for c in $checks; do
  (cd $work/verif && VERIF_REPO=$work/repo VERIF_SEED=${VERIF_SEED:-1} timeout 3000 ./check $c --tier ${TIER:-quick} > $work/$c.log 2>&1); rc=$?
  echo "$c rc=$rc viol=$(grep -c '^VIOLATION' $work/$c.log) $(grep -m1 -A1 '^VIOLATION' $work/$c.log | tail -1 | cut -c1-220)"
done
