#!/bin/bash
# usage: goal.sh <file.v> <line>  -- shows the proof state after the given line
f=$1; n=$2
d=/verif/.work/goal; mkdir -p $d
head -n $n $f > $d/Scratch.v
echo "Show. " >> $d/Scratch.v
cd /verif/coq && timeout 120 coqc -Q theories CP -Q gen CPGen -w -notation-overridden $d/Scratch.v 2>&1 | grep -v "^Warning" | tail -${3:-40}
