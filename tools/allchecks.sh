#!/bin/bash
# usage: tools/allchecks.sh [tier] [seed]  -- every registered check on /repo, one summary line each (maintenance helper)
tier=${1:-quick}
export VERIF_SEED=${2:-1}
cd "$(cd "$(dirname "$0")/.." && pwd)"
for c in C01 C02 C03 C04 C05 C06 C07 C08 C09 C10 C11 C12 C13 C14 C15 C16 C17 C18 C19; do
  out=$(timeout ${ALL_TIMEOUT:-3600} ./check $c --tier $tier 2>&1); rc=$?
  echo "$c rc=$rc $(echo "$out" | grep -c '^KNOWN-FINDING') known; $(echo "$out" | tail -1)"
  echo "$out" | grep -A1 "^VIOLATION" | cut -c1-400
done
