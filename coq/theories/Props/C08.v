(* Property C08: DNSSEC and mail-related DNS record data follow the RFCs, key tag included.
   Spec/KeyTag.v and Spec/DnsSpec.v are written from RFC 4034 / 1035 / 3110; Dns/KeyTag.v models DnsRecordDnskey.key_tag.
   Statements only. *)
From Coq Require Import ZArith List Bool.
From CP Require Import Core.Bytes Spec.PL Spec.KeyTag Spec.DnsSpec Dns.KeyTag Lemmas.KeyTagLemmas Lemmas.DnsSpecLemmas.
From CP Require Import Spec.Registry Lemmas.RegistryDns.
From CPGen Require Import Tables.
Open Scope Z_scope.

(* the key tag the code computes is the RFC 4034 Appendix B value for EVERY RDATA of even length ... *)
Theorem C08_keytag_partial : forall rdata, Nat.even (length rdata) = true -> key_tag rdata = rfc4034_keytag rdata.
Proof. exact key_tag_even_is_rfc4034. Qed.

(* ... and with the trailing byte shifted it would be for every RDATA (full statement, of the repaired function) *)
Theorem C08_keytag_repaired_full : forall rdata, key_tag_repaired rdata = rfc4034_keytag rdata.
Proof. exact key_tag_repaired_is_rfc4034. Qed.

(* the full statement is false of the code as it is: odd-length RDATA (known finding, pinned by test_asdict) *)
Theorem C08_keytag_odd_refuted : key_tag (cons Byte.x01 nil) <> rfc4034_keytag (cons Byte.x01 nil).
Proof. exact key_tag_odd_refuted. Qed.

(* RFC 4034 B.1, algorithm 1 *)
Theorem C08_keytag_alg1 : forall m, key_tag_alg1 m = rfc4034_keytag_alg1 m.
Proof. exact key_tag_alg1_is_rfc4034. Qed.

Theorem C08_keytag_range : forall rdata, 0 <= key_tag rdata < 65536.
Proof. exact key_tag_range. Qed.

(* the specification of names and of DS RDATA is coherent (decode after encode, any suffix) *)
Theorem C08_spec_names_roundtrip : forall labels b s fuel, enc_labels labels = Some b -> (length labels < fuel)%nat ->
  dec_labels fuel (b ++ s) = Some (labels, s).
Proof. exact dec_enc_labels. Qed.
Theorem C08_spec_ds_roundtrip : forall kt a d digest, 0 <= kt < 65536 -> 0 <= a < 256 -> 0 <= d < 256 ->
  dec_ds (enc_ds kt a d digest) = Some (kt, a, d, digest).
Proof. exact dec_enc_ds. Qed.

(* DNSKEY flag bits of the live library are those of RFC 4034 / RFC 5011 *)
Theorem C08_code_points_match_registry :
  registry_agrees int_enum_members dns_registry = true /\ registry_covers int_enum_members dns_registry = true.
Proof. exact dns_code_points. Qed.
