(* Property C08: DNSSEC and mail-related DNS record data follow the RFCs, key tag included.
   Spec/KeyTag.v and Spec/DnsSpec.v are written from RFC 4034 / 1035 / 3110; Dns/KeyTag.v models DnsRecordDnskey.key_tag.
   Statements only. *)
From Coq Require Import ZArith List Bool.
From CP Require Import Core.Bytes Spec.PL Spec.KeyTag Spec.DnsSpec Dns.KeyTag Lemmas.KeyTagLemmas Lemmas.DnsSpecLemmas.
From CP Require Import Spec.Registry Lemmas.RegistryDns.
From CPGen Require Import Tables.
Open Scope Z_scope.

(* the key tag the code computes is the RFC 4034 Appendix B value for EVERY RDATA of even length ... *)
Theorem C08_keytag_partial : forall rdata, Nat.even (length rdata) = true -> key_tag rdata = rfc4034_keytag rdata.
Proof. exact key_tag_even_is_rfc4034. Qed.

(* ... and with the trailing byte shifted it would be for every RDATA (full statement, of the repaired function) *)
Theorem C08_keytag_repaired_full : forall rdata, key_tag_repaired rdata = rfc4034_keytag rdata.
Proof. exact key_tag_repaired_is_rfc4034. Qed.

(* the full statement is false of the code as it is: odd-length RDATA (known finding, pinned by test_asdict) *)
Theorem C08_keytag_odd_refuted : key_tag (cons Byte.x01 nil) <> rfc4034_keytag (cons Byte.x01 nil).
Proof. exact key_tag_odd_refuted. Qed.

(* RFC 4034 B.1, algorithm 1 *)
Theorem C08_keytag_alg1 : forall m, key_tag_alg1 m = rfc4034_keytag_alg1 m.
Proof. exact key_tag_alg1_is_rfc4034. Qed.

Theorem C08_keytag_range : forall rdata, 0 <= key_tag rdata < 65536.
Proof. exact key_tag_range. Qed.

(* the specification of names and of DS RDATA is coherent (decode after encode, any suffix) *)
Theorem C08_spec_names_roundtrip : forall labels b s fuel, enc_labels labels = Some b -> (length labels < fuel)%nat ->
  dec_labels fuel (b ++ s) = Some (labels, s).
Proof. exact dec_enc_labels. Qed.
Theorem C08_spec_mx_roundtrip : forall pref exchange b, 0 <= pref < 65536 -> enc_mx pref exchange = Some b ->
  dec_mx b = Some (pref, exchange).
Proof. exact dec_enc_mx. Qed.
Print Assumptions C08_spec_mx_roundtrip.
(* TXT: every text - of more than 255 octets too - has an encoding as character-strings, and decoding the encoding (concatenating
   the strings of the RDATA) gives the text back; a text of at most 255 octets is one string *)
Theorem C08_spec_txt_roundtrip : forall s, exists b, enc_txt s = Some b /\ dec_txt b = Some s.
Proof. exact dec_enc_txt. Qed.
Theorem C08_spec_txt_short : forall s, zlen s <= 255 -> enc_txt s = Some (enc_uint 1 (zlen s) ++ s).
Proof. exact enc_txt_short. Qed.
Theorem C08_spec_ds_roundtrip : forall kt a d digest, 0 <= kt < 65536 -> 0 <= a < 256 -> 0 <= d < 256 ->
  dec_ds (enc_ds kt a d digest) = Some (kt, a, d, digest).
Proof. exact dec_enc_ds. Qed.

(* DNSKEY flag bits of the live library are those of RFC 4034 / RFC 5011 *)
Theorem C08_code_points_match_registry :
  registry_agrees int_enum_members dns_registry = true /\ registry_covers int_enum_members dns_registry = true.
Proof. exact dns_code_points. Qed.

(* ECDSA DNSKEY (RFC 6605 4): the key is x | y in 2 x 32 octets for algorithm 13 and 2 x 48 octets for algorithm 14 whatever the
   coordinates (leading zero octets included), and decodes to the same point *)
Theorem C08_ecdsa_key_fixed_width : forall alg x y k, enc_ecdsa_key alg x y = Some k ->
  dec_ecdsa_key alg k = Some (x, y) /\ (alg = 13 /\ zlen k = 64 \/ alg = 14 /\ zlen k = 96).
Proof. exact dec_enc_ecdsa_key. Qed.

(* EdDSA DNSKEY (RFC 8080 3): 32 octets for algorithm 15, 57 for algorithm 16, taken verbatim *)
Theorem C08_eddsa_key_verbatim : forall alg k k', enc_eddsa_key alg k = Some k' ->
  k' = k /\ (alg = 15 /\ zlen k = 32 \/ alg = 16 /\ zlen k = 57).
Proof. exact enc_eddsa_key_verbatim. Qed.

(* the DNSKEY RDATA header reads back *)
Theorem C08_dnskey_header : forall flags alg key, 0 <= flags < 65536 -> 0 <= alg < 256 ->
  dec_dnskey (enc_dnskey flags alg key) = Some (flags, 3, alg, key).
Proof. exact dec_enc_dnskey. Qed.
