(* Property C17: TLS protocol versions form a strict total order consistent with equality.
   This file only states the theorems and closes them with lemmas proved in Lemmas/VersionOrder.v. *)
From Coq Require Import ZArith Bool List Permutation.
From CP Require Import Tls.Version Lemmas.VersionOrder.
From CPGen Require Import Tables.
Open Scope Z_scope.

(* for every three members of the (generated) version table: irreflexive, transitive, trichotomous *)
Theorem C17_strict_total_order : forall a b c,
  In a tls_version_codes -> In b tls_version_codes -> In c tls_version_codes ->
  v_lt a a = false /\
  (v_lt a b = true -> v_lt b c = true -> v_lt a c = true) /\
  ((v_lt a b = true /\ v_eq a b = false /\ v_lt b a = false) \/
   (v_lt a b = false /\ v_eq a b = true /\ v_lt b a = false) \/
   (v_lt a b = false /\ v_eq a b = false /\ v_lt b a = true)).
Proof.
  intros a b c Ha Hb Hc. pose proof (member_valid a Ha). pose proof (member_valid b Hb). pose proof (member_valid c Hc).
  split; [exact (v_lt_irrefl a H)|split; [exact (v_lt_trans a b c H H0 H1)|exact (v_trichotomy a b H H0)]].
Qed.

(* the same, for any code that is valid in the sense of validb - not only today's 38 members *)
Theorem C17_order_any_valid_code : forall a b c,
  validb a = true -> validb b = true -> validb c = true ->
  v_lt a a = false /\ (v_lt a b = true -> v_lt b c = true -> v_lt a c = true) /\ v_lt a b = (key a <? key b).
Proof.
  intros a b c Ha Hb Hc.
  split; [exact (v_lt_irrefl a Ha)|split; [exact (v_lt_trans a b c Ha Hb Hc)|exact (v_lt_key a b Ha Hb)]].
Qed.

(* <=, >, >= derived by functools.total_ordering agree with < and == *)
Theorem C17_derived_operators : forall a b, In a tls_version_codes -> In b tls_version_codes ->
  v_le v_lt a b = negb (v_lt b a) /\ v_gt v_lt a b = v_lt b a /\ v_ge v_lt a b = negb (v_lt a b)
  /\ v_le v_lt a b = v_ge v_lt b a.
Proof. intros a b Ha Hb. exact (v_derived_ops a b (member_valid a Ha) (member_valid b Hb)). Qed.

(* equal versions hash equally (and only equal ones share the hashed key); distinct members have distinct codes *)
Theorem C17_eq_hash : (forall a b, v_eq a b = true <-> v_hash_key a = v_hash_key b) /\ NoDup tls_version_codes.
Proof. split; [exact v_eq_hash|exact table_codes_nodup]. Qed.

(* independent exhaustive sweep over all triples of the generated table *)
Theorem C17_sweep : forall x y z,
  In x tls_version_codes -> In y tls_version_codes -> In z tls_version_codes -> triple_ok x y z = true.
Proof. exact sweep_triples. Qed.

(* SSL 2.0 < SSL 3.0 < TLS 1.0 < 1.1 < 1.2 < every experimental and draft version < TLS 1.3, drafts by number *)
Theorem C17_chain : chain_ok = true.
Proof. exact chain_ok_true. Qed.

(* max (hence min, sorted) does not depend on the order of arrival *)
Theorem C17_max_order_independent : forall d l l',
  validb d = true -> Forall (fun x => validb x = true) l -> Permutation.Permutation l l' -> v_max d l = v_max d l'.
Proof. exact v_max_perm. Qed.

(* the comparison of the pinned tree (before the fix: commit) was not transitive *)
Theorem C17_pinned_lt_refuted : exists x y z,
  In x tls_version_codes /\ In y tls_version_codes /\ In z tls_version_codes /\
  v_lt_orig x y = true /\ v_lt_orig y z = true /\ v_lt_orig x z = false.
Proof. exact v_lt_orig_intransitive. Qed.
