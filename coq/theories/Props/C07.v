(* Property C07: SSH banner, packets, key exchange messages and host keys follow the RFCs.
   Spec/SshSpec.v is written from RFC 4251/4253/8709; Ssh/Record.v and Prim/Mpint.v model the implementation.
   Statements only. *)
From Coq Require Import ZArith List Bool.
From CP Require Import Core.Bytes Core.Result Prim.Mpint Spec.PL Spec.SshSpec Ssh.Record Lemmas.MpintLemmas Lemmas.SshLemmas.
From CP Require Import Spec.Registry Lemmas.RegistrySsh.
From CPGen Require Import Tables.
Open Scope Z_scope.

(* binary packets, for EVERY payload length: packet_length counts exactly padding-length byte, payload and padding, the
   padding has 4..255 bytes (in fact 4..11), and the total length is a multiple of 8 *)
Theorem C07_padding : forall L, 0 <= L ->
  packet_well_formed L (padding_length L) (packet_length L) /\ 4 <= padding_length L <= 11.
Proof. exact padding_rule. Qed.

(* mpints: what the implementation composes for a non-negative integer IS the RFC 4251 mpint (model = specification) ... *)
Theorem C07_mpint_model_is_spec : forall z, 0 <= z -> zlen (mpint_payload z) < 4294967296 -> compose_ssh_mpint z = Ok (enc_mpint z).
Proof. exact compose_ssh_mpint_is_spec. Qed.

(* ... it is canonical in the RFC's own words (two's complement value z, no unnecessary leading 00/ff byte) ... *)
Theorem C07_mpint_canonical : forall z, 0 <= z -> tc_val (ssh_payload z) = z /\ canonical (ssh_payload z).
Proof. intros z Hz. destruct (ssh_payload_props z Hz) as [A [B _]]. exact (conj A B). Qed.

(* ... and parses back to the same integer with the exact consumed length, whatever follows *)
Theorem C07_mpint_roundtrip : forall z b s, 0 <= z -> zlen (ssh_payload z) < 4294967296 ->
  compose_ssh_mpint z = Ok b -> parse_ssh_mpint (b ++ s) 0 = Ok (z, zlen b).
Proof. exact parse_compose_ssh_mpint. Qed.

(* name-lists: splitting at commas and joining again is the identity on the wire string (order and unknown names kept) *)
Theorem C07_namelist_verbatim : forall b, join (cons comma nil) (split comma b) = b.
Proof. exact join_split. Qed.

(* the specification's uint32-prefixed strings decode back, whatever follows *)
Theorem C07_spec_string_roundtrip : forall b s, zlen b < 4294967296 -> dec_string (enc_string b ++ s) = Some (b, s).
Proof. exact dec_enc_string. Qed.

(* identification string (RFC 4253 4.2): accepted up to and including 255 characters with CR LF, refused beyond *)
Theorem C07_banner_length_rule : forall proto software comment,
  let b := banner_prefix ++ proto ++ (cons b_dash nil) ++ software ++ match comment with Some c => b_sp :: c | None => nil end ++ (cons b_cr (cons b_lf nil)) in
  (zlen b <= 255 -> enc_banner proto software comment = Some b) /\ (255 < zlen b -> enc_banner proto software comment = None).
Proof. exact banner_length_rule. Qed.

Theorem C07_banner_length_formula : forall proto software comment,
  zlen (banner_prefix ++ proto ++ (cons b_dash nil) ++ software ++ match comment with Some c => b_sp :: c | None => nil end ++ (cons b_cr (cons b_lf nil)))
  = 4 + zlen proto + 1 + zlen software + match comment with Some c => 1 + zlen c | None => 0 end + 2.
Proof. exact banner_length_formula. Qed.

(* SSH message numbers and disconnect reason codes of the live library are those of RFC 4250 / RFC 4419 *)
Theorem C07_code_points_match_registry :
  registry_agrees int_enum_members ssh_registry = true /\ registry_covers int_enum_members ssh_registry = true.
Proof. exact ssh_code_points. Qed.
