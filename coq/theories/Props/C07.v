(* Property C07: SSH banner, packets, key exchange messages and host keys follow the RFCs.
   Spec/SshSpec.v is written from RFC 4251/4253/8709; Ssh/Record.v and Prim/Mpint.v model the implementation.
   Statements only. *)
From Coq Require Import ZArith List Bool.
From CP Require Import Core.Bytes Core.Result Prim.Mpint Spec.PL Spec.SshSpec Ssh.Record Lemmas.MpintLemmas Lemmas.SshLemmas.
From CP Require Import Spec.Registry Lemmas.RegistrySsh Spec.SshMsgSpec Lemmas.SshMsgLemmas Lemmas.SshMsgInverse.
From CP Require Text.Field Spec.FieldSpec Text.Cookie Lemmas.SoftwareLemmas.
From CP Require Import Ssh.Software.
From CPGen Require Import Tables.
Open Scope Z_scope.

(* binary packets, for EVERY payload length: packet_length counts exactly padding-length byte, payload and padding, the
   padding has 4..255 bytes (in fact 4..11), and the total length is a multiple of 8 *)
Theorem C07_padding : forall L, 0 <= L ->
  packet_well_formed L (padding_length L) (packet_length L) /\ 4 <= padding_length L <= 11.
Proof. exact padding_rule. Qed.

(* mpints: what the implementation composes for a non-negative integer IS the RFC 4251 mpint (model = specification) ... *)
Theorem C07_mpint_model_is_spec : forall z, 0 <= z -> zlen (mpint_payload z) < 4294967296 -> compose_ssh_mpint z = Ok (enc_mpint z).
Proof. exact compose_ssh_mpint_is_spec. Qed.

(* ... it is canonical in the RFC's own words (two's complement value z, no unnecessary leading 00/ff byte) ... *)
Theorem C07_mpint_canonical : forall z, 0 <= z -> tc_val (ssh_payload z) = z /\ canonical (ssh_payload z).
Proof. intros z Hz. destruct (ssh_payload_props z Hz) as [A [B _]]. exact (conj A B). Qed.

(* ... and parses back to the same integer with the exact consumed length, whatever follows *)
Theorem C07_mpint_roundtrip : forall z b s, 0 <= z -> zlen (ssh_payload z) < 4294967296 ->
  compose_ssh_mpint z = Ok b -> parse_ssh_mpint (b ++ s) 0 = Ok (z, zlen b).
Proof. exact parse_compose_ssh_mpint. Qed.

(* name-lists: splitting at commas and joining again is the identity on the wire string (order and unknown names kept) *)
Theorem C07_namelist_verbatim : forall b, join (cons comma nil) (split comma b) = b.
Proof. exact join_split. Qed.

(* the specification's uint32-prefixed strings decode back, whatever follows *)
Theorem C07_spec_string_roundtrip : forall b s, zlen b < 4294967296 -> dec_string (enc_string b ++ s) = Some (b, s).
Proof. exact dec_enc_string. Qed.

(* identification string (RFC 4253 4.2): accepted up to and including 255 characters with CR LF, refused beyond *)
Theorem C07_banner_length_rule : forall proto software comment,
  let b := banner_prefix ++ proto ++ (cons b_dash nil) ++ software ++ match comment with Some c => b_sp :: c | None => nil end ++ (cons b_cr (cons b_lf nil)) in
  (zlen b <= 255 -> enc_banner proto software comment = Some b) /\ (255 < zlen b -> enc_banner proto software comment = None).
Proof. exact banner_length_rule. Qed.

Theorem C07_banner_length_formula : forall proto software comment,
  zlen (banner_prefix ++ proto ++ (cons b_dash nil) ++ software ++ match comment with Some c => b_sp :: c | None => nil end ++ (cons b_cr (cons b_lf nil)))
  = 4 + zlen proto + 1 + zlen software + match comment with Some c => 1 + zlen c | None => 0 end + 2.
Proof. exact banner_length_formula. Qed.

(* SSH message numbers and disconnect reason codes of the live library are those of RFC 4250 / RFC 4419 *)
Theorem C07_code_points_match_registry :
  registry_agrees int_enum_members ssh_registry = true /\ registry_covers int_enum_members ssh_registry = true.
Proof. exact ssh_code_points. Qed.

(* transport-layer messages (RFC 4253 7.3, 8, 11; RFC 4419 3) written in the layout language of the RFC 4251 data types:
   every field list is uniquely decodable - the decoder driven by the kinds recovers exactly the fields and the rest ... *)
Theorem C07_layout_decodes : forall fs s, Forall field_ok fs -> dec_fields (map kind_of fs) (enc_fields fs ++ s) = Some (fs, s).
Proof. exact dec_enc_fields. Qed.

(* ... so two messages of the same shape never share an encoding, whatever follows them ... *)
Theorem C07_layout_injective : forall fs fs' s s',
  Forall field_ok fs -> Forall field_ok fs' -> map kind_of fs = map kind_of fs' ->
  enc_fields fs ++ s = enc_fields fs' ++ s' -> fs = fs' /\ s = s'.
Proof. exact enc_fields_injective. Qed.

(* ... and DISCONNECT, UNIMPLEMENTED, NEWKEYS, KEXDH_INIT, KEXDH_REPLY, KEX_DH_GEX_REQUEST / GROUP / INIT / REPLY each decode to
   themselves through the dispatch on the message number of their key-exchange context *)
Theorem C07_transport_messages_decode :
  (forall r d l s, u32 r -> str d -> str l ->
     dec_msg kinds_init (enc_fields (msg_disconnect r d l) ++ s) = Some (msg_disconnect r d l, s)) /\
  (forall q s, u32 q -> dec_msg kinds_init (enc_fields (msg_unimplemented q) ++ s) = Some (msg_unimplemented q, s)) /\
  (forall s, dec_msg kinds_kexdh (enc_fields msg_newkeys ++ s) = Some (msg_newkeys, s) /\
             dec_msg kinds_gex (enc_fields msg_newkeys ++ s) = Some (msg_newkeys, s)) /\
  (forall e s, mp e -> dec_msg kinds_kexdh (enc_fields (msg_kexdh_init e) ++ s) = Some (msg_kexdh_init e, s)) /\
  (forall ks f sig s, str ks -> mp f -> str sig ->
     dec_msg kinds_kexdh (enc_fields (msg_kexdh_reply ks f sig) ++ s) = Some (msg_kexdh_reply ks f sig, s)) /\
  (forall mn n mx s, u32 mn -> u32 n -> u32 mx ->
     dec_msg kinds_gex (enc_fields (msg_gex_request mn n mx) ++ s) = Some (msg_gex_request mn n mx, s)) /\
  (forall p g s, mp p -> mp g -> dec_msg kinds_gex (enc_fields (msg_gex_group p g) ++ s) = Some (msg_gex_group p g, s)) /\
  (forall e s, mp e -> dec_msg kinds_gex (enc_fields (msg_gex_init e) ++ s) = Some (msg_gex_init e, s)) /\
  (forall ks f sig s, str ks -> mp f -> str sig ->
     dec_msg kinds_gex (enc_fields (msg_gex_reply ks f sig) ++ s) = Some (msg_gex_reply ks f sig, s)).
Proof. exact ssh_messages_decode. Qed.

(* the two's complement value of the RFC mpint of a non-negative number is that number *)
Theorem C07_mpint_value : forall z, 0 <= z -> mpint_value (mpint_payload z) = z.
Proof. exact mpint_value_payload. Qed.

(* The software version of the identification string, for the vendors the library splits into vendor and version (OpenSSH_,
   dropbear_, IPSSH-): whatever the split accepts is written back exactly as received; a version that does not begin with the
   separator comes back; a repeated separator is not split at all (such a string is kept verbatim by another class) *)
Theorem C07_software_version_verbatim : forall vendor sep l ver, sw_parse vendor sep l = Ok ver -> sw_compose vendor sep ver = l.
Proof. exact SoftwareLemmas.sw_parse_verbatim. Qed.
Theorem C07_software_version_roundtrip : forall vendor sep w, FieldSpec.no_sep sep vendor = true -> w <> nil -> Cookie.head_not sep w = true ->
  sw_parse vendor sep (sw_compose vendor sep (Some w)) = Ok (Some w).
Proof. exact SoftwareLemmas.sw_compose_parse. Qed.
Theorem C07_software_version_separator_run : forall vendor sep r, FieldSpec.no_sep sep vendor = true ->
  sw_parse vendor sep (vendor ++ sep :: sep :: r) = Err InvalidType.
Proof. exact SoftwareLemmas.sw_parse_separator_run. Qed.

(* the converse, for the RFC 4251 types with a single spelling (byte, uint32, string): whatever the layout decoder accepts
   is exactly the encoding of the fields it returned followed by what it left, the fields have the kinds asked for and are
   encodable; boolean and mpint are excluded because the RFC gives them several spellings (Lemmas/SshMsgInverse.v shows one each) *)
Theorem C07_rigid_fields_inverse : forall ks b fs r, forallb rigid ks = true -> dec_fields ks b = Some (fs, r) ->
  b = enc_fields fs ++ r /\ map kind_of fs = ks /\ Forall field_ok fs.
Proof. exact dec_fields_inv. Qed.
(* hence DISCONNECT and UNIMPLEMENTED, and in either key-exchange context every message without an mpint (NEWKEYS,
   KEX_DH_GEX_REQUEST), have one encoding only: an accepted buffer is the encoding of the decoded message *)
Theorem C07_init_messages_one_encoding : forall b fs r, dec_msg kinds_init b = Some (fs, r) -> b = enc_fields fs ++ r.
Proof. exact ssh_init_messages_canonical. Qed.
Theorem C07_rigid_messages_one_encoding : forall kinds b fs r, dec_msg (rigid_only kinds) b = Some (fs, r) -> b = enc_fields fs ++ r.
Proof. exact ssh_rigid_messages_canonical. Qed.
