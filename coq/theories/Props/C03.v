(* Property C03: reported consumed length is exact and framing units are self-delimiting.
   Statements only. frame_unit_ok (Lemmas/UnitInstances.v) bundles, for a framing unit: round trip with any suffix,
   0 < n <= len(buffer) and n = the length the header declares, dependence on the first n bytes only, rejection of
   proper prefixes, absence of undocumented exceptions. *)
From Coq Require Import ZArith List Bool.
From CP Require Import Core.Bytes Core.Result Frame.LVFrame Frame.Units Frame.Entry Frame.Ssl2 Frame.SshPacket Ssh.Record Lemmas.UnitLemmas Lemmas.UnitInstances Lemmas.Ssl2Lemmas Lemmas.SshPacketLemmas.
From CP Require Import Spec.SshSpec Lemmas.SshLemmas.
Open Scope Z_scope.

Theorem C03_tls_record : frame_unit_ok parse_tls_record compose_tls_record always (lv_declared 5 tls_record_plen).
Proof. exact tls_record_unit. Qed.

(* the header of every TLS handshake message class (ty = its handshake type), payload kept as bytes *)
Theorem C03_tls_handshake_header : forall ty,
  frame_unit_ok (parse_handshake ty) (compose_handshake ty) always (lv_declared 4 handshake_plen).
Proof. exact handshake_unit. Qed.

Theorem C03_mysql_record : frame_unit_ok parse_mysql_record compose_mysql_record always (lv_declared 4 mysql_plen).
Proof. exact mysql_unit. Qed.

(* TPKT: the parser only accepts version 3, so the round trip is for version 3 (finding: other versions compose) *)
Theorem C03_tpkt : frame_unit_ok parse_tpkt compose_tpkt (fun v => v = 3) (lv_declared 4 tpkt_plen).
Proof. exact tpkt_unit. Qed.

Theorem C03_openvpn_tcp : frame_unit_ok parse_ovpn_tcp compose_ovpn_tcp always (lv_declared 2 ovpn_plen).
Proof. exact ovpn_unit. Qed.

Theorem C03_postgresql_sslrequest : frame_unit_ok parse_pg_sslrequest compose_pg_sslrequest always (lv_declared 8 zero_plen).
Proof. exact pg_sslrequest_unit. Qed.

Theorem C03_postgresql_sync : frame_unit_ok parse_pg_sync compose_pg_sync always (lv_declared 1 zero_plen).
Proof. exact pg_sync_unit. Qed.

(* entry points, for any unit: exact-size succeeds precisely when n = len(buffer); the in-place variant removes
   exactly the first n bytes; a failed parse hands back no buffer (the caller's bytearray is untouched) *)
Theorem C03_entry_points : forall (hv : Type) parse compose okv declared,
  @frame_unit_ok hv parse compose okv declared ->
  (forall buf v, parse_exact_size _ parse buf = Ok v <-> parse buf = Ok (v, zlen buf)) /\
  (forall buf v rest, parse_mutable _ parse buf = Ok (v, rest) ->
     exists n, parse buf = Ok (v, n) /\ rest = skipn (Z.to_nat n) buf /\ (firstn (Z.to_nat n) buf ++ rest)%list = buf) /\
  (forall buf e, parse buf = Err e -> parse_mutable _ parse buf = Err e /\ parse_exact_size _ parse buf = Err e).
Proof. intros hv parse compose okv declared U. exact (unit_entry_laws parse compose okv declared U). Qed.

(* SSL 2.0 records (2- and 3-byte header, padding), for any message parser that sees exactly the message bytes: the consumed
   length is the length the header declares, positive and within the buffer; the result depends on those bytes only; a
   composed record parses back whatever follows *)
Theorem C03_ssl2_consumed_is_declared : forall msg types buf x n,
  ssl2_parse msg types buf = Ok (x, n) -> ssl2_declared buf = Some n /\ 0 < n <= zlen buf.
Proof. exact ssl2_parse_declared. Qed.

Theorem C03_ssl2_self_delimiting : forall msg types buf x n sfx,
  ssl2_parse msg types buf = Ok (x, n) -> ssl2_parse msg types (firstn (Z.to_nat n) buf ++ sfx) = Ok (x, n).
Proof. exact ssl2_self_delimiting. Qed.

Theorem C03_ssl2_roundtrip : forall msg types t m b sfx,
  In t types -> 0 <= t < 256 -> msg t m = Ok (zlen m) -> ssl2_compose t m = Ok b ->
  ssl2_parse msg types (b ++ sfx) = Ok ((t, m, nil), zlen b).
Proof. exact ssl2_roundtrip. Qed.

(* SSH binary packets, for any payload parser that sees exactly the payload bytes *)
Theorem C03_ssh_consumed_is_declared : forall msg buf x n,
  ssh_parse msg buf = Ok (x, n) -> ssh_declared buf = Some n /\ 4 < n <= zlen buf.
Proof. exact ssh_parse_declared. Qed.

Theorem C03_ssh_self_delimiting : forall msg buf x n sfx,
  ssh_parse msg buf = Ok (x, n) -> ssh_parse msg (firstn (Z.to_nat n) buf ++ sfx) = Ok (x, n).
Proof. exact ssh_self_delimiting. Qed.

(* what SshRecordBase.compose writes (padding rule of C07) parses back to the payload, whatever follows *)
Theorem C03_ssh_roundtrip : forall msg payload sfx,
  msg payload = Ok tt -> zlen payload < 4294967000 ->
  ssh_parse msg (ssh_compose payload ++ sfx)
  = Ok ((payload, repeat Byte.x00 (Z.to_nat (padding_length (zlen payload)))), zlen (ssh_compose payload)).
Proof. exact ssh_roundtrip. Qed.

(* SSH identification string (RFC 4253 4.2): the reported length n is the number of bytes up to and including the first LF,
   1 <= n <= 255, and the first n bytes alone or followed by anything else decode to the same versions, comment and n *)
Theorem C03_banner_self_delimiting : forall l p sw c n, dec_banner l = Some (p, sw, c, n) ->
  1 <= n <= 255 /\ n <= zlen l /\ forall s, dec_banner (firstn (Z.to_nat n) l ++ s) = Some (p, sw, c, n).
Proof. exact banner_self_delimiting. Qed.
