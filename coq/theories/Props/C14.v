(* Property C14: JSON and Markdown output is always well-formed, deterministic and faithful.
   Partial by nature: Ser/PyVal.v models the dispatch of Serializable._json_traverse over a universe of Python values and
   produces a JSON tree (well-formed by construction); hash order, float repr and json.dumps are runtime behaviour covered
   by the correspondence run (hash-seed sweep, permuted constructions). Statements only. *)
From Coq Require Import ZArith List Bool String Permutation.
From CP Require Import Ser.PyVal Lemmas.SerLemmas.
Open Scope Z_scope.

(* the model of _json_traverse is a total function into JSON trees: every value of the universe (every enum member,
   empty containers, None, bytes, nested vectors, unknown objects via str()) has a rendering *)
Theorem C14_json_total : forall fuel v, exists j : json, traverse fuel v = j.
Proof. intros fuel v. exists (traverse fuel v). reflexivity. Qed.

(* set-valued fields (DNSSEC flags, MySQL capabilities, RDP flags): the output does not depend on the iteration order *)
Theorem C14_set_order_independent : forall fuel l l', NoDup (map sort_key l) ->
  (forall x y, In x l -> In y l -> sort_key x = sort_key y -> x = y) -> Permutation l l' ->
  traverse fuel (PSet l) = traverse fuel (PSet l').
Proof. exact set_render_order_independent. Qed.

(* plain dicts: sorted keys, independent of insertion order *)
Theorem C14_dict_order_independent : forall fuel kvs kvs', NoDup (map (fun kv => sort_key (fst kv)) kvs) ->
  (forall x y, In x kvs -> In y kvs -> sort_key (fst x) = sort_key (fst y) -> x = y) -> Permutation kvs kvs' ->
  traverse fuel (PDict false kvs) = traverse fuel (PDict false kvs').
Proof. exact dict_render_order_independent. Qed.

(* the generic sorting fact behind both *)
Theorem C14_sort_permutation_invariant : forall (A : Type) (key : A -> string) l l', NoDup (map key l) ->
  (forall x y, In x l -> In y l -> key x = key y -> x = y) -> Permutation l l' -> isort key l = isort key l'.
Proof. intros A key. exact (isort_permutation_invariant key). Qed.

(* the pinned tree emitted sets in iteration order *)
Theorem C14_pinned_set_order_refuted :
  traverse_set_unsorted 3 (PEnum "REVOKE" false (PInt 128) :: PEnum "DNS_ZONE_KEY" false (PInt 256) :: nil)
  <> traverse_set_unsorted 3 (PEnum "DNS_ZONE_KEY" false (PInt 256) :: PEnum "REVOKE" false (PInt 128) :: nil).
Proof. exact pinned_set_order_refuted. Qed.
