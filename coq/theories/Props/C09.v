(* Property C09: opportunistic-TLS application messages match their protocol specifications.
   Spec/OppSpec.v is written from the protocol documents; Opp/Rdp.v and Frame/Units.v model the implementation.
   Statements only. *)
From Coq Require Import ZArith List Bool.
From CP Require Import Core.Bytes Core.Result Frame.LVFrame Frame.Units Opp.Rdp Lemmas.UnitLemmas Lemmas.UnitInstances Lemmas.OppLemmas.
From CP Require Import Spec.Registry Lemmas.RegistryOpp.
From CP Require Import Spec.PL Spec.OppSpec Lemmas.OvpnLemmas.
From CPGen Require Import Tables.
Open Scope Z_scope.

(* the message type on the wire is the type of the class that accepted the PDU *)
Theorem C09_cotp_type_preserved : forall ty buf x n, parse_cotp ty buf = Ok (x, n) -> cotp_wire_type buf = ty.
Proof. exact cotp_type_preserved. Qed.

(* in particular no PDU is accepted both as a connection request and as a connection confirm *)
Theorem C09_cotp_request_confirm_disjoint : forall buf x n y m,
  parse_cotp COTP_CR_code buf = Ok (x, n) -> parse_cotp COTP_CC_code buf = Ok (y, m) -> False.
Proof. exact cotp_request_confirm_disjoint. Qed.

Theorem C09_rdp_negotiation_type_preserved : forall ty tbl buf x n, parse_rdp_neg ty tbl buf = Ok (x, n) -> rdp_wire_type buf = ty.
Proof. exact rdp_neg_type_preserved. Qed.

(* the framing units of these protocols (MySQL packet with its 3-byte little-endian length, TPKT, OpenVPN-TCP, PostgreSQL
   SSLRequest / Sync) round-trip, are self-delimiting with n = the declared length, and reject proper prefixes *)
Theorem C09_mysql_record : frame_unit_ok parse_mysql_record compose_mysql_record always (lv_declared 4 mysql_plen).
Proof. exact mysql_unit. Qed.
Theorem C09_tpkt : frame_unit_ok parse_tpkt compose_tpkt (fun v => v = 3) (lv_declared 4 tpkt_plen).
Proof. exact tpkt_unit. Qed.
Theorem C09_openvpn_tcp : frame_unit_ok parse_ovpn_tcp compose_ovpn_tcp always (lv_declared 2 ovpn_plen).
Proof. exact ovpn_unit. Qed.
Theorem C09_postgresql_sslrequest : frame_unit_ok parse_pg_sslrequest compose_pg_sslrequest always (lv_declared 8 zero_plen).
Proof. exact pg_sslrequest_unit. Qed.

(* MySQL capability and status bits, OpenVPN opcodes, COTP PDU types, RDP negotiation types / protocols / flags and LDAP
   result codes of the live library are those of their specifications *)
Theorem C09_code_points_match_registry :
  registry_agrees int_enum_members opp_registry = true /\ registry_covers int_enum_members opp_registry = true.
Proof. exact opp_code_points. Qed.

(* OpenVPN control channel: the header reads back what was written, whatever follows; the remote session id is on the wire
   exactly when the acknowledgement array is not empty, whatever the value of the id *)
Theorem C09_openvpn_header : forall op session acks remote rest,
  0 <= op < 32 -> 0 <= session < 256 ^ 8 -> 0 <= remote < 256 ^ 8 -> zlen acks <= 255 ->
  Forall (fun z => 0 <= z < 256 ^ Z.of_nat 4) acks ->
  dec_openvpn_header (enc_openvpn_header op session acks remote ++ rest)
  = Some (op, session, acks, match acks with nil => None | _ => Some remote end, rest).
Proof. exact dec_enc_openvpn_header. Qed.

Theorem C09_openvpn_packets : forall session acks remote pid payload rest,
  0 <= session < 256 ^ 8 -> 0 <= remote < 256 ^ 8 -> zlen acks <= 255 -> Forall (fun z => 0 <= z < 256 ^ Z.of_nat 4) acks ->
  let r := match acks with nil => None | _ => Some remote end in
  dec_openvpn_header (enc_openvpn_ack session acks remote ++ rest) = Some (5, session, acks, r, rest) /\
  dec_openvpn_header (enc_openvpn_hard_reset_client session pid ++ rest) = Some (7, session, nil, None, enc_uint 4 pid ++ rest) /\
  dec_openvpn_header (enc_openvpn_hard_reset_server session acks remote pid ++ rest) = Some (8, session, acks, r, enc_uint 4 pid ++ rest) /\
  dec_openvpn_header (enc_openvpn_control 4 session acks remote pid payload ++ rest)
    = Some (4, session, acks, r, enc_uint 4 pid ++ payload ++ rest).
Proof. exact dec_openvpn_packets. Qed.
