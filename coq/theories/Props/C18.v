(* Property C18: insignificant spelling of text fields never changes what is parsed.
   Text/Field.v models the tokeniser of NameValuePairList (ParserText._parse_string_array with separator_spaces and
   skip_empty), NameValuePair, the OrderedDict, FieldValueMultiple._parse_basic_params and the header-line split;
   Spec/FieldSpec.v says what a separator list means and what a spelling is.  The component value classes, CSP, NEL (JSON)
   and SPF have no Coq model: they are covered by the implementation-vs-grammar run of harness/c18.py.  Statements only. *)
From Coq Require Import ZArith List Bool String Permutation.
From Coq.Strings Require Import Byte.
From CP Require Import Core.Bytes Core.Result Text.Field Spec.FieldSpec Lemmas.FieldLemmas Lemmas.FvmLemmas Lemmas.FieldTables Lemmas.StsLemmas Text.Cookie Lemmas.CookieLemmas.
From CPGen Require Import Tables.
Import ListNotations.
Open Scope Z_scope.

(* the tokeniser model is the specification: split at the separator, trim blanks, drop empty elements *)
Theorem C18_tokeniser_is_split_trim_filter : forall s l, is_ws s = false -> tokens s l = Ok (tokens_spec s l).
Proof. exact tokens_eq_spec. Qed.

(* white space around separators and empty list elements: every spelling of an item list tokenises to the item list *)
Theorem C18_every_spelling_gives_the_items : forall s segs,
  is_ws s = false -> forallb (seg_ok s) segs = true -> tokens s (spell s segs) = Ok (seg_items segs).
Proof. exact tokens_spell. Qed.

Theorem C18_spellings_agree : forall s segs1 segs2,
  is_ws s = false -> forallb (seg_ok s) segs1 = true -> forallb (seg_ok s) segs2 = true ->
  seg_items segs1 = seg_items segs2 -> tokens s (spell s segs1) = tokens s (spell s segs2).
Proof. exact tokens_spelling_invariant. Qed.

(* the spelling written by compose (separator and one space) is one of those spellings *)
Theorem C18_canonical_spelling_is_a_spelling : forall s items,
  forallb (item_ok s) items = true ->
  forallb (seg_ok s) (canonical_segs items) = true /\ seg_items (canonical_segs items) = items.
Proof. intros s items H. split; [apply canonical_segs_ok; exact H|apply canonical_segs_items]. Qed.

(* optional quoting of a value *)
Theorem C18_quoting : forall n v,
  no_sep EQS n = true -> match v with c :: _ => c <> DQ /\ c <> EQS | [] => True end ->
  nvp (n ++ EQS :: DQ :: v ++ [DQ]) = nvp (n ++ EQS :: v) /\ nvp (n ++ EQS :: v) = (n, Some v).
Proof. exact nvp_quoting. Qed.

(* _parse_basic_params refines one case-insensitive lookup per attribute *)
Theorem C18_basic_params_refines_lookup : forall sch d,
  all_insens sch = true -> NoDup (lcanons sch) -> NoDup (lnames d) ->
  basic_params sch d = if required_present sch d then Ok (params_spec sch d, leftover_spec sch d) else Err InvalidValue.
Proof. exact basic_params_spec. Qed.

(* ... for every class of the live library (table regenerated on every run) *)
Theorem C18_generated_schemas_refine_lookup : forall name sep ext rows,
  In (name, (sep, ext, rows)) field_schemas ->
  forall d, NoDup (lnames d) ->
  let sch := snd (split_head (schema_of rows)) in
  basic_params sch d = if required_present sch d then Ok (params_spec sch d, leftover_spec sch d) else Err InvalidValue.
Proof. exact generated_refinement. Qed.

Theorem C18_generated_separators : forall name sep ext rows,
  In (name, (sep, ext, rows)) field_schemas -> exists c, Core.Show.bytes_of_hex sep = [c] /\ is_ws c = false.
Proof. exact generated_separator. Qed.

Theorem C18_generated_table_nonempty : (0 < List.length field_schemas)%nat.
Proof. exact generated_schemas_nonempty. Qed.

(* letter case of directive names *)
Theorem C18_case_of_names : forall sch d1 d2, same_upto_case d1 d2 -> params_abs sch d1 = params_abs sch d2.
Proof. exact params_abs_case. Qed.

Theorem C18_flag_accepted_in_any_case : forall c d kv, lookup_ci c d = Some kv -> check_name Insens c (fst kv) = true.
Proof. exact lookup_ci_matches. Qed.

(* order of independent directives *)
Theorem C18_order_of_directives : forall sch d1 d2, Permutation d1 d2 -> NoDup (lnames d1) ->
  params_spec sch d1 = params_spec sch d2 /\ required_present sch d1 = required_present sch d2.
Proof. exact params_spec_perm. Qed.

(* unknown directives anywhere in the list *)
Theorem C18_unknown_directive : forall sch d1 d2 k v, known_name sch k = false ->
  params_spec sch (d1 ++ (k, v) :: d2) = params_spec sch (d1 ++ d2)
  /\ required_present sch (d1 ++ (k, v) :: d2) = required_present sch (d1 ++ d2).
Proof. exact params_spec_unknown. Qed.

(* end to end, from the text to the attribute assignment: blanks, empty elements and order *)
Theorem C18_fvm_spelling_and_order : forall s sch segs1 segs2,
  is_ws s = false -> forallb (seg_ok s) segs1 = true -> forallb (seg_ok s) segs2 = true ->
  all_insens sch = true -> NoDup (lcanons sch) ->
  NoDup (lnames (map nvp (seg_items segs1))) ->
  Permutation (seg_items segs1) (seg_items segs2) ->
  res_params (fvm s sch (spell s segs1)) = res_params (fvm s sch (spell s segs2)).
Proof. exact fvm_spelling_order. Qed.

(* positional first attribute (media type, X-XSS-Protection state) *)
Theorem C18_positional_first_attribute : forall a k v r,
  fa_mode a = AnyName -> ~ In (fa_canon a) (map fst r) ->
  one_attr a ((k, v) :: r) = Ok (Some (raw_of (fa_canon a) (k, v)), r).
Proof. exact one_attr_any. Qed.

(* header lines: optional white space around the value, and the letter case of the field name *)
Theorem C18_header_line_blanks : forall strict n w1 v w2 rest,
  no_sep COLON n = true -> all_ws w1 = true -> all_ws w2 = true -> value_ok v = true ->
  header_line strict (n ++ COLON :: w1 ++ v ++ w2 ++ CR :: LF :: rest) = Ok (n, v, zlen n + 1 + zlen w1 + zlen v + zlen w2).
Proof. exact header_line_spelled. Qed.

Theorem C18_header_name_case : forall canon n1 n2, lower n1 = lower n2 ->
  header_name_matches canon n1 = header_name_matches canon n2.
Proof. exact header_name_case. Qed.

(* the premises are satisfiable, on a spelling that uses every variation at once *)
Theorem C18_example :
  let segs := [Item [] (b "PRELOAD") [HT]; Empty [SP]; Item [SP; SP] (b "foo=bar") []; Item [] (b "MAX-AGE=""31""") [SP];
               Item [] (b "includesubdomains") []; Empty []] in
  forallb (seg_ok semi) segs = true /\ nodupb (lnames (map nvp (seg_items segs))) = true /\
  schema_ok hsts_schema = true /\
  res_abs (res_params (fvm semi hsts_schema (spell semi segs)))
  = res_abs (res_params (fvm semi hsts_schema (b "max-age=31; includeSubDomains; preload"))).
Proof. exact hsts_example. Qed.

(* the pinned tree matched most component names exactly *)
Theorem C18_pinned_exact_match_refuted :
  res_params (fvm semi cookie_schema_pinned (b "Expires=x; domain=example.com"))
  <> res_params (fvm semi cookie_schema_pinned (b "expires=x; Domain=example.com")).
Proof. exact pinned_exact_match_refuted. Qed.

(* ---- end to end for Strict-Transport-Security: from the text to (max-age seconds, includeSubDomains, preload) ---- *)
(* sts_parse models HttpHeaderFieldValueSTS.parse_exact_size including the value classes of its three components; every
   spelling of directives with distinct names gives the value it spells, so two spellings of one value agree *)
Theorem C18_sts_end_to_end : forall segs k ds inc pre,
  forallb (seg_ok SEMI) segs = true ->
  let d := map nvp (seg_items segs) in
  NoDup (lnames d) ->
  lookup_ci sts_canon_max_age d = Some (k, Some ds) -> ds <> nil -> all_digits ds = true -> dec_val ds <= timedelta_max_seconds ->
  flag_state sts_canon_include d inc -> flag_state sts_canon_preload d pre ->
  sts_parse (spell SEMI segs) = Ok (dec_val ds, inc, pre).
Proof. exact sts_end_to_end. Qed.

Theorem C18_sts_spellings_agree : forall segs1 segs2 k1 k2 ds inc pre,
  forallb (seg_ok SEMI) segs1 = true -> forallb (seg_ok SEMI) segs2 = true ->
  NoDup (lnames (map nvp (seg_items segs1))) -> NoDup (lnames (map nvp (seg_items segs2))) ->
  lookup_ci sts_canon_max_age (map nvp (seg_items segs1)) = Some (k1, Some ds) ->
  lookup_ci sts_canon_max_age (map nvp (seg_items segs2)) = Some (k2, Some ds) ->
  ds <> nil -> all_digits ds = true -> dec_val ds <= timedelta_max_seconds ->
  flag_state sts_canon_include (map nvp (seg_items segs1)) inc -> flag_state sts_canon_include (map nvp (seg_items segs2)) inc ->
  flag_state sts_canon_preload (map nvp (seg_items segs1)) pre -> flag_state sts_canon_preload (map nvp (seg_items segs2)) pre ->
  sts_parse (spell SEMI segs1) = sts_parse (spell SEMI segs2).
Proof. exact sts_spellings_agree. Qed.

Theorem C18_sts_example :
  sts_parse (list_byte_of_string "PRELOAD	; ;  foo=bar;MAX-AGE=""31536000"" ;includesubdomains;") = Ok (31536000, true, true)
  /\ sts_parse (list_byte_of_string "max-age=31536000; includeSubDomains; preload") = Ok (31536000, true, true).
Proof. exact sts_example. Qed.

(* Set-Cookie: white space around the name and the value of the cookie pair is insignificant (RFC 6265 section 5.2): every
   spelling gives the trimmed name, the trimmed value and the same remainder for the attribute-list parser; two spellings of
   one pair agree.  The value must not start with "=": the implementation takes a run of "=" as one separator (cookie_value_leading_equals
   in Lemmas/CookieLemmas.v; recorded as a finding of C01) *)
Theorem C18_cookie_pair_spelled : forall w1 n w2 w3 v w4 rest,
  all_ws w1 = true -> all_ws w2 = true -> all_ws w3 = true -> all_ws w4 = true ->
  no_sep EQS n = true -> no_sep SEMI v = true -> head_not EQS v = true ->
  cookie_pair (w1 ++ n ++ w2 ++ EQS :: w3 ++ v ++ w4 ++ SEMI :: rest) = Ok (strip n, strip v, cookie_rest (SEMI :: rest)).
Proof. exact cookie_pair_spelled. Qed.
Theorem C18_cookie_pair_spelled_at_the_end : forall w1 n w2 w3 v w4,
  all_ws w1 = true -> all_ws w2 = true -> all_ws w3 = true -> all_ws w4 = true ->
  no_sep EQS n = true -> no_sep SEMI v = true -> head_not EQS v = true ->
  cookie_pair (w1 ++ n ++ w2 ++ EQS :: w3 ++ v ++ w4) = Ok (strip n, strip v, []).
Proof. exact cookie_pair_spelled_end. Qed.
Theorem C18_cookie_pair_spellings_agree : forall w1 w2 w3 w4 u1 u2 u3 u4 n v rest,
  all_ws w1 = true -> all_ws w2 = true -> all_ws w3 = true -> all_ws w4 = true ->
  all_ws u1 = true -> all_ws u2 = true -> all_ws u3 = true -> all_ws u4 = true ->
  no_sep EQS n = true -> no_sep SEMI v = true -> head_not EQS v = true ->
  cookie_pair (w1 ++ n ++ w2 ++ EQS :: w3 ++ v ++ w4 ++ SEMI :: rest) =
  cookie_pair (u1 ++ n ++ u2 ++ EQS :: u3 ++ v ++ u4 ++ SEMI :: rest).
Proof. exact cookie_pair_spellings_agree. Qed.
