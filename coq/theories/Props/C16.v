(* Property C16: HASSH and SSH host-key fingerprints equal their definitions over wire bytes.
   The hash functions and base64 are outside the model (the correspondence run compares real digests); the theorems
   are about the bytes that get hashed. Statements only. *)
From Coq Require Import ZArith List Bool.
From CP Require Import Core.Bytes Core.Result Prim.Mpint Spec.PL Spec.SshSpec Ssh.Record Lemmas.SshLemmas.
Open Scope Z_scope.

(* whatever four name-list strings the wire carries (any names, known or unknown, any order, empty lists included), the
   text the model of _hassh builds from the parsed lists is exactly kex ";" encryption ";" mac ";" compression as on the wire *)
Theorem C16_hassh_preimage : forall k e m c : bytes,
  hassh_model (split comma k) (split comma e) (split comma m) (split comma c)
  = (k ++ cons semicolon nil ++ e ++ cons semicolon nil ++ m ++ cons semicolon nil ++ c)%list.
Proof. exact hassh_preimage. Qed.

(* host keys: the mpints inside the public key blob are the RFC 4251 mpints (so the hashed blob is the RFC 4253 blob) *)
Theorem C16_blob_mpints : forall z, 0 <= z -> zlen (mpint_payload z) < 4294967296 -> compose_ssh_mpint z = Ok (enc_mpint z).
Proof. exact compose_ssh_mpint_is_spec. Qed.

(* ECDSA host keys: the blob that is hashed carries the point in 1 + 2 * size octets whatever the coordinates (leading zero
   octets are part of the wire form, RFC 5656 3.1 / SEC 1 2.3.3), and the two coordinates sit at fixed positions *)
Theorem C16_ec_point_fixed_width : forall size x y,
  0 <= x < 256 ^ Z.of_nat size -> 0 <= y < 256 ^ Z.of_nat size ->
  zlen (enc_ec_point size x y) = 1 + 2 * Z.of_nat size /\
  (exists r, enc_ec_point size x y = z2b 4 :: r /\ be_val (firstn size r) = x /\ be_val (skipn size r) = y).
Proof. exact ec_point_fixed_width. Qed.

(* ... and the blob decodes, whatever follows, to the key-type name, the curve identifier and that point *)
Theorem C16_ecdsa_blob_decodes : forall ident size x y s,
  zlen ident < 4294967000 -> Z.of_nat size < 1000000 ->
  exists r1 r2,
    dec_string (enc_ecdsa_blob ident size x y ++ s) = Some ((name_ecdsa_prefix ++ ident)%list, r1) /\
    dec_string r1 = Some (ident, r2) /\
    dec_string r2 = Some (enc_ec_point size x y, s).
Proof. exact ecdsa_blob_decodes. Qed.
