(* Property C16: HASSH and SSH host-key fingerprints equal their definitions over wire bytes.
   The hash functions and base64 are outside the model (the correspondence run compares real digests); the theorems
   are about the bytes that get hashed. Statements only. *)
From Coq Require Import ZArith List Bool.
From CP Require Import Core.Bytes Core.Result Prim.Mpint Spec.PL Spec.SshSpec Ssh.Record Lemmas.SshLemmas.
Open Scope Z_scope.

(* whatever four name-list strings the wire carries (any names, known or unknown, any order, empty lists included), the
   text the model of _hassh builds from the parsed lists is exactly kex ";" encryption ";" mac ";" compression as on the wire *)
Theorem C16_hassh_preimage : forall k e m c : bytes,
  hassh_model (split comma k) (split comma e) (split comma m) (split comma c)
  = (k ++ cons semicolon nil ++ e ++ cons semicolon nil ++ m ++ cons semicolon nil ++ c)%list.
Proof. exact hassh_preimage. Qed.

(* host keys: the mpints inside the public key blob are the RFC 4251 mpints (so the hashed blob is the RFC 4253 blob) *)
Theorem C16_blob_mpints : forall z, 0 <= z -> zlen (mpint_payload z) < 4294967296 -> compose_ssh_mpint z = Ok (enc_mpint z).
Proof. exact compose_ssh_mpint_is_spec. Qed.
