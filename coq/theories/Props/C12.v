(* Property C12: length-prefixed vectors stay within bounds through any edit sequence.
   Statements only; proofs in Lemmas/ArrayLemmas.v. Everything is generic in the item type, the size function and the
   bounds, i.e. it holds for every vector class at once; the bounds of the real classes are checked in the last theorem. *)
From Coq Require Import ZArith List Bool.
From CP Require Import Core.Bytes Core.Result Prim.Int Base.Array Lemmas.IntLemmas Lemmas.ArrayLemmas Lemmas.ArrayTables.
Open Scope Z_scope.

Section C12.
  Context {item : Type}.
  Variable sz : item -> Z.
  Variable item_eqb : item -> item -> bool.
  Variable vmin vmax : Z.

  (* a vector that could be constructed satisfies the invariant: size bookkeeping exact, size within bounds *)
  Theorem C12_init : forall l v, mk_vec sz vmin vmax l = Ok v -> Inv sz vmin vmax v /\ items v = l.
  Proof. exact (mk_vec_inv sz vmin vmax). Qed.

  (* every single operation preserves it ... *)
  Theorem C12_step : forall v o, Inv sz vmin vmax v -> Inv sz vmin vmax (fst (step sz item_eqb vmin vmax v o)).
  Proof. exact (step_inv sz item_eqb vmin vmax). Qed.

  (* ... hence every finite sequence of operations does *)
  Theorem C12_reachable : forall ops v, Inv sz vmin vmax v -> Inv sz vmin vmax (run sz item_eqb vmin vmax v ops).
  Proof. exact (run_inv sz item_eqb vmin vmax). Qed.

  (* an accepted edit leaves exactly the items a plain list would hold *)
  Theorem C12_refines_list : forall v o v', Inv sz vmin vmax v -> step sz item_eqb vmin vmax v o = (v', Accepted) ->
    list_step item_eqb (items v) o = Some (items v').
  Proof. exact (step_refines sz item_eqb vmin vmax). Qed.

  (* a refused edit changes nothing, and it is refused either with a data-length error - exactly when the
     plain-list result would leave the bounds - or where a plain list raises IndexError / ValueError itself *)
  Theorem C12_refusal_changes_nothing : forall v o v' e, Inv sz vmin vmax v ->
    step sz item_eqb vmin vmax v o = (v', Refused e) ->
    v' = v /\ ((data_length vmin vmax e /\ exists l', list_step item_eqb (items v) o = Some l' /\ in_bounds vmin vmax (total sz l') = false) \/
              ((e = Leak IndexError \/ e = Leak ValueError) /\ list_step item_eqb (items v) o = None)).
  Proof. exact (step_refused sz item_eqb vmin vmax). Qed.

  (* no spurious refusal *)
  Theorem C12_accepts_within_bounds : forall v o l', Inv sz vmin vmax v -> list_step item_eqb (items v) o = Some l' ->
    in_bounds vmin vmax (total sz l') = true ->
    step sz item_eqb vmin vmax v o = ({| items := l'; isz := total sz l' |}, Accepted).
  Proof. exact (step_accepts sz item_eqb vmin vmax). Qed.

  (* the composed length prefix equals the number of body bytes that follow and fits the prefix width *)
  Theorem C12_prefix_fits : forall (ienc : item -> bytes), (forall x, zlen (ienc x) = sz x) ->
    forall num v, Inv sz vmin vmax v -> In num widths -> 0 <= vmin -> vmax < 256 ^ num ->
    compose_vec ienc num v = Ok (enc_be num (isz v) ++ body ienc (items v))
    /\ zlen (body ienc (items v)) = isz v /\ 0 <= isz v < 256 ^ num.
  Proof. intros ienc H. exact (compose_prefix_fits sz ienc H vmin vmax). Qed.
End C12.

(* the bounds of every real vector class meet the hypotheses of C12_prefix_fits (generated table) *)
Theorem C12_real_parameters : array_params_ok = true.
Proof. exact array_params_ok_true. Qed.
