(* Property C15: JA3 of a client hello equals the published algorithm applied to its bytes.
   Spec/Ja3.v is the published definition over the wire bytes (through the specification decoder); Tls/Ja3Model.v is
   the model of TlsHandshakeClientHello.ja3(). The full statement is false of the method - it keeps GREASE cipher
   suites and omits the signalling suites - and is proved under exactly those exclusions. Statements only. *)
From Coq Require Import ZArith List Bool String.
From CP Require Import Core.Bytes Spec.PL Spec.TlsSpec Spec.Ja3 Tls.Ja3Model Lemmas.Ja3Lemmas.
Open Scope Z_scope.

Theorem C15_ja3_partial : forall h, ja3_comparable h -> ja3_impl h = ja3_struct h.
Proof. exact ja3_partial. Qed.

(* over wire bytes: whenever the bytes decode to a comparable hello, the method's value is the reference value *)
Theorem C15_ja3_partial_wire : forall wire h r, dec_client_hello wire = Some (h, r) -> ja3_comparable h ->
  ja3_ref wire = Some (ja3_impl h).
Proof. intros wire h r D C. unfold ja3_ref. rewrite D. f_equal. symmetry. exact (ja3_partial h C). Qed.

(* the value does not change when the message is composed and parsed again (the signalling suites move to the end) *)
Theorem C15_ja3_stable : forall h, ja3_impl (recompose h) = ja3_impl h.
Proof. exact ja3_stable. Qed.

(* the library's GREASE table is RFC 8701's set on the whole two-byte code space *)
Theorem C15_grease_table : grease_table_ok = true.
Proof. exact grease_table_ok_true. Qed.

(* refutation of the full statement (known findings; the suite's own literals pin both deviations) *)
Theorem C15_ja3_grease_suite_refuted : ja3_impl (hello_with_suites (2570 :: 49199 :: nil)) <> ja3_struct (hello_with_suites (2570 :: 49199 :: nil)).
Proof. exact ja3_grease_suite_refuted. Qed.
Theorem C15_ja3_scsv_refuted : ja3_impl (hello_with_suites (49199 :: 255 :: nil)) <> ja3_struct (hello_with_suites (49199 :: 255 :: nil)).
Proof. exact ja3_scsv_refuted. Qed.
