(* Property C11: integer, flag, mpint and timestamp primitives are exact and never truncate.
   Statements only; proofs are in Lemmas/IntLemmas.v, MpintLemmas.v, TimestampLemmas.v. *)
From Coq Require Import ZArith List Bool.
From Coq.Strings Require Import Byte.
From CP Require Import Core.Bytes Core.Result Prim.Int Prim.Mpint Prim.Timestamp.
From CP Require Import Lemmas.IntLemmas Lemmas.MpintLemmas Lemmas.MpintNegLemmas Lemmas.TimestampLemmas Lemmas.C11Glue Lemmas.FlagTables.
From CPGen Require Import Tables.
Import ListNotations.
Open Scope Z_scope.

(* widths 1, 2, 3, 4, 8; all four byte orders; every value that fits: the composed bytes are the positional
   (big- or little-endian) encoding on exactly w bytes ... *)
Theorem C11_int_exact : forall o w z, In w widths -> 0 <= z < 256 ^ w ->
  compose_numeric o w z = Ok (if is_big o then be_enc (Z.to_nat w) z else le_enc (Z.to_nat w) z)
  /\ be_val (be_enc (Z.to_nat w) z) = z /\ le_val (le_enc (Z.to_nat w) z) = z.
Proof. exact int_exact. Qed.

(* ... and parse back to the same value, at any offset, followed by anything, consuming exactly w bytes *)
Theorem C11_int_roundtrip : forall o w z b p s, In w widths -> 0 <= z < 256 ^ w ->
  compose_numeric o w z = Ok b -> parse_numeric o w (p ++ b ++ s) (zlen p) = Ok (z, w).
Proof. exact parse_compose_numeric. Qed.

(* a value that does not fit the width is rejected with an invalid-value error, never truncated *)
Theorem C11_int_rejects : forall o w z, In w widths -> (z < 0 \/ 256 ^ w <= z) ->
  compose_numeric o w z = Err InvalidValue.
Proof. exact compose_numeric_rejects. Qed.

(* whatever is parsed fits the width, lies inside the buffer, and a short buffer yields the exact missing count *)
Theorem C11_int_parse_bounds : forall o w buf pos, In w widths -> 0 <= pos <= zlen buf ->
  (forall v n, parse_numeric o w buf pos = Ok (v, n) -> n = w /\ 0 <= v < 256 ^ w /\ pos + w <= zlen buf) /\
  (zlen buf - pos < w -> parse_numeric o w buf pos = Err (NotEnoughData (w - (zlen buf - pos)))) /\
  (forall e, parse_numeric o w buf pos <> Err (Leak e)).
Proof. exact int_parse_bounds. Qed.

(* flag sets: composing what was parsed keeps exactly the bits that name a member (bit i, shift 0) *)
Theorem C11_flags_compose_parse : forall tbl v i, 0 <= i -> (forall f, In f tbl -> single_bit f) ->
  Z.testbit (compose_flags 0 (parse_flags tbl 0 v)) i = Z.testbit v i && existsb (fun f => Z.testbit f i) tbl.
Proof. exact flags_roundtrip. Qed.

(* flag sets: parsing the OR of a set of members gives back exactly those members *)
Theorem C11_flags_parse_compose : forall tbl sel, NoDup tbl -> (forall f, In f tbl -> single_bit f) -> incl sel tbl ->
  forall f, In f (parse_flags tbl 0 (compose_flags 0 sel)) <-> In f sel.
Proof. exact parse_compose_flags. Qed.

(* the generated flag tables meet the hypotheses (RDPProtocol has the zero-valued member RDP: see DESIGN.md, C09) *)
Theorem C11_flag_tables_single_bit : flag_tables_ok = true.
Proof. exact flag_tables_ok_true. Qed.

(* fixed-length mpint: exact big-endian on len bytes, rejected when it does not fit (no truncation) *)
Theorem C11_mpint_fixed : forall z len, 0 <= z -> 0 <= len ->
  compose_mpint z len = if z <? 256 ^ len then Ok (be_enc (Z.to_nat len) z) else Err InvalidValue.
Proof. exact compose_mpint_nonneg. Qed.

Theorem C11_mpint_fixed_roundtrip : forall z len b s, 0 <= z < 256 ^ len -> 0 <= len ->
  compose_mpint z len = Ok b -> parse_mpint (b ++ s) 0 len = Ok (z, len) /\ zlen b = len.
Proof. exact parse_compose_mpint. Qed.

(* SSH mpint, non-negative: two's complement value is z, no unnecessary leading byte (minimal), length prefix *)
Theorem C11_mpint_ssh_canonical : forall z, 0 <= z -> zlen (ssh_payload z) < 4294967296 ->
  compose_ssh_mpint z = Ok (be_enc 4 (zlen (ssh_payload z)) ++ ssh_payload z)
  /\ tc_val (ssh_payload z) = z /\ canonical (ssh_payload z).
Proof. exact mpint_ssh_canonical. Qed.

Theorem C11_mpint_ssh_roundtrip : forall z b s, 0 <= z -> zlen (ssh_payload z) < 4294967296 ->
  compose_ssh_mpint z = Ok b -> parse_ssh_mpint (b ++ s) 0 = Ok (z, zlen b).
Proof. exact parse_compose_ssh_mpint. Qed.

(* ... and for every negative integer: the image is the two's complement in bit_length/8 + 1 bytes *)
Theorem C11_mpint_ssh_negative_image : forall z, z < 0 -> neg_width z < 4294967296 ->
  compose_ssh_mpint z = Ok (be_enc 4 (neg_width z) ++ be_enc (Z.to_nat (neg_width z)) (256 ^ neg_width z + z)).
Proof. exact compose_ssh_mpint_neg. Qed.

Theorem C11_mpint_ssh_negative_roundtrip : forall z b s, z < 0 -> neg_width z < 4294967296 ->
  compose_ssh_mpint z = Ok b -> parse_ssh_mpint (b ++ s) 0 = Ok (z, zlen b).
Proof. exact parse_compose_ssh_mpint_neg. Qed.

(* timestamps: the instant survives compose -> parse (seconds: 4 or 8 bytes; milliseconds: 8 bytes; sentinel) *)
Theorem C11_timestamp_seconds : forall w s b p sfx, In w [4; 8] -> 0 <= s <= dt_max -> s < 256 ^ w -> s <> 2 ^ (8 * w) - 1 ->
  compose_timestamp false w (Some {| secs := s; micros := 0 |}) = Ok b ->
  parse_timestamp false w (p ++ b ++ sfx) (zlen p) = Ok (Some {| secs := s; micros := 0 |}, w).
Proof. exact ts_roundtrip_seconds. Qed.

Theorem C11_timestamp_millis : forall s ms b p sfx, 0 <= s <= dt_max -> 0 <= ms < 1000 ->
  compose_timestamp true 8 (Some {| secs := s; micros := ms * 1000 |}) = Ok b ->
  parse_timestamp true 8 (p ++ b ++ sfx) (zlen p) = Ok (Some {| secs := s; micros := ms * 1000 |}, 8).
Proof. exact ts_roundtrip_millis. Qed.

Theorem C11_timestamp_forever : forall msf w b p sfx, In w [4; 8] ->
  compose_timestamp msf w None = Ok b -> parse_timestamp msf w (p ++ b ++ sfx) (zlen p) = Ok (None, w).
Proof. exact ts_roundtrip_none. Qed.

(* ---- the pinned tree (before the fix: commits) violated the property ---------------------------------------- *)
Theorem C11_pinned_timestamp_mask_refuted :
  parse_timestamp_orig false 8 (be_enc 8 4294967296) 0 = Ok (Some {| secs := 0; micros := 0 |}, 8).
Proof. exact ts_orig_mask_refuted. Qed.

Theorem C11_pinned_3byte_truncation_refuted : compose_numeric_orig Network 3 16777216 = Ok [x00; x00; x00].
Proof. exact compose_numeric_orig_truncates. Qed.

Theorem C11_pinned_mpint_truncation_refuted : compose_mpint_orig 4294967296 1 = Ok [x00].
Proof. exact compose_mpint_orig_truncates. Qed.

Theorem C11_pinned_mpint_ssh_negative_refuted :
  exists z b, compose_ssh_mpint_orig z = Ok b /\ parse_ssh_mpint b 0 <> Ok (z, zlen b).
Proof. exact ssh_mpint_negative_refuted. Qed.
