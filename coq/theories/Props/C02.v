(* Property C02: parsing untrusted bytes fails only with the documented parse errors.
   In the model every partial Python operation carries its failure as `Leak <exception>`; the theorems say that no
   buffer whatsoever drives a modelled parse function into such an outcome. Statements only. *)
From Coq Require Import ZArith List Bool.
From CP Require Import Core.Bytes Core.Result Prim.Int Prim.Mpint Prim.Timestamp Base.Enum Frame.LVFrame Frame.Units.
From CP Require Import Lemmas.IntLemmas Lemmas.NoLeakLemmas Lemmas.UnitInstances Lemmas.EnumTables.
From CPGen Require Import Tables.
From CP Require Import Frame.Ssl2 Frame.SshPacket Lemmas.CanonLemmas.
Open Scope Z_scope.

(* engine primitives, for every buffer, every offset and every supported width *)
Theorem C02_numeric : forall o w buf pos, In w widths -> no_leak (parse_numeric o w buf pos).
Proof. exact parse_numeric_no_leak'. Qed.
Theorem C02_numeric_array : forall o w num buf pos, In w widths -> no_leak (parse_numeric_array o w num buf pos).
Proof. exact parse_numeric_array_no_leak. Qed.
Theorem C02_mpint : forall buf pos len, no_leak (parse_mpint buf pos len).
Proof. exact parse_mpint_no_leak. Qed.
Theorem C02_ssh_mpint : forall buf pos, 0 <= pos -> no_leak (parse_ssh_mpint buf pos).
Proof. exact parse_ssh_mpint_no_leak. Qed.
Theorem C02_timestamp : forall ms w buf pos, In w widths -> no_leak (parse_timestamp ms w buf pos).
Proof. exact parse_timestamp_no_leak. Qed.

(* coded enumerations, the GREASE/unknown fallback, vectors of coded enums, ALPN/NPN names: any table, any bounds *)
Theorem C02_enum : forall tbl w buf, In w widths -> no_leak (parse_enum tbl w buf).
Proof. exact parse_enum_no_leak. Qed.
Theorem C02_invalid_type : forall g w buf, In w widths -> no_leak (parse_invalid g w buf).
Proof. exact parse_invalid_no_leak. Qed.
Theorem C02_enum_vector : forall p tbl g w buf, In w widths -> In (vnum p) widths -> no_leak (parse_enum_vector p tbl g w buf).
Proof. exact parse_enum_vector_no_leak. Qed.
Theorem C02_opaque_enum : forall p tbl buf, In (vnum p) widths -> no_leak (parse_opaque_enum p tbl buf).
Proof. exact parse_opaque_enum_no_leak. Qed.

(* framing units (the fifth component of frame_unit_ok is the no-leak clause) *)
Theorem C02_framing_units :
  (forall buf e, parse_tls_record buf <> Err (Leak e)) /\ (forall ty buf e, parse_handshake ty buf <> Err (Leak e)) /\
  (forall buf e, parse_mysql_record buf <> Err (Leak e)) /\ (forall buf e, parse_tpkt buf <> Err (Leak e)) /\
  (forall buf e, parse_ovpn_tcp buf <> Err (Leak e)) /\ (forall buf e, parse_pg_sslrequest buf <> Err (Leak e)) /\
  (forall buf e, parse_pg_sync buf <> Err (Leak e)).
Proof.
  repeat split.
  - exact (proj2 (proj2 (proj2 (proj2 tls_record_unit)))).
  - intro ty. exact (proj2 (proj2 (proj2 (proj2 (handshake_unit ty))))).
  - exact (proj2 (proj2 (proj2 (proj2 mysql_unit)))).
  - exact (proj2 (proj2 (proj2 (proj2 tpkt_unit)))).
  - exact (proj2 (proj2 (proj2 (proj2 ovpn_unit)))).
  - exact (proj2 (proj2 (proj2 (proj2 pg_sslrequest_unit)))).
  - exact (proj2 (proj2 (proj2 (proj2 pg_sync_unit)))).
Qed.

(* the pinned tree leaked: an SSH mpint length followed by no data raised IndexError *)
Theorem C02_pinned_ssh_mpint_refuted : parse_ssh_mpint_orig (cons Byte.x00 (cons Byte.x00 (cons Byte.x00 (cons Byte.x03 nil)))) 0 = Err (Leak IndexError).
Proof. exact parse_ssh_mpint_orig_leaks. Qed.

(* the SSL 2.0 record layer and the SSH binary packet layer: whatever the buffer, no exception other than the four documented
   errors, provided the message parser the payload is handed to has none; the message parsers of the runner have none *)
Theorem C02_ssl2_record : forall msg types,
  (forall t m e, msg t m <> Err (Leak e)) -> forall buf e, ssl2_parse msg types buf <> Err (Leak e).
Proof. exact ssl2_no_leak. Qed.
Theorem C02_ssh_packet : forall msg,
  (forall m e, msg m <> Err (Leak e)) -> forall buf e, ssh_parse msg buf <> Err (Leak e).
Proof. exact ssh_no_leak. Qed.
Theorem C02_record_message_parsers : forall codes,
  (forall t m e, ssl2_msg codes t m <> Err (Leak e)) /\ (forall m e, ssh_msg_init codes m <> Err (Leak e)).
Proof. exact record_message_parsers_no_leak. Qed.
