(* Property C05: re-serialising an accepted input is a stable canonical form.
   For EVERY buffer the parser accepts (canonical or not): composing the parsed object succeeds and the composed bytes
   parse back to the same object, consuming all of them; composing once more then gives the same bytes (compose is
   a function of the object). Statements only. *)
From Coq Require Import ZArith List Bool.
From CP Require Import Core.Bytes Core.Result Prim.Int Base.Enum Frame.LVFrame Frame.Units.
From CP Require Import Lemmas.IntLemmas Lemmas.EnumLemmas Lemmas.UnitInstances.
From CP Require Import Prim.Mpint Ssh.Record Frame.Ssl2 Frame.SshPacket Lemmas.MpintLemmas Lemmas.MpintNegLemmas Lemmas.CanonLemmas.
Open Scope Z_scope.

Theorem C05_enum : forall tbl w buf i n, In w widths -> parse_enum tbl w buf = Ok (i, n) ->
  exists b2, compose_enum tbl w i = Ok b2 /\ parse_enum tbl w b2 = Ok (i, zlen b2).
Proof. exact parse_enum_canonical. Qed.

(* vectors of coded enums, with known, unknown and GREASE codes: moreover the composed bytes ARE the consumed input *)
Theorem C05_enum_vector : forall p tbl grease w buf items n, In w widths -> In (vnum p) widths ->
  parse_enum_vector p tbl grease w buf = Ok (items, n) ->
  exists b2, compose_enum_vector p tbl w items = Ok b2 /\ parse_enum_vector p tbl grease w b2 = Ok (items, zlen b2).
Proof. exact enum_vector_canonical. Qed.

Theorem C05_framing_units :
  canonical_ok parse_tls_record compose_tls_record /\ (forall ty, canonical_ok (parse_handshake ty) (compose_handshake ty)) /\
  canonical_ok parse_mysql_record compose_mysql_record /\ canonical_ok parse_tpkt compose_tpkt /\
  canonical_ok parse_ovpn_tcp compose_ovpn_tcp /\ canonical_ok parse_pg_sslrequest compose_pg_sslrequest /\
  canonical_ok parse_pg_sync compose_pg_sync.
Proof.
  exact (conj tls_record_canonical (conj handshake_canonical (conj mysql_canonical (conj tpkt_canonical
        (conj ovpn_canonical (conj pg_sslrequest_canonical pg_sync_canonical)))))).
Qed.

(* SSL 2.0 records, for any message parser and type table: a record accepted with a 2- or a 3-byte header, padded or not,
   composes (2-byte header, no padding) and the result is accepted again, consumed entirely, with the same type and message *)
Theorem C05_ssl2_record : forall msg types buf t m p n,
  ssl2_parse msg types buf = Ok ((t, m, p), n) ->
  exists b2, ssl2_compose t m = Ok b2 /\ ssl2_parse msg types b2 = Ok ((t, m, nil), zlen b2).
Proof. exact ssl2_canonical. Qed.

(* SSH binary packets, for any message parser: a packet accepted with any padding length and padding bytes re-composes to
   the packet the padding rule gives (zero padding bytes), which is accepted again with the same payload; the bound excludes
   payloads within 296 bytes of 4 GiB, whose packet_length would not fit *)
Theorem C05_ssh_packet : forall msg buf m p n,
  ssh_parse msg buf = Ok ((m, p), n) -> zlen m < 4294967000 ->
  ssh_parse msg (ssh_compose m) = Ok ((m, repeat Byte.x00 (Z.to_nat (padding_length (zlen m)))), zlen (ssh_compose m)).
Proof. exact ssh_canonical. Qed.

(* SSH mpints: every integer a parse can return, from a minimal encoding or not, composes to bytes that parse back to it *)
Theorem C05_ssh_mpint : forall z,
  (0 <= z -> zlen (ssh_payload z) < 4294967296) -> (z < 0 -> neg_width z < 4294967296) ->
  exists b2, compose_ssh_mpint z = Ok b2 /\ parse_ssh_mpint b2 0 = Ok (z, zlen b2).
Proof. exact ssh_mpint_canonical. Qed.
