(* Property C05: re-serialising an accepted input is a stable canonical form.
   For EVERY buffer the parser accepts (canonical or not): composing the parsed object succeeds and the composed bytes
   parse back to the same object, consuming all of them; composing once more then gives the same bytes (compose is
   a function of the object). Statements only. *)
From Coq Require Import ZArith List Bool.
From CP Require Import Core.Bytes Core.Result Prim.Int Base.Enum Frame.LVFrame Frame.Units.
From CP Require Import Lemmas.IntLemmas Lemmas.EnumLemmas Lemmas.UnitInstances.
Open Scope Z_scope.

Theorem C05_enum : forall tbl w buf i n, In w widths -> parse_enum tbl w buf = Ok (i, n) ->
  exists b2, compose_enum tbl w i = Ok b2 /\ parse_enum tbl w b2 = Ok (i, zlen b2).
Proof. exact parse_enum_canonical. Qed.

(* vectors of coded enums, with known, unknown and GREASE codes: moreover the composed bytes ARE the consumed input *)
Theorem C05_enum_vector : forall p tbl grease w buf items n, In w widths -> In (vnum p) widths ->
  parse_enum_vector p tbl grease w buf = Ok (items, n) ->
  exists b2, compose_enum_vector p tbl w items = Ok b2 /\ parse_enum_vector p tbl grease w b2 = Ok (items, zlen b2).
Proof. exact enum_vector_canonical. Qed.

Theorem C05_framing_units :
  canonical_ok parse_tls_record compose_tls_record /\ (forall ty, canonical_ok (parse_handshake ty) (compose_handshake ty)) /\
  canonical_ok parse_mysql_record compose_mysql_record /\ canonical_ok parse_tpkt compose_tpkt /\
  canonical_ok parse_ovpn_tcp compose_ovpn_tcp /\ canonical_ok parse_pg_sslrequest compose_pg_sslrequest /\
  canonical_ok parse_pg_sync compose_pg_sync.
Proof.
  exact (conj tls_record_canonical (conj handshake_canonical (conj mysql_canonical (conj tpkt_canonical
        (conj ovpn_canonical (conj pg_sslrequest_canonical pg_sync_canonical)))))).
Qed.
