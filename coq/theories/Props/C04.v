(* Property C04: incremental reads guided by the missing-byte count reassemble the stream.
   Statements only; Reader/Reader.v is the reader loop, Lemmas/ReaderLemmas.v the induction over chunk lists. *)
From Coq Require Import ZArith List Bool.
From CP Require Import Core.Bytes Core.Result Frame.LVFrame Frame.Units Reader.Reader Lemmas.ReaderLemmas Lemmas.UnitLemmas Lemmas.UnitInstances Frame.Ssl2 Lemmas.Ssl2Lemmas Frame.SshPacket Lemmas.SshPacketLemmas.
From CP Require Import Lemmas.ReaderInstances.
Open Scope Z_scope.

(* generic: for any parser and any sequence of frames that round-trip with a suffix and whose proper prefixes are
   rejected with a bounded missing count, and for EVERY way of cutting the stream into chunks: after any number of
   chunks the reader is running, has emitted a prefix of the sent records, buffers a proper prefix of the record in
   progress and waits for no more than the bytes that record still lacks; at the end it has emitted exactly the
   original sequence *)
Theorem C04_reader_generic : forall (A : Type) (parse : bytes -> result (A * Z)) frames, Forall (good_frame A parse) frames ->
  forall chunks1 chunks2, concat (chunks1 ++ chunks2) = concat (map snd frames) ->
  let st := run_reader A parse chunks1 in
  status st = Running /\ exists done pending, frames = (done ++ pending)%list /\ out st = map fst done /\
    standing A pending (concat chunks2) st.
Proof. exact reader_correct. Qed.

Theorem C04_reader_complete : forall (A : Type) (parse : bytes -> result (A * Z)) frames chunks,
  Forall (good_frame A parse) frames -> concat chunks = concat (map snd frames) ->
  let st := run_reader A parse chunks in status st = Running /\ out st = map fst frames /\ rbuf st = nil.
Proof. exact reader_complete. Qed.

(* every framing unit that satisfies frame_unit_ok (all units of Props/C03.v) drives the reader correctly *)
Theorem C04_units : forall (hv : Type) parse compose okv declared, @frame_unit_ok hv parse compose okv declared ->
  forall frames, Forall (composed_frame compose okv) frames ->
  (forall chunks1 chunks2, concat (chunks1 ++ chunks2) = concat (map snd frames) ->
     let st := run_reader _ parse chunks1 in
     status st = Running /\ exists done pending, frames = (done ++ pending)%list /\ out st = map fst done /\
       standing _ pending (concat chunks2) st) /\
  (forall chunks, concat chunks = concat (map snd frames) ->
     let st := run_reader _ parse chunks in status st = Running /\ out st = map fst frames /\ rbuf st = nil).
Proof. intros hv parse compose okv declared U. exact (unit_reader parse compose okv declared U). Qed.

(* the equivalent formulation of the property: every proper prefix of a valid record is rejected with a
   not-enough-data error whose missing count is at least 1 and at most the number of bytes really missing *)
Theorem C04_prefix_tls_record : forall x b k, compose_tls_record x = Ok b -> 0 <= k < zlen b ->
  exists m, parse_tls_record (firstn (Z.to_nat k) b) = Err (NotEnoughData m) /\ 1 <= m <= zlen b - k.
Proof. intros x b k C Hk. destruct tls_record_unit as [_ [_ [_ [P _]]]]. exact (P x b k I C Hk). Qed.

(* SSL 2.0 records: every proper prefix of a record that parses exactly is rejected with NotEnoughData m, 1 <= m <= missing *)
Theorem C04_ssl2_prefix_rejected : forall msg types f x k,
  ssl2_parse msg types f = Ok (x, zlen f) -> 0 <= k < zlen f ->
  exists m, ssl2_parse msg types (firstn (Z.to_nat k) f) = Err (NotEnoughData m) /\ 1 <= m <= zlen f - k.
Proof. exact ssl2_prefix_rejected. Qed.

(* SSH binary packets: the same honest prefix rejection *)
Theorem C04_ssh_prefix_rejected : forall msg f x k,
  ssh_parse msg f = Ok (x, zlen f) -> 0 <= k < zlen f ->
  exists m, ssh_parse msg (firstn (Z.to_nat k) f) = Err (NotEnoughData m) /\ 1 <= m <= zlen f - k.
Proof. exact ssh_prefix_rejected. Qed.

(* the reader theorem instantiated at the two record layers that are not length-value frames: any sequence of composed SSL 2.0
   records (any message parser that accepts the messages entirely) and any sequence of composed SSH binary packets is
   reassembled exactly, whatever the fragmentation *)
Theorem C04_ssl2_reader : forall msg types frames chunks,
  Forall (ssl2_composed msg types) frames -> concat chunks = concat (map snd frames) ->
  let st := run_reader _ (ssl2_parse msg types) chunks in status st = Running /\ out st = map fst frames /\ rbuf st = nil.
Proof. exact ssl2_reader. Qed.

Theorem C04_ssh_reader : forall msg frames chunks,
  Forall (ssh_composed msg) frames -> concat chunks = concat (map snd frames) ->
  let st := run_reader _ (ssh_parse msg) chunks in status st = Running /\ out st = map fst frames /\ rbuf st = nil.
Proof. exact ssh_reader. Qed.
