(* Property C10: every wire code point is decoded faithfully or preserved verbatim.
   Statements only; proofs in Lemmas/EnumLemmas.v (generic, any table) and Lemmas/EnumTables.v (generated tables). *)
From Coq Require Import ZArith List Bool.
From Coq.Strings Require Import Byte.
From CP Require Import Core.Bytes Core.Result Prim.Int Base.Enum Lemmas.IntLemmas Lemmas.EnumLemmas Lemmas.EnumTables Lemmas.AliasTables.
From CPGen Require Import Tables.
Open Scope Z_scope.

(* for every generated factory (cipher suites, versions, groups, signature schemes, extension types, DNSSEC
   algorithms, RR types, ...) and for the whole code space of its width - all 2^8, 2^16, 2^24, 2^32 values:
   (1) every member composes to w bytes that parse back to that member, whatever follows;
   (2) whatever parses is the member carrying the code read, consumes w bytes and re-encodes to the same bytes;
   (3) any other code is rejected as an invalid value, a short buffer asks for the missing bytes; nothing else happens *)
Theorem C10_factories : forall n w codes, In (n, (w, codes)) enum_tables ->
  (forall i c s, nth_error codes i = Some c ->
     exists b, compose_enum codes w i = Ok b /\ zlen b = w /\ parse_enum codes w (b ++ s)%list = Ok (i, w)) /\
  (forall buf i m, parse_enum codes w buf = Ok (i, m) ->
     m = w /\ w <= zlen buf /\ nth_error codes i = Some (be_val (firstn (Z.to_nat w) buf)) /\
     compose_enum codes w i = Ok (firstn (Z.to_nat w) buf)) /\
  (forall buf, (exists i, parse_enum codes w buf = Ok (i, w)) \/
     (parse_enum codes w buf = Err InvalidValue /\ w <= zlen buf /\ ~ In (be_val (firstn (Z.to_nat w) buf)) codes) \/
     (parse_enum codes w buf = Err (NotEnoughData (w - zlen buf)) /\ zlen buf < w)).
Proof. exact factory_instance. Qed.

(* unknown and GREASE code points: the fallback class keeps the code bit for bit *)
Theorem C10_fallback_preserves : forall g w buf c k n, In w widths -> parse_invalid g w buf = Ok ((c, k), n) ->
  n = w /\ w <= zlen buf /\ compose_invalid w c = Ok (firstn (Z.to_nat w) buf) /\ k = classify g c.
Proof. exact parse_invalid_preserves. Qed.

(* inside its list container: for every generated vector of coded enums, the items obtained from ANY accepted
   buffer re-compose to exactly the consumed bytes (nothing mapped to another code, nothing dropped, nothing
   added: item count = body length / item width), and the body length respects the vector's bounds *)
Theorem C10_vectors_verbatim : forall n mn mx nm fac g w, In (n, ((mn, mx, nm), (fac, g, w))) enum_vectors ->
  forall buf items k,
    parse_enum_vector {| vmin := mn; vmax := mx; vnum := nm |} (snd (enum_table fac)) (grease_of g) w buf = Ok (items, k) ->
    compose_enum_vector {| vmin := mn; vmax := mx; vnum := nm |} (snd (enum_table fac)) w items = Ok (firstn (Z.to_nat k) buf)
    /\ k <= zlen buf /\ zlen items * w = k - nm /\ mn <= k - nm <= mx.
Proof. exact vector_instance. Qed.

(* the same for any table, any fallback, any width: the statement does not depend on today's tables *)
Theorem C10_vector_verbatim_generic : forall tbl grease w, In w widths -> forall p, In (vnum p) widths ->
  forall buf items n, parse_enum_vector p tbl grease w buf = Ok (items, n) ->
    compose_enum_vector p tbl w items = Ok (firstn (Z.to_nat n) buf) /\ n <= zlen buf /\
    zlen items * w = n - vnum p /\ vmin p <= n - vnum p <= vmax p.
Proof. exact enum_vector_verbatim. Qed.

(* the item loop terminates within the fuel the vector parser provides *)
Theorem C10_item_loop_terminates : forall tbl grease w, In w widths ->
  forall fuel (u : bytes), (List.length u < fuel)%nat -> derived_array (parse_eitem tbl grease w) fuel u <> Err OutOfFuel.
Proof. exact derived_array_fuel. Qed.

(* side conditions on the generated data: widths supported, codes fit, no two members of a factory share a code *)
Theorem C10_tables_well_formed : enum_tables_ok = true /\ enum_vectors_ok = true.
Proof. exact (conj enum_tables_ok_true enum_vectors_ok_true). Qed.

(* distinct symbolic names never share a code (over __members__, aliases visible; every IntEnum of the library and
   every factory enum), except where the protocol assigns one number to both: SSH message 31 *)
Theorem C10_no_aliases : no_alias_ok = true.
Proof. exact no_alias_ok_true. Qed.

(* string-coded enumerations (ALPN / NPN names, SSH algorithm names): no two members share a code *)
Theorem C10_string_tables_nodup : string_tables_ok = true.
Proof. exact string_tables_ok_true. Qed.
