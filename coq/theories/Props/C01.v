(* Property C01: compose then parse returns the same message and consumes every byte.
   Statements only. Every statement holds with an arbitrary suffix after the composed bytes, which is what makes it
   hold for nested values as well as for the enclosing message (nesting is parsing with a suffix). *)
From Coq Require Import ZArith List Bool.
From CP Require Import Core.Bytes Core.Result Prim.Int Prim.Mpint Prim.Timestamp Base.Enum Frame.LVFrame Frame.Units.
From CP Require Import Lemmas.IntLemmas Lemmas.MpintLemmas Lemmas.MpintNegLemmas Lemmas.TimestampLemmas Lemmas.EnumLemmas Lemmas.EnumTables Lemmas.UnitLemmas Lemmas.UnitInstances.
From CPGen Require Import Tables.
Open Scope Z_scope.

(* engine primitives *)
Theorem C01_numeric : forall o w z b p s, In w widths -> 0 <= z < 256 ^ w ->
  compose_numeric o w z = Ok b -> parse_numeric o w (p ++ b ++ s) (zlen p) = Ok (z, w).
Proof. exact parse_compose_numeric. Qed.
Theorem C01_mpint : forall z len b s, 0 <= z < 256 ^ len -> 0 <= len ->
  compose_mpint z len = Ok b -> parse_mpint (b ++ s) 0 len = Ok (z, len) /\ zlen b = len.
Proof. exact parse_compose_mpint. Qed.
Theorem C01_ssh_mpint : forall z b s, 0 <= z -> zlen (ssh_payload z) < 4294967296 ->
  compose_ssh_mpint z = Ok b -> parse_ssh_mpint (b ++ s) 0 = Ok (z, zlen b).
Proof. exact parse_compose_ssh_mpint. Qed.

Theorem C01_ssh_mpint_negative : forall z b s, z < 0 -> neg_width z < 4294967296 ->
  compose_ssh_mpint z = Ok b -> parse_ssh_mpint (b ++ s) 0 = Ok (z, zlen b).
Proof. exact parse_compose_ssh_mpint_neg. Qed.

(* every member of every generated factory (any table without duplicate codes, any supported width) *)
Theorem C01_enum_member : forall tbl w, In w widths -> Forall (fun c => 0 <= c < 256 ^ w) tbl -> forall i c s, NoDup tbl ->
  nth_error tbl i = Some c -> exists b, compose_enum tbl w i = Ok b /\ zlen b = w /\ parse_enum tbl w (b ++ s) = Ok (i, w).
Proof. exact enum_roundtrip. Qed.

(* framing units: composed frames parse back, whatever follows, consuming exactly the composed bytes *)
Theorem C01_tls_record : forall x b s, compose_tls_record x = Ok b -> parse_tls_record (b ++ s) = Ok (x, zlen b).
Proof. intros x b s. exact (proj1 tls_record_unit x b s I). Qed.
Theorem C01_tls_handshake_header : forall ty x b s, compose_handshake ty x = Ok b -> parse_handshake ty (b ++ s) = Ok (x, zlen b).
Proof. intros ty x b s. exact (proj1 (handshake_unit ty) x b s I). Qed.
Theorem C01_mysql_record : forall x b s, compose_mysql_record x = Ok b -> parse_mysql_record (b ++ s) = Ok (x, zlen b).
Proof. intros x b s. exact (proj1 mysql_unit x b s I). Qed.
Theorem C01_tpkt : forall x b s, fst x = 3 -> compose_tpkt x = Ok b -> parse_tpkt (b ++ s) = Ok (x, zlen b).
Proof. intros x b s. exact (proj1 tpkt_unit x b s). Qed.
Theorem C01_openvpn_tcp : forall x b s, compose_ovpn_tcp x = Ok b -> parse_ovpn_tcp (b ++ s) = Ok (x, zlen b).
Proof. intros x b s. exact (proj1 ovpn_unit x b s I). Qed.
Theorem C01_postgresql : forall x b s,
  (compose_pg_sslrequest x = Ok b -> parse_pg_sslrequest (b ++ s) = Ok (x, zlen b)) /\
  (compose_pg_sync x = Ok b -> parse_pg_sync (b ++ s) = Ok (x, zlen b)).
Proof. intros x b s. split; [exact (proj1 pg_sslrequest_unit x b s I)|exact (proj1 pg_sync_unit x b s I)]. Qed.
