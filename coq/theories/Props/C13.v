(* Property C13: observers are pure and objects never share state with inputs or each other.
   Store/Store.v is an explicit-store model of "defaulted field built per instance" vs "one class-level object"; what
   CPython object identity really does is established by the correspondence run (exhaustive per default site, per class
   for input aliasing and observer histories), not by these theorems. Statements only. *)
From Coq Require Import ZArith List Bool.
From CP Require Import Core.Bytes Core.Result Base.Array Store.Store Lemmas.StoreLemmas Lemmas.DefaultsTable.
Import ListNotations.
Open Scope Z_scope.

(* shared defaults: when every defaulted field is built per instance, no history of constructions and in-place edits
   changes the class-level defaults; every instance, whenever created, reads the pristine values; instances only own cells *)
Theorem C13_defaults_isolated : forall kinds pristine hs, all_fresh kinds ->
  let s := hrun kinds pristine hs in
  hworld s = pristine /\ Forall owns (hinstances s) /\
  read_instance (hworld s) (construct kinds pristine) = map (fun j => nth j pristine []) (seq 0 (length kinds)).
Proof. exact defaults_isolated. Qed.

(* the hypothesis holds for the live library: every default site regenerated from the code is per-instance, except
   the four Set-Cookie sites that are known findings *)
Theorem C13_default_sites : default_sites_ok = true.
Proof. exact default_sites_ok_true. Qed.

(* and it is needed: one shared mutable default is enough to break the claim *)
Theorem C13_shared_default_refuted :
  let s := hrun [SharedObject] [[]] [Construct; Mutate 0 0 1] in
  read_instance (hworld s) (construct [SharedObject] [[]]) <> [[]].
Proof. exact shared_default_refuted. Qed.

(* ClientHello.compose: the repaired composer leaves the caller's cipher suite vector alone for every vector, every
   bound and every flag combination ... *)
Theorem C13_client_hello_compose_pure : forall (v : @vec Z) fb rn, snd (compose_suites v fb rn) = v.
Proof. exact compose_suites_pure. Qed.

(* ... the pinned one left a signalling suite behind when the second append hit the ceiling *)
Theorem C13_pinned_client_hello_compose_refuted :
  let v := {| items := [49199; 49200]; isz := 4 |} in snd (compose_suites_orig 2 6 v true true) <> v.
Proof. exact compose_suites_orig_refuted. Qed.
