(* Property C06: SSL/TLS messages are laid out exactly as the RFCs specify.
   Spec/PL.v, Spec/TlsSpec.v, Spec/TlsBounds.v are written from the RFC text and import nothing from the model of the
   implementation. Statements only. *)
From Coq Require Import ZArith List Bool.
From CP Require Import Core.Bytes Core.Result Prim.Int Base.Enum Frame.LVFrame Frame.Units Spec.PL Spec.TlsSpec Spec.TlsBounds.
From CP Require Import Spec.Registry Lemmas.RegistryTls.
From CPGen Require Import Tables.
From CP Require Import Lemmas.IntLemmas Lemmas.PLLemmas Lemmas.TlsSpecLemmas Lemmas.TlsBoundsLemmas.
From CP Require Import Lemmas.PLInverse.
Open Scope Z_scope.

(* model = specification, for all field values *)
Theorem C06_record_model_is_spec : forall ct ver frag b,
  compose_tls_record ((ct, ver), frag) = Ok b -> enc_record ct ver frag = Some b.
Proof. exact tls_record_model_is_spec. Qed.

Theorem C06_handshake_header_model_is_spec : forall ty body b,
  compose_handshake ty (tt, body) = Ok b -> enc_handshake ty body = Some b.
Proof. exact handshake_model_is_spec. Qed.

(* every vector of coded enum members (cipher suites, compression methods, named groups, signature schemes, point
   formats, PSK modes, ...): building and composing the vector succeeds exactly when the RFC's T v<min..max> encoding of
   the item codes exists, and gives the same bytes - prefix width sized by the ceiling, big-endian codes *)
Theorem C06_enum_vector_model_is_spec : forall p tbl w items b, In w widths -> 0 < w -> Forall (item_valid tbl w) items ->
  vnum p = Z.of_nat (width_of_ceiling (vmax p)) -> 0 <= vmin p -> vmax p < 4294967296 ->
  (mk_compose_enum_vector p tbl w items = Ok b <-> enc_uint_vec (Z.to_nat w) (vmin p) (vmax p) (map (item_code tbl) items) = Some b).
Proof. exact enum_vector_model_is_spec. Qed.

(* the specification itself is coherent: a client hello decodes back from its encoding, whatever follows;
   in particular the fallback and renegotiation SCSVs are recovered wherever they stand in the list *)
Theorem C06_spec_client_hello_roundtrip : forall h b s, ch_ok h -> enc_client_hello h = Some b ->
  dec_client_hello (b ++ s) = Some (h, s).
Proof. exact dec_enc_client_hello. Qed.

Theorem C06_spec_vectors_roundtrip : forall w lo hi l b s, (0 < w)%nat -> hi < 4294967296 ->
  Forall (fun z => 0 <= z < 256 ^ Z.of_nat w) l -> enc_uint_vec w lo hi l = Some b -> dec_uint_vec w lo hi (b ++ s) = Some (l, s).
Proof. exact dec_enc_uint_vec. Qed.

(* generated parameters of the live library against the RFC table: floors and ceilings of 22 TLS vectors agree, the
   ceiling of two more agrees (their floor differs: observation in DESIGN.md) *)
Theorem C06_bounds_match_rfc : bounds_match = true.
Proof. exact bounds_match_true. Qed.

(* 1/2/3-byte (and 4-byte) length prefixes are sized by the vector ceiling, for every vector class of the library *)
Theorem C06_prefix_width : prefix_widths_ok = true.
Proof. exact prefix_widths_ok_true. Qed.

(* the code points of the content types, alert levels and descriptions, handshake types, certificate types, SSL 2.0 message
   and error types declared by the live library are those of the specifications (registry written from the RFCs) *)
Theorem C06_code_points_match_registry :
  registry_agrees int_enum_members tls_registry = true /\ registry_covers int_enum_members tls_registry = true.
Proof. exact tls_code_points. Qed.

(* CertificateRequest (RFC 5246 7.4.4; without supported_signature_algorithms for TLS 1.0 / 1.1) and CertificateStatus
   (RFC 6066 8): the specification decodes what it encodes, whatever follows the handshake message *)
Theorem C06_certificate_request_coherent : forall types sigalgs cas b s,
  Forall (fun z => 0 <= z < 256) types ->
  match sigalgs with Some l => Forall (fun z => 0 <= z < 65536) l | None => True end ->
  enc_certificate_request types sigalgs cas = Some b ->
  dec_certificate_request (match sigalgs with Some _ => true | None => false end) (b ++ s) = Some ((types, sigalgs, cas), s).
Proof. exact dec_enc_certificate_request. Qed.

Theorem C06_certificate_status_coherent : forall ty resp b s, 0 <= ty < 256 ->
  enc_certificate_status ty resp = Some b -> dec_certificate_status (b ++ s) = Some ((ty, resp), s).
Proof. exact dec_enc_certificate_status. Qed.

(* the server hello and the library's hello retry request (ServerHello layout under handshake type 6): what the specification
   encodes decodes to the same version, random, session id, cipher suite, compression method and extensions, whatever follows *)
Theorem C06_spec_server_hello_roundtrip : forall h b s, sh_ok h -> enc_server_hello h = Some b ->
  dec_server_hello_typed 2 (b ++ s) = Some (h, s).
Proof. exact dec_enc_server_hello. Qed.
Theorem C06_spec_hello_retry_request_roundtrip : forall h b s, sh_ok h -> enc_hello_retry_request h = Some b ->
  dec_server_hello_typed 6 (b ++ s) = Some (h, s).
Proof. exact dec_enc_hello_retry_request. Qed.

(* the converse: the vectors of the presentation language have one spelling only - whatever the decoders accept is exactly
   what the encoders write for the value returned, followed by what was left (for every buffer) *)
Theorem C06_opaque_one_encoding : forall lo hi b d r, dec_opaque lo hi b = Some (d, r) ->
  exists e, enc_opaque lo hi d = Some e /\ b = e ++ r.
Proof. exact dec_opaque_inv. Qed.
Theorem C06_uint_vec_one_encoding : forall w lo hi b l r, (0 < w)%nat -> dec_uint_vec w lo hi b = Some (l, r) ->
  exists e, enc_uint_vec w lo hi l = Some e /\ b = e ++ r /\ Forall (fun z => 0 <= z < 256 ^ Z.of_nat w) l.
Proof. exact dec_uint_vec_inv. Qed.
