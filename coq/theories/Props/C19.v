(* Property C19: parsing work is bounded linearly by the input size.
   Statements only; Base/Cost.v defines the cost semantics (one step per engine primitive, per table entry compared,
   per loop iteration), Lemmas/CostLemmas.v proves the bounds. *)
From Coq Require Import ZArith List Bool.
From CP Require Import Core.Bytes Core.Result Prim.Int Base.Enum Base.Cost Reader.Reader.
From CP Require Import Lemmas.IntLemmas Lemmas.EnumLemmas Lemmas.CostLemmas Lemmas.ReaderLemmas.
From CP Require Import Text.Field Text.FieldCost Lemmas.FieldCostLemmas.
Open Scope Z_scope.

(* the only loop of the vector parsers runs at most once per byte present *)
Theorem C19_item_loop_iterations : forall tbl grease w, In w widths -> forall fuel u,
  derived_array_iters (parse_eitem tbl grease w) fuel u <= zlen u.
Proof. exact iters_le_length. Qed.

(* ... and always terminates within the fuel the parser provides (length of the body + 1) *)
Theorem C19_item_loop_terminates : forall tbl grease w, In w widths ->
  forall fuel (u : bytes), (length u < fuel)%nat -> derived_array (parse_eitem tbl grease w) fuel u <> Err OutOfFuel.
Proof. exact derived_array_fuel. Qed.

(* linear bound for every vector of coded enums, accepted or rejected, with an explicit constant per class:
   steps <= (2 + |table| + |grease table|) * len(buffer) + 3 *)
Theorem C19_enum_vector_linear : forall tbl grease w, In w widths -> forall p, In (vnum p) widths -> forall buf,
  enum_vector_cost p tbl grease w buf <= eitem_cost tbl grease * zlen buf + 3.
Proof. exact enum_vector_cost_linear. Qed.

(* a declared length beyond the bytes present costs two steps and no iteration *)
Theorem C19_declared_length_drives_no_work : forall tbl grease w p buf len n0,
  parse_numeric Network (vnum p) buf 0 = Ok (len, n0) -> len > zlen buf - n0 ->
  enum_vector_cost p tbl grease w buf = 2 /\ exists k, parse_enum_vector p tbl grease w buf = Err (NotEnoughData k).
Proof. exact enum_vector_declared_beyond_data. Qed.

(* the retry loop of the incremental reader never exhausts its fuel (length of the buffer + 1): on valid streams it
   is Running after every chunk (C04_reader_generic); this is the termination half of that theorem *)
Theorem C19_reader_terminates : forall (A : Type) (parse : bytes -> result (A * Z)) frames, Forall (good_frame A parse) frames ->
  forall chunks1 chunks2, concat (chunks1 ++ chunks2) = concat (map snd frames) ->
  status (run_reader A parse chunks1) = Running.
Proof. intros A parse frames G c1 c2 E. exact (proj1 (reader_correct A parse frames G c1 c2 E)). Qed.

(* the separator-list tokeniser of the text fields (header values, TXT policy records): at most seven steps per byte of the
   text plus four, whatever the text - runs of separators, runs of blanks, empty items, no separator at all - ... *)
Theorem C19_tokeniser_linear : forall s l, tokens_total_steps s l <= 7 * zlen l + 4.
Proof. exact tokens_total_linear. Qed.

(* ... and the fuel its caller provides (length of the text + 1) is never exhausted: it terminates on every text *)
Theorem C19_tokeniser_terminates : forall s l, tokens s l <> Err OutOfFuel.
Proof. exact tokens_never_out_of_fuel. Qed.
