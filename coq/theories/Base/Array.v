(* Model of the mutable-sequence interface of cryptoparser/common/base.py ArrayBase (lines 459-560 after
   "fix: keep vector size bookkeeping exact for slices and make bulk edits all-or-nothing"):
   _items, the incrementally maintained _items_size, the bounds check of _update_items_size / _replace_items,
   and the operations a caller can perform - ArrayBase's own (__delitem__, __setitem__, insert, append, extend,
   __iadd__, clear, reverse) and the collections.abc.MutableSequence mixins built on them (pop, remove).
   Slices are modelled for step 1. The plain-list semantics the property compares with is `list_step`. *)
From Coq Require Import ZArith List Bool.
From CP Require Import Core.Bytes Core.Result.
Import ListNotations.
Open Scope Z_scope.

Section Array.
  Context {item : Type}.
  Variable sz : item -> Z.                 (* param.get_item_size(item) *)
  Variable item_eqb : item -> item -> bool.  (* item == item (used by remove() / index()) *)
  Variable vmin vmax : Z.                  (* param.min_byte_num / max_byte_num *)

  Record vec := { items : list item; isz : Z }.

  Inductive op :=
  | Append (x : item) | Insert (i : Z) (x : item) | DelIdx (i : Z) | SetIdx (i : Z) (x : item)
  | DelSlice (a b : option Z) | SetSlice (a b : option Z) (xs : list item)
  | Extend (xs : list item) | IAdd (xs : list item) | Pop (i : option Z) | Remove (x : item) | Reverse | Clear.

  Inductive outcome := Accepted | Refused (e : err).

  Definition total (l : list item) : Z := fold_right (fun x acc => sz x + acc) 0 l.

  (* ---- Python list index arithmetic ---- *)
  Definition norm_index (len i : Z) : option nat :=       (* l[i]: negative indices count from the end *)
    let j := if i <? 0 then i + len else i in
    if (0 <=? j) && (j <? len) then Some (Z.to_nat j) else None.
  Definition insert_index (len i : Z) : nat :=              (* list.insert clamps *)
    let j := if i <? 0 then i + len else i in
    Z.to_nat (if j <? 0 then 0 else if j >? len then len else j).
  Definition clamp (len : Z) (d : Z) (o : option Z) : Z :=  (* PySlice_AdjustIndices, step 1 *)
    match o with
    | None => d
    | Some i => let j := if i <? 0 then i + len else i in if j <? 0 then 0 else if j >? len then len else j
    end.
  Definition slice_bounds (len : Z) (a b : option Z) : nat * nat :=
    let s := clamp len 0 a in let e := clamp len len b in
    (Z.to_nat s, Z.to_nat (if e <? s then s else e)).

  Definition insert_at (k : nat) (x : item) (l : list item) := firstn k l ++ x :: skipn k l.
  Definition remove_at (k : nat) (l : list item) := firstn k l ++ skipn (S k) l.
  Definition set_at (k : nat) (x : item) (l : list item) := firstn k l ++ x :: skipn (S k) l.
  Definition splice (s e : nat) (xs l : list item) := firstn s l ++ xs ++ skipn e l.

  Fixpoint index_of (x : item) (l : list item) (k : nat) : option nat :=
    match l with [] => None | y :: r => if item_eqb y x then Some k else index_of x r (S k) end.

  (* ---- what a plain Python list does (None: the list operation itself raises IndexError / ValueError) ---- *)
  Definition list_step (l : list item) (o : op) : option (list item) :=
    let len := zlen l in
    match o with
    | Append x => Some (l ++ [x])
    | Insert i x => Some (insert_at (insert_index len i) x l)
    | DelIdx i => option_map (fun k => remove_at k l) (norm_index len i)
    | SetIdx i x => option_map (fun k => set_at k x l) (norm_index len i)
    | DelSlice a b => let (s, e) := slice_bounds len a b in Some (splice s e [] l)
    | SetSlice a b xs => let (s, e) := slice_bounds len a b in Some (splice s e xs l)
    | Extend xs | IAdd xs => Some (l ++ xs)
    | Pop i => option_map (fun k => remove_at k l) (norm_index len (match i with Some j => j | None => -1 end))
    | Remove x => option_map (fun k => remove_at k l) (index_of x l 0)
    | Reverse => Some (rev l)
    | Clear => Some []
    end.

  (* ---- the vector ---- *)
  Definition check (size : Z) : result Z :=
    if size <? vmin then Err (NotEnoughData vmin) else if size >? vmax then Err (TooMuchData vmax) else Ok size.

  (* _update_items_size(del_item, insert_item): incremental *)
  Definition update_size (v : vec) (del ins : option item) : result Z :=
    check (isz v - match del with Some x => sz x | None => 0 end + match ins with Some x => sz x | None => 0 end).

  (* _replace_items(items): recomputed from scratch *)
  Definition replace_items (v : vec) (l : list item) : vec * outcome :=
    match check (total l) with
    | Ok s => ({| items := l; isz := s |}, Accepted)
    | Err e => (v, Refused e)
    end.

  Definition del_at (v : vec) (k : nat) : vec * outcome :=
    match update_size v (nth_error (items v) k) None with
    | Ok s => ({| items := remove_at k (items v); isz := s |}, Accepted)
    | Err e => (v, Refused e)
    end.

  Definition step (v : vec) (o : op) : vec * outcome :=
    let l := items v in let len := zlen l in
    match o with
    | Append x =>                                           (* insert(len(self._items), value) *)
        match update_size v None (Some x) with
        | Ok s => ({| items := insert_at (insert_index len len) x l; isz := s |}, Accepted)
        | Err e => (v, Refused e) end
    | Insert i x =>
        match update_size v None (Some x) with
        | Ok s => ({| items := insert_at (insert_index len i) x l; isz := s |}, Accepted)
        | Err e => (v, Refused e) end
    | DelIdx i =>
        match norm_index len i with
        | None => (v, Refused (Leak IndexError))            (* self._items[index] raises, as a list would *)
        | Some k => del_at v k end
    | SetIdx i x =>
        match norm_index len i with
        | None => (v, Refused (Leak IndexError))
        | Some k => match update_size v (nth_error l k) (Some x) with
                    | Ok s => ({| items := set_at k x l; isz := s |}, Accepted)
                    | Err e => (v, Refused e) end
        end
    | DelSlice a b => let (s, e) := slice_bounds len a b in replace_items v (splice s e [] l)
    | SetSlice a b xs => let (s, e) := slice_bounds len a b in replace_items v (splice s e xs l)
    | Extend xs | IAdd xs => replace_items v (l ++ xs)
    | Pop i =>                                              (* v = self[index]; del self[index] *)
        match norm_index len (match i with Some j => j | None => -1 end) with
        | None => (v, Refused (Leak IndexError))
        | Some k => del_at v k end
    | Remove x =>                                           (* del self[self.index(value)] *)
        match index_of x l 0 with
        | None => (v, Refused (Leak ValueError))
        | Some k => del_at v k end
    | Reverse => ({| items := rev l; isz := isz v |}, Accepted)   (* self._items.reverse() *)
    | Clear => replace_items v []
    end.

  (* ArrayBase.__attrs_post_init__ *)
  Definition mk_vec (l : list item) : result vec :=
    let* s := check (total l) in Ok {| items := l; isz := s |}.

  Definition run (v : vec) (ops : list op) : vec := fold_left (fun s o => fst (step s o)) ops v.

  Definition Inv (v : vec) : Prop := isz v = total (items v) /\ vmin <= isz v <= vmax.
End Array.

(* compose() of a length-prefixed vector (Vector / VectorParsable / VectorEnumCode* / Opaque .compose):
   the prefix is computed from the composed body (base.py:554-560, 624-631, 640-652, 717-723) *)
From CP Require Import Prim.Int.
Section Compose.
  Context {item : Type}.
  Variable enc : item -> bytes.          (* item.compose() / the per-item composer *)
  Definition body (l : list item) : bytes := concat (map enc l).
  Definition compose_vec (num : Z) (v : @vec item) : result bytes :=
    let b := body (items v) in
    let* h := compose_numeric Network num (zlen b) in Ok (h ++ b).
End Compose.
