(* Model of the coded enumerations of cryptoparser/common/base.py and tls/grease.py:
   NByteEnumParsable._parse (base.py:731-752), NByteEnumComposer.compose / compose_numeric_enum_coded
   (base.py:799-816, parse.py:874-884), TlsInvalidTypeBase (grease.py:44-97),
   _parse_parsable_derived_array (parse.py:654-677), VectorParsable._parse / VectorEnumCodeNumeric.compose
   (base.py:602-652), ArrayBase.__attrs_post_init__ bounds (base.py:465-495).
   A table is the list of codes of the canonical members (list(enum_class)) in definition order; a member is
   identified by its index in that list. *)
From Coq Require Import ZArith List Bool.
From Coq.Strings Require Import Byte.
From CP Require Import Core.Bytes Core.Result Prim.Int.
Import ListNotations.
Open Scope Z_scope.

(* for enum_item in list(enum_class): if enum_item.value.code == code: return enum_item *)
Fixpoint find_code (tbl : list Z) (c : Z) (i : nat) : option nat :=
  match tbl with
  | [] => None
  | x :: r => if x =? c then Some i else find_code r c (S i)
  end.
Definition decode (tbl : list Z) (c : Z) : option nat := find_code tbl c 0.

(* NByteEnumParsable._parse on a buffer (a fresh ParserBinary, offset 0) *)
Definition parse_enum (tbl : list Z) (w : Z) (buf : bytes) : result (nat * Z) :=
  let* (c, _) := parse_numeric Network w buf 0 in
  match decode tbl c with
  | Some i => Ok (i, w)
  | None => Err InvalidValue
  end.

(* member.compose() / compose_numeric_enum_coded(member) *)
Definition compose_enum (tbl : list Z) (w : Z) (i : nat) : result bytes :=
  match nth_error tbl i with
  | Some c => compose_numeric Network w c
  | None => Err (Leak IndexError)            (* not a member: cannot be constructed *)
  end.

(* TlsInvalidTypeBase: any code point, classified GREASE / UNKNOWN by the grease table *)
Inductive invalid_kind := Grease | Unknown.
Definition classify (grease : list Z) (c : Z) : invalid_kind :=
  if existsb (Z.eqb c) grease then Grease else Unknown.
Definition parse_invalid (grease : list Z) (w : Z) (buf : bytes) : result ((Z * invalid_kind) * Z) :=
  let* (c, n) := parse_numeric Network w buf 0 in Ok ((c, classify grease c), n).
Definition compose_invalid (w : Z) (c : Z) : result bytes := compose_numeric Network w c.

(* an item of a vector of coded enums with a fallback class *)
Inductive eitem := Known (i : nat) | Invalid (c : Z) (k : invalid_kind).

(* one iteration of _parse_parsable_derived_array with item_classes = [factory]:
   try the factory, on InvalidValue use the fallback class, without fallback raise ValueError (which
   parse_parsable_array turns into InvalidValue) *)
Definition parse_eitem (tbl : list Z) (grease : option (list Z)) (w : Z) (u : bytes) : result (eitem * Z) :=
  match parse_enum tbl w u with
  | Ok (i, n) => Ok (Known i, n)
  | Err InvalidValue =>
      match grease with
      | Some g => let* (ck, n) := parse_invalid g w u in Ok (Invalid (fst ck) (snd ck), n)
      | None => Err InvalidValue
      end
  | Err e => Err e
  end.

Definition compose_eitem (tbl : list Z) (w : Z) (it : eitem) : result bytes :=
  match it with
  | Known i => compose_enum tbl w i
  | Invalid c _ => compose_invalid w c
  end.

(* while unparsed_bytes: ...; unparsed_bytes = unparsed_bytes[parsed_length:]   (fuel: one unit per iteration) *)
Section DerivedArray.
  Context {item : Type}.
  Variable parse_item : bytes -> result (item * Z).
  Fixpoint derived_array (fuel : nat) (unparsed : bytes) : result (list item) :=
    match unparsed with
    | [] => Ok []
    | _ :: _ =>
      match fuel with
      | O => Err OutOfFuel
      | S f =>
        let* (it, n) := parse_item unparsed in
        let* rest := derived_array f (skipn (Z.to_nat n) unparsed) in   (* n >= 0 for every item class used *)
        Ok (it :: rest)
      end
    end.
End DerivedArray.

(* VectorParamBase: min_byte_num, max_byte_num, item_num_size (as the live library computes it) *)
Record vparam := { vmin : Z; vmax : Z; vnum : Z }.

(* ArrayBase.__attrs_post_init__ -> _update_items_size(None, None) *)
Definition check_bounds (p : vparam) (size : Z) : result unit :=
  if size <? vmin p then Err (NotEnoughData (vmin p))
  else if size >? vmax p then Err (TooMuchData (vmax p))
  else Ok tt.

(* VectorParsable._parse for a VectorParamEnumCodeNumeric: every item has size w (fallback_class.get_byte_num()) *)
Definition parse_enum_vector (p : vparam) (tbl : list Z) (grease : option (list Z)) (w : Z) (buf : bytes)
  : result (list eitem * Z) :=
  let* (len, n0) := parse_numeric Network (vnum p) buf 0 in
  if len >? zlen buf - n0 then Err (NotEnoughData (len - (zlen buf - n0)))
  else
    let body := slice buf n0 (n0 + len) in
    let* items := derived_array (parse_eitem tbl grease w) (S (length body)) body in
    let* _ := check_bounds p (zlen items * w) in
    Ok (items, n0 + len).

Fixpoint compose_eitems (tbl : list Z) (w : Z) (items : list eitem) : result bytes :=
  match items with
  | [] => Ok []
  | it :: r => let* a := compose_eitem tbl w it in let* b := compose_eitems tbl w r in Ok (a ++ b)
  end.

(* VectorEnumCodeNumeric.compose *)
Definition compose_enum_vector (p : vparam) (tbl : list Z) (w : Z) (items : list eitem) : result bytes :=
  let* body := compose_eitems tbl w items in
  let* hdr := compose_numeric Network (vnum p) (zlen body) in
  Ok (hdr ++ body).

(* constructing the vector object (ArrayBase.__attrs_post_init__) and composing it *)
Definition mk_compose_enum_vector (p : vparam) (tbl : list Z) (w : Z) (items : list eitem) : result bytes :=
  let* _ := check_bounds p (zlen items * w) in compose_enum_vector p tbl w items.

(* ---- OpaqueEnumParsable (base.py:1002-1046): a 1-byte-length-prefixed string that must be the code of a member.
   Vector._parse: prefix, item_num = int(len / item_size) one-byte items, cls(items) (bounds), then
   six.ensure_text(bytes, 'utf-8') (UnicodeDecodeError -> InvalidValue) and an exact comparison with each code. *)
From CP Require Import Core.Utf8.

Fixpoint bytes_eqb (a b : bytes) : bool :=
  match a, b with
  | [], [] => true
  | x :: r, y :: s => (b2z x =? b2z y) && bytes_eqb r s
  | _, _ => false
  end.

Fixpoint find_bytes (tbl : list bytes) (c : bytes) (i : nat) : option nat :=
  match tbl with
  | [] => None
  | x :: r => if bytes_eqb x c then Some i else find_bytes r c (S i)
  end.

Definition parse_opaque_enum (p : vparam) (tbl : list bytes) (buf : bytes) : result (nat * Z) :=
  let* (len, n0) := parse_numeric Network (vnum p) buf 0 in
  if n0 + len >? zlen buf then Err (NotEnoughData (len - (zlen buf - n0)))
  else
    let code := slice buf n0 (n0 + len) in
    let* _ := check_bounds p len in
    if negb (utf8_valid code) then Err InvalidValue     (* "fix: reject an opaque enum value that is not valid in its encoding" *)
    else match find_bytes tbl code 0 with
         | Some i => Ok (i, n0 + len)
         | None => Err InvalidValue
         end.

(* compose_string_enum_coded(member, 1), the composer VectorEnumCodeString.compose uses per item
   (the cryptodatahub members have no compose() of their own; OpaqueEnumComposer is unused) *)
Definition compose_opaque_enum (tbl : list bytes) (i : nat) : result bytes :=
  match nth_error tbl i with
  | Some c => let* h := compose_numeric Network 1 (zlen c) in Ok (h ++ c)
  | None => Err (Leak IndexError)
  end.
