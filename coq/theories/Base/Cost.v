(* Cost semantics for the loops of the modelled parsers (property C19). A step is one engine primitive call, one
   table entry compared, or one loop iteration. Only the item loop of the vector parsers iterates; everything else in
   the modelled classes is straight-line code over a fixed number of primitives. *)
From Coq Require Import ZArith List Bool.
From CP Require Import Core.Bytes Core.Result Prim.Int Base.Enum.
Import ListNotations.
Open Scope Z_scope.

(* steps of one item: parse_numeric (1) + linear table search (at most |tbl|) + fallback: parse_numeric (1) +
   classification against the grease table (at most |grease|) *)
Definition eitem_cost (tbl : list Z) (grease : option (list Z)) : Z :=
  2 + zlen tbl + match grease with Some g => zlen g | None => 0 end.

(* the item loop, instrumented: returns the number of iterations it ran (whether or not it ends in an error) *)
Section Loop.
  Context {item : Type}.
  Variable parse_item : bytes -> result (item * Z).
  Fixpoint derived_array_iters (fuel : nat) (unparsed : bytes) : Z :=
    match unparsed with
    | [] => 0
    | _ :: _ =>
      match fuel with
      | O => 0
      | S f =>
        match parse_item unparsed with
        | Ok (_, n) => 1 + derived_array_iters f (skipn (Z.to_nat n) unparsed)
        | Err _ => 1
        end
      end
    end.
End Loop.

(* total steps of VectorParsable._parse on a buffer: prefix, bound check, the loop, the constructor's size check *)
Definition enum_vector_cost (p : vparam) (tbl : list Z) (grease : option (list Z)) (w : Z) (buf : bytes) : Z :=
  match parse_numeric Network (vnum p) buf 0 with
  | Err _ => 1
  | Ok (len, n0) =>
      if len >? zlen buf - n0 then 2      (* a declared length beyond the data is rejected before any iteration *)
      else
        let body := slice buf n0 (n0 + len) in
        3 + derived_array_iters (parse_eitem tbl grease w) (S (length body)) body * eitem_cost tbl grease
  end.
