(* Model of COTPConnectionBase (tls/rdp.py:60-125 after the two COTP fixes) as an LV frame with a check that runs after
   the length check (the PDU type and the class option), and of RDPNegotiationBase (tls/rdp.py:157-211). *)
From Coq Require Import ZArith List Bool String.
From CP Require Import Core.Bytes Core.Result Prim.Int Frame.LVFrame Frame.Units.
From CPGen Require Import Tables.
Import ListNotations.
Open Scope Z_scope.

(* ---- COTP connection request / confirm ---- *)
Definition cotp_hdr := (Z * Z)%type.           (* src_ref, dst_ref, in the order the class reads them *)
Definition cotp_check (h : bytes) : result cotp_hdr :=
  if byte_at h 0 <? 6 then Err InvalidValue                     (* length indicator below the fixed part *)
  else Ok (be_val (slice h 2 4), be_val (slice h 4 6)).
Definition cotp_plen (h : bytes) : Z := byte_at h 0 - 6.
(* after the declared bytes are known to be present: pdu_type >> 4 != cls._get_type() -> InvalidType;
   class_option != 0 -> InvalidValue (__attrs_post_init__) *)
Definition cotp_post (ty : Z) (h : bytes) : result unit :=
  if negb (Z.shiftr (byte_at h 1) 4 =? ty) then Err InvalidType
  else if negb (byte_at h 6 =? 0) then Err InvalidValue else Ok tt.
Definition parse_cotp (ty : Z) (buf : bytes) : result ((cotp_hdr * bytes) * Z) :=
  let* (x, n) := lv_parse cotp_hdr 7 cotp_check cotp_plen buf in
  let* _ := cotp_post ty (firstn 7 buf) in Ok (x, n).
Definition cotp_mk (ty : Z) (v : cotp_hdr) (n : Z) : result bytes :=
  if 256 <=? n + 6 then Err InvalidValue
  else if (fst v <? 0) || (65536 <=? fst v) || (snd v <? 0) || (65536 <=? snd v) then Err InvalidValue
  else Ok (be_enc 1 (n + 6) ++ be_enc 1 (Z.shiftl ty 4) ++ be_enc 2 (fst v) ++ be_enc 2 (snd v) ++ be_enc 1 0).
Definition compose_cotp (ty : Z) := lv_compose cotp_hdr (cotp_mk ty).
Definition COTP_CR_code : Z := 14.
Definition COTP_CC_code : Z := 13.
(* the PDU type that is on the wire *)
Definition cotp_wire_type (buf : bytes) : Z := Z.shiftr (byte_at buf 1) 4.

(* ---- RDP negotiation request / response: 8 bytes, little-endian ---- *)
Definition flag_values (name : string) : list Z :=
  match find (fun t => String.eqb (fst t) name) flag_tables with Some t => snd t | None => [] end.
Definition rdp_neg_check (ty : Z) (flag_tbl : list Z) (h : bytes) : result (list Z * list Z) :=
  let t := byte_at h 0 in
  if negb (memz t (int_enum_values "RDPPacketType")) then Err InvalidValue
  else if negb (t =? ty) then Err InvalidType
  else if negb (le_val (slice h 2 4) =? 8) then Err InvalidValue
  else Ok (parse_flags flag_tbl 0 (byte_at h 1), parse_flags (flag_values "RDPProtocol") 0 (le_val (slice h 4 8))).
Definition zero_len (h : bytes) : Z := 0.
Definition parse_rdp_neg (ty : Z) (flag_tbl : list Z) := lv_parse (list Z * list Z) 8 (rdp_neg_check ty flag_tbl) zero_len.
Definition rdp_wire_type (buf : bytes) : Z := byte_at buf 0.
