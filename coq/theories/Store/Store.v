(* A small explicit-store model for property C13: instances whose defaulted fields are either built fresh per instance
   (attr.Factory, a converter that rebuilds, or an immutable value) or alias one class-level object (a mutable object
   passed as attr.ib(default=...)); and the old / new ClientHello.compose as a state-passing function on the cipher
   suite vector. *)
From Coq Require Import ZArith List Bool.
From CP Require Import Core.Bytes Core.Result Base.Array.
Import ListNotations.
Open Scope Z_scope.

Inductive dkind := Fresh | SharedObject.
Inductive cell := Own (v : list Z) | Alias (site : nat).
Definition world := list (list Z).                 (* contents of the class-level default objects, by site *)
Definition instance := list cell.

Fixpoint construct_from (i : nat) (kinds : list dkind) (pristine : list (list Z)) : instance :=
  match kinds with
  | [] => []
  | Fresh :: r => Own (nth i pristine []) :: construct_from (S i) r pristine
  | SharedObject :: r => Alias i :: construct_from (S i) r pristine
  end.
Definition construct (kinds : list dkind) (pristine : list (list Z)) : instance := construct_from 0 kinds pristine.

Definition read (w : world) (c : cell) : list Z := match c with Own v => v | Alias i => nth i w [] end.
Definition read_instance (w : world) (o : instance) : list (list Z) := map (read w) o.

Fixpoint set_nth {A} (n : nat) (x : A) (l : list A) : list A :=
  match l, n with
  | [], _ => []
  | _ :: r, O => x :: r
  | y :: r, S k => y :: set_nth k x r
  end.

(* editing a field in place (append, item assignment, attribute set): the object the field refers to changes *)
Definition mutate_field (w : world) (o : instance) (field : nat) (x : Z) : world * instance :=
  match nth_error o field with
  | Some (Own v) => (w, set_nth field (Own (v ++ [x])) o)
  | Some (Alias i) => (set_nth i (nth i w [] ++ [x]) w, o)
  | None => (w, o)
  end.

Inductive hop := Construct | Mutate (inst field : nat) (x : Z).
Record hstate := { hworld : world; hinstances : list instance }.
Definition hstep (kinds : list dkind) (pristine : list (list Z)) (s : hstate) (h : hop) : hstate :=
  match h with
  | Construct => {| hworld := hworld s; hinstances := hinstances s ++ [construct kinds pristine] |}
  | Mutate i f x =>
      match nth_error (hinstances s) i with
      | Some o => let (w', o') := mutate_field (hworld s) o f x in {| hworld := w'; hinstances := set_nth i o' (hinstances s) |}
      | None => s
      end
  end.
Definition hrun (kinds : list dkind) (pristine : list (list Z)) (hs : list hop) : hstate :=
  fold_left (hstep kinds pristine) hs {| hworld := pristine; hinstances := [] |}.

(* ---- TlsHandshakeClientHello.compose and the caller's cipher suite vector ---- *)
Section CH.
  Variable vmin vmax : Z.
  Definition suite_sz (_ : Z) : Z := 2.
  Notation vstep := (step suite_sz Z.eqb vmin vmax).

  (* the pinned tree: append the signalling suites to self.cipher_suites, emit, delete them again *)
  Definition compose_suites_orig (v : @vec Z) (fallback reneg : bool) : result (list Z) * @vec Z :=
    let (v1, o1) := if fallback then vstep v (Append 22016) else (v, Accepted) in
    match o1 with
    | Refused e => (Err e, v1)
    | Accepted =>
      let (v2, o2) := if reneg then vstep v1 (Append 255) else (v1, Accepted) in
      match o2 with
      | Refused e => (Err e, v2)                          (* the first append is NOT undone *)
      | Accepted =>
        let emitted := items v2 in
        let v3 := if fallback then fst (vstep v2 (DelIdx (-1))) else v2 in
        let v4 := if reneg then fst (vstep v3 (DelIdx (-1))) else v3 in
        (Ok emitted, v4)
      end
    end.

  (* after "fix: compose a client hello without modifying its cipher suite vector": a local list *)
  Definition compose_suites (v : @vec Z) (fallback reneg : bool) : result (list Z) * @vec Z :=
    (Ok (items v ++ (if fallback then [22016] else []) ++ (if reneg then [255] else [])), v).
End CH.
