(* Model of Serializable._json_traverse / _json_result / _get_ordered_dict (common/base.py:84-150, after "fix: serialise
   sets in an order that does not depend on how they were built") over a universe of Python values. Output is a JSON
   tree (so syntactic well-formedness is by construction); the rendering of json.dumps is an oracle. *)
From Coq Require Import ZArith List Bool String Ascii.
From CP Require Import Core.Bytes Core.Show.
Import ListNotations.
Local Open Scope string_scope.
Open Scope Z_scope.

Inductive pyval :=
| PNone | PBool (b : bool) | PInt (z : Z) | PStr (s : string) | PBytes (b : bytes)
| PEnum (name : string) (params : bool) (value : pyval)   (* params: the member's value is a CryptoDataParamsBase *)
| PList (l : list pyval)                                   (* list / tuple *)
| PSet (l : list pyval)                                    (* set / frozenset, in iteration order *)
| PDict (ordered : bool) (kvs : list (pyval * pyval))      (* OrderedDict or plain dict *)
| PAttrs (fields : list (string * pyval))                  (* attrs instance: all fields in declaration order *)
| PAsDict (v : pyval)                                      (* object with an _asdict(): what it returns *)
| POther (str : string).                                   (* anything else: str(obj) *)

Inductive json := JNull | JBool (b : bool) | JNum (z : Z) | JStr (s : string) | JArr (l : list json) | JObj (kvs : list (string * json)).

(* bytes_to_hex_string(obj, separator=':', lowercase=False) *)
Definition upper_hex_digit (d : Z) : ascii := ascii_of_N (Z.to_N (if d <? 10 then 48 + d else 55 + d)).
Definition hex_colon (b : bytes) : string :=
  String.concat ":" (map (fun x => String (upper_hex_digit (b2z x / 16)) (String (upper_hex_digit (b2z x mod 16)) "")) b).

(* sort keys of _sorted_set: (0, class name, member name) for enum members, (1, type name, str(item)) otherwise; within one
   set all members have the same class, so the member name / string decides *)
Definition sort_key (v : pyval) : string :=
  match v with PEnum n _ _ => "0" ++ n | PStr s => "1" ++ s | PInt z => "1" ++ string_of_Z z | POther s => "1" ++ s | _ => "2" end.

(* Python's str comparison on ASCII text: lexicographic by code point *)
Fixpoint str_leb (a b : string) : bool :=
  match a, b with
  | EmptyString, _ => true
  | String _ _, EmptyString => false
  | String x r, String y s => let nx := nat_of_ascii x in let ny := nat_of_ascii y in
                              if Nat.ltb nx ny then true else if Nat.ltb ny nx then false else str_leb r s
  end.

Section Sort.
  Context {A : Type}.
  Variable key : A -> string.
  Fixpoint insert (x : A) (l : list A) : list A :=
    match l with [] => [x] | y :: r => if str_leb (key x) (key y) then x :: l else y :: insert x r end.
  Fixpoint isort (l : list A) : list A := match l with [] => [] | x :: r => insert x (isort r) end.
End Sort.

Definition key_string (k : pyval) : string :=   (* key.name if enum else _json_result(key) rendered as an object key *)
  match k with PEnum n _ _ => n | PStr s => s | PInt z => string_of_Z z | PNone => "null" | PBool true => "true" | PBool false => "false"
             | PBytes b => hex_colon b | POther s => s | _ => "?" end.

Definition is_private (name : string) : bool := match name with String "_" _ => true | _ => false end.

Fixpoint traverse (fuel : nat) (v : pyval) : json :=
  match fuel with
  | O => JNull
  | S f =>
    match v with
    | PNone => JNull | PBool b => JBool b | PInt z => JNum z | PStr s => JStr s
    | PBytes b => JStr (hex_colon b)
    | PEnum n true _ => JStr n                                        (* cryptodatahub member: its name *)
    | PEnum n false value => JObj [(n, traverse f value)]              (* {name: value} *)
    | PAsDict d => traverse f d
    | PDict true kvs => JObj (map (fun kv => (key_string (fst kv), traverse f (snd kv))) kvs)
    | PDict false kvs => JObj (map (fun kv => (key_string (fst kv), traverse f (snd kv))) (isort (fun kv => sort_key (fst kv)) kvs))
    | PAttrs fields => JObj (map (fun kv => (fst kv, traverse f (snd kv))) (filter (fun kv => negb (is_private (fst kv))) fields))
    | PList l => JArr (map (traverse f) l)
    | PSet l => JArr (map (traverse f) (isort sort_key l))
    | POther s => JStr s
    end
  end.

(* compact rendering with keys in the order of the tree (what json.dumps(..., separators=(',', ':')) prints for ASCII text
   without quotes or backslashes) - used only by the correspondence *)
Fixpoint render (fuel : nat) (j : json) : string :=
  match fuel with
  | O => "?"
  | S f =>
    match j with
    | JNull => "null" | JBool true => "true" | JBool false => "false" | JNum z => string_of_Z z
    | JStr s => """" ++ s ++ """"
    | JArr l => "[" ++ String.concat "," (map (render f) l) ++ "]"
    | JObj kvs => "{" ++ String.concat "," (map (fun kv => """" ++ fst kv ++ """:" ++ render f (snd kv)) kvs) ++ "}"
    end
  end.
