(* The framing units whose payload is opaque bytes, as instances of Frame/LVFrame.v. Each definition transcribes the
   _parse / compose pair named in its comment; the enum tables come from the generated CPGen.Tables. *)
From Coq Require Import ZArith List Bool String.
From CP Require Import Core.Bytes Core.Result Prim.Int Frame.LVFrame.
From CPGen Require Import Tables.
Import ListNotations.
Open Scope Z_scope.

Definition memz (x : Z) (l : list Z) : bool := existsb (Z.eqb x) l.
Definition int_enum_values (name : string) : list Z :=
  match find (fun t => String.eqb (fst t) name) int_enum_members with Some t => map snd (snd t) | None => [] end.
Definition factory_codes (name : string) : list Z :=
  match find (fun t => String.eqb (fst t) name) enum_tables with Some t => snd (snd t) | None => [] end.

Definition content_types : list Z := int_enum_values "TlsContentType"%string.
Definition handshake_types : list Z := int_enum_values "TlsHandshakeType"%string.
Definition tls_versions : list Z := factory_codes "TlsVersionFactory"%string.

Definition byte_at (h : bytes) (i : nat) : Z := match nth_error h i with Some b => b2z b | None => 0 end.

(* ---- TlsRecord (tls/record.py:16-66): content type (1), version (2), fragment length (2), fragment ---- *)
Definition tls_record_hdr := (Z * Z)%type.               (* content type value, TlsVersion code *)
Definition tls_record_check (h : bytes) : result tls_record_hdr :=
  let ct := byte_at h 0 in let ver := be_val (slice h 1 3) in
  if negb (memz ct content_types) then Err InvalidValue        (* TlsContentType(value): ValueError -> InvalidValue *)
  else if negb (memz ver tls_versions) then Err InvalidValue   (* TlsVersionFactory: unknown code *)
  else Ok (ct, ver).
Definition tls_record_plen (h : bytes) : Z := be_val (slice h 3 5).
Definition tls_record_mk (v : tls_record_hdr) (n : Z) : result bytes :=
  if negb (memz (fst v) content_types && memz (snd v) tls_versions) then Err (Leak TypeError)   (* not constructible *)
  else if 65536 <=? n then Err InvalidValue                    (* compose_bytes(fragment, 2) *)
  else Ok (be_enc 1 (fst v) ++ be_enc 2 (snd v) ++ be_enc 2 n).
Definition parse_tls_record := lv_parse tls_record_hdr 5 tls_record_check tls_record_plen.
Definition compose_tls_record := lv_compose tls_record_hdr tls_record_mk.

(* ---- TLS handshake message header (tls/subprotocol.py:228-268) for a message class of type ty ---- *)
Definition handshake_check (ty : Z) (h : bytes) : result unit :=
  let t := byte_at h 0 in
  if negb (memz t handshake_types) then Err InvalidValue       (* TlsHandshakeType(value) *)
  else if negb (t =? ty) then Err InvalidType                  (* != cls.get_handshake_type() *)
  else Ok tt.
Definition handshake_plen (h : bytes) : Z := be_val (slice h 1 4).
Definition handshake_mk (ty : Z) (_ : unit) (n : Z) : result bytes :=
  if negb (memz ty handshake_types) then Err (Leak TypeError)
  else if 16777216 <=? n then Err InvalidValue                 (* compose_numeric(payload_length, 3) *)
  else Ok (be_enc 1 ty ++ be_enc 3 n).
Definition parse_handshake (ty : Z) := lv_parse unit 4 (handshake_check ty) handshake_plen.
Definition compose_handshake (ty : Z) := lv_compose unit (handshake_mk ty).

(* ---- MySQLRecord (tls/mysql.py:302-333): little-endian 3-byte length, packet number, packet bytes ---- *)
Definition mysql_check (h : bytes) : result Z := Ok (byte_at h 3).
Definition mysql_plen (h : bytes) : Z := le_val (slice h 0 3).
Definition mysql_mk (num : Z) (n : Z) : result bytes :=
  if 16777216 <=? n then Err InvalidValue
  else if (num <? 0) || (256 <=? num) then Err InvalidValue
  else Ok (le_enc 3 n ++ be_enc 1 num).
Definition parse_mysql_record := lv_parse Z 4 mysql_check mysql_plen.
Definition compose_mysql_record := lv_compose Z mysql_mk.

(* ---- TPKT (tls/rdp.py:13-48, after "fix: reject a TPKT packet length smaller than the TPKT header") ---- *)
Definition tpkt_check (h : bytes) : result Z :=
  if negb (byte_at h 0 =? 3) then Err InvalidValue
  else if be_val (slice h 2 4) <? 4 then Err InvalidValue
  else Ok (byte_at h 0).
Definition tpkt_plen (h : bytes) : Z := be_val (slice h 2 4) - 4.
Definition tpkt_mk (version : Z) (n : Z) : result bytes :=
  if (version <? 0) || (256 <=? version) then Err InvalidValue
  else if 65536 <=? n + 4 then Err InvalidValue
  else Ok (be_enc 1 version ++ [z2b 0] ++ be_enc 2 (n + 4)).
Definition parse_tpkt := lv_parse Z 4 tpkt_check tpkt_plen.
Definition compose_tpkt := lv_compose Z tpkt_mk.

(* ---- OpenVpnPacketWrapperTcp (tls/openvpn.py:25-41): 2-byte length + payload ---- *)
Definition ovpn_check (h : bytes) : result unit := Ok tt.
Definition ovpn_plen (h : bytes) : Z := be_val h.
Definition ovpn_mk (_ : unit) (n : Z) : result bytes := if 65536 <=? n then Err InvalidValue else Ok (be_enc 2 n).
Definition parse_ovpn_tcp := lv_parse unit 2 ovpn_check ovpn_plen.
Definition compose_ovpn_tcp := lv_compose unit ovpn_mk.

(* ---- PostgreSQL SslRequest / Sync (tls/postgresql.py): fixed-size frames, empty payload ---- *)
Definition pg_sslrequest_check (h : bytes) : result unit :=
  if negb (be_val (slice h 0 4) =? 8) then Err InvalidValue
  else if negb (be_val (slice h 4 8) =? 80877103) then Err InvalidValue else Ok tt.
Definition zero_plen (h : bytes) : Z := 0.
Definition pg_sslrequest_mk (_ : unit) (n : Z) : result bytes :=
  if n =? 0 then Ok (be_enc 4 8 ++ be_enc 4 80877103) else Err (Leak TypeError).
Definition parse_pg_sslrequest := lv_parse unit 8 pg_sslrequest_check zero_plen.
Definition compose_pg_sslrequest := lv_compose unit pg_sslrequest_mk.

Definition pg_sync_check (h : bytes) : result unit := if byte_at h 0 =? 83 then Ok tt else Err InvalidValue.  (* b'S' *)
Definition pg_sync_mk (_ : unit) (n : Z) : result bytes := if n =? 0 then Ok [z2b 83] else Err (Leak TypeError).
Definition parse_pg_sync := lv_parse unit 1 pg_sync_check zero_plen.
Definition compose_pg_sync := lv_compose unit pg_sync_mk.
