(* SSH binary packet (cryptoparser/ssh/record.py, SshRecordBase._parse): uint32 packet_length, byte padding_length, payload,
   padding; the payload is handed to the message variant with parse_exact_size (a parameter here: it sees exactly the payload
   bytes).  Definitions only; the compose side (padding rule) is Ssh/Record.v. *)
From Coq Require Import ZArith List Bool.
From Coq.Strings Require Import Byte.
From CP Require Import Core.Bytes Core.Result.
Import ListNotations.
Open Scope Z_scope.

Section SshPacket.
  Variable msg : bytes -> result unit.       (* variant.parse_exact_size(payload) *)

  Definition ssh_body (pl : Z) (rest : bytes) : result ((bytes * bytes) * Z) :=
    if zlen rest <? pl then Err (NotEnoughData (pl - zlen rest))
    else match rest with
         | [] => Err (NotEnoughData 1)
         | p :: r =>
           let pay := pl - b2z p - 1 in
           if pay <? 0 then Err InvalidValue
           else let m := firstn (Z.to_nat pay) r in
                let* _ := msg m in
                Ok ((m, firstn (Z.to_nat (b2z p)) (skipn (Z.to_nat pay) r)), 4 + pl)
         end.

  Definition u32 (b0 b1 b2 b3 : byte) : Z := ((b2z b0 * 256 + b2z b1) * 256 + b2z b2) * 256 + b2z b3.

  Definition ssh_parse (buf : bytes) : result ((bytes * bytes) * Z) :=
    match buf with
    | b0 :: b1 :: b2 :: b3 :: rest => ssh_body (u32 b0 b1 b2 b3) rest
    | _ => Err (NotEnoughData (4 - zlen buf))
    end.

  Definition ssh_declared (buf : bytes) : option Z :=
    match buf with b0 :: b1 :: b2 :: b3 :: _ => Some (4 + u32 b0 b1 b2 b3) | _ => None end.
End SshPacket.

(* the message parser of the runner for SshRecordInit: UNIMPLEMENTED (code 3, uint32 sequence number); DISCONNECT (1) and
   KEXINIT (20) are not modelled here; any other valid code has no variant, any other byte is not a message code *)
Definition ssh_msg_init (codes : list Z) (m : bytes) : result unit :=
  match m with
  | [] => Err (NotEnoughData 1)
  | t :: r =>
    if negb (existsb (Z.eqb (b2z t)) codes) then Err InvalidValue
    else if b2z t =? 3 then
      if zlen r <? 4 then Err (NotEnoughData (4 - zlen r)) else if 4 <? zlen r then Err (TooMuchData (zlen r - 4)) else Ok tt
    else if (b2z t =? 1) || (b2z t =? 20) then Err OutOfFuel
    else Err InvalidValue
  end.

(* SshRecordBase.compose: packet_length and padding_length by the padding rule (Ssh/Record.v), zero padding *)
From CP Require Import Ssh.Record.
Definition ssh_compose (payload : bytes) : bytes :=
  let pad := padding_length (zlen payload) in
  be_enc 4 (packet_length (zlen payload)) ++ z2b pad :: payload ++ repeat x00 (Z.to_nat pad).
