(* A generic "fixed header + declared-length payload" framing unit. The stream framing units of the library whose
   payload is kept as opaque bytes are instances of it (Frame/Units.v): TlsRecord, the TLS handshake message header,
   MySQLRecord, TPKT, OpenVpnPacketWrapperTcp, and the fixed-size PostgreSQL SslRequest / Sync. *)
From Coq Require Import ZArith List Bool.
From CP Require Import Core.Bytes Core.Result Prim.Int.
Import ListNotations.
Open Scope Z_scope.

Section LV.
  Variable hv : Type.                          (* what the header carries besides the payload length *)
  Variable H : Z.                              (* header size in bytes *)
  Variable hdr_check : bytes -> result hv.     (* validation of the H header bytes (enum members, magic values, type tags) *)
  Variable plen : bytes -> Z.                  (* payload length declared by the H header bytes *)
  Variable mk_hdr : hv -> Z -> result bytes.   (* compose side: header for a value and a payload length *)

  Definition lv_parse (buf : bytes) : result ((hv * bytes) * Z) :=
    if zlen buf <? H then Err (NotEnoughData (H - zlen buf))
    else
      let h := firstn (Z.to_nat H) buf in
      let* v := hdr_check h in
      let n := plen h in
      if zlen buf - H <? n then Err (NotEnoughData (n - (zlen buf - H)))
      else Ok ((v, slice buf H (H + n)), H + n).

  Definition lv_compose (x : hv * bytes) : result bytes :=
    let* h := mk_hdr (fst x) (zlen (snd x)) in Ok (h ++ snd x).

  (* the length a frame header declares, from the header bytes only *)
  Definition lv_declared (buf : bytes) : Z := H + plen (firstn (Z.to_nat H) buf).
End LV.
