(* SSL 2.0 record (cryptoparser/tls/record.py, SslRecord._parse / compose): a 2-byte header (high bit set, 15-bit length) or a
   3-byte header (14-bit length and a padding length); the record carries a message type, the message and the padding.
   The message parser is a parameter (it sees exactly the message bytes).  Definitions only. *)
From Coq Require Import ZArith List Bool.
From Coq.Strings Require Import Byte.
From CP Require Import Core.Bytes Core.Result.
Import ListNotations.
Open Scope Z_scope.

Section Ssl2.
  Variable msg : Z -> bytes -> result Z.     (* SslSubprotocolMessageParser(type).parse(message bytes): consumed length *)
  Variable types : list Z.                   (* SslMessageType *)

  Definition ssl2_body (hdr rl pad : Z) (rest : bytes) : result ((Z * bytes * bytes) * Z) :=
    if zlen rest <? rl then Err (NotEnoughData (rl - zlen rest))
    else match rest with
         | [] => Err (NotEnoughData 1)
         | t :: r =>
           if negb (existsb (Z.eqb (b2z t)) types) then Err InvalidValue
           else let ml := rl - pad - 1 in
                if ml <? 0 then Err InvalidValue
                else let m := firstn (Z.to_nat ml) r in
                     let* c := msg (b2z t) m in
                     if negb (c =? ml) then Err (TooMuchData c)
                     else Ok ((b2z t, m, firstn (Z.to_nat pad) (skipn (Z.to_nat ml) r)), hdr + rl)
         end.

  Definition ssl2_parse (buf : bytes) : result ((Z * bytes * bytes) * Z) :=
    match buf with
    | [] => Err (NotEnoughData 1)
    | [_] => Err (NotEnoughData 1)
    | b0 :: b1 :: r2 =>
      if 128 <=? b2z b0 then ssl2_body 2 ((b2z b0 mod 128) * 256 + b2z b1) 0 r2
      else match r2 with
           | [] => Err (NotEnoughData 1)
           | b2 :: r3 => ssl2_body 3 ((b2z b0 mod 64) * 256 + b2z b1) (b2z b2) r3
           end
    end.

  (* the frame length the header declares, from the first two bytes *)
  Definition ssl2_declared (buf : bytes) : option Z :=
    match buf with
    | b0 :: b1 :: _ => Some (if 128 <=? b2z b0 then 2 + ((b2z b0 mod 128) * 256 + b2z b1) else 3 + ((b2z b0 mod 64) * 256 + b2z b1))
    | _ => None
    end.

  (* SslRecord.compose: always the 2-byte header; bodies of 2^15 bytes or more are refused *)
  Definition ssl2_compose (t : Z) (message : bytes) : result bytes :=
    let n := 1 + zlen message in
    if 32768 <=? n then Err InvalidValue
    else Ok (z2b (128 + n / 256) :: z2b n :: z2b t :: message).
End Ssl2.

(* the message parser of the runner: ERROR messages (a 2-byte error code of the table); the hello messages are not
   modelled (the runner says so); any other type has no registered parser *)
Definition ssl2_msg (error_codes : list Z) (t : Z) (m : bytes) : result Z :=
  if t =? 0 then
    match m with
    | a :: b :: _ => if existsb (Z.eqb (b2z a * 256 + b2z b)) error_codes then Ok 2 else Err InvalidValue
    | _ => Err (NotEnoughData (2 - zlen m))
    end
  else Err InvalidValue.
