(* The three public entry points of ParsableBaseNoABC (common/parse.py:24-42), generic over a class's _parse. *)
From Coq Require Import ZArith List Bool.
From CP Require Import Core.Bytes Core.Result.
Open Scope Z_scope.

Section Entry.
  Variable A : Type.
  Variable parse : bytes -> result (A * Z).      (* cls._parse *)

  Definition parse_immutable (buf : bytes) : result (A * Z) := parse buf.

  (* if len(parsable) > parsed_length: raise TooMuchData(parsed_length) *)
  Definition parse_exact_size (buf : bytes) : result A :=
    let* (v, n) := parse buf in if zlen buf >? n then Err (TooMuchData n) else Ok v.

  (* del parsable[:parsed_length] with Python slice semantics (n < 0 counts from the end, n > len removes all) *)
  Definition py_del_prefix (buf : bytes) (n : Z) : bytes :=
    if 0 <=? n then skipn (Z.to_nat n) buf
    else if 0 <=? zlen buf + n then skipn (Z.to_nat (zlen buf + n)) buf else buf.
  (* returns the object and what is left in the caller's bytearray; on failure the bytearray is untouched *)
  Definition parse_mutable (buf : bytes) : result (A * bytes) :=
    let* (v, n) := parse buf in Ok (v, py_del_prefix buf n).
End Entry.
