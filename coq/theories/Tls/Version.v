(* Model of cryptoparser/tls/version.py: TlsProtocolVersion comparison (functools.total_ordering over __eq__/__lt__)
   and hashing (attr.s(hash=True) over the `version` enum member). A version is represented by the 16-bit code of
   its TlsVersion member; the member table itself is generated (CPGen.Tables.tls_version_table). *)
From Coq Require Import ZArith Bool List.
Import ListNotations.
Open Scope Z_scope.

Definition TLS1_3_code : Z := 772. (* 0x0304; checked against the generated table in Lemmas/VersionOrder.v *)

Definition major (c : Z) : Z := Z.shiftr (Z.land c 65280) 8.   (* (code & 0xff00) >> 8 *)
Definition minor (c : Z) : Z := Z.land c 255.                   (* code & 0x00ff *)
Definition is_draft (c : Z) : bool := major c =? 127.           (* 0x7f *)
Definition is_google_experimental (c : Z) : bool := major c =? 126. (* 0x7e *)
Definition is_pre_release (c : Z) : bool := is_draft c || is_google_experimental c.

(* __eq__: self.version.value.code == other.version.value.code *)
Definition v_eq (a b : Z) : bool := a =? b.

(* __lt__ as in /repo after "fix: make TlsProtocolVersion ordering transitive" *)
Definition v_lt (a b : Z) : bool :=
  if major a =? major b then minor a <? minor b
  else if is_pre_release a then
         (if is_pre_release b then major a <? major b else b =? TLS1_3_code)
  else if is_pre_release b then negb (a =? TLS1_3_code)
  else major a <? major b.

(* __lt__ as in the pinned tree before the fix (kept for the refutation theorem) *)
Definition v_lt_orig (a b : Z) : bool :=
  if major a =? major b then minor a <? minor b
  else if is_draft a then b =? TLS1_3_code
  else if is_draft b then negb (a =? TLS1_3_code)
  else major a <? major b.

(* functools.total_ordering, given __lt__ and __eq__ (CPython's _le_from_lt, _gt_from_lt, _ge_from_lt) *)
Definition v_le (lt : Z -> Z -> bool) (a b : Z) : bool := lt a b || v_eq a b.
Definition v_gt (lt : Z -> Z -> bool) (a b : Z) : bool := negb (lt a b) && negb (v_eq a b).
Definition v_ge (lt : Z -> Z -> bool) (a b : Z) : bool := negb (lt a b).

(* hash(): attrs hashes the tuple of fields, i.e. the enum member, identified by its code (no two members share a
   code: side condition checked on the generated table). We model "hash-equal" as equality of the hashed key. *)
Definition v_hash_key (a : Z) : Z := a.
