(* Executable entry point used by the C17 correspondence: all ordered pairs of the generated table. *)
From Coq Require Import ZArith Bool List String.
From CP Require Import Tls.Version.
From CPGen Require Import Tables.
Import ListNotations.
Local Open Scope string_scope.

Definition bit (b : bool) : string := if b then "1" else "0".
Definition pair_bits (a b : Z) : string :=
  bit (v_lt a b) ++ bit (v_le v_lt a b) ++ bit (v_eq a b) ++ bit (v_gt v_lt a b) ++ bit (v_ge v_lt a b)
  ++ bit (Z.eqb (v_hash_key a) (v_hash_key b)).
Definition run_pairs : string :=
  String.concat "" (flat_map (fun a => map (fun b => pair_bits a b) tls_version_codes) tls_version_codes).
