(* Model of TlsHandshakeClientHello.ja3() (tls/subprotocol.py:506-541) as a function of the fields of the client hello.
   What the method sees of a hello: cipher_suites with the two signalling suites folded into boolean flags by _parse
   (subprotocol.py:460-480), the extension objects in wire order - typed classes for the payloads the library can parse,
   TlsExtensionUnparsed (whose type is a TlsInvalidTypeTwoByte, GREASE or UNKNOWN) otherwise -, and the lists held by the
   supported-groups and ec-point-formats extension objects. *)
From Coq Require Import ZArith List Bool String.
From CP Require Import Core.Bytes Core.Show Spec.PL Spec.TlsSpec Spec.Ja3.
From CPGen Require Import Tables.
Import ListNotations.
Local Open Scope string_scope.
Open Scope Z_scope.

Definition FALLBACK_SCSV : Z := 22016.                    (* 0x5600 *)
Definition EMPTY_RENEGOTIATION_INFO_SCSV : Z := 255.      (* 0x00ff *)
Definition is_scsv (c : Z) : bool := (c =? FALLBACK_SCSV) || (c =? EMPTY_RENEGOTIATION_INFO_SCSV).

Definition memzb (x : Z) (l : list Z) : bool := existsb (Z.eqb x) l.

(* the payload of the LAST extension of a type (the method's loop overwrites its list on every match) *)
Definition last_payload (ty : Z) (exts : list extension) : option bytes := first_payload ty (rev exts).

Definition ja3_impl (h : client_hello) : string :=
  let groups := match last_payload 10 (ch_extensions h) with
                | Some p => match dec_supported_groups p with Some l => l | None => [] end | None => [] end in
  let formats := match last_payload 11 (ch_extensions h) with
                 | Some p => match dec_point_formats p with Some l => l | None => [] end | None => [] end in
  String.concat "," [string_of_Z (ch_version h);
                     dashed (filter (fun c => negb (is_scsv c)) (ch_suites h));                 (* GREASE suites are kept *)
                     dashed (filter (fun c => negb (memzb c grease_two_byte)) (map fst (ch_extensions h)));
                     dashed (filter (fun c => negb (memzb c grease_two_byte)) groups);
                     dashed (filter (fun c => negb (memzb c grease_one_byte)) formats)].

(* what compose() emits for the parsed object: the signalling suites move to the end, in this order *)
Definition recompose_suites (l : list Z) : list Z :=
  filter (fun c => negb (is_scsv c)) l
  ++ (if memzb FALLBACK_SCSV l then [FALLBACK_SCSV] else []) ++ (if memzb EMPTY_RENEGOTIATION_INFO_SCSV l then [EMPTY_RENEGOTIATION_INFO_SCSV] else []).
Definition recompose (h : client_hello) : client_hello :=
  {| ch_version := ch_version h; ch_random := ch_random h; ch_session_id := ch_session_id h;
     ch_suites := recompose_suites (ch_suites h); ch_compressions := ch_compressions h; ch_extensions := ch_extensions h |}.
