(* RFC 4034 Appendix B: the key tag of a DNSKEY, computed over its RDATA, byte by byte:
     for (ac = 0, i = 0; i < keysize; ++i) ac += (i & 1) ? key[i] : key[i] << 8;
     ac += (ac >> 16) & 0xFFFF;  return ac & 0xFFFF;
   and B.1 for algorithm 1: the most significant 16 of the least significant 24 bits of the modulus. *)
From Coq Require Import ZArith List Bool.
From CP Require Import Core.Bytes.
Import ListNotations.
Open Scope Z_scope.

Fixpoint keytag_ac (i : nat) (key : bytes) : Z :=
  match key with
  | [] => 0
  | x :: r => (if Nat.odd i then b2z x else Z.shiftl (b2z x) 8) + keytag_ac (S i) r
  end.
Definition fold16 (ac : Z) : Z := Z.land (ac + Z.land (Z.shiftr ac 16) 65535) 65535.
Definition rfc4034_keytag (rdata : bytes) : Z := fold16 (keytag_ac 0 rdata).
Definition rfc4034_keytag_alg1 (modulus : Z) : Z := Z.shiftr (Z.land modulus 16777215) 8.
