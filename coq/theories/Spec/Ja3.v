(* JA3 (salesforce/ja3 README): "SSLVersion,Cipher,SSLExtension,EllipticCurve,EllipticCurvePointFormat", the decimal
   values of each section joined by "-", sections joined by ",", GREASE values (RFC 8701) ignored; applied to the wire
   bytes of a client hello through the specification decoder. Independent of the implementation's model. *)
From Coq Require Import ZArith List Bool String.
From CP Require Import Core.Bytes Core.Show Spec.PL Spec.TlsSpec.
Import ListNotations.
Local Open Scope string_scope.
Open Scope Z_scope.

(* RFC 8701: 0x0A0A, 0x1A1A, ..., 0xFAFA *)
Definition is_grease (c : Z) : bool := (Z.land c 3855 =? 2570) && (Z.shiftr c 8 =? Z.land c 255).

Definition dashed (l : list Z) : string := String.concat "-" (map string_of_Z l).

Definition first_payload (ty : Z) (exts : list extension) : option bytes :=
  match find (fun e => fst e =? ty) exts with Some e => Some (snd e) | None => None end.

Definition ja3_struct (h : client_hello) : string :=
  let groups := match first_payload 10 (ch_extensions h) with
                | Some p => match dec_supported_groups p with Some l => l | None => [] end | None => [] end in
  let formats := match first_payload 11 (ch_extensions h) with
                 | Some p => match dec_point_formats p with Some l => l | None => [] end | None => [] end in
  String.concat "," [string_of_Z (ch_version h);
                     dashed (filter (fun c => negb (is_grease c)) (ch_suites h));
                     dashed (filter (fun c => negb (is_grease c)) (map fst (ch_extensions h)));
                     dashed (filter (fun c => negb (is_grease c)) groups);
                     dashed formats].

Definition ja3_ref (wire : bytes) : option string :=
  match dec_client_hello wire with Some (h, _) => Some (ja3_struct h) | None => None end.
