(* The floor and ceiling of every TLS vector, transcribed from the RFCs (never read from the implementation):
   (class of the library that implements it, (min, max)). *)
From Coq Require Import ZArith List String.
Import ListNotations.
Local Open Scope string_scope.
Open Scope Z_scope.

Definition rfc_bounds : list (string * (Z * Z)) := [
  ("TlsCipherSuiteVector", (2, 65534));                         (* RFC 5246 7.4.1.2  CipherSuite cipher_suites<2..2^16-2> *)
  ("TlsCompressionMethodVector", (1, 255));                     (* CompressionMethod compression_methods<1..2^8-1> *)
  ("TlsSessionIdVector", (0, 32));                              (* opaque SessionID<0..32> *)
  ("TlsExtensionsClient", (0, 65535));                          (* Extension extensions<0..2^16-1> *)
  ("TlsExtensionsServer", (0, 65535));
  ("TlsECPointFormatVector", (1, 255));                         (* RFC 8422 5.1.2  ec_point_format_list<1..2^8-1> *)
  ("TlsSignatureAndHashAlgorithmVector", (2, 65534));           (* RFC 5246 7.4.1.4.1 supported_signature_algorithms<2..2^16-2> *)
  ("TlsSupportedVersionVector", (2, 254));                      (* RFC 8446 4.2.1 versions<2..254> *)
  ("TlsProtocolNameFactory", (1, 255));                         (* RFC 7301 opaque ProtocolName<1..2^8-1> *)
  ("TlsProtocolNameList", (2, 65535));                          (* protocol_name_list<2..2^16-1> *)
  ("TlsRenegotiatedConnection", (0, 255));                      (* RFC 5746 renegotiated_connection<0..255> *)
  ("TlsServerName", (1, 65535));                                (* RFC 6066 opaque HostName<1..2^16-1> *)
  ("TlsPskKeyExchangeModeVector", (1, 255));                    (* RFC 8446 4.2.9 ke_modes<1..255> *)
  ("TlsDistinguishedName", (1, 65535));                         (* RFC 5246 7.4.4 opaque DistinguishedName<1..2^16-1> *)
  ("TlsDistinguishedNameVector", (0, 65535));                   (* certificate_authorities<0..2^16-1> *)
  ("TlsClientCertificateTypeVector", (1, 255));                 (* certificate_types<1..2^8-1> *)
  ("TlsCertificateCompressionAlgorithmVector", (2, 254));       (* RFC 8879 algorithms<2..2^8-2> *)
  ("TlsKeyShareEntryVector", (0, 65535));                       (* RFC 8446 4.2.8 client_shares<0..2^16-1> *)
  ("TlsCertificateStatusRequestResponderIdList", (0, 65535));   (* RFC 6066 8 responder_id_list<0..2^16-1> *)
  ("TlsCertificateStatusRequestResponderId", (1, 65535));       (* opaque ResponderID<1..2^16-1> *)
  ("TlsCertificateStatusRequestExtensions", (0, 65535));        (* opaque Extensions<0..2^16-1> *)
  ("TlsKeyExchangeVector", (1, 65535))                          (* RFC 8446 4.2.8 opaque key_exchange<1..2^16-1> *)
].

(* vectors whose floor in the library differs from the RFC (the ceiling, which sizes the prefix, agrees):
   (class, RFC (min, max)) - recorded as observations in DESIGN.md *)
Definition rfc_ceilings_only : list (string * (Z * Z)) := [
  ("TlsEllipticCurveVector", (2, 65535));                       (* RFC 8422 5.1.1 named_curve_list<2..2^16-1>; library floor 1 *)
  ("TlsCertificates", (0, 16777215))                            (* RFC 5246 7.4.2 certificate_list<0..2^24-1>; library floor 1 *)
].
