(* Specification side of the text-field properties: what a separator list means (split, trim, drop empty elements),
   what a spelling of an item list is (white space around items, empty elements anywhere), and what
   _parse_basic_params is supposed to compute (a case-insensitive lookup per attribute).  Definitions only. *)
From Coq Require Import ZArith List Bool.
From Coq.Strings Require Import Byte.
From CP Require Import Core.Bytes Core.Result Text.Field.
Import ListNotations.
Open Scope Z_scope.

Fixpoint split (s : byte) (l : bytes) : list bytes :=
  match l with
  | [] => [[]]
  | c :: r =>
    if Byte.eqb c s then [] :: split s r
    else match split s r with h :: t => (c :: h) :: t | [] => [[c]] end
  end.
Definition strip (l : bytes) : bytes := rstrip_ws (skip_ws l).
Definition nonempty (l : bytes) : bool := match l with [] => false | _ => true end.
Definition tokens_spec (s : byte) (l : bytes) : list bytes := filter nonempty (map strip (split s l)).

(* spellings: a separator-joined sequence of segments; a segment is white space only (an empty list element) or an
   item with white space on both sides *)
Inductive seg := Empty (w : bytes) | Item (w1 item w2 : bytes).
Definition seg_bytes (g : seg) : bytes := match g with Empty w => w | Item a i b => a ++ i ++ b end.
Fixpoint join (s : byte) (l : list bytes) : bytes :=
  match l with [] => [] | [x] => x | x :: r => x ++ s :: join s r end.
Definition seg_items (l : list seg) : list bytes :=
  flat_map (fun g => match g with Empty _ => [] | Item _ i _ => [i] end) l.
Definition spell (s : byte) (l : list seg) : bytes := join s (map seg_bytes l).

Definition all_ws (w : bytes) : bool := forallb is_ws w.
Definition no_sep (s : byte) (l : bytes) : bool := forallb (fun c => negb (Byte.eqb c s)) l.
(* an item: not empty, free of the separator, neither starting nor ending with white space *)
Definition item_ok (s : byte) (i : bytes) : bool :=
  nonempty i && no_sep s i
  && match i with c :: _ => negb (is_ws c) | [] => false end
  && match rev i with c :: _ => negb (is_ws c) | [] => false end.
Definition seg_ok (s : byte) (g : seg) : bool :=
  match g with
  | Empty w => all_ws w
  | Item a i b => all_ws a && item_ok s i && all_ws b
  end.

(* the canonical spelling written by compose: items joined by the separator and one space *)
Definition canonical_segs (items : list bytes) : list seg :=
  match items with
  | [] => []
  | i :: r => Item [] i [] :: map (fun x => Item [SP] x []) r
  end.

(* ---- _parse_basic_params ---- *)
Definition lookup_ci (canon : bytes) (d : list comp) : option comp := find_comp Insens canon d.
Definition raw_of (canon : bytes) (kv : comp) : bytes :=
  match snd kv with None => fst kv | Some x => canon ++ EQS :: x end.
Definition params_spec (sch : list fattr) (d : list comp) : list (option bytes) :=
  map (fun a => option_map (raw_of (fa_canon a)) (lookup_ci (fa_canon a) d)) sch.
(* the spelling-free content of the result: per attribute, absent / present without value / present with value *)
Definition params_abs (sch : list fattr) (d : list comp) : list (option (option bytes)) :=
  map (fun a => option_map snd (lookup_ci (fa_canon a) d)) sch.
Definition known_name (sch : list fattr) (k : bytes) : bool :=
  existsb (fun a => check_name Insens (fa_canon a) k) sch.
Definition leftover_spec (sch : list fattr) (d : list comp) : list comp :=
  filter (fun kv => negb (known_name sch (fst kv))) d.
Definition required_present (sch : list fattr) (d : list comp) : bool :=
  forallb (fun a => implb (fa_required a) (match lookup_ci (fa_canon a) d with Some _ => true | None => false end)) sch.

Definition all_insens (sch : list fattr) : bool :=
  forallb (fun a => match fa_mode a with Insens => true | _ => false end) sch.
Definition lnames (d : list comp) : list bytes := map (fun kv => lower (fst kv)) d.
Definition lcanons (sch : list fattr) : list bytes := map (fun a => lower (fa_canon a)) sch.

(* two component lists that differ only in the letter case of the names *)
Definition same_upto_case (d1 d2 : list comp) : Prop :=
  Forall2 (fun a b => lower (fst a) = lower (fst b) /\ snd a = snd b) d1 d2.
