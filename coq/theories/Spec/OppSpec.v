(* Opportunistic-TLS application messages, written from their specifications: ITU-T X.224 (COTP CR/CC TPDU),
   MS-RDPBCGR 2.2.1.1.1 / 2.2.1.2.1 (RDP negotiation request / response), RFC 1006 (TPKT), the MySQL client/server protocol
   (packet header, SSLRequest), OpenVPN's control channel packet header, PostgreSQL SSLRequest. Independent of the model. *)
From Coq Require Import ZArith List Bool.
From CP Require Import Core.Bytes Spec.PL Spec.TlsSpec.
Import ListNotations.
Open Scope Z_scope.

Definition enc_uint_le (w : nat) (z : Z) : bytes := le_enc w z.

(* RFC 1006 6: vrsn = 3, reserved = 0, packet length (2, includes the 4 header octets), TPDU *)
Definition enc_tpkt (tpdu : bytes) : option bytes :=
  if 65535 <? zlen tpdu + 4 then None else Some (enc_uint 1 3 ++ enc_uint 1 0 ++ enc_uint 2 (zlen tpdu + 4) ++ tpdu).

(* X.224 13.3 / 13.4: LI; code (CR = 1110 xxxx, CC = 1101 xxxx, CDT = 0); DST-REF (2); SRC-REF (2); class option; user data.
   LI = length of the header excluding the LI octet itself and excluding user data... for RDP the variable part is the
   negotiation data, which MS-RDPBCGR counts in LI: LI = 6 + |data| *)
Definition COTP_CR : Z := 14.
Definition COTP_CC : Z := 13.
Definition enc_cotp (code dst_ref src_ref : Z) (data : bytes) : option bytes :=
  if 255 <? 6 + zlen data then None
  else Some (enc_uint 1 (6 + zlen data) ++ enc_uint 1 (code * 16) ++ enc_uint 2 dst_ref ++ enc_uint 2 src_ref ++ enc_uint 1 0 ++ data).

(* MS-RDPBCGR: type (1: 0x01 request, 0x02 response), flags (1), length (2, little-endian, = 8), protocols (4, little-endian) *)
Definition enc_rdp_neg (ty flags protocols : Z) : bytes := enc_uint 1 ty ++ enc_uint 1 flags ++ enc_uint_le 2 8 ++ enc_uint_le 4 protocols.

Definition dec_rdp_neg (b : bytes) : option (Z * Z * Z * bytes) :=
  match b with
  | t :: f :: l0 :: l1 :: p0 :: p1 :: p2 :: p3 :: rest =>
      if (b2z l0 + 256 * b2z l1 =? 8) then Some (b2z t, b2z f, b2z p0 + 256 * (b2z p1 + 256 * (b2z p2 + 256 * b2z p3)), rest) else None
  | _ => None
  end.

(* MySQL packet: payload length (3, little-endian), sequence id (1), payload *)
Definition enc_mysql_packet (seq : Z) (payload : bytes) : option bytes :=
  if 16777215 <? zlen payload then None else Some (enc_uint_le 3 (zlen payload) ++ enc_uint 1 seq ++ payload).
(* MySQL Protocol::SSLRequest (CLIENT_PROTOCOL_41): capability flags (4, LE), max packet size (4, LE), character set (1), 23 x 00 *)
Definition enc_mysql_ssl_request41 (caps max_packet charset : Z) : bytes :=
  enc_uint_le 4 caps ++ enc_uint_le 4 max_packet ++ enc_uint 1 charset ++ repeat (z2b 0) 23.
(* pre-4.1: capability flags (2, LE), max packet size (3, LE) *)
Definition enc_mysql_ssl_request320 (caps max_packet : Z) : bytes := enc_uint_le 2 caps ++ enc_uint_le 3 max_packet.

(* MySQL Protocol::HandshakeV10 (initial handshake packet payload): protocol version 10, NUL-terminated server version,
   4-byte connection id, 8 bytes of auth-plugin-data, a zero filler, the LOWER two bytes of the capability flags, character
   set, status flags, the UPPER two bytes of the capability flags, the length of the auth-plugin-data (or zero without
   CLIENT_PLUGIN_AUTH), ten reserved zero bytes, the rest of the auth-plugin-data, the NUL-terminated plugin name. *)
Definition mysql_client_plugin_auth : Z := 524288.
Definition enc_mysql_handshake_v10 (server_version : bytes) (connection_id : Z) (auth1 : bytes) (caps charset status : Z)
    (auth2 : bytes) (plugin : option bytes) : bytes :=
  let plugin_auth := Z.testbit caps 19 in
  [z2b 10] ++ server_version ++ [z2b 0] ++ enc_uint_le 4 connection_id ++ auth1 ++ [z2b 0]
  ++ enc_uint_le 2 (caps mod 65536) ++ [z2b charset] ++ enc_uint_le 2 status ++ enc_uint_le 2 (caps / 65536)
  ++ [z2b (if plugin_auth then 8 + zlen auth2 else 0)] ++ repeat (z2b 0) 10 ++ auth2
  ++ match plugin with Some p => if plugin_auth then p ++ [z2b 0] else [] | None => [] end.

(* OpenVPN control channel: opcode (5 bits) | key id (3 bits); session id (8); ack array length (1); acks (4 each) and the
   remote session id (8) when the array is not empty; for control packets: packet id (4); payload. TCP: 2-byte length prefix *)
Definition enc_openvpn_header (opcode session : Z) (acks : list Z) (remote : Z) : bytes :=
  enc_uint 1 (opcode * 8) ++ enc_uint 8 session ++ enc_uint 1 (zlen acks) ++
  match acks with [] => [] | _ => enc_items 4 acks ++ enc_uint 8 remote end.
Definition enc_openvpn_control (opcode session : Z) (acks : list Z) (remote packet_id : Z) (payload : bytes) : bytes :=
  enc_openvpn_header opcode session acks remote ++ enc_uint 4 packet_id ++ payload.
Definition enc_openvpn_tcp (packet : bytes) : option bytes := enc_opaque 0 65535 packet.

(* PostgreSQL SSLRequest: Int32(8) length, Int32(80877103) code *)
Definition enc_pg_ssl_request : bytes := enc_uint 4 8 ++ enc_uint 4 80877103.

(* the other control-channel packets: P_ACK_V1 (opcode 5) is the header alone; P_CONTROL_HARD_RESET_CLIENT_V2 (7) has no
   acknowledgements and a packet id; P_CONTROL_HARD_RESET_SERVER_V2 (8) is header and packet id *)
Definition enc_openvpn_ack (session : Z) (acks : list Z) (remote : Z) : bytes := enc_openvpn_header 5 session acks remote.
Definition enc_openvpn_hard_reset_client (session packet_id : Z) : bytes :=
  enc_openvpn_header 7 session [] 0 ++ enc_uint 4 packet_id.
Definition enc_openvpn_hard_reset_server (session : Z) (acks : list Z) (remote packet_id : Z) : bytes :=
  enc_openvpn_header 8 session acks remote ++ enc_uint 4 packet_id.

(* reading the header back: opcode (the key id in the low three bits is not part of it), session id, acknowledged packet
   ids, and the remote session id exactly when there are acknowledgements; what follows the header is returned as is *)
Definition dec_openvpn_header (b : bytes) : option (Z * Z * list Z * option Z * bytes) :=
  let? (t, r0) := dec_uint 1 b in
  let? (s, r1) := dec_uint 8 r0 in
  let? (n, r2) := dec_uint 1 r1 in
  if n =? 0 then Some (t / 8, s, [], None, r2)
  else if zlen r2 <? 4 * n + 8 then None
  else let k := Z.to_nat (4 * n) in
       let? acks := dec_items 4 (S k) (firstn k r2) in
       let? (rs, r3) := dec_uint 8 (skipn k r2) in
       Some (t / 8, s, acks, Some rs, r3).
