(* SSH transport-layer messages as the RFCs lay them out, written in a small layout language of the RFC 4251 section 5
   data types (byte, boolean, uint32, string, mpint) so that one decoder and one theorem serve every message:
     RFC 4253 11.1  SSH_MSG_DISCONNECT     byte 1,  uint32 reason code, string description (UTF-8), string language tag
     RFC 4253 11.4  SSH_MSG_UNIMPLEMENTED  byte 3,  uint32 packet sequence number of rejected message
     RFC 4253 7.3   SSH_MSG_NEWKEYS        byte 21
     RFC 4253 8     SSH_MSG_KEXDH_INIT     byte 30, mpint e
                    SSH_MSG_KEXDH_REPLY    byte 31, string K_S, mpint f, string signature of H
     RFC 4419 3     SSH_MSG_KEX_DH_GEX_REQUEST byte 34, uint32 min, uint32 n, uint32 max
                    SSH_MSG_KEX_DH_GEX_GROUP   byte 31, mpint p, mpint g
                    SSH_MSG_KEX_DH_GEX_INIT    byte 32, mpint e
                    SSH_MSG_KEX_DH_GEX_REPLY   byte 33, string K_S, mpint f, string signature of H
   Independent of the model of the implementation. *)
From Coq Require Import ZArith List Bool.
From CP Require Import Core.Bytes Spec.PL Spec.TlsSpec Spec.SshSpec.
Import ListNotations.
Open Scope Z_scope.

Inductive sfield : Type :=
| FByte (z : Z)
| FBool (b : bool)
| FU32 (z : Z)
| FStr (s : bytes)
| FMpint (z : Z).

Inductive skind : Type := KByte | KBool | KU32 | KStr | KMpint.

Definition kind_of (f : sfield) : skind :=
  match f with FByte _ => KByte | FBool _ => KBool | FU32 _ => KU32 | FStr _ => KStr | FMpint _ => KMpint end.

Definition enc_field (f : sfield) : bytes :=
  match f with
  | FByte z => enc_uint 1 z
  | FBool b => enc_uint 1 (if b then 1 else 0)
  | FU32 z => enc_uint 4 z
  | FStr s => enc_string s
  | FMpint z => enc_mpint z
  end.
Definition enc_fields (l : list sfield) : bytes := concat (map enc_field l).

(* two's complement value of an mpint payload; the empty string is zero *)
Definition mpint_value (s : bytes) : Z :=
  match s with
  | [] => 0
  | x :: _ => if 128 <=? b2z x then be_val s - 256 ^ zlen s else be_val s
  end.

Definition dec_field (k : skind) (b : bytes) : option (sfield * bytes) :=
  match k with
  | KByte => let? (z, r) := dec_uint 1 b in Some (FByte z, r)
  | KBool => let? (z, r) := dec_uint 1 b in Some (FBool (negb (z =? 0)), r)   (* RFC 4251: all non-zero values are TRUE *)
  | KU32 => let? (z, r) := dec_uint 4 b in Some (FU32 z, r)
  | KStr => let? (s, r) := dec_string b in Some (FStr s, r)
  | KMpint => let? (s, r) := dec_string b in Some (FMpint (mpint_value s), r)
  end.
Fixpoint dec_fields (ks : list skind) (b : bytes) : option (list sfield * bytes) :=
  match ks with
  | [] => Some ([], b)
  | k :: ks' => let? (f, r) := dec_field k b in let? (fs, r') := dec_fields ks' r in Some (f :: fs, r')
  end.

(* what a field must satisfy to be encodable at all *)
Definition field_ok (f : sfield) : Prop :=
  match f with
  | FByte z => 0 <= z < 256
  | FBool _ => True
  | FU32 z => 0 <= z < 4294967296
  | FStr s => zlen s < 4294967296
  | FMpint z => 0 <= z /\ zlen (mpint_payload z) < 4294967296
  end.

(* the messages *)
Definition msg_disconnect (reason : Z) (description language : bytes) : list sfield :=
  [FByte 1; FU32 reason; FStr description; FStr language].
Definition msg_unimplemented (seq : Z) : list sfield := [FByte 3; FU32 seq].
Definition msg_newkeys : list sfield := [FByte 21].
Definition msg_kexdh_init (e : Z) : list sfield := [FByte 30; FMpint e].
Definition msg_kexdh_reply (ks : bytes) (f : Z) (sig : bytes) : list sfield := [FByte 31; FStr ks; FMpint f; FStr sig].
Definition msg_gex_request (mn n mx : Z) : list sfield := [FByte 34; FU32 mn; FU32 n; FU32 mx].
Definition msg_gex_group (p g : Z) : list sfield := [FByte 31; FMpint p; FMpint g].
Definition msg_gex_init (e : Z) : list sfield := [FByte 32; FMpint e].
Definition msg_gex_reply (ks : bytes) (f : Z) (sig : bytes) : list sfield := [FByte 33; FStr ks; FMpint f; FStr sig].

(* the kinds of each message by its number within its key-exchange context: before the key exchange only DISCONNECT and
   UNIMPLEMENTED (KEXINIT, message 20, has its own decoder in Spec/SshSpec.v), NEWKEYS ends either exchange (31 is KEXDH_REPLY in a fixed-group exchange
   and KEX_DH_GEX_GROUP in a group exchange: RFC 4419 section 5) *)
Definition kinds_init (t : Z) : option (list skind) :=
  if t =? 1 then Some [KByte; KU32; KStr; KStr]
  else if t =? 3 then Some [KByte; KU32]
  else None.
Definition kinds_kexdh (t : Z) : option (list skind) :=
  if t =? 30 then Some [KByte; KMpint]
  else if t =? 31 then Some [KByte; KStr; KMpint; KStr]
  else if t =? 21 then Some [KByte]
  else kinds_init t.
Definition kinds_gex (t : Z) : option (list skind) :=
  if t =? 34 then Some [KByte; KU32; KU32; KU32]
  else if t =? 31 then Some [KByte; KMpint; KMpint]
  else if t =? 32 then Some [KByte; KMpint]
  else if t =? 33 then Some [KByte; KStr; KMpint; KStr]
  else if t =? 21 then Some [KByte]
  else kinds_init t.

Definition dec_msg (kinds : Z -> option (list skind)) (b : bytes) : option (list sfield * bytes) :=
  match b with
  | [] => None
  | t :: _ => let? ks := kinds (b2z t) in dec_fields ks b
  end.
