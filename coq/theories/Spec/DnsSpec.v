(* DNS RDATA wire formats written from RFC 1035 (names, MX, TXT), RFC 4034 (DNSKEY, DS, RRSIG) and RFC 3110 (RSA keys).
   Independent of the model of the implementation. *)
From Coq Require Import ZArith List Bool.
From CP Require Import Core.Bytes Spec.PL Spec.TlsSpec.
Import ListNotations.
Open Scope Z_scope.

(* RFC 1035 3.1: a sequence of labels, each a length octet followed by that number of octets, terminated by a zero length *)
Fixpoint enc_labels (labels : list bytes) : option bytes :=
  match labels with
  | [] => Some (enc_uint 1 0)
  | l :: r => if (1 <=? zlen l) && (zlen l <=? 63) then let? rest := enc_labels r in Some (enc_uint 1 (zlen l) ++ l ++ rest) else None
  end.
Fixpoint dec_labels (fuel : nat) (b : bytes) : option (list bytes * bytes) :=
  match fuel with
  | O => None
  | S f => let? (n, r) := dec_uint 1 b in
           if n =? 0 then Some ([], r)
           else if zlen r <? n then None
           else let? (ls, r') := dec_labels f (skipn (Z.to_nat n) r) in Some (firstn (Z.to_nat n) r :: ls, r')
  end.

(* RFC 4034 5.1: key tag (2), algorithm (1), digest type (1), digest *)
Definition enc_ds (key_tag alg dtype : Z) (digest : bytes) : bytes := enc_uint 2 key_tag ++ enc_uint 1 alg ++ enc_uint 1 dtype ++ digest.
Definition dec_ds (b : bytes) : option (Z * Z * Z * bytes) :=
  let? (kt, r1) := dec_uint 2 b in let? (a, r2) := dec_uint 1 r1 in let? (d, r3) := dec_uint 1 r2 in Some (kt, a, d, r3).
(* RFC 1035 3.3.9: preference (2), exchange *)
Definition enc_mx (pref : Z) (exchange : list bytes) : option bytes := let? n := enc_labels exchange in Some (enc_uint 2 pref ++ n).
(* decoding: the exchange is a whole name and nothing follows it; the root name (a single zero octet) is a name like any other
   (RFC 7505: "MX 0 ." is the null MX) *)
Definition dec_mx (b : bytes) : option (Z * list bytes) :=
  let? (p, r) := dec_uint 2 b in
  let? (ls, r') := dec_labels (S (length r)) r in
  if zlen r' =? 0 then Some (p, ls) else None.
(* RFC 1035 3.3.14: TXT-DATA is one or more <character-string>s (3.3: a length octet and up to 255 octets).  A text of up to 255
   octets is one string; a longer one is carried in strings of 255 octets and a last, shorter, one.  Decoding concatenates the
   strings of the whole RDATA, which must hold at least one. *)
Fixpoint txt_chunks (fuel : nat) (s : bytes) : list bytes :=
  match fuel with
  | O => [s]
  | S f => if zlen s <=? 255 then [s] else firstn 255 s :: txt_chunks f (skipn 255 s)
  end.
Fixpoint enc_strings (l : list bytes) : option bytes :=
  match l with [] => Some [] | x :: r => let? a := enc_opaque 0 255 x in let? b := enc_strings r in Some (a ++ b) end.
Definition enc_txt (s : bytes) : option bytes := enc_strings (txt_chunks (length s) s).
Fixpoint dec_strings (fuel : nat) (b : bytes) : option bytes :=
  match fuel with
  | O => None
  | S f => if zlen b =? 0 then Some [] else let? (x, r) := dec_opaque 0 255 b in let? rest := dec_strings f r in Some (x ++ rest)
  end.
Definition dec_txt (b : bytes) : option bytes := if zlen b =? 0 then None else dec_strings (S (length b)) b.
(* RFC 4034 3.1: type covered (2), algorithm (1), labels (1), original TTL (4), expiration (4), inception (4), key tag (2),
   signer's name, signature *)
Definition enc_rrsig (ty alg labels ttl expiration inception key_tag : Z) (signer : list bytes) (sig : bytes) : option bytes :=
  let? n := enc_labels signer in
  Some (enc_uint 2 ty ++ enc_uint 1 alg ++ enc_uint 1 labels ++ enc_uint 4 ttl ++ enc_uint 4 expiration ++ enc_uint 4 inception
        ++ enc_uint 2 key_tag ++ n ++ sig).
(* RFC 4034 2.1: flags (2), protocol (1) = 3, algorithm (1), public key *)
Definition enc_dnskey (flags alg : Z) (key : bytes) : bytes := enc_uint 2 flags ++ enc_uint 1 3 ++ enc_uint 1 alg ++ key.
(* RFC 3110 2: exponent length as one octet, or zero followed by two octets when it exceeds 255; exponent; modulus *)
Definition min_be (z : Z) : bytes := (* big-endian without leading zero octets *)
  let n := Z.to_nat ((Z.log2 z + 8) / 8) in if z =? 0 then [] else be_enc n z.
Definition enc_rsa_key (exponent : Z) (modulus_bytes : bytes) : bytes :=
  let e := min_be exponent in
  (if zlen e <=? 255 then enc_uint 1 (zlen e) else enc_uint 1 0 ++ enc_uint 2 (zlen e)) ++ e ++ modulus_bytes.

(* RFC 6605 4: "ECDSA public keys consist of a single value, called "Q" in FIPS 186-3. In DNSSEC keys, Q is a simple bit
   string that represents the uncompressed form of a curve point, "x | y"": 2 x 32 octets on curve P-256 for algorithm 13,
   2 x 48 octets on curve P-384 for algorithm 14.  RFC 8080 3: 32 octets (Ed25519, algorithm 15), 57 octets (Ed448, 16). *)
Definition ecdsa_size (alg : Z) : option nat :=
  if alg =? 13 then Some 32%nat else if alg =? 14 then Some 48%nat else None.
Definition enc_ecdsa_key (alg x y : Z) : option bytes :=
  let? n := ecdsa_size alg in
  if (0 <=? x) && (x <? 256 ^ Z.of_nat n) && (0 <=? y) && (y <? 256 ^ Z.of_nat n) then Some (be_enc n x ++ be_enc n y) else None.
Definition dec_ecdsa_key (alg : Z) (k : bytes) : option (Z * Z) :=
  let? n := ecdsa_size alg in
  if zlen k =? 2 * Z.of_nat n then Some (be_val (firstn n k), be_val (skipn n k)) else None.
Definition eddsa_size (alg : Z) : option Z := if alg =? 15 then Some 32 else if alg =? 16 then Some 57 else None.
Definition enc_eddsa_key (alg : Z) (k : bytes) : option bytes :=
  let? n := eddsa_size alg in if zlen k =? n then Some k else None.
(* the curve an ECDSA algorithm number stands for, by the arcs of its object identifier: P-256 is secp256r1 / prime256v1
   (1.2.840.10045.3.1.7), P-384 is secp384r1 (1.3.132.0.34) *)
Definition ecdsa_curve_oid (alg : Z) : option (list Z) :=
  if alg =? 13 then Some [1; 2; 840; 10045; 3; 1; 7] else if alg =? 14 then Some [1; 3; 132; 0; 34] else None.
(* RFC 4034 2.1 read back: flags, protocol, algorithm, key *)
Definition dec_dnskey (b : bytes) : option (Z * Z * Z * bytes) :=
  let? (f, r1) := dec_uint 2 b in let? (p, r2) := dec_uint 1 r1 in let? (a, r3) := dec_uint 1 r2 in Some (f, p, a, r3).
