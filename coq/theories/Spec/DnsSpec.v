(* DNS RDATA wire formats written from RFC 1035 (names, MX, TXT), RFC 4034 (DNSKEY, DS, RRSIG) and RFC 3110 (RSA keys).
   Independent of the model of the implementation. *)
From Coq Require Import ZArith List Bool.
From CP Require Import Core.Bytes Spec.PL Spec.TlsSpec.
Import ListNotations.
Open Scope Z_scope.

(* RFC 1035 3.1: a sequence of labels, each a length octet followed by that number of octets, terminated by a zero length *)
Fixpoint enc_labels (labels : list bytes) : option bytes :=
  match labels with
  | [] => Some (enc_uint 1 0)
  | l :: r => if (1 <=? zlen l) && (zlen l <=? 63) then let? rest := enc_labels r in Some (enc_uint 1 (zlen l) ++ l ++ rest) else None
  end.
Fixpoint dec_labels (fuel : nat) (b : bytes) : option (list bytes * bytes) :=
  match fuel with
  | O => None
  | S f => let? (n, r) := dec_uint 1 b in
           if n =? 0 then Some ([], r)
           else if zlen r <? n then None
           else let? (ls, r') := dec_labels f (skipn (Z.to_nat n) r) in Some (firstn (Z.to_nat n) r :: ls, r')
  end.

(* RFC 4034 5.1: key tag (2), algorithm (1), digest type (1), digest *)
Definition enc_ds (key_tag alg dtype : Z) (digest : bytes) : bytes := enc_uint 2 key_tag ++ enc_uint 1 alg ++ enc_uint 1 dtype ++ digest.
Definition dec_ds (b : bytes) : option (Z * Z * Z * bytes) :=
  let? (kt, r1) := dec_uint 2 b in let? (a, r2) := dec_uint 1 r1 in let? (d, r3) := dec_uint 1 r2 in Some (kt, a, d, r3).
(* RFC 1035 3.3.9: preference (2), exchange *)
Definition enc_mx (pref : Z) (exchange : list bytes) : option bytes := let? n := enc_labels exchange in Some (enc_uint 2 pref ++ n).
(* RFC 1035 3.3.14: one or more <character-string>s; a single string of at most 255 octets *)
Definition enc_txt (s : bytes) : option bytes := enc_opaque 0 255 s.
(* RFC 4034 3.1: type covered (2), algorithm (1), labels (1), original TTL (4), expiration (4), inception (4), key tag (2),
   signer's name, signature *)
Definition enc_rrsig (ty alg labels ttl expiration inception key_tag : Z) (signer : list bytes) (sig : bytes) : option bytes :=
  let? n := enc_labels signer in
  Some (enc_uint 2 ty ++ enc_uint 1 alg ++ enc_uint 1 labels ++ enc_uint 4 ttl ++ enc_uint 4 expiration ++ enc_uint 4 inception
        ++ enc_uint 2 key_tag ++ n ++ sig).
(* RFC 4034 2.1: flags (2), protocol (1) = 3, algorithm (1), public key *)
Definition enc_dnskey (flags alg : Z) (key : bytes) : bytes := enc_uint 2 flags ++ enc_uint 1 3 ++ enc_uint 1 alg ++ key.
(* RFC 3110 2: exponent length as one octet, or zero followed by two octets when it exceeds 255; exponent; modulus *)
Definition min_be (z : Z) : bytes := (* big-endian without leading zero octets *)
  let n := Z.to_nat ((Z.log2 z + 8) / 8) in if z =? 0 then [] else be_enc n z.
Definition enc_rsa_key (exponent : Z) (modulus_bytes : bytes) : bytes :=
  let e := min_be exponent in
  (if zlen e <=? 255 then enc_uint 1 (zlen e) else enc_uint 1 0 ++ enc_uint 2 (zlen e)) ++ e ++ modulus_bytes.
