(* TLS structures encoded as RFC 5246 / RFC 8446 / RFC 6066 / RFC 8422 / RFC 7301 lay them out, written with the
   presentation-language library (Spec/PL.v) and nothing from the model of the implementation. *)
From Coq Require Import ZArith List Bool.
From CP Require Import Core.Bytes Spec.PL.
Import ListNotations.
Open Scope Z_scope.

Definition obind {A B} (o : option A) (f : A -> option B) : option B := match o with Some a => f a | None => None end.
Notation "'let?' x ':=' o 'in' k" := (obind o (fun x => k)) (at level 200, x pattern, o at level 100, k at level 200).

(* struct { ContentType type; ProtocolVersion version; uint16 length; opaque fragment[length]; } TLSPlaintext *)
Definition enc_record (ct ver : Z) (fragment : bytes) : option bytes :=
  let? f := enc_opaque 0 65535 fragment in Some (enc_uint 1 ct ++ enc_uint 2 ver ++ f).

(* struct { AlertLevel level; AlertDescription description; } Alert *)
Definition enc_alert (level desc : Z) : bytes := enc_uint 1 level ++ enc_uint 1 desc.
(* struct { enum { change_cipher_spec(1) } type; } ChangeCipherSpec *)
Definition enc_ccs : bytes := enc_uint 1 1.

(* struct { HandshakeType msg_type; uint24 length; body } Handshake *)
Definition enc_handshake (ty : Z) (body : bytes) : option bytes :=
  let? b := enc_opaque 0 16777215 body in Some (enc_uint 1 ty ++ b).
Definition dec_handshake (ty : Z) (b : bytes) : option (bytes * bytes) :=
  let? (t, r) := dec_uint 1 b in if t =? ty then dec_opaque 0 16777215 r else None.

(* struct { ExtensionType extension_type; opaque extension_data<0..2^16-1>; } Extension *)
Definition extension := (Z * bytes)%type.
Definition enc_extension (e : extension) : option bytes :=
  let? d := enc_opaque 0 65535 (snd e) in Some (enc_uint 2 (fst e) ++ d).
Fixpoint enc_extension_list (l : list extension) : option bytes :=
  match l with
  | [] => Some []
  | e :: r => let? a := enc_extension e in let? b := enc_extension_list r in Some (a ++ b)
  end.
Fixpoint dec_extension_list (fuel : nat) (b : bytes) : option (list extension) :=
  match b with
  | [] => Some []
  | _ :: _ =>
    match fuel with
    | O => None
    | S f => let? (t, r) := dec_uint 2 b in let? (d, r') := dec_opaque 0 65535 r in
             let? l := dec_extension_list f r' in Some ((t, d) :: l)
    end
  end.
(* Extension extensions<0..2^16-1>, present only when there is at least one (RFC 5246 7.4.1.2) *)
Definition enc_extensions_block (l : list extension) : option bytes :=
  match l with
  | [] => Some []
  | _ => let? body := enc_extension_list l in enc_opaque 0 65535 body
  end.
Definition dec_extensions_block (b : bytes) : option (list extension) :=
  match b with
  | [] => Some []
  | _ => let? (body, r) := dec_opaque 0 65535 b in
         match r with [] => dec_extension_list (S (length body)) body | _ => None end
  end.

(* struct { ProtocolVersion client_version; Random random; SessionID session_id<0..32>;
            CipherSuite cipher_suites<2..2^16-2>; CompressionMethod compression_methods<1..2^8-1>;
            select (extensions_present) { ... Extension extensions<0..2^16-1>; } } ClientHello *)
Record client_hello := { ch_version : Z; ch_random : bytes; ch_session_id : bytes; ch_suites : list Z;
                         ch_compressions : list Z; ch_extensions : list extension }.
Definition enc_client_hello_body (h : client_hello) : option bytes :=
  if negb (zlen (ch_random h) =? 32) then None else
  let? sid := enc_opaque 0 32 (ch_session_id h) in
  let? cs := enc_uint_vec 2 2 65534 (ch_suites h) in
  let? cm := enc_uint_vec 1 1 255 (ch_compressions h) in
  let? ex := enc_extensions_block (ch_extensions h) in
  Some (enc_uint 2 (ch_version h) ++ ch_random h ++ sid ++ cs ++ cm ++ ex).
Definition enc_client_hello (h : client_hello) : option bytes :=
  let? body := enc_client_hello_body h in enc_handshake 1 body.
Definition dec_client_hello_body (b : bytes) : option client_hello :=
  let? (ver, r0) := dec_uint 2 b in
  if Nat.ltb (length r0) 32 then None else
  let rnd := firstn 32 r0 in let r1 := skipn 32 r0 in
  let? (sid, r2) := dec_opaque 0 32 r1 in
  let? (cs, r3) := dec_uint_vec 2 2 65534 r2 in
  let? (cm, r4) := dec_uint_vec 1 1 255 r3 in
  let? ex := dec_extensions_block r4 in
  Some {| ch_version := ver; ch_random := rnd; ch_session_id := sid; ch_suites := cs; ch_compressions := cm; ch_extensions := ex |}.
Definition dec_client_hello (b : bytes) : option (client_hello * bytes) :=
  let? (body, r) := dec_handshake 1 b in let? h := dec_client_hello_body body in Some (h, r).

(* struct { ProtocolVersion server_version; Random random; SessionID session_id<0..32>; CipherSuite cipher_suite;
            CompressionMethod compression_method; select (extensions_present) {...} } ServerHello *)
Record server_hello := { sh_version : Z; sh_random : bytes; sh_session_id : bytes; sh_suite : Z; sh_compression : Z;
                         sh_extensions : list extension }.
Definition enc_server_hello (h : server_hello) : option bytes :=
  if negb (zlen (sh_random h) =? 32) then None else
  let? sid := enc_opaque 0 32 (sh_session_id h) in
  let? ex := enc_extensions_block (sh_extensions h) in
  enc_handshake 2 (enc_uint 2 (sh_version h) ++ sh_random h ++ sid ++ enc_uint 2 (sh_suite h) ++ enc_uint 1 (sh_compression h) ++ ex).

Definition dec_server_hello_body (b : bytes) : option server_hello :=
  let? (ver, r0) := dec_uint 2 b in
  if Nat.ltb (length r0) 32 then None else
  let rnd := firstn 32 r0 in let r1 := skipn 32 r0 in
  let? (sid, r2) := dec_opaque 0 32 r1 in
  let? (cs, r3) := dec_uint 2 r2 in
  let? (cm, r4) := dec_uint 1 r3 in
  let? ex := dec_extensions_block r4 in
  Some {| sh_version := ver; sh_random := rnd; sh_session_id := sid; sh_suite := cs; sh_compression := cm; sh_extensions := ex |}.
(* under handshake type ty: 2 for the ServerHello, 6 for the hello retry request below *)
Definition dec_server_hello_typed (ty : Z) (b : bytes) : option (server_hello * bytes) :=
  let? (body, r) := dec_handshake ty b in let? h := dec_server_hello_body body in Some (h, r).

(* The hello retry request of the library: the ServerHello layout (as in RFC 8446 4.1.4, where it is a ServerHello with a fixed
   Random) under handshake type 6, the type the TLS 1.3 drafts gave the message *)
Definition enc_hello_retry_request (h : server_hello) : option bytes :=
  if negb (zlen (sh_random h) =? 32) then None else
  let? sid := enc_opaque 0 32 (sh_session_id h) in
  let? ex := enc_extensions_block (sh_extensions h) in
  enc_handshake 6 (enc_uint 2 (sh_version h) ++ sh_random h ++ sid ++ enc_uint 2 (sh_suite h) ++ enc_uint 1 (sh_compression h) ++ ex).

(* opaque ASN.1Cert<1..2^24-1>; struct { ASN.1Cert certificate_list<0..2^24-1>; } Certificate *)
Definition enc_certificate (certs : list bytes) : option bytes :=
  let? items := enc_opaque_items 1 16777215 certs in let? l := enc_opaque 0 16777215 items in enc_handshake 11 l.
Definition enc_server_hello_done : option bytes := enc_handshake 14 [].

(* extension payloads *)
(* RFC 8422: NamedCurve named_curve_list<2..2^16-1> ; ECPointFormat ec_point_format_list<1..2^8-1> *)
Definition enc_supported_groups (l : list Z) : option bytes := enc_uint_vec 2 2 65535 l.
Definition dec_supported_groups (b : bytes) : option (list Z) :=
  match dec_uint_vec 2 2 65535 b with Some (l, []) => Some l | _ => None end.
Definition enc_point_formats (l : list Z) : option bytes := enc_uint_vec 1 1 255 l.
Definition dec_point_formats (b : bytes) : option (list Z) :=
  match dec_uint_vec 1 1 255 b with Some (l, []) => Some l | _ => None end.
(* RFC 8446 4.2.1: ProtocolVersion versions<2..254> (client) *)
Definition enc_supported_versions_client (l : list Z) : option bytes := enc_uint_vec 2 2 254 l.
(* RFC 8446 4.2.3 / RFC 5246 7.4.1.4.1: SignatureScheme supported_signature_algorithms<2..2^16-2> *)
Definition enc_signature_algorithms (l : list Z) : option bytes := enc_uint_vec 2 2 65534 l.
(* RFC 7301: opaque ProtocolName<1..2^8-1>; ProtocolName protocol_name_list<2..2^16-1> *)
Definition enc_alpn (names : list bytes) : option bytes :=
  let? items := enc_opaque_items 1 255 names in enc_opaque 2 65535 items.
(* RFC 6066: struct { NameType name_type(0); opaque HostName<1..2^16-1>; } ServerName; ServerName server_name_list<1..2^16-1> *)
Definition enc_sni (host : bytes) : option bytes :=
  let? h := enc_opaque 1 65535 host in enc_opaque 1 65535 (enc_uint 1 0 ++ h).
(* RFC 8446 4.2.9: PskKeyExchangeMode ke_modes<1..255> *)
Definition enc_psk_modes (l : list Z) : option bytes := enc_uint_vec 1 1 255 l.
(* RFC 8449: uint16 RecordSizeLimit *)
Definition enc_record_size_limit (n : Z) : bytes := enc_uint 2 n.
(* RFC 5746: opaque renegotiated_connection<0..255> *)
Definition enc_renegotiation_info (d : bytes) : option bytes := enc_opaque 0 255 d.

(* SSL 2.0 (draft-hickman-netscape-ssl-00) hello messages, without the message-type byte that the record carries.
   CLIENT-HELLO: version (2), cipher-specs length (2), session-id length (2), challenge length (2), cipher specs (3 bytes
   each), session id, challenge.
   SERVER-HELLO: session-id-hit (1), certificate type (1), version (2), certificate length (2), cipher-specs length (2),
   connection-id length (2), certificate, cipher specs, connection id. *)
Definition enc_ssl2_client_hello (version : Z) (ciphers : list Z) (session_id challenge : bytes) : bytes :=
  enc_uint 2 version ++ enc_uint 2 (3 * zlen ciphers) ++ enc_uint 2 (zlen session_id) ++ enc_uint 2 (zlen challenge)
  ++ concat (map (enc_uint 3) ciphers) ++ session_id ++ challenge.
Definition enc_ssl2_server_hello (hit cert_type version : Z) (certificate : bytes) (ciphers : list Z) (connection_id : bytes) : bytes :=
  enc_uint 1 hit ++ enc_uint 1 cert_type ++ enc_uint 2 version ++ enc_uint 2 (zlen certificate) ++ enc_uint 2 (3 * zlen ciphers)
  ++ enc_uint 2 (zlen connection_id) ++ certificate ++ concat (map (enc_uint 3) ciphers) ++ connection_id.

(* SSL 2.0 record, two-byte header (the form every implementation writes): the most significant bit set, a 15-bit record length
   (0..32767), then the record: the message type byte and the message *)
Definition enc_ssl2_record (msg_type : Z) (msg : bytes) : option bytes :=
  let n := 1 + zlen msg in
  if n <? 32768 then Some (enc_uint 2 (32768 + n) ++ enc_uint 1 msg_type ++ msg) else None.

(* RFC 5246 7.4.4 (TLS 1.2) and RFC 2246 / 4346 7.4.4 (TLS 1.0 / 1.1, no supported_signature_algorithms):
     struct { ClientCertificateType certificate_types<1..2^8-1>;
              SignatureAndHashAlgorithm supported_signature_algorithms<2..2^16-2>;
              DistinguishedName certificate_authorities<0..2^16-1>; } CertificateRequest;
     opaque DistinguishedName<1..2^16-1>;                                  handshake type 13 *)
Definition enc_certificate_request (types : list Z) (sigalgs : option (list Z)) (cas : list bytes) : option bytes :=
  let? t := enc_uint_vec 1 1 255 types in
  let? s := match sigalgs with None => Some [] | Some l => enc_uint_vec 2 2 65534 l end in
  let? items := enc_opaque_items 1 65535 cas in
  let? c := enc_opaque 0 65535 items in
  enc_handshake 13 (t ++ s ++ c).
Definition dec_certificate_request (with_sigalgs : bool) (b : bytes) : option ((list Z * option (list Z) * list bytes) * bytes) :=
  let? (body, rest) := dec_handshake 13 b in
  let? (types, r1) := dec_uint_vec 1 1 255 body in
  let? (sa, r2) := (if with_sigalgs then let? (l, r) := dec_uint_vec 2 2 65534 r1 in Some (Some l, r) else Some (None, r1)) in
  let? (cab, r3) := dec_opaque 0 65535 r2 in
  let? cas := dec_opaque_items 1 65535 (S (length cab)) cab in
  match r3 with [] => Some ((types, sa, cas), rest) | _ => None end.

(* RFC 6066 8: struct { CertificateStatusType status_type; select (status_type) { case ocsp: OCSPResponse; } response; }
   CertificateStatus;  opaque OCSPResponse<1..2^24-1>;                     handshake type 22 *)
Definition enc_certificate_status (status_type : Z) (response : bytes) : option bytes :=
  let? r := enc_opaque 1 16777215 response in enc_handshake 22 (enc_uint 1 status_type ++ r).
Definition dec_certificate_status (b : bytes) : option ((Z * bytes) * bytes) :=
  let? (body, rest) := dec_handshake 22 b in
  let? (t, r1) := dec_uint 1 body in
  let? (resp, r2) := dec_opaque 1 16777215 r1 in
  match r2 with [] => Some ((t, resp), rest) | _ => None end.
