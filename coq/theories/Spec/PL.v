(* The TLS presentation language (RFC 5246 section 4; RFC 8446 section 3) as an encoder/decoder library written from
   the RFC text, independently of the model of the implementation: uintN, opaque<lo..hi>, T v<lo..hi> with the length
   prefix sized by the ceiling. Only Core/Bytes.v (byte lists, big-endian positional value) is shared. *)
From Coq Require Import ZArith List Bool.
From CP Require Import Core.Bytes.
Import ListNotations.
Open Scope Z_scope.

(* "the length will be in the form of a number consuming as many bytes as required to hold the vector's specified
   maximum (ceiling) length" *)
Definition width_of_ceiling (hi : Z) : nat :=
  if hi <? 256 then 1 else if hi <? 65536 then 2 else if hi <? 16777216 then 3 else 4.

Definition enc_uint (w : nat) (z : Z) : bytes := be_enc w z.
Definition dec_uint (w : nat) (b : bytes) : option (Z * bytes) :=
  if Nat.ltb (length b) w then None else Some (be_val (firstn w b), skipn w b).

(* opaque v<lo..hi> *)
Definition enc_opaque (lo hi : Z) (d : bytes) : option bytes :=
  if (lo <=? zlen d) && (zlen d <=? hi) then Some (enc_uint (width_of_ceiling hi) (zlen d) ++ d) else None.
Definition dec_opaque (lo hi : Z) (b : bytes) : option (bytes * bytes) :=
  match dec_uint (width_of_ceiling hi) b with
  | None => None
  | Some (n, r) =>
      if (lo <=? n) && (n <=? hi) && (n <=? zlen r) then Some (firstn (Z.to_nat n) r, skipn (Z.to_nat n) r) else None
  end.

(* uintW v<lo..hi>: a vector of fixed-width numbers *)
Definition enc_items (w : nat) (l : list Z) : bytes := concat (map (enc_uint w) l).
Fixpoint dec_items (w : nat) (fuel : nat) (b : bytes) : option (list Z) :=
  match b with
  | [] => Some []
  | _ :: _ =>
    match fuel with
    | O => None
    | S f => match dec_uint w b with
             | None => None
             | Some (z, r) => match dec_items w f r with Some l => Some (z :: l) | None => None end
             end
    end
  end.
Definition enc_uint_vec (w : nat) (lo hi : Z) (l : list Z) : option bytes := enc_opaque lo hi (enc_items w l).
Definition dec_uint_vec (w : nat) (lo hi : Z) (b : bytes) : option (list Z * bytes) :=
  match dec_opaque lo hi b with
  | None => None
  | Some (body, r) => match dec_items w (S (length body)) body with Some l => Some (l, r) | None => None end
  end.

(* opaque items v<lo..hi> of a vector: each item itself an opaque<ilo..ihi> *)
Fixpoint enc_opaque_items (ilo ihi : Z) (l : list bytes) : option bytes :=
  match l with
  | [] => Some []
  | x :: r => match enc_opaque ilo ihi x, enc_opaque_items ilo ihi r with
              | Some a, Some b => Some (a ++ b) | _, _ => None end
  end.
Fixpoint dec_opaque_items (ilo ihi : Z) (fuel : nat) (b : bytes) : option (list bytes) :=
  match b with
  | [] => Some []
  | _ :: _ =>
    match fuel with
    | O => None
    | S f => match dec_opaque ilo ihi b with
             | None => None
             | Some (x, r) => match dec_opaque_items ilo ihi f r with Some l => Some (x :: l) | None => None end
             end
    end
  end.
