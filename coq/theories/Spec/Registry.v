(* Code points of the enumerations that cryptoparser declares itself, transcribed from the specifications (IANA TLS
   registries / RFC 5246, 8446, 6066, 4492, 8422; SSL 2.0 draft-hickman-netscape-ssl-00; RFC 4250, 4419; RFC 4034; RFC 4511;
   X.224; MS-RDPBCGR; MySQL client/server protocol; OpenVPN protocol), independently of the library.  The generated table
   CPGen.Tables.int_enum_members must give every listed member the listed code (Lemmas/RegistryTables.v): a constant that is
   wrong consistently in parse and compose is visible only against such a table.  Definitions only. *)
From Coq Require Import ZArith List String.
Import ListNotations.
Local Open Scope string_scope.
Open Scope Z_scope.

Definition registry := list (string * list (string * Z)).

Definition tls_registry : registry := [
  ("TlsContentType", [("CHANGE_CIPHER_SPEC", 20); ("ALERT", 21); ("HANDSHAKE", 22); ("APPLICATION_DATA", 23); ("HEARTBEAT", 24)]);
  ("TlsAlertLevel", [("WARNING", 1); ("FATAL", 2)]);
  (* RFC 5246 7.2 lists, besides the alerts TLS 1.3 kept, decryption_failed_RESERVED(21), decompression_failure(30),
     no_certificate_RESERVED(41), export_restriction_RESERVED(60) and no_renegotiation(100): values of the enumeration that peers of
     SSL 3.0 - TLS 1.2 send (the first transcription had followed the library in leaving them out) *)
  ("TlsAlertDescription", [("CLOSE_NOTIFY", 0); ("UNEXPECTED_MESSAGE", 10); ("BAD_RECORD_MAC", 20); ("DECRYPTION_FAILED", 21); ("RECORD_OVERFLOW", 22);
     ("DECOMPRESSION_FAILURE", 30); ("HANDSHAKE_FAILURE", 40); ("NO_CERTIFICATE", 41); ("EXPORT_RESTRICTION", 60); ("NO_RENEGOTIATION", 100); ("BAD_CERTIFICATE", 42); ("UNSUPPORTED_CERTIFICATE", 43); ("CERTIFICATE_REVOKED", 44);
     ("CERTIFICATE_EXPIRED", 45); ("CERTIFICATE_UNKNOWN", 46); ("ILLEGAL_PARAMETER", 47); ("UNKNOWN_CA", 48); ("ACCESS_DENIED", 49);
     ("DECODE_ERROR", 50); ("DECRYPT_ERROR", 51); ("PROTOCOL_VERSION", 70); ("INSUFFICIENT_SECURITY", 71); ("INTERNAL_ERROR", 80);
     ("INAPPROPRIATE_FALLBACK", 86); ("USER_CANCELED", 90); ("MISSING_EXTENSION", 109); ("UNSUPPORTED_EXTENSION", 110);
     ("CERTIFICATE_UNOBTAINABLE", 111); ("UNRECOGNIZED_NAME", 112); ("BAD_CERTIFICATE_STATUS_RESPONSE", 113);
     ("BAD_CERTIFICATE_HASH_VALUE", 114); ("UNKNOWN_PSK_IDENTITY", 115); ("CERTIFICATE_REQUIRED", 116); ("NO_APPLICATION_PROTOCOL", 120)]);
  ("TlsChangeCipherSpecType", [("CHANGE_CIPHER_SPEC", 1)]);
  ("TlsHandshakeType", [("HELLO_REQUEST", 0); ("CLIENT_HELLO", 1); ("SERVER_HELLO", 2); ("HELLO_VERIFY_REQUEST", 3); ("NEW_SESSION_TICKET", 4);
     ("HELLO_RETRY_REQUEST", 6); ("CERTIFICATE", 11); ("SERVER_KEY_EXCHANGE", 12); ("CERTIFICATE_REQUEST", 13); ("SERVER_HELLO_DONE", 14);
     ("CERTIFICATE_VERIFY", 15); ("CLIENT_KEY_EXCHANGE", 16); ("CLIENT_CERTIFICATE_REQUEST", 17); ("FINISHED", 20); ("CLIENT_CERTIFICATE_URL", 21); ("CERTIFICATE_STATUS", 22);
     ("SUPPLEMENTAL_DATA", 23); ("KEY_UPDATE", 24); ("COMPRESSED_CERTIFICATE", 25); ("EKT_KEY", 26); ("MESSAGE_HASH", 254)]);
  ("TlsClientCertificateType", [("RSA_SIGN", 1); ("DSS_SIGN", 2); ("RSA_FIXED_DH", 3); ("DSS_FIXED_DH", 4); ("ECDSA_SIGN", 64);
     ("RSA_FIXED_ECDH", 65); ("ECDSA_FIXED_ECDH", 66); ("GOST_SIGN256", 67); ("GOST_SIGN512", 68)]);
  ("TlsECCurveType", [("EXPLICIT_PRIME", 1); ("EXPLICIT_CHAR2", 2); ("NAMED_CURVE", 3)]);
  ("TlsCertificateStatusType", [("OCSP", 1)]);
  ("TlsServerNameType", [("HOST_NAME", 0)]);
  ("SslMessageType", [("ERROR", 0); ("CLIENT_HELLO", 1); ("CLIENT_MASTER_KEY", 2); ("CLIENT_FINISHED", 3); ("SERVER_HELLO", 4);
     ("SERVER_VERIFY", 5); ("SERVER_FINISHED", 6); ("REQUEST_CERTIFICATE", 7); ("CLIENT_CERTIFICATE", 8)]);
  ("SslErrorType", [("NO_CIPHER_ERROR", 1); ("NO_CERTIFICATE_ERROR", 2); ("BAD_CERTIFICATE_ERROR", 4); ("UNSUPPORTED_CERTIFICATE_TYPE_ERROR", 6)]);
  ("SslCertificateType", [("X509_CERTIFICATE", 1)]);
  ("SslAuthenticationType", [("MD5_WITH_RSA_ENCRYPTION", 1)])
].

Definition ssh_registry : registry := [
  ("SshMessageCode", [("DISCONNECT", 1); ("IGNORE", 2); ("UNIMPLEMENTED", 3); ("DEBUG", 4); ("SERVICE_REQUEST", 5); ("SERVICE_ACCEPT", 6);
     ("KEXINIT", 20); ("NEWKEYS", 21); ("DH_KEX_INIT", 30); ("DH_KEX_REPLY", 31); ("DH_GEX_GROUP", 31); ("DH_GEX_INIT", 32);
     ("DH_GEX_REPLY", 33); ("DH_GEX_REQUEST", 34)]);
  ("SshReasonCode", [("HOST_NOT_ALLOWED_TO_CONNECT", 1); ("PROTOCOL_ERROR", 2); ("KEY_EXCHANGE_FAILED", 3); ("RESERVED", 4); ("MAC_ERROR", 5);
     ("COMPRESSION_ERROR", 6); ("SERVICE_NOT_AVAILABLE", 7); ("PROTOCOL_VERSION_NOT_SUPPORTED", 8); ("HOST_KEY_NOT_VERIFIABLE", 9);
     ("CONNECTION_LOST", 10); ("BY_APPLICATION", 11); ("TOO_MANY_CONNECTIONS", 12); ("AUTH_CANCELLED_BY_USER", 13);
     ("NO_MORE_AUTH_METHODS_AVAILABLE", 14); ("ILLEGAL_USER_NAME", 15)]);
  ("SshVersion", [("SSH1", 1); ("SSH2", 2)])
].

Definition dns_registry : registry := [
  ("DnsSecFlag", [("SECURE_ENTRY_POINT", 1); ("REVOKE", 128); ("DNS_ZONE_KEY", 256)])
].

Definition opp_registry : registry := [
  ("MySQLCapability", [("CLIENT_LONG_PASSWORD", 1); ("CLIENT_FOUND_ROWS", 2); ("CLIENT_LONG_FLAG", 4); ("CLIENT_CONNECT_WITH_DB", 8);
     ("CLIENT_NO_SCHEMA", 16); ("CLIENT_COMPRESS", 32); ("CLIENT_ODBC", 64); ("CLIENT_LOCAL_FILES", 128); ("CLIENT_IGNORE_SPACE", 256);
     ("CLIENT_PROTOCOL_41", 512); ("CLIENT_INTERACTIVE", 1024); ("CLIENT_SSL", 2048); ("CLIENT_IGNORE_SIGPIPE", 4096);
     ("CLIENT_TRANSACTIONS", 8192); ("CLIENT_RESERVED", 16384); ("CLIENT_SECURE_CONNECTION", 32768); ("CLIENT_MULTI_STATEMENTS", 65536);
     ("CLIENT_MULTI_RESULTS", 131072); ("CLIENT_PS_MULTI_RESULTS", 262144); ("CLIENT_PLUGIN_AUTH", 524288); ("CLIENT_CONNECT_ATTRS", 1048576);
     ("CLIENT_PLUGIN_AUTH_LENENC_CLIENT_DATA", 2097152); ("CLIENT_CAN_HANDLE_EXPIRED_PASSWORDS", 4194304); ("CLIENT_SESSION_TRACK", 8388608);
     ("CLIENT_DEPRECATE_EOF", 16777216)]);
  ("MySQLStatusFlag", [("SERVER_STATUS_IN_TRANS", 1); ("SERVER_STATUS_AUTOCOMMIT", 2); ("SERVER_MORE_RESULTS_EXISTS", 8);
     ("SERVER_STATUS_NO_GOOD_INDEX_USED", 16); ("SERVER_STATUS_NO_INDEX_USED", 32); ("SERVER_STATUS_CURSOR_EXISTS", 64);
     ("SERVER_STATUS_LAST_ROW_SENT", 128); ("SERVER_STATUS_DB_DROPPED", 256); ("SERVER_STATUS_NO_BACKSLASH_ESCAPES", 512);
     ("SERVER_STATUS_METADATA_CHANGED", 1024); ("SERVER_QUERY_WAS_SLOW", 2048); ("SERVER_PS_OUT_PARAMS", 4096);
     ("SERVER_STATUS_IN_TRANS_READONLY", 8192); ("SERVER_SESSION_STATE_CHANGED", 16384)]);
  ("MySQLVersion", [("MYSQL_9", 9); ("MYSQL_10", 10)]);
  ("OpenVpnOpCode", [("CONTROL_V1", 4); ("ACK_V1", 5); ("HARD_RESET_CLIENT_V2", 7); ("HARD_RESET_SERVER_V2", 8)]);
  ("COTPType", [("CONNECTION_REQUEST", 14); ("CONNECTION_CONFIRM", 13); ("DISCONNECT_REQUEST", 8); ("DISCONNECT_CONFIRM", 12); ("DATA", 15);
     ("EXPEDITED_DATA", 1); ("DATA_ACKNOWLEDGEMENT", 6); ("EXPEDITED_DATA_ANOWLEDGEMENT", 2); ("REJECT", 5)]);
  ("RDPPacketType", [("NEG_REQ", 1); ("NEG_RSP", 2)]);
  ("RDPProtocol", [("RDP", 0); ("SSL", 1); ("HYBRID", 2); ("RDSTLS", 4); ("HYBRID_EX", 8)]);
  ("RDPNegotiationRequestFlags", [("RESTRICTED_ADMIN_MODE_REQUIRED", 1); ("REDIRECTED_AUTHENTICATION_MODE_REQUIRED", 2); ("CORRELATION_INFO_PRESENT", 8)]);
  ("RDPNegotiationResponseFlags", [("EXTENDED_CLIENT_DATA_SUPPORTED", 1); ("DYNVC_GFX_PROTOCOL_SUPPORTED", 2); ("NEGRSP_FLAG_RESERVED", 4);
     ("RESTRICTED_ADMIN_MODE_SUPPORTED", 8); ("REDIRECTED_AUTHENTICATION_MODE_SUPPORTED", 16)]);
  ("LDAPResultCode", [("SUCCESS", 0); ("OPERATIONS_ERROR", 1); ("PROTOCOL_ERROR", 2); ("TIME_LIMIT_EXCEEDED", 3); ("SIZE_LIMIT_EXCEEDED", 4);
     ("COMPARE_FALSE", 5); ("COMPARE_TRUE", 6); ("AUTH_METHOD_NOT_SUPPORTED", 7); ("STRONGER_AUTH_REQUIRED", 8); ("REFERRAL", 10);
     ("ADMIN_LIMIT_EXCEEDED", 11); ("UNAVAILABLE_CRITICAL_EXTENSION", 12); ("CONFIDENTIALITY_REQUIRED", 13); ("SASL_BIND_IN_PROGRESS", 14);
     ("NO_SUCH_ATTRIBUTE", 16); ("UNDEFINED_ATTRIBUTE_TYPE", 17); ("INAPPROPRIATE_MATCHING", 18); ("CONSTRAINT_VIOLATION", 19);
     ("ATTRIBUTE_OR_VALUE_EXISTS", 20); ("INVALID_ATTRIBUTE_SYNTAX", 21); ("NO_SUCH_OBJECT", 32); ("ALIAS_PROBLEM", 33); ("INVALID_DN_SYNTAX", 34);
     ("ALIAS_DEREFERENCING_PROBLEM", 36); ("INAPPROPRIATE_AUTHENTICATION", 48); ("INVALID_CREDENTIALS", 49); ("INSUFFICIENT_ACCESS_RIGHTS", 50);
     ("BUSY", 51); ("UNAVAILABLE", 52); ("UNWILLING_TO_PERFORM", 53); ("LOOP_DETECT", 54); ("NAMING_VIOLATION", 64); ("OBJECT_CLASS_VIOLATION", 65);
     ("NOT_ALLOWED_ON_NON_LEAF", 66); ("NOT_ALLOWED_ON_RDN", 67); ("ENTRY_ALREADY_EXISTS", 68); ("OBJECT_CLASS_MODS_PROHIBITED", 69);
     ("AFFECTS_MULTIPLE_DSAS", 71); ("OTHER", 80)])
].

(* every member the registry lists has, in the table of the live library, the code the registry gives *)
Definition lookup_code (tbl : list (string * list (string * Z))) (enum member : string) : option Z :=
  match find (fun t => String.eqb (fst t) enum) tbl with
  | Some (_, ms) => match find (fun m => String.eqb (fst m) member) ms with Some (_, c) => Some c | None => None end
  | None => None
  end.
Definition member_agrees (tbl : list (string * list (string * Z))) (enum : string) (m : string * Z) : bool :=
  match lookup_code tbl enum (fst m) with Some c => c =? snd m | None => false end.
Definition registry_agrees (tbl : list (string * list (string * Z))) (r : registry) : bool :=
  forallb (fun e => forallb (member_agrees tbl (fst e)) (snd e)) r.
(* ... and the library declares no member of a registered enumeration that the registry does not know *)
Definition registry_covers (tbl : list (string * list (string * Z))) (r : registry) : bool :=
  forallb (fun e => match find (fun t => String.eqb (fst t) (fst e)) tbl with
                    | Some (_, ms) => forallb (fun m => existsb (fun x => String.eqb (fst x) (fst m)) (snd e)) ms
                    | None => false
                    end) r.
