(* SSH wire formats from RFC 4251 section 5 (string, name-list, mpint, boolean), RFC 4253 (binary packet, KEXINIT,
   ssh-rsa / ssh-dss keys), RFC 8709 (ssh-ed25519), and the HASSH definition (salesforce/hassh README).
   Independent of the model of the implementation. *)
From Coq Require Import ZArith List Bool.
From CP Require Import Core.Bytes Spec.PL Spec.TlsSpec.
Import ListNotations.
Open Scope Z_scope.

Definition enc_string (b : bytes) : bytes := enc_uint 4 (zlen b) ++ b.
Definition dec_string (b : bytes) : option (bytes * bytes) :=
  let? (n, r) := dec_uint 4 b in if zlen r <? n then None else Some (firstn (Z.to_nat n) r, skipn (Z.to_nat n) r).

(* name-list: a string containing a comma-separated list of names *)
Definition comma : Byte.byte := z2b 44.
Fixpoint join (sep : bytes) (l : list bytes) : bytes :=
  match l with [] => [] | [x] => x | x :: r => x ++ sep ++ join sep r end.
Fixpoint split_acc (sep : Byte.byte) (b : bytes) (cur : bytes) : list bytes :=
  match b with
  | [] => [rev cur]
  | x :: r => if b2z x =? b2z sep then rev cur :: split_acc sep r [] else split_acc sep r (x :: cur)
  end.
Definition split (sep : Byte.byte) (b : bytes) : list bytes := match b with [] => [] | _ => split_acc sep b [] end.
Definition enc_namelist (names : list bytes) : bytes := enc_string (join [comma] names).
Definition dec_namelist (b : bytes) : option (list bytes * bytes) :=
  let? (s, r) := dec_string b in Some (split comma s, r).

(* mpint, non-negative: two's complement, big-endian, no unnecessary leading bytes, zero is the empty string *)
Definition mpint_payload (z : Z) : bytes :=
  if z =? 0 then []
  else let n := Z.to_nat (Z.log2 z / 8 + 1) in
       let m := be_enc n z in
       match m with b :: _ => if 128 <=? b2z b then z2b 0 :: m else m | [] => [] end.
Definition enc_mpint (z : Z) : bytes := enc_string (mpint_payload z).

(* RFC 4253 6: uint32 packet_length; byte padding_length; payload; random padding.
   packet_length = 1 + |payload| + padding_length; 4 <= padding_length <= 255; the total (4 + packet_length) is a
   multiple of the cipher block size or 8, whichever is larger (8 before keys are exchanged) *)
Definition packet_well_formed (payload_len padding_len packet_len : Z) : Prop :=
  packet_len = 1 + payload_len + padding_len /\ 4 <= padding_len <= 255 /\ (4 + packet_len) mod 8 = 0.

(* RFC 4253 7.1 SSH_MSG_KEXINIT: byte 20; byte[16] cookie; ten name-lists; boolean first_kex_packet_follows; uint32 0 *)
Definition enc_kexinit (cookie : bytes) (lists : list (list bytes)) (follows : bool) (reserved : Z) : option bytes :=
  if negb ((zlen cookie =? 16) && (zlen lists =? 10)) then None
  else Some (enc_uint 1 20 ++ cookie ++ concat (map enc_namelist lists) ++ enc_uint 1 (if follows then 1 else 0) ++ enc_uint 4 reserved).
Fixpoint dec_namelists (n : nat) (b : bytes) : option (list (list bytes) * bytes) :=
  match n with
  | O => Some ([], b)
  | S k => let? (l, r) := dec_namelist b in let? (ls, r') := dec_namelists k r in Some (l :: ls, r')
  end.
Definition dec_kexinit (b : bytes) : option (bytes * list (list bytes) * Z * Z) :=
  let? (t, r0) := dec_uint 1 b in
  if negb (t =? 20) then None else
  if zlen r0 <? 16 then None else
  let? (ls, r1) := dec_namelists 10 (skipn 16 r0) in
  let? (f, r2) := dec_uint 1 r1 in let? (res, _) := dec_uint 4 r2 in Some (firstn 16 r0, ls, f, res).

(* HASSH: md5 of "kex;encryption;mac;compression" with each list joined by "," in wire order *)
Definition semicolon : Byte.byte := z2b 59.
Definition hassh_text (lists : list (list bytes)) (server : bool) : bytes :=
  let pick := (if server then [0; 3; 5; 7] else [0; 2; 4; 6])%nat in
  join [semicolon] (map (fun i => join [comma] (nth i lists [])) pick).

(* public key blobs (RFC 4253 6.6, RFC 8709 4): string "ssh-rsa", mpint e, mpint n; string "ssh-dss", mpint p, q, g, y;
   string "ssh-ed25519", string key *)
Definition ascii_bytes (l : list Z) : bytes := map z2b l.
Definition name_ssh_rsa : bytes := ascii_bytes [115; 115; 104; 45; 114; 115; 97].
Definition name_ssh_dss : bytes := ascii_bytes [115; 115; 104; 45; 100; 115; 115].
Definition name_ssh_ed25519 : bytes := ascii_bytes [115; 115; 104; 45; 101; 100; 50; 53; 53; 49; 57].
(* RFC 4253 6.6 / RFC 8332: the blob of an RSA key under any key-type name is string name, mpint e, mpint n *)
Definition enc_rsa_blob_named (name : bytes) (e n : Z) : bytes := enc_string name ++ enc_mpint e ++ enc_mpint n.
Definition enc_rsa_blob (e n : Z) : bytes := enc_rsa_blob_named name_ssh_rsa e n.
Definition enc_dss_blob (p q g y : Z) : bytes := enc_string name_ssh_dss ++ enc_mpint p ++ enc_mpint q ++ enc_mpint g ++ enc_mpint y.
Definition enc_ed25519_blob (k : bytes) : bytes := enc_string name_ssh_ed25519 ++ enc_string k.
(* RFC 5656 3.1: string "ecdsa-sha2-[identifier]", string [identifier], string Q, where Q is the point in the uncompressed
   form of SEC 1 2.3.3: 04 || X || Y, each coordinate in ceil(field size in bits / 8) octets (32, 48, 66 for the nistp
   curves), leading zero octets included *)
Definition name_ecdsa_prefix : bytes := ascii_bytes [101; 99; 100; 115; 97; 45; 115; 104; 97; 50; 45].
Definition enc_ec_point (size : nat) (x y : Z) : bytes := z2b 4 :: be_enc size x ++ be_enc size y.
Definition enc_ecdsa_blob (identifier : bytes) (size : nat) (x y : Z) : bytes :=
  enc_string (name_ecdsa_prefix ++ identifier) ++ enc_string identifier ++ enc_string (enc_ec_point size x y).

(* RFC 4253 section 4.2, identification string: SSH-protoversion-softwareversion SP comments CR LF; "the maximum length of
   the string is 255 characters, including the Carriage Return and Line Feed" *)
Definition b_dash : Byte.byte := z2b 45.
Definition b_sp : Byte.byte := z2b 32.
Definition b_cr : Byte.byte := z2b 13.
Definition b_lf : Byte.byte := z2b 10.
Definition banner_prefix : bytes := ascii_bytes [83; 83; 72; 45].
Definition banner_max : Z := 255.
Definition enc_banner (proto software : bytes) (comment : option bytes) : option bytes :=
  let b := banner_prefix ++ proto ++ [b_dash] ++ software ++ match comment with Some c => b_sp :: c | None => [] end ++ [b_cr; b_lf] in
  if zlen b <=? banner_max then Some b else None.
Fixpoint until_byte (x : Byte.byte) (l : bytes) : option (bytes * bytes) :=
  match l with
  | [] => None
  | c :: r => if b2z c =? b2z x then Some ([], r)
              else match until_byte x r with Some (a, b) => Some (c :: a, b) | None => None end
  end.
Fixpoint bytes_eq (a b : bytes) : bool :=
  match a, b with
  | [], [] => true
  | x :: a', y :: b' => (b2z x =? b2z y) && bytes_eq a' b'
  | _, _ => false
  end.
(* (protoversion, softwareversion, comments, length of the identification string) *)
Definition dec_banner (l : bytes) : option (bytes * bytes * option bytes * Z) :=
  let? (line, _) := until_byte b_lf l in
  let n := zlen line + 1 in
  if banner_max <? n then None else
  let line := match rev line with c :: r => if b2z c =? b2z b_cr then rev r else line | [] => line end in
  if negb (bytes_eq (firstn 4 line) banner_prefix) then None else
  let? (proto, rest) := until_byte b_dash (skipn 4 line) in
  match until_byte b_sp rest with
  | Some (sw, c) => Some (proto, sw, Some c, n)
  | None => Some (proto, rest, None, n)
  end.

(* OpenSSH PROTOCOL.certkeys, ssh-ed25519-cert-v01@openssh.com: the certificate blob whose digests are the fingerprints.
   string type, string nonce, string pk, uint64 serial, uint32 type, string key id, string valid principals,
   uint64 valid after, uint64 valid before, string critical options, string extensions, string reserved,
   string signature key, string signature.  An option is  string name, string data  where data is empty or itself a string. *)
Definition name_cert_ed25519 : bytes :=
  ascii_bytes [115; 115; 104; 45; 101; 100; 50; 53; 53; 49; 57; 45; 99; 101; 114; 116; 45; 118; 48; 49; 64; 111; 112; 101; 110; 115; 115;
               104; 46; 99; 111; 109].
Definition enc_cert_option (o : bytes * option bytes) : bytes :=
  enc_string (fst o) ++ enc_string (match snd o with None => [] | Some d => enc_string d end).
Definition enc_cert_ed25519 (nonce pk : bytes) (serial ctype : Z) (keyid : bytes) (principals : list bytes) (after before : Z)
    (critical extensions : list (bytes * option bytes)) (reserved sigkey sigdata : bytes) : bytes :=
  enc_string name_cert_ed25519 ++ enc_string nonce ++ enc_string pk ++ enc_uint 8 serial ++ enc_uint 4 ctype ++ enc_string keyid
  ++ enc_string (concat (map enc_string principals)) ++ enc_uint 8 after ++ enc_uint 8 before
  ++ enc_string (concat (map enc_cert_option critical)) ++ enc_string (concat (map enc_cert_option extensions))
  ++ enc_string reserved ++ enc_string (enc_ed25519_blob sigkey) ++ enc_string (enc_string name_ssh_ed25519 ++ enc_string sigdata).
