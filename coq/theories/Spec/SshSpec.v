(* SSH wire formats from RFC 4251 section 5 (string, name-list, mpint, boolean), RFC 4253 (binary packet, KEXINIT,
   ssh-rsa / ssh-dss keys), RFC 8709 (ssh-ed25519), and the HASSH definition (salesforce/hassh README).
   Independent of the model of the implementation. *)
From Coq Require Import ZArith List Bool.
From CP Require Import Core.Bytes Spec.PL Spec.TlsSpec.
Import ListNotations.
Open Scope Z_scope.

Definition enc_string (b : bytes) : bytes := enc_uint 4 (zlen b) ++ b.
Definition dec_string (b : bytes) : option (bytes * bytes) :=
  let? (n, r) := dec_uint 4 b in if zlen r <? n then None else Some (firstn (Z.to_nat n) r, skipn (Z.to_nat n) r).

(* name-list: a string containing a comma-separated list of names *)
Definition comma : Byte.byte := z2b 44.
Fixpoint join (sep : bytes) (l : list bytes) : bytes :=
  match l with [] => [] | [x] => x | x :: r => x ++ sep ++ join sep r end.
Fixpoint split_acc (sep : Byte.byte) (b : bytes) (cur : bytes) : list bytes :=
  match b with
  | [] => [rev cur]
  | x :: r => if b2z x =? b2z sep then rev cur :: split_acc sep r [] else split_acc sep r (x :: cur)
  end.
Definition split (sep : Byte.byte) (b : bytes) : list bytes := match b with [] => [] | _ => split_acc sep b [] end.
Definition enc_namelist (names : list bytes) : bytes := enc_string (join [comma] names).
Definition dec_namelist (b : bytes) : option (list bytes * bytes) :=
  let? (s, r) := dec_string b in Some (split comma s, r).

(* mpint, non-negative: two's complement, big-endian, no unnecessary leading bytes, zero is the empty string *)
Definition mpint_payload (z : Z) : bytes :=
  if z =? 0 then []
  else let n := Z.to_nat (Z.log2 z / 8 + 1) in
       let m := be_enc n z in
       match m with b :: _ => if 128 <=? b2z b then z2b 0 :: m else m | [] => [] end.
Definition enc_mpint (z : Z) : bytes := enc_string (mpint_payload z).

(* RFC 4253 6: uint32 packet_length; byte padding_length; payload; random padding.
   packet_length = 1 + |payload| + padding_length; 4 <= padding_length <= 255; the total (4 + packet_length) is a
   multiple of the cipher block size or 8, whichever is larger (8 before keys are exchanged) *)
Definition packet_well_formed (payload_len padding_len packet_len : Z) : Prop :=
  packet_len = 1 + payload_len + padding_len /\ 4 <= padding_len <= 255 /\ (4 + packet_len) mod 8 = 0.

(* RFC 4253 7.1 SSH_MSG_KEXINIT: byte 20; byte[16] cookie; ten name-lists; boolean first_kex_packet_follows; uint32 0 *)
Definition enc_kexinit (cookie : bytes) (lists : list (list bytes)) (follows : bool) (reserved : Z) : option bytes :=
  if negb ((zlen cookie =? 16) && (zlen lists =? 10)) then None
  else Some (enc_uint 1 20 ++ cookie ++ concat (map enc_namelist lists) ++ enc_uint 1 (if follows then 1 else 0) ++ enc_uint 4 reserved).
Fixpoint dec_namelists (n : nat) (b : bytes) : option (list (list bytes) * bytes) :=
  match n with
  | O => Some ([], b)
  | S k => let? (l, r) := dec_namelist b in let? (ls, r') := dec_namelists k r in Some (l :: ls, r')
  end.
Definition dec_kexinit (b : bytes) : option (bytes * list (list bytes) * Z * Z) :=
  let? (t, r0) := dec_uint 1 b in
  if negb (t =? 20) then None else
  if zlen r0 <? 16 then None else
  let? (ls, r1) := dec_namelists 10 (skipn 16 r0) in
  let? (f, r2) := dec_uint 1 r1 in let? (res, _) := dec_uint 4 r2 in Some (firstn 16 r0, ls, f, res).

(* HASSH: md5 of "kex;encryption;mac;compression" with each list joined by "," in wire order *)
Definition semicolon : Byte.byte := z2b 59.
Definition hassh_text (lists : list (list bytes)) (server : bool) : bytes :=
  let pick := (if server then [0; 3; 5; 7] else [0; 2; 4; 6])%nat in
  join [semicolon] (map (fun i => join [comma] (nth i lists [])) pick).

(* public key blobs (RFC 4253 6.6, RFC 8709 4): string "ssh-rsa", mpint e, mpint n; string "ssh-dss", mpint p, q, g, y;
   string "ssh-ed25519", string key *)
Definition ascii_bytes (l : list Z) : bytes := map z2b l.
Definition name_ssh_rsa : bytes := ascii_bytes [115; 115; 104; 45; 114; 115; 97].
Definition name_ssh_dss : bytes := ascii_bytes [115; 115; 104; 45; 100; 115; 115].
Definition name_ssh_ed25519 : bytes := ascii_bytes [115; 115; 104; 45; 101; 100; 50; 53; 53; 49; 57].
Definition enc_rsa_blob (e n : Z) : bytes := enc_string name_ssh_rsa ++ enc_mpint e ++ enc_mpint n.
Definition enc_dss_blob (p q g y : Z) : bytes := enc_string name_ssh_dss ++ enc_mpint p ++ enc_mpint q ++ enc_mpint g ++ enc_mpint y.
Definition enc_ed25519_blob (k : bytes) : bytes := enc_string name_ssh_ed25519 ++ enc_string k.
