(* Text fields: the separator-list tokeniser of ParserText._parse_string_array (separator_spaces=' \t', skip_empty=True),
   NameValuePair, the OrderedDict built by NameValuePairList, and the name matching of
   FieldValueMultiple._parse_basic_params (cryptoparser/common/field.py, cryptoparser/common/parse.py).
   The model follows the control flow of the Python code (offsets become list suffixes); the specification it is
   proved equal to is in Spec/FieldSpec.v.  Definitions only. *)
From Coq Require Import ZArith List Bool.
From Coq.Strings Require Import Byte.
From CP Require Import Core.Bytes Core.Result.
Import ListNotations.
Open Scope Z_scope.

Definition SP : byte := " "%byte.
Definition HT : byte := x09.
Definition DQ : byte := x22.
Definition EQS : byte := "="%byte.

Definition is_ws (c : byte) : bool := Byte.eqb c SP || Byte.eqb c HT.

(* ASCII lower-casing, the effect of str.lower() on the ascii-decoded text *)
Definition lower_b (c : byte) : byte :=
  let z := b2z c in if (65 <=? z) && (z <=? 90) then z2b (z + 32) else c.
Definition lower (l : bytes) : bytes := map lower_b l.

Fixpoint bytes_eqb (a b : bytes) : bool :=
  match a, b with
  | [], [] => true
  | x :: a', y :: b' => Byte.eqb x y && bytes_eqb a' b'
  | _, _ => false
  end.

(* _check_separators(offset, chars, None, None): skip a run *)
Fixpoint skip_ws (l : bytes) : bytes :=
  match l with c :: r => if is_ws c then skip_ws r else l | [] => [] end.
Fixpoint skip_sep (s : byte) (l : bytes) : bytes :=
  match l with c :: r => if Byte.eqb c s then skip_sep s r else l | [] => [] end.

(* _parse_string_until_separator(..., may_end=True): the text before the first separator, and the rest (which starts
   at the separator, or is empty) *)
Fixpoint take_until (s : byte) (l : bytes) : bytes * bytes :=
  match l with
  | [] => ([], [])
  | c :: r => if Byte.eqb c s then ([], l) else let (a, b) := take_until s r in (c :: a, b)
  end.

(* the while loop that counts separator_spaces at the end of the item *)
Definition rstrip_ws (l : bytes) : bytes := rev (skip_ws (rev l)).

(* _parse_string_array with skip_empty=True; the argument never starts with white space (the caller skipped it) *)
Fixpoint tokens_fuel (fuel : nat) (s : byte) (l : bytes) : result (list bytes) :=
  match fuel with
  | O => Err OutOfFuel
  | S f =>
    let (raw, rest) := take_until s l in
    let item := rstrip_ws raw in
    let acc := match item with [] => [] | _ => [item] end in
    match rest with
    | [] => Ok acc
    | _ :: _ =>
      match skip_ws (skip_sep s rest) with
      | [] => Ok acc
      | r2 => let* t := tokens_fuel f s r2 in Ok (acc ++ t)
      end
    end
  end.
Definition tokens (s : byte) (l : bytes) : result (list bytes) :=
  tokens_fuel (S (length l)) s (skip_ws l).

(* NameValuePair._parse *)
Definition unquote (v : bytes) : bytes :=
  match v with
  | q :: r =>
    if Byte.eqb q DQ then
      match rev r with
      | q' :: r' => if Byte.eqb q' DQ then rev r' else r
      | [] => r
      end
    else v
  | [] => []
  end.
Definition nvp (item : bytes) : bytes * option bytes :=
  let (n, rest) := take_until EQS item in
  match rest with
  | [] => (n, None)
  | _ :: _ => (n, Some (unquote (skip_sep EQS rest)))
  end.

(* collections.OrderedDict([(name, value), ...]): a later duplicate replaces the value in place *)
Definition comp := (bytes * option bytes)%type.
Fixpoint od_set (k : bytes) (v : option bytes) (d : list comp) : list comp :=
  match d with
  | [] => [(k, v)]
  | (k', v') :: r => if bytes_eqb k k' then (k, v) :: r else (k', v') :: od_set k v r
  end.
Definition od_of_list (l : list comp) : list comp :=
  fold_left (fun d kv => od_set (fst kv) (snd kv) d) l [].
Fixpoint od_pop (k : bytes) (d : list comp) : list comp :=
  match d with
  | [] => []
  | (k', v') :: r => if bytes_eqb k k' then r else (k', v') :: od_pop k r
  end.
Fixpoint od_get (k : bytes) (d : list comp) : option (option bytes) :=
  match d with
  | [] => None
  | (k', v') :: r => if bytes_eqb k k' then Some v' else od_get k r
  end.

(* NameValuePairList._parse *)
Definition nvlist (s : byte) (l : bytes) : result (list comp) :=
  let* t := tokens s l in Ok (od_of_list (map nvp t)).

(* FieldValueMultiple._parse_basic_params *)
Inductive mode := Exact | Insens | AnyName.
Record fattr := { fa_canon : bytes; fa_mode : mode; fa_required : bool }.

Definition check_name (m : mode) (canon name : bytes) : bool :=
  match m with
  | Exact => bytes_eqb name canon
  | Insens => bytes_eqb (lower name) (lower canon)
  | AnyName => true
  end.

Fixpoint find_comp (m : mode) (canon : bytes) (d : list comp) : option comp :=
  match d with
  | [] => None
  | (k, v) :: r => if check_name m canon k then Some (k, v) else find_comp m canon r
  end.

(* what is handed to the component class: None = the attribute default, Some raw = parse_exact_size(raw) *)
Definition one_attr (a : fattr) (d : list comp) : result (option bytes * list comp) :=
  match find_comp (fa_mode a) (fa_canon a) d with
  | Some (k, v) =>
    (* components[canonical] = components.pop(component); then components.pop(canonical) *)
    let d1 := od_set (fa_canon a) v (od_pop k d) in
    let d2 := od_pop (fa_canon a) d1 in
    let raw := match v with None => k | Some x => fa_canon a ++ EQS :: x end in
    Ok (Some raw, d2)
  | None => if fa_required a then Err InvalidValue else Ok (None, d)
  end.

Fixpoint basic_params (sch : list fattr) (d : list comp) : result (list (option bytes) * list comp) :=
  match sch with
  | [] => Ok ([], d)
  | a :: r =>
    let* (x, d') := one_attr a d in
    let* (xs, d'') := basic_params r d' in
    Ok (x :: xs, d'')
  end.

(* the pipeline of FieldValueMultiple._parse up to the point where component classes take over; the second component
   is what an extension attribute (if the class has one) receives *)
Definition fvm (s : byte) (sch : list fattr) (l : bytes) : result (list (option bytes) * list comp) :=
  let* d := nvlist s l in basic_params sch d.

(* header line: FieldParsableBase._parse_name, separator, optional spaces, value up to CRLF *)
Definition CR : byte := x0d.
Definition LF : byte := x0a.
Definition COLON : byte := ":"%byte.
Fixpoint until_crlf (l : bytes) : option (bytes * bytes) :=
  match l with
  | [] => None
  | c :: r =>
    match r with
    | d :: r' => if Byte.eqb c CR && Byte.eqb d LF then Some ([], l)
                 else match until_crlf r with Some (a, b) => Some (c :: a, b) | None => None end
    | [] => None
    end
  end.
Fixpoint until_cr_or_lf (l : bytes) : option (bytes * bytes) :=
  match l with
  | [] => None
  | c :: r => if Byte.eqb c CR || Byte.eqb c LF then Some ([], l)
              else match until_cr_or_lf r with Some (a, b) => Some (c :: a, b) | None => None end
  end.
(* (name, value, parsed length).  Optional white space (SP / HTAB) after the colon and before the line end is not part
   of the value.  HttpHeaderFieldUnparsed passes the string '\r\n' as the separator collection, so its value ends at the
   first CR or LF; HttpHeaderFieldParsedBase passes ['\r\n'] and its value ends at the first CRLF. *)
Definition header_line (strict : bool) (l : bytes) : result (bytes * bytes * Z) :=
  let (n, rest) := take_until COLON l in
  match rest with
  | [] => Err InvalidValue
  | _ :: _ =>
    let r1 := skip_ws (skip_sep COLON rest) in
    match (if strict then until_crlf r1 else until_cr_or_lf r1) with
    | Some (v, r2) => Ok (n, rstrip_ws v, zlen l - zlen r2)
    | None => Err InvalidValue
    end
  end.
(* HttpHeaderFieldParsedBase._parse_name_and_separator: the type is selected by the lower-cased name *)
Definition header_name_matches (canon name : bytes) : bool := bytes_eqb (lower name) (lower canon).
(* HttpHeaderFieldParsedBase._parse up to the value class: the colon is required first, then the name must match *)
Definition parsed_header_line (canon : bytes) (l : bytes) : result (bytes * bytes * Z) :=
  let (n, rest) := take_until COLON l in
  match rest with
  | [] => Err InvalidValue
  | _ :: _ => if header_name_matches canon n then header_line true l else Err InvalidType
  end.

(* ---- component value classes, as far as Strict-Transport-Security needs them ---- *)
(* FieldValueComponentOption.parse_exact_size: the name in any letter case, nothing else *)
Definition parse_option_component (canon raw : bytes) : result bool :=
  let n := length canon in
  if (length raw <? n)%nat then Err (TooMuchData (zlen raw))      (* value False, nothing consumed, then parse_exact_size *)
  else if negb (bytes_eqb (lower (firstn n raw)) (lower canon)) then Err (TooMuchData (zlen raw))
  else match skipn n raw with [] => Ok true | r => Err (TooMuchData (zlen r)) end.

Definition is_digit (c : byte) : bool := (48 <=? b2z c) && (b2z c <=? 57).
Fixpoint span_digits (l : bytes) : bytes * bytes :=
  match l with
  | c :: r => if is_digit c then let (a, b) := span_digits r in (c :: a, b) else ([], l)
  | [] => ([], [])
  end.
Definition dec_val (ds : bytes) : Z := fold_left (fun acc c => acc * 10 + (b2z c - 48)) ds 0.
(* datetime.timedelta(seconds=v) overflows beyond 999999999 days *)
Definition timedelta_max_seconds : Z := 86399999999999.

(* FieldValueComponentTimeDelta.parse_exact_size on canonical-name "=" value (what _parse_basic_params hands over) *)
Definition parse_timedelta_component (canon raw : bytes) : result Z :=
  let n := length canon in
  if (length raw <? n)%nat then Err InvalidType
  else if negb (bytes_eqb (lower (firstn n raw)) (lower canon)) then Err InvalidType
  else match skipn n raw with
       | [] => Err InvalidValue
       | c :: r0 =>
         if negb (Byte.eqb c EQS) then Err InvalidValue
         else let (ds, r2) := span_digits (skip_sep EQS (c :: r0)) in
              match ds with
              | [] => Err InvalidValue
              | _ => let v := dec_val ds in
                     if timedelta_max_seconds <? v then Err InvalidValue
                     else match r2 with [] => Ok v | _ => Err (TooMuchData (zlen r2)) end
              end
       end.

(* HttpHeaderFieldValueSTS.parse_exact_size: (max-age in seconds, includeSubDomains, preload) *)
Definition sts_canon_max_age : bytes := map z2b [109; 97; 120; 45; 97; 103; 101].
Definition sts_canon_include : bytes := map z2b [105; 110; 99; 108; 117; 100; 101; 83; 117; 98; 68; 111; 109; 97; 105; 110; 115].
Definition sts_canon_preload : bytes := map z2b [112; 114; 101; 108; 111; 97; 100].
Definition sts_schema : list fattr :=
  [ {| fa_canon := sts_canon_max_age; fa_mode := Insens; fa_required := true |};
    {| fa_canon := sts_canon_include; fa_mode := Insens; fa_required := false |};
    {| fa_canon := sts_canon_preload; fa_mode := Insens; fa_required := false |} ].
Definition SEMI : byte := ";"%byte.
(* the three attributes are parsed in order, each as soon as it is matched, so the first failing one decides the error *)
Definition sts_parse (l : bytes) : result (Z * bool * bool) :=
  let* d := nvlist SEMI l in
  let* (m, d1) := one_attr {| fa_canon := sts_canon_max_age; fa_mode := Insens; fa_required := true |} d in
  let* ma := match m with Some raw => parse_timedelta_component sts_canon_max_age raw | None => Err InvalidValue end in
  let* (i, d2) := one_attr {| fa_canon := sts_canon_include; fa_mode := Insens; fa_required := false |} d1 in
  let* inc := match i with Some raw => parse_option_component sts_canon_include raw | None => Ok false end in
  let* (p, _) := one_attr {| fa_canon := sts_canon_preload; fa_mode := Insens; fa_required := false |} d2 in
  let* pre := match p with Some raw => parse_option_component sts_canon_preload raw | None => Ok false end in
  Ok (ma, inc, pre).
