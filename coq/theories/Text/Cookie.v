(* The name-value pair of a Set-Cookie value: HttpHeaderFieldValueSetCookie._parse (cryptoparser/httpx/header.py).
   The name is the text before the first "=", the value the text up to the first ";" (or the end); white space (SP / HTAB)
   around both is removed (RFC 6265 section 5.2, steps 2-4); a run of ";" and the white space after it are skipped and the
   rest is the attribute list.  Definitions only. *)
From Coq Require Import ZArith List Bool.
From Coq.Strings Require Import Byte.
From CP Require Import Core.Bytes Core.Result Text.Field Spec.FieldSpec.
Import ListNotations.
Open Scope Z_scope.

Definition SEMI : byte := ";"%byte.

(* the first octet, if any, is not s *)
Definition head_not (s : byte) (l : bytes) : bool := match l with c :: _ => negb (Byte.eqb c s) | [] => true end.

(* the remainder handed to the attribute-list parser *)
Definition cookie_rest (r : bytes) : bytes := skip_ws (skip_sep SEMI r).

Definition cookie_pair (l : bytes) : result (bytes * bytes * bytes) :=
  let (n, r) := take_until EQS l in
  match r with
  | [] => Err InvalidValue                      (* parse_string_until_separator: no "=" in the text *)
  | _ :: r1 =>
    let (v, r2) := take_until SEMI (skip_sep EQS r1) in    (* parse_separator('=') takes the whole run of "=" *)
    Ok (strip n, strip v, cookie_rest r2)
  end.
