(* Cost semantics of the separator-list tokeniser of Text/Field.v (ParserText._parse_string_array with skip_empty=True):
   one step per byte a scanning helper looks at, one per helper call and one per loop iteration.  Definitions only. *)
From Coq Require Import ZArith List Bool.
From Coq.Strings Require Import Byte.
From CP Require Import Core.Bytes Core.Result Text.Field.
Import ListNotations.
Open Scope Z_scope.

(* bytes looked at by _parse_string_until_separator: the item and the separator that ends it (or the end of the text) *)
Fixpoint take_until_steps (s : byte) (l : bytes) : Z :=
  match l with
  | [] => 1
  | c :: r => if Byte.eqb c s then 1 else 1 + take_until_steps s r
  end.
(* _check_separators over a run: every byte of the run and the byte that ends it *)
Fixpoint skip_sep_steps (s : byte) (l : bytes) : Z :=
  match l with c :: r => if Byte.eqb c s then 1 + skip_sep_steps s r else 1 | [] => 1 end.
Fixpoint skip_ws_steps (l : bytes) : Z :=
  match l with c :: r => if is_ws c then 1 + skip_ws_steps r else 1 | [] => 1 end.
(* the loop that strips trailing blanks of an item looks at most at every byte of the item once *)
Definition rstrip_steps (raw : bytes) : Z := 1 + zlen raw.

Fixpoint tokens_steps (fuel : nat) (s : byte) (l : bytes) : Z :=
  match fuel with
  | O => 0
  | S f =>
    let (raw, rest) := take_until s l in
    1 + take_until_steps s l + rstrip_steps raw +
    match rest with
    | [] => 0
    | _ :: _ =>
      skip_sep_steps s rest + skip_ws_steps (skip_sep s rest) +
      match skip_ws (skip_sep s rest) with
      | [] => 0
      | r2 => tokens_steps f s r2
      end
    end
  end.
