(* Model of the multiple-precision integer primitives of cryptoparser/common/parse.py (big-endian / network byte
   order, the only order any class of the library uses them with):
   ComposerBinary._compose_mpint / compose_mpint / compose_ssh_mpint (lines 892-942) and
   ParserBinary._parse_mpint / parse_mpint / parse_ssh_mpint (lines 555-593). *)
From Coq Require Import ZArith List Bool.
From Coq.Strings Require Import Byte.
From CP Require Import Core.Bytes Core.Result Prim.Int.
Import ListNotations.
Open Scope Z_scope.

(* int.bit_length(): number of bits of |z| *)
Definition bit_length (z : Z) : Z := if z =? 0 then 0 else Z.log2 (Z.abs z) + 1.

Definition is_zero_byte (b : byte) : bool := b2z b =? 0.
Fixpoint lstrip0 (l : bytes) : bytes :=           (* bytes.lstrip(b'\x00') *)
  match l with
  | b :: r => if is_zero_byte b then lstrip0 r else l
  | [] => []
  end.

(* value_numeric_array: positive_value >> (32*i) & 0xffffffff for i in range(length) *)
Definition limbs (pv : Z) (n : nat) : list Z :=
  map (fun i => Z.land (Z.shiftr pv (32 * Z.of_nat i)) 4294967295) (seq 0 n).

Definition positive_image (z : Z) : Z :=
  if z <? 0 then Z.shiftl 1 ((bit_length z / 8 * 8) + 8) + z else z.

(* _compose_mpint(value, length, byte_order=NETWORK) *)
Definition compose_mpint_raw (z : Z) (nlimbs : Z) : result bytes :=
  let* b := compose_numeric_array Network 4 (rev (limbs (positive_image z) (Z.to_nat nlimbs))) in
  Ok (lstrip0 b).

(* compose_mpint(value, length): fixed-width field, as in /repo after
   "fix: reject fixed-length mpints that do not fit instead of truncating them"; the limb count is
   max(length, value.bit_length() // 32 + 1) *)
Definition compose_mpint (z : Z) (len : Z) : result bytes :=
  let* m := compose_mpint_raw z (Z.max len (bit_length z / 32 + 1)) in
  if len <? zlen m then Err InvalidValue
  else Ok (repeat (if z <? 0 then xff else x00) (Z.to_nat (len - zlen m)) ++ m).

(* the pinned tree passed `length` itself as the limb count (kept for the refutation theorem) *)
Definition compose_mpint_orig (z : Z) (len : Z) : result bytes :=
  let* m := compose_mpint_raw z len in
  if len <? zlen m then Err InvalidValue
  else Ok (repeat (if z <? 0 then xff else x00) (Z.to_nat (len - zlen m)) ++ m).

(* compose_ssh_mpint(value), parameterised by how the bit length used for the limb count is obtained *)
Definition compose_ssh_mpint_with (bits : Z -> Z) (z : Z) : result bytes :=
  let negative := z <? 0 in
  let bl := bits z in
  let nl := bl / 32 + (if bl mod 32 =? 0 then 0 else 1) in
  let* m := compose_mpint_raw z nl in
  let pad := match m with
             | b :: _ => if Bool.eqb (128 <=? b2z b) negative then [] else [if negative then xff else x00]
             | [] => []
             end in
  let* hdr := compose_numeric Network 4 (zlen pad + zlen m) in
  Ok (hdr ++ pad ++ m).

(* as in /repo after "fix: compose negative SSH mpints with enough limbs": a negative value needs room for its
   two's complement image of (bit_length // 8 * 8) + 8 bits *)
Definition ssh_bits (z : Z) : Z := if z <? 0 then bit_length z / 8 * 8 + 8 else bit_length z.
Definition compose_ssh_mpint (z : Z) : result bytes := compose_ssh_mpint_with ssh_bits z.
(* the pinned tree used bit_length of the magnitude for both signs *)
Definition compose_ssh_mpint_orig (z : Z) : result bytes := compose_ssh_mpint_with bit_length z.

(* _parse_mpint(mpint_length, mpint_offset, negative) on the parser (buf, pos) *)
Definition parse_mpint_raw (buf : bytes) (pos : Z) (len off : Z) (negative : bool) : result Z :=
  let padn := if len mod 4 =? 0 then 0 else 4 - len mod 4 in
  let padded := repeat (if negative then xff else x00) (Z.to_nat padn) ++ skipn (Z.to_nat (pos + off)) buf in
  let* (parts, _) := parse_numeric_array Network 4 ((len + padn) / 4) padded 0 in
  let v := fold_left (fun acc p => Z.shiftl acc 32 + p) parts 0 in
  Ok (if negative then v - Z.shiftl 1 (8 * (len + padn)) else v).

(* parse_mpint(name, mpint_length): returns value and consumed length *)
Definition parse_mpint (buf : bytes) (pos : Z) (len : Z) : result (Z * Z) :=
  let* v := parse_mpint_raw buf pos len 0 false in Ok (v, len).

(* parse_ssh_mpint(name) *)
Definition parse_ssh_mpint (buf : bytes) (pos : Z) : result (Z * Z) :=
  if zlen buf - pos <? 4 then Err (NotEnoughData (4 - (zlen buf - pos)))
  else
    let* (len, n) := parse_numeric Network 4 buf pos in
    (* "fix: report a truncated SSH mpint as not enough data" *)
    if len >? (zlen buf - pos) - n then Err (NotEnoughData (len - ((zlen buf - pos) - n))) else
    let* negative :=
       if len =? 0 then Ok false
       else match nth_error buf (Z.to_nat (pos + 4)) with      (* six.indexbytes(self._parsable, pos + 4) *)
            | Some b => Ok (128 <=? b2z b)
            | None => Err (Leak IndexError)
            end in
    let* v := parse_mpint_raw buf pos len 4 negative in
    Ok (v, n + len).
