(* Model of ParserBinary.parse_timestamp (parse.py:489-503) and ComposerBinary.compose_timestamp (837-847), as in
   /repo after the two timestamp fixes. A (time-zone aware) datetime is modelled as its UTC instant: whole seconds
   since the epoch and microseconds; None is the "forever" sentinel. What tzdata / mktime do is outside the model;
   the correspondence run sweeps TZ settings instead. *)
From Coq Require Import ZArith List Bool.
From CP Require Import Core.Bytes Core.Result Prim.Int.
Open Scope Z_scope.

Record dt := { secs : Z; micros : Z }.

Definition parse_timestamp (ms : bool) (w : Z) (buf : bytes) (pos : Z) : result (option dt * Z) :=
  let* (v, n) := parse_numeric Network w buf pos in
  if v =? 2 ^ (8 * w) - 1 then Ok (None, n)
  else if ms then Ok (Some {| secs := Z.land 4294967295 (v / 1000); micros := (v mod 1000) * 1000 |}, n)
  else Ok (Some {| secs := Z.land 4294967295 v; micros := 0 |}, n).

Definition compose_timestamp (ms : bool) (w : Z) (t : option dt) : result bytes :=
  match t with
  | None => compose_numeric Network w (2 ^ (8 * w) - 1)
  | Some d => compose_numeric Network w (if ms then secs d * 1000 + micros d / 1000 else secs d)
  end.
