(* Model of ParserBinary.parse_timestamp (parse.py:489-503) and ComposerBinary.compose_timestamp (837-847), as in
   /repo after the three timestamp fixes. A (time-zone aware) datetime is modelled as its UTC instant: whole seconds
   since the epoch and microseconds; None is the "forever" sentinel. What tzdata / mktime do is outside the model;
   the correspondence run sweeps TZ settings instead. *)
From Coq Require Import ZArith List Bool.
From CP Require Import Core.Bytes Core.Result Prim.Int.
Open Scope Z_scope.

Record dt := { secs : Z; micros : Z }.

(* the last second datetime can represent: 9999-12-31 23:59:59 UTC; fromtimestamp raises beyond it -> InvalidValue *)
Definition dt_max : Z := 253402300799.

Definition parse_timestamp (ms : bool) (w : Z) (buf : bytes) (pos : Z) : result (option dt * Z) :=
  let* (v, n) := parse_numeric Network w buf pos in
  if v =? 2 ^ (8 * w) - 1 then Ok (None, n)
  else let s := if ms then v / 1000 else v in
       if dt_max <? s then Err InvalidValue
       else Ok (Some {| secs := s; micros := if ms then (v mod 1000) * 1000 else 0 |}, n).

(* before the repair the seconds were masked with 0xffffffff *)
Definition parse_timestamp_orig (ms : bool) (w : Z) (buf : bytes) (pos : Z) : result (option dt * Z) :=
  let* (v, n) := parse_numeric Network w buf pos in
  if v =? 2 ^ (8 * w) - 1 then Ok (None, n)
  else if ms then Ok (Some {| secs := Z.land 4294967295 (v / 1000); micros := (v mod 1000) * 1000 |}, n)
  else Ok (Some {| secs := Z.land 4294967295 v; micros := 0 |}, n).

Definition compose_timestamp (ms : bool) (w : Z) (t : option dt) : result bytes :=
  match t with
  | None => compose_numeric Network w (2 ^ (8 * w) - 1)
  | Some d => compose_numeric Network w (if ms then secs d * 1000 + micros d / 1000 else secs d)
  end.
