(* Model of the struct-based integer primitives of cryptoparser/common/parse.py:
   ParserBinary._parse_numeric_array / parse_numeric (lines 505-536) and
   ComposerBinary._compose_numeric_array / compose_numeric (lines 849-872), flags (544-553, 886-890). *)
From Coq Require Import ZArith List Bool.
From Coq.Strings Require Import Byte.
From CP Require Import Core.Bytes Core.Result.
Import ListNotations.
Open Scope Z_scope.

Inductive order := Native | LittleEndian | BigEndian | Network.   (* ByteOrder: '=', '<', '>', '!' *)

(* `self.byte_order in [ByteOrder.BIG_ENDIAN, ByteOrder.NETWORK]`; struct's '=' is little-endian on the
   machines the checks run on (x86-64), which the correspondence run confirms. *)
Definition is_big (o : order) : bool := match o with BigEndian | Network => true | _ => false end.

(* _SIZE_TO_FORMAT: size of the struct format used for an item size (3 is packed as 'I') *)
Definition fmt_size (w : Z) : option nat :=
  if w =? 1 then Some 1%nat else if w =? 2 then Some 2%nat else if w =? 3 then Some 4%nat
  else if w =? 4 then Some 4%nat else if w =? 8 then Some 8%nat else None.

(* struct.pack(order + fmt, value) for an unsigned format of n bytes *)
Definition struct_pack (o : order) (n : nat) (z : Z) : result bytes :=
  if (0 <=? z) && (z <? 256 ^ Z.of_nat n) then Ok (if is_big o then be_enc n z else le_enc n z)
  else Err InvalidValue.                      (* struct.error -> InvalidValue (parse.py:866-867) *)

(* one item of ComposerBinary._compose_numeric_array, as in /repo after
   "fix: reject values that do not fit a 3-byte integer" *)
Definition compose_numeric (o : order) (w : Z) (z : Z) : result bytes :=
  match fmt_size w with
  | None => Err (Leak KeyError)                (* _SIZE_TO_FORMAT[item_size] *)
  | Some n =>
    let* packed := struct_pack o n z in
    if w =? 3 then
      if 16777216 <=? z then Err InvalidValue  (* the fix: value >= 2 ** 24 raises struct.error *)
      else Ok (if is_big o then skipn 1 packed else firstn 3 packed)
    else Ok packed
  end.

(* the pinned tree before the fix: bits 24..31 of a 3-byte value are silently dropped *)
Definition compose_numeric_orig (o : order) (w : Z) (z : Z) : result bytes :=
  match fmt_size w with
  | None => Err (Leak KeyError)
  | Some n =>
    let* packed := struct_pack o n z in
    if w =? 3 then Ok (if is_big o then skipn 1 packed else firstn 3 packed) else Ok packed
  end.

Fixpoint compose_numeric_array (o : order) (w : Z) (zs : list Z) : result bytes :=
  match zs with
  | [] => Ok []
  | z :: r => let* a := compose_numeric o w z in let* b := compose_numeric_array o w r in Ok (a ++ b)
  end.

(* Python slice buf[a:b] for 0 <= a <= b *)
Definition slice (buf : bytes) (a b : Z) : bytes := firstn (Z.to_nat (b - a)) (skipn (Z.to_nat a) buf).

Definition unpack (o : order) (l : bytes) : Z := if is_big o then be_val l else le_val l.

(* ParserBinary._parse_numeric_array(name, item_num, item_size, int) at offset pos; returns values and length *)
Fixpoint parse_items (o : order) (w : Z) (buf : bytes) (pos : Z) (n : nat) : list Z :=
  match n with
  | O => []
  | S k => unpack o (slice buf pos (pos + w)) :: parse_items o w buf (pos + w) k
  end.

Definition parse_numeric_array (o : order) (w : Z) (num : Z) (buf : bytes) (pos : Z) : result (list Z * Z) :=
  if pos + num * w >? zlen buf then Err (NotEnoughData (num * w - (zlen buf - pos)))
  else match fmt_size w with
       | None => Err (Leak NotImplementedError)
       | Some _ => Ok (parse_items o w buf pos (Z.to_nat num), num * w)
       end.

Definition parse_numeric (o : order) (w : Z) (buf : bytes) (pos : Z) : result (Z * Z) :=
  let* (vs, n) := parse_numeric_array o w 1 buf pos in
  match vs with v :: _ => Ok (v, n) | [] => Err (Leak IndexError) end.

(* ---- flags: parse_numeric_flags / compose_numeric_flags ------------------------------------------ *)
(* flags_class is an IntEnum; `tbl` lists the values of its members in definition order.
   parse: { flags_class(flag & (value << shift)) for flag in flags_class if flag & (value << shift) } *)
Definition parse_flags (tbl : list Z) (shift : Z) (v : Z) : list Z :=
  filter (fun f => negb (Z.land f (Z.shiftl v shift) =? 0)) tbl.
(* (set membership; flags_class(x) raises ValueError when x is not a member: see Lemmas/IntLemmas.v) *)

Definition compose_flags (shift : Z) (flags : list Z) : Z :=
  fold_left (fun acc f => Z.lor acc (Z.shiftr f shift)) flags 0.
