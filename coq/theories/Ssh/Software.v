(* The software version of an SSH identification string for the vendors the library splits into vendor and version:
   SshSoftwareVersionParsedBase._parse / compose (cryptoparser/ssh/version.py; OpenSSH and dropbear with "_", IPSSH with "-").
   The vendor is the text before the first separator; exactly one separator follows (a run of separators is left to the class that
   keeps the string verbatim: InvalidType, and so is a separator with nothing after it); the version is everything after it.  Definitions only. *)
From Coq Require Import ZArith List Bool.
From Coq.Strings Require Import Byte.
From CP Require Import Core.Bytes Core.Result Text.Field.
Import ListNotations.
Open Scope Z_scope.

Definition sw_parse (vendor : bytes) (sep : byte) (l : bytes) : result (option bytes) :=
  let (v, rest) := take_until sep l in
  if negb (bytes_eqb v vendor) then Err InvalidType else
  match rest with
  | [] => Ok None
  | _ :: [] => Err InvalidType                 (* the separator and nothing after it: not split either *)
  | _ :: (c :: _) as r1 => if Byte.eqb c sep then Err InvalidType else Ok (Some r1)
  end.

Definition sw_compose (vendor : bytes) (sep : byte) (ver : option bytes) : bytes :=
  vendor ++ match ver with Some w => sep :: w | None => [] end.
