(* Model of SshRecordBase.compose (ssh/record.py:45-61) - the padding computation - and of SshKeyExchangeInit._hassh
   (ssh/subprotocol.py:310-341) as a function of the parsed name-lists. *)
From Coq Require Import ZArith List Bool.
From CP Require Import Core.Bytes.
Import ListNotations.
Open Scope Z_scope.

(* padding_length = 8 - ((payload_length + 5) % 8); if padding_length < 4: padding_length += 8 *)
Definition padding_length (payload_len : Z) : Z :=
  let p := 8 - (payload_len + 5) mod 8 in if p <? 4 then p + 8 else p.
Definition packet_length (payload_len : Z) : Z := payload_len + padding_length payload_len + 1.

(* _hassh(vectors): ';'.join(','.join(name or member.value.code) ...): a name-list item is either a member of the
   enumeration (rendered by its code) or the string as received; both are the bytes of the name *)
Fixpoint joinb (sep : bytes) (l : list bytes) : bytes :=
  match l with [] => [] | [x] => x | x :: r => x ++ sep ++ joinb sep r end.
Definition hassh_model (kex enc mac comp : list bytes) : bytes :=
  joinb [z2b 59] [joinb [z2b 44] kex; joinb [z2b 44] enc; joinb [z2b 44] mac; joinb [z2b 44] comp].
