(* UTF-8 / ASCII validity of a byte string, as CPython's strict decoders decide it (used wherever the code calls
   six.ensure_text(..., 'utf-8' | 'ascii')). *)
From Coq Require Import ZArith List Bool.
From CP Require Import Core.Bytes.
Import ListNotations.
Open Scope Z_scope.


Definition rng (lo hi : Z) (x : Z) : bool := (lo <=? x) && (x <=? hi).
Definition cont (x : Z) : bool := rng 128 191 x.

Fixpoint utf8_valid_fuel (fuel : nat) (l : list Z) : bool :=
  match fuel with
  | O => match l with [] => true | _ => false end
  | S f =>
    match l with
    | [] => true
    | a :: r =>
      if a <=? 127 then utf8_valid_fuel f r
      else match r with
        | b :: r1 =>
          if rng 194 223 a then cont b && utf8_valid_fuel f r1
          else match r1 with
            | c :: r2 =>
              if a =? 224 then rng 160 191 b && cont c && utf8_valid_fuel f r2
              else if rng 225 236 a || rng 238 239 a then cont b && cont c && utf8_valid_fuel f r2
              else if a =? 237 then rng 128 159 b && cont c && utf8_valid_fuel f r2
              else match r2 with
                | d :: r3 =>
                  if a =? 240 then rng 144 191 b && cont c && cont d && utf8_valid_fuel f r3
                  else if rng 241 243 a then cont b && cont c && cont d && utf8_valid_fuel f r3
                  else if a =? 244 then rng 128 143 b && cont c && cont d && utf8_valid_fuel f r3
                  else false
                | [] => false
                end
            | [] => false
            end
        | [] => false
        end
    end
  end.

Definition utf8_valid (l : bytes) : bool := utf8_valid_fuel (S (length l)) (map b2z l).
Definition ascii_valid (l : bytes) : bool := forallb (fun b => b2z b <=? 127) l.
