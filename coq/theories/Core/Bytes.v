(* Bytes: byte <-> Z conversions, big/little endian positional encodings. Definitions + basic lemmas. *)
From Coq Require Import ZArith List Lia Bool.
From Coq.Strings Require Import Byte.
Import ListNotations.
Open Scope Z_scope.

Definition bytes := list byte.

Definition b2z (b : byte) : Z := Z.of_N (Byte.to_N b).
Definition z2b (z : Z) : byte :=
  match Byte.of_N (Z.to_N (z mod 256)) with Some b => b | None => x00 end.

Lemma b2z_range b : 0 <= b2z b < 256.
Proof.
  unfold b2z. pose proof (Byte.to_N_bounded b). lia.
Qed.

Lemma z2b_b2z b : z2b (b2z b) = b.
Proof.
  unfold z2b, b2z. pose proof (Byte.to_N_bounded b).
  rewrite Z.mod_small by lia. rewrite N2Z.id. rewrite Byte.of_to_N. reflexivity.
Qed.

Lemma b2z_z2b z : b2z (z2b z) = z mod 256.
Proof.
  unfold z2b, b2z.
  assert (H: 0 <= z mod 256 < 256) by (apply Z.mod_pos_bound; lia).
  destruct (Byte.of_N (Z.to_N (z mod 256))) as [b|] eqn:E.
  - apply Byte.to_of_N in E. rewrite E. rewrite Z2N.id; lia.
  - apply Byte.of_N_None_iff in E. lia.
Qed.

Lemma b2z_inj a b : b2z a = b2z b -> a = b.
Proof. intros H. rewrite <- (z2b_b2z a), <- (z2b_b2z b). congruence. Qed.

(* length as Z *)
Definition zlen {A} (l : list A) : Z := Z.of_nat (length l).

Lemma zlen_nonneg {A} (l : list A) : 0 <= zlen l.
Proof. unfold zlen; lia. Qed.

Lemma zlen_app {A} (a b : list A) : zlen (a ++ b) = zlen a + zlen b.
Proof. unfold zlen. rewrite app_length. lia. Qed.

Lemma zlen_cons {A} (x : A) l : zlen (x :: l) = 1 + zlen l.
Proof. unfold zlen. simpl length. lia. Qed.

Lemma zlen_nil {A} : zlen (@nil A) = 0.
Proof. reflexivity. Qed.

(* big-endian unsigned value of a byte list *)
Fixpoint be_val_acc (acc : Z) (l : bytes) : Z :=
  match l with
  | [] => acc
  | b :: r => be_val_acc (acc * 256 + b2z b) r
  end.
Definition be_val (l : bytes) : Z := be_val_acc 0 l.

(* big-endian encoding of z on n bytes (value taken mod 256^n) *)
Fixpoint be_enc (n : nat) (z : Z) : bytes :=
  match n with
  | O => []
  | S k => z2b (z / 256 ^ Z.of_nat k) :: be_enc k z
  end.

Definition le_val (l : bytes) : Z := be_val (rev l).
Definition le_enc (n : nat) (z : Z) : bytes := rev (be_enc n z).

Lemma be_enc_length n z : length (be_enc n z) = n.
Proof. induction n; simpl; auto. Qed.

Lemma le_enc_length n z : length (le_enc n z) = n.
Proof. unfold le_enc. rewrite rev_length. apply be_enc_length. Qed.

Lemma be_val_acc_app acc a b : be_val_acc acc (a ++ b) = be_val_acc (be_val_acc acc a) b.
Proof. revert acc; induction a as [|x a IH]; simpl; intros; auto. Qed.

Lemma be_val_acc_shift acc l : be_val_acc acc l = acc * 256 ^ zlen l + be_val_acc 0 l.
Proof.
  revert acc. induction l as [|x l IH]; intros acc.
  - cbn [be_val_acc]. rewrite zlen_nil. lia.
  - cbn [be_val_acc]. rewrite (IH (acc * 256 + b2z x)). rewrite (IH (0 * 256 + b2z x)).
    rewrite zlen_cons. rewrite Z.pow_add_r by (pose proof (zlen_nonneg l); lia).
    lia.
Qed.

Lemma be_val_range l : 0 <= be_val l < 256 ^ zlen l.
Proof.
  unfold be_val. induction l as [|x l IH].
  - unfold zlen; simpl; lia.
  - cbn [be_val_acc]. rewrite be_val_acc_shift. rewrite zlen_cons.
    pose proof (b2z_range x). pose proof (zlen_nonneg l).
    rewrite Z.pow_add_r by lia. change (256 ^ 1) with 256.
    assert (0 < 256 ^ zlen l) by (apply Z.pow_pos_nonneg; lia).
    nia.
Qed.

Lemma be_val_cons x l : be_val (x :: l) = b2z x * 256 ^ zlen l + be_val l.
Proof. unfold be_val. cbn [be_val_acc]. rewrite be_val_acc_shift. lia. Qed.

Lemma be_val_app a b : be_val (a ++ b) = be_val a * 256 ^ zlen b + be_val b.
Proof. unfold be_val. rewrite be_val_acc_app. rewrite be_val_acc_shift. reflexivity. Qed.

Lemma be_val_enc n z : be_val (be_enc n z) = z mod 256 ^ Z.of_nat n.
Proof.
  revert z. induction n as [|k IH]; intros z.
  - simpl. unfold be_val. simpl. rewrite Z.mod_1_r. reflexivity.
  - cbn [be_enc]. rewrite be_val_cons. rewrite IH. rewrite b2z_z2b.
    unfold zlen. rewrite be_enc_length.
    rewrite Nat2Z.inj_succ. rewrite Z.pow_succ_r by lia.
    assert (Hp: 0 < 256 ^ Z.of_nat k) by (apply Z.pow_pos_nonneg; lia).
    set (p := 256 ^ Z.of_nat k) in *.
    (* z mod (256*p) = (z/p mod 256)*p + z mod p *)
    rewrite (Z.mul_comm 256 p).
    rewrite Z.rem_mul_r by lia. lia.
Qed.

Lemma be_enc_mod_eq m z1 z2 :
  z1 mod 256 ^ Z.of_nat m = z2 mod 256 ^ Z.of_nat m -> be_enc m z1 = be_enc m z2.
Proof.
  revert z1 z2. induction m as [|m IH]; intros z1 z2 H; [reflexivity|].
  cbn [be_enc]. rewrite Nat2Z.inj_succ in H. rewrite Z.pow_succ_r in H by lia.
  assert (Hp: 0 < 256 ^ Z.of_nat m) by (apply Z.pow_pos_nonneg; lia).
  set (p := 256 ^ Z.of_nat m) in *. rewrite (Z.mul_comm 256 p) in H.
  rewrite !Z.rem_mul_r in H by lia.
  pose proof (Z.mod_pos_bound z1 p Hp). pose proof (Z.mod_pos_bound z2 p Hp).
  pose proof (Z.mod_pos_bound (z1/p) 256 ltac:(lia)). pose proof (Z.mod_pos_bound (z2/p) 256 ltac:(lia)).
  assert (Hq: (z1 / p) mod 256 = (z2 / p) mod 256) by nia.
  assert (Hr: z1 mod p = z2 mod p) by nia.
  f_equal.
  - apply b2z_inj. rewrite !b2z_z2b. exact Hq.
  - apply IH. exact Hr.
Qed.

Lemma be_enc_val l : be_enc (length l) (be_val l) = l.
Proof.
  induction l as [|x l IH].
  - reflexivity.
  - cbn [length be_enc]. rewrite be_val_cons.
    pose proof (be_val_range l) as Hr. unfold zlen in *.
    assert (Hp: 0 < 256 ^ Z.of_nat (length l)) by (apply Z.pow_pos_nonneg; lia).
    f_equal.
    + rewrite Z.div_add_l by lia. rewrite Z.div_small by lia. rewrite Z.add_0_r. apply z2b_b2z.
    + transitivity (be_enc (length l) (be_val l)); [|exact IH].
      apply be_enc_mod_eq. rewrite Z.add_comm. rewrite Z.mod_add by lia. reflexivity.
Qed.

Lemma be_enc_small_roundtrip n z : 0 <= z < 256 ^ Z.of_nat n -> be_val (be_enc n z) = z.
Proof. intros H. rewrite be_val_enc. apply Z.mod_small; lia. Qed.
