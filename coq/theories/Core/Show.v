(* Text rendering used only by the correspondence runner (never by a theorem):
   decimal integers, hex byte strings, splitting a command line, canonical outcome strings. *)
From Coq Require Import ZArith List Bool String Ascii.
From Coq.Strings Require Import Byte.
From CP Require Import Core.Bytes Core.Result.
Import ListNotations.
Local Open Scope string_scope.
Open Scope Z_scope.

Definition digit_char (d : Z) : ascii := ascii_of_N (Z.to_N (if d <? 10 then 48 + d else 87 + d)).

Fixpoint pos_digits (fuel : nat) (z : Z) (acc : string) : string :=
  match fuel with
  | O => acc
  | S k => if z <? 10 then String (digit_char z) acc
           else pos_digits k (z / 10) (String (digit_char (z mod 10)) acc)
  end.

Definition string_of_Z (z : Z) : string :=
  let a := Z.abs z in
  let s := pos_digits (S (Z.to_nat (Z.log2 a + 1))) a "" in
  if z <? 0 then String "-" s else s.

Definition hex_of_byte (b : byte) : string :=
  let z := b2z b in String (digit_char (z / 16)) (String (digit_char (z mod 16)) "").
Fixpoint hex_of_bytes (l : bytes) : string :=
  match l with [] => "" | b :: r => hex_of_byte b ++ hex_of_bytes r end.

Definition hexval (c : ascii) : Z :=
  let n := Z.of_N (N_of_ascii c) in
  if (48 <=? n) && (n <=? 57) then n - 48
  else if (97 <=? n) && (n <=? 102) then n - 87
  else if (65 <=? n) && (n <=? 70) then n - 55 else 0.

Fixpoint bytes_of_hex (s : string) : bytes :=
  match s with
  | String a (String b r) => z2b (hexval a * 16 + hexval b) :: bytes_of_hex r
  | _ => []
  end.

Fixpoint z_of_digits (s : string) (acc : Z) : Z :=
  match s with
  | String c r => z_of_digits r (acc * 10 + hexval c)
  | EmptyString => acc
  end.
Definition z_of_string (s : string) : Z :=
  match s with
  | String "-" r => - z_of_digits r 0
  | _ => z_of_digits s 0
  end.

Fixpoint rev_string (s acc : string) : string :=
  match s with EmptyString => acc | String c r => rev_string r (String c acc) end.
(* cur is kept reversed so that splitting is linear in the length of the line *)
Fixpoint split_on_acc (sep : ascii) (s : string) (cur : string) : list string :=
  match s with
  | EmptyString => [rev_string cur ""]
  | String c r => if Ascii.eqb c sep then rev_string cur "" :: split_on_acc sep r "" else split_on_acc sep r (String c cur)
  end.
Definition split_on (sep : ascii) (s : string) (cur : string) : list string := split_on_acc sep s (rev_string cur "").
Definition words (s : string) : list string := split_on " " s "".

Definition show_exn (e : exn) : string :=
  match e with
  | IndexError => "IndexError" | KeyError => "KeyError" | AttributeError => "AttributeError"
  | TypeError => "TypeError" | UnicodeError => "UnicodeError" | StructError => "StructError"
  | ValueError => "ValueError" | OverflowError => "OverflowError" | StopIteration => "StopIteration"
  | NotImplementedError => "NotImplementedError" | RecursionError => "RecursionError" | OtherExn => "OtherExn"
  end.

Definition show_err (e : err) : string :=
  match e with
  | NotEnoughData k => "ERR NotEnoughData " ++ string_of_Z k
  | TooMuchData _ => "ERR TooMuchData"
  | InvalidValue => "ERR InvalidValue"
  | InvalidType => "ERR InvalidType"
  | Leak x => "LEAK " ++ show_exn x
  | OutOfFuel => "OUTOFFUEL"
  end.

Definition show_result {A} (f : A -> string) (r : result A) : string :=
  match r with Ok a => "OK " ++ f a | Err e => show_err e end.

Definition show_list {A} (f : A -> string) (l : list A) : string := "[" ++ String.concat "," (map f l) ++ "]".
