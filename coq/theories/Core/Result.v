(* Outcomes of parse / compose operations: the four documented errors, leaked exceptions, fuel exhaustion. *)
From Coq Require Import ZArith List.
Open Scope Z_scope.

Inductive exn := IndexError | KeyError | AttributeError | TypeError | UnicodeError | StructError
               | ValueError | OverflowError | StopIteration | NotImplementedError | RecursionError | OtherExn.

Inductive err :=
| NotEnoughData (k : Z)
| TooMuchData (k : Z)
| InvalidValue
| InvalidType
| Leak (e : exn)       (* any exception that is not one of the four documented ones *)
| OutOfFuel.           (* model artefact; theorems exclude it *)

Inductive result (A : Type) := Ok (a : A) | Err (e : err).
Arguments Ok {A} a.
Arguments Err {A} e.

Definition bind {A B} (r : result A) (f : A -> result B) : result B :=
  match r with Ok a => f a | Err e => Err e end.

Notation "'let*' x ':=' r 'in' k" := (bind r (fun x => k)) (at level 200, x pattern, r at level 100, k at level 200).

Definition is_leak {A} (r : result A) : bool := match r with Err (Leak _) => true | _ => false end.
Definition is_ok {A} (r : result A) : bool := match r with Ok _ => true | _ => false end.

Lemma bind_ok {A B} (r : result A) (f : A -> result B) b :
  bind r f = Ok b -> exists a, r = Ok a /\ f a = Ok b.
Proof. destruct r; simpl; intros H; [eauto|discriminate]. Qed.

Lemma Ok_inj {A} (a b : A) : Ok a = Ok b -> a = b.
Proof. congruence. Qed.
