(* _parse_basic_params refines a per-attribute case-insensitive lookup; invariance of that lookup under letter case of
   names, order of components and unknown components. *)
From Coq Require Import ZArith List Bool Lia Permutation.
From Coq.Strings Require Import Byte.
From CP Require Import Core.Bytes Core.Result Text.Field Spec.FieldSpec Lemmas.FieldLemmas.
Import ListNotations.
Open Scope Z_scope.

Definition matches (canon : bytes) (kv : comp) : bool := check_name Insens canon (fst kv).
Definition nomatch (canon : bytes) (d : list comp) : bool := forallb (fun kv => negb (matches canon kv)) d.

Lemma matches_lower canon kv : matches canon kv = true <-> lower (fst kv) = lower canon.
Proof. unfold matches, check_name. apply bytes_eqb_eq. Qed.

Lemma matches_self canon v : matches canon (canon, v) = true.
Proof. apply matches_lower. reflexivity. Qed.

Lemma find_comp_none canon d : nomatch canon d = true -> find_comp Insens canon d = None.
Proof.
  induction d as [|[k v] r IH]; cbn [nomatch forallb find_comp]; [reflexivity|].
  intros H. apply andb_true_iff in H. destruct H as [Hk Hr]. apply negb_true_iff in Hk.
  unfold matches in Hk. cbn [fst] in Hk. rewrite Hk. apply IH. exact Hr.
Qed.

Lemma find_comp_none_inv canon d : find_comp Insens canon d = None -> nomatch canon d = true.
Proof.
  induction d as [|[k v] r IH]; cbn [nomatch forallb find_comp]; [reflexivity|].
  unfold matches at 1. cbn [fst]. destruct (check_name Insens canon k); [discriminate|].
  intros H. cbn [negb andb]. apply IH. exact H.
Qed.

Lemma filter_nomatch canon d : nomatch canon d = true -> filter (fun kv => negb (matches canon kv)) d = d.
Proof.
  induction d as [|kv r IH]; cbn [nomatch forallb filter]; [reflexivity|].
  intros H. apply andb_true_iff in H. destruct H as [Hk Hr]. rewrite Hk. f_equal. apply IH. exact Hr.
Qed.

Lemma od_set_nomatch canon v d : nomatch canon d = true -> od_set canon v d = d ++ [(canon, v)].
Proof.
  induction d as [|[k w] r IH]; cbn [nomatch forallb od_set app]; [reflexivity|].
  intros H. apply andb_true_iff in H. destruct H as [Hk Hr].
  destruct (bytes_eqb canon k) eqn:E.
  - apply bytes_eqb_eq in E. subst k. rewrite matches_self in Hk. discriminate.
  - f_equal. apply IH. exact Hr.
Qed.

Lemma od_pop_last canon v d : nomatch canon d = true -> od_pop canon (d ++ [(canon, v)]) = d.
Proof.
  induction d as [|[k w] r IH]; cbn [nomatch forallb od_pop app].
  - intros _. rewrite bytes_eqb_refl. reflexivity.
  - intros H. apply andb_true_iff in H. destruct H as [Hk Hr].
    destruct (bytes_eqb canon k) eqn:E.
    + apply bytes_eqb_eq in E. subst k. rewrite matches_self in Hk. discriminate.
    + f_equal. apply IH. exact Hr.
Qed.

Lemma nodup_head_nomatch canon k v r :
  matches canon (k, v) = true -> NoDup (lnames ((k, v) :: r)) -> nomatch canon r = true.
Proof.
  intros Hm Hn. unfold lnames in Hn. cbn [map fst] in Hn. inversion Hn as [|x l Hnotin Hnd]; subst.
  apply matches_lower in Hm. cbn [fst] in Hm.
  unfold nomatch. apply forallb_forall. intros kv Hin. apply negb_true_iff.
  destruct (matches canon kv) eqn:E; [|reflexivity]. exfalso. apply Hnotin.
  apply matches_lower in E. rewrite Hm, <- E. apply in_map_iff. exists kv. split; [reflexivity|exact Hin].
Qed.

(* the three dictionary operations of one attribute amount to removing the matched component *)
Lemma net_effect canon d k v :
  find_comp Insens canon d = Some (k, v) -> NoDup (lnames d) ->
  od_pop canon (od_set canon v (od_pop k d)) = filter (fun kv => negb (matches canon kv)) d.
Proof.
  induction d as [|[k0 v0] r IH]; cbn [find_comp]; [discriminate|].
  intros Hf Hn. destruct (check_name Insens canon k0) eqn:E.
  - inversion Hf; subst k0 v0. clear Hf.
    assert (Hr: nomatch canon r = true) by (eapply nodup_head_nomatch; [|exact Hn]; exact E).
    cbn [od_pop]. rewrite bytes_eqb_refl. rewrite od_set_nomatch by exact Hr. rewrite od_pop_last by exact Hr.
    cbn [filter]. unfold matches at 1. cbn [fst]. rewrite E. cbn [negb]. rewrite filter_nomatch by exact Hr. reflexivity.
  - assert (Hk: bytes_eqb k k0 = false).
    { apply bytes_eqb_neq. intros ->.
      assert (Hm: find_comp Insens canon r = Some (k0, v) -> check_name Insens canon k0 = true).
      { clear. induction r as [|[a b] r IH]; cbn [find_comp]; [discriminate|].
        destruct (check_name Insens canon a) eqn:Ea; [intros H; inversion H; subst; exact Ea|exact IH]. }
      rewrite (Hm Hf) in E. discriminate. }
    assert (Hc: bytes_eqb canon k0 = false).
    { apply bytes_eqb_neq. intros ->. unfold check_name in E. rewrite bytes_eqb_refl in E. discriminate. }
    cbn [od_pop]. rewrite Hk. cbn [od_set]. rewrite Hc. cbn [od_pop]. rewrite Hc.
    cbn [filter]. unfold matches at 1. cbn [fst]. rewrite E. cbn [negb]. f_equal.
    apply IH; [exact Hf|]. unfold lnames in *. cbn [map] in Hn. inversion Hn; assumption.
Qed.

Lemma one_attr_spec a d :
  fa_mode a = Insens -> NoDup (lnames d) ->
  one_attr a d =
    match lookup_ci (fa_canon a) d with
    | Some kv => Ok (Some (raw_of (fa_canon a) kv), filter (fun kv => negb (matches (fa_canon a) kv)) d)
    | None => if fa_required a then Err InvalidValue
              else Ok (None, filter (fun kv => negb (matches (fa_canon a) kv)) d)
    end.
Proof.
  intros Hm Hn. unfold one_attr, lookup_ci. rewrite Hm.
  destruct (find_comp Insens (fa_canon a) d) as [[k v]|] eqn:E.
  - rewrite (net_effect _ _ _ _ E Hn). reflexivity.
  - rewrite filter_nomatch by (apply find_comp_none_inv; exact E). reflexivity.
Qed.

Lemma nodup_map_filter {A B} (f : A -> B) (p : A -> bool) l : NoDup (map f l) -> NoDup (map f (filter p l)).
Proof.
  induction l as [|x l IH]; cbn [map filter]; [auto|].
  intros H. inversion H as [|y ys Hnotin Hnd]; subst. destruct (p x); [|apply IH; exact Hnd].
  cbn [map]. constructor; [|apply IH; exact Hnd].
  intros Hin. apply Hnotin. apply in_map_iff in Hin. destruct Hin as [z [Hz Hin]].
  apply filter_In in Hin. destruct Hin as [Hin _]. apply in_map_iff. exists z. split; assumption.
Qed.

(* removing the components that match one name does not disturb the lookup of a different name *)
Lemma find_comp_filter_other ca cb d :
  lower ca <> lower cb ->
  find_comp Insens cb (filter (fun kv => negb (matches ca kv)) d) = find_comp Insens cb d.
Proof.
  intros Hne. induction d as [|[k v] r IH]; [reflexivity|].
  cbn [filter find_comp]. destruct (matches ca (k, v)) eqn:Ea; cbn [negb].
  - rewrite IH. destruct (check_name Insens cb k) eqn:Eb; [|reflexivity].
    exfalso. apply matches_lower in Ea. cbn [fst] in Ea.
    assert (Hb: matches cb (k, v) = true) by exact Eb. apply matches_lower in Hb. cbn [fst] in Hb. congruence.
  - cbn [find_comp]. rewrite IH. reflexivity.
Qed.

Lemma params_spec_filter_other ca sch d :
  ~ In (lower ca) (lcanons sch) ->
  params_spec sch (filter (fun kv => negb (matches ca kv)) d) = params_spec sch d
  /\ required_present sch (filter (fun kv => negb (matches ca kv)) d) = required_present sch d.
Proof.
  induction sch as [|b r IH]; [split; reflexivity|].
  intros Hnotin. unfold lcanons in Hnotin. cbn [map In] in Hnotin.
  assert (Hne: lower ca <> lower (fa_canon b)) by (intros E; apply Hnotin; left; symmetry; exact E).
  assert (Hr: ~ In (lower ca) (lcanons r)) by (intros Hin; apply Hnotin; right; exact Hin).
  destruct (IH Hr) as [IH1 IH2].
  unfold params_spec, required_present, lookup_ci in *. cbn [map forallb].
  rewrite (find_comp_filter_other ca (fa_canon b) d Hne). rewrite IH1, IH2. split; reflexivity.
Qed.

Lemma filter_filter {A} (p q : A -> bool) l : filter q (filter p l) = filter (fun x => p x && q x) l.
Proof.
  induction l as [|x l IH]; [reflexivity|]. cbn [filter]. destruct (p x); cbn [filter andb]; [destruct (q x)|]; rewrite IH; reflexivity.
Qed.

Lemma filter_ext_eq {A} (p q : A -> bool) l : (forall x, p x = q x) -> filter p l = filter q l.
Proof. intros H. induction l as [|x l IH]; [reflexivity|]. cbn [filter]. rewrite H, IH. reflexivity. Qed.

Lemma filter_all_true {A} (l : list A) : filter (fun _ => true) l = l.
Proof. induction l as [|x l IH]; [reflexivity|]. cbn [filter]. rewrite IH. reflexivity. Qed.

(* the refinement: the dictionary juggling of _parse_basic_params computes one lookup per attribute *)
Lemma basic_params_spec sch : forall d,
  all_insens sch = true -> NoDup (lcanons sch) -> NoDup (lnames d) ->
  basic_params sch d =
    if required_present sch d then Ok (params_spec sch d, leftover_spec sch d) else Err InvalidValue.
Proof.
  induction sch as [|a r IH]; intros d Hall Hnc Hnd.
  - cbn [basic_params required_present forallb params_spec map]. unfold leftover_spec. cbn [known_name existsb negb].
    rewrite filter_all_true. reflexivity.
  - cbn [all_insens forallb] in Hall. apply andb_true_iff in Hall. destruct Hall as [Ha Hall].
    assert (Hm: fa_mode a = Insens) by (destruct (fa_mode a); [discriminate|reflexivity|discriminate]).
    unfold lcanons in Hnc. cbn [map] in Hnc. inversion Hnc as [|x l Hnotin Hnc']; subst.
    cbn [basic_params]. rewrite (one_attr_spec a d Hm Hnd).
    set (d' := filter (fun kv => negb (matches (fa_canon a) kv)) d).
    assert (Hnd': NoDup (lnames d')) by (apply nodup_map_filter; exact Hnd).
    destruct (params_spec_filter_other (fa_canon a) r d Hnotin) as [Hp Hq]. fold d' in Hp, Hq.
    assert (Hl: leftover_spec r d' = leftover_spec (a :: r) d).
    { unfold leftover_spec, d'. rewrite filter_filter. apply filter_ext_eq. intros kv.
      cbn [known_name existsb]. unfold matches. rewrite negb_orb. reflexivity. }
    assert (Hreq: required_present (a :: r) d =
                  implb (fa_required a) (match lookup_ci (fa_canon a) d with Some _ => true | None => false end)
                  && required_present r d) by reflexivity.
    destruct (lookup_ci (fa_canon a) d) as [kv|] eqn:El.
    + cbn [bind]. rewrite (IH d' Hall Hnc' Hnd'). rewrite Hq, Hp, Hl, Hreq.
      rewrite implb_true_r. cbn [andb].
      destruct (required_present r d); cbn [bind]; [|reflexivity].
      unfold params_spec. cbn [map]. rewrite El. reflexivity.
    + destruct (fa_required a) eqn:Er.
      * rewrite Hreq. reflexivity.
      * cbn [bind]. rewrite (IH d' Hall Hnc' Hnd'). rewrite Hq, Hp, Hl, Hreq. cbn [implb andb].
        destruct (required_present r d); cbn [bind]; [|reflexivity].
        unfold params_spec. cbn [map]. rewrite El. reflexivity.
Qed.

(* ---- invariance of the lookup specification ---- *)
Lemma lookup_ci_lower c1 c2 d : lower c1 = lower c2 -> lookup_ci c1 d = lookup_ci c2 d.
Proof.
  intros E. unfold lookup_ci. induction d as [|[k v] r IH]; [reflexivity|].
  cbn [find_comp]. unfold check_name. rewrite E, IH. reflexivity.
Qed.

Lemma lookup_ci_case c d1 d2 :
  same_upto_case d1 d2 -> option_map snd (lookup_ci c d1) = option_map snd (lookup_ci c d2).
Proof.
  unfold same_upto_case, lookup_ci. induction 1 as [|[k1 v1] [k2 v2] r1 r2 [Hk Hv] _ IH]; [reflexivity|].
  cbn [fst snd] in Hk, Hv. subst v2. cbn [find_comp]. unfold check_name. rewrite Hk.
  destruct (bytes_eqb (lower k2) (lower c)); [reflexivity|exact IH].
Qed.

Lemma params_abs_case sch d1 d2 : same_upto_case d1 d2 -> params_abs sch d1 = params_abs sch d2.
Proof.
  intros H. unfold params_abs. apply map_ext. intros a. apply lookup_ci_case. exact H.
Qed.

(* a matched component that came without a value is accepted by the option class whatever its letter case *)
Lemma lookup_ci_matches c d kv : lookup_ci c d = Some kv -> check_name Insens c (fst kv) = true.
Proof.
  unfold lookup_ci. induction d as [|[k v] r IH]; cbn [find_comp]; [discriminate|].
  destruct (check_name Insens c k) eqn:E; [intros H; inversion H; subst; exact E|exact IH].
Qed.

Lemma lookup_ci_in c d kv : lookup_ci c d = Some kv -> In kv d.
Proof.
  unfold lookup_ci. induction d as [|[k v] r IH]; cbn [find_comp]; [discriminate|].
  destruct (check_name Insens c k); [intros H; inversion H; left; reflexivity|intros H; right; apply IH; exact H].
Qed.

Lemma lookup_ci_none c d kv : lookup_ci c d = None -> In kv d -> matches c kv = false.
Proof.
  intros H Hin. apply find_comp_none_inv in H. unfold nomatch in H. rewrite forallb_forall in H.
  apply negb_true_iff. apply H. exact Hin.
Qed.

Lemma nodup_map_inj_in {A B} (f : A -> B) l x y : NoDup (map f l) -> In x l -> In y l -> f x = f y -> x = y.
Proof.
  induction l as [|z l IH]; cbn [map In]; [tauto|].
  intros Hn Hx Hy E. inversion Hn as [|w ws Hnotin Hnd]; subst.
  destruct Hx as [->|Hx], Hy as [->|Hy]; [reflexivity| | |apply IH; assumption].
  - exfalso. apply Hnotin. rewrite E. apply in_map. exact Hy.
  - exfalso. apply Hnotin. rewrite <- E. apply in_map. exact Hx.
Qed.

Lemma lookup_ci_perm c d1 d2 : Permutation d1 d2 -> NoDup (lnames d1) -> lookup_ci c d1 = lookup_ci c d2.
Proof.
  intros Hp Hn.
  assert (Hn2: NoDup (lnames d2)) by (eapply Permutation_NoDup; [apply Permutation_map; exact Hp|exact Hn]).
  destruct (lookup_ci c d1) as [kv1|] eqn:E1; destruct (lookup_ci c d2) as [kv2|] eqn:E2; [| | |reflexivity].
  - f_equal. apply (nodup_map_inj_in (fun kv => lower (fst kv)) d2); [exact Hn2| | |].
    + eapply Permutation_in; [exact Hp|]. eapply lookup_ci_in; exact E1.
    + eapply lookup_ci_in; exact E2.
    + apply lookup_ci_matches in E1. apply lookup_ci_matches in E2.
      apply (matches_lower c kv1) in E1. apply (matches_lower c kv2) in E2. congruence.
  - exfalso. pose proof (lookup_ci_in _ _ _ E1) as Hin. pose proof (lookup_ci_matches _ _ _ E1) as Hm.
    change (matches c kv1 = true) in Hm. rewrite (lookup_ci_none c d2 kv1 E2) in Hm; [discriminate|]. eapply Permutation_in; [exact Hp|exact Hin].
  - exfalso. pose proof (lookup_ci_in _ _ _ E2) as Hin. pose proof (lookup_ci_matches _ _ _ E2) as Hm.
    change (matches c kv2 = true) in Hm. rewrite (lookup_ci_none c d1 kv2 E1) in Hm; [discriminate|]. eapply Permutation_in; [apply Permutation_sym; exact Hp|exact Hin].
Qed.

Lemma params_spec_perm sch d1 d2 :
  Permutation d1 d2 -> NoDup (lnames d1) ->
  params_spec sch d1 = params_spec sch d2 /\ required_present sch d1 = required_present sch d2.
Proof.
  intros Hp Hn. unfold params_spec, required_present. split.
  - apply map_ext. intros a. rewrite (lookup_ci_perm _ _ _ Hp Hn). reflexivity.
  - induction sch as [|a r IH]; [reflexivity|]. cbn [forallb]. rewrite (lookup_ci_perm _ _ _ Hp Hn), IH. reflexivity.
Qed.

Lemma lookup_ci_unknown c d1 d2 k v :
  check_name Insens c k = false -> lookup_ci c (d1 ++ (k, v) :: d2) = lookup_ci c (d1 ++ d2).
Proof.
  intros Hk. unfold lookup_ci. induction d1 as [|[k1 v1] r IH]; cbn [app find_comp].
  - rewrite Hk. reflexivity.
  - rewrite IH. reflexivity.
Qed.

Lemma params_spec_unknown sch d1 d2 k v :
  known_name sch k = false ->
  params_spec sch (d1 ++ (k, v) :: d2) = params_spec sch (d1 ++ d2)
  /\ required_present sch (d1 ++ (k, v) :: d2) = required_present sch (d1 ++ d2).
Proof.
  induction sch as [|a r IH]; [split; reflexivity|].
  cbn [known_name existsb]. intros H. apply orb_false_iff in H. destruct H as [Ha Hr].
  destruct (IH Hr) as [IH1 IH2]. unfold params_spec, required_present in *. cbn [map forallb].
  rewrite (lookup_ci_unknown _ d1 d2 k v Ha), IH1, IH2. split; reflexivity.
Qed.

(* ---- the dictionary built from components with distinct names is the component list ---- *)
Lemma od_set_fresh k v d : ~ In k (map fst d) -> od_set k v d = d ++ [(k, v)].
Proof.
  induction d as [|[k' v'] r IH]; cbn [map fst In od_set app]; [reflexivity|].
  intros H. destruct (bytes_eqb k k') eqn:E.
  - apply bytes_eqb_eq in E. subst. exfalso. apply H. left. reflexivity.
  - f_equal. apply IH. intros Hin. apply H. right. exact Hin.
Qed.

Lemma od_fold_nodup l : forall acc, NoDup (map fst (acc ++ l)) ->
  fold_left (fun d kv => od_set (fst kv) (snd kv) d) l acc = acc ++ l.
Proof.
  induction l as [|[k v] r IH]; intros acc Hn; cbn [fold_left]; [rewrite app_nil_r; reflexivity|].
  cbn [fst snd]. rewrite od_set_fresh.
  - rewrite IH; rewrite <- app_assoc; [reflexivity|exact Hn].
  - rewrite map_app in Hn. apply NoDup_remove_2 in Hn. cbn [map fst] in Hn. intros Hin. apply Hn.
    apply in_or_app. left. exact Hin.
Qed.

Lemma od_of_list_nodup l : NoDup (map fst l) -> od_of_list l = l.
Proof. intros H. unfold od_of_list. rewrite od_fold_nodup; [reflexivity|exact H]. Qed.

Lemma lnames_nodup_keys d : NoDup (lnames d) -> NoDup (map fst d).
Proof.
  unfold lnames. intros H. apply (NoDup_map_inv lower). rewrite map_map. exact H.
Qed.

(* ---- positional first attribute (Content-Type's media type, X-XSS-Protection's state): it takes the first
   component whatever its name ---- *)
Lemma od_pop_fresh_last k v d : ~ In k (map fst d) -> od_pop k (d ++ [(k, v)]) = d.
Proof.
  induction d as [|[k' v'] r IH]; cbn [map fst In od_pop app].
  - intros _. rewrite bytes_eqb_refl. reflexivity.
  - intros H. destruct (bytes_eqb k k') eqn:E.
    + apply bytes_eqb_eq in E. subst. exfalso. apply H. left. reflexivity.
    + f_equal. apply IH. intros Hin. apply H. right. exact Hin.
Qed.

Lemma one_attr_any a k v r :
  fa_mode a = AnyName -> ~ In (fa_canon a) (map fst r) ->
  one_attr a ((k, v) :: r) = Ok (Some (raw_of (fa_canon a) (k, v)), r).
Proof.
  intros Hm Hf. unfold one_attr. rewrite Hm. cbn [find_comp check_name od_pop]. rewrite bytes_eqb_refl.
  rewrite od_set_fresh by exact Hf. rewrite od_pop_fresh_last by exact Hf. reflexivity.
Qed.

(* ---- end to end: FieldValueMultiple._parse up to the component classes, on every spelling ---- *)
Definition res_params {A B} (r : result (A * B)) : result A := match r with Ok (p, _) => Ok p | Err e => Err e end.

Lemma fvm_spelled s sch segs :
  is_ws s = false -> forallb (seg_ok s) segs = true ->
  all_insens sch = true -> NoDup (lcanons sch) -> NoDup (lnames (map nvp (seg_items segs))) ->
  fvm s sch (spell s segs) =
    let d := map nvp (seg_items segs) in
    if required_present sch d then Ok (params_spec sch d, leftover_spec sch d) else Err InvalidValue.
Proof.
  intros Hs Hok Hall Hnc Hnd. unfold fvm, nvlist. rewrite tokens_spell by assumption. cbn [bind].
  rewrite od_of_list_nodup by (apply lnames_nodup_keys; exact Hnd).
  cbv zeta. apply basic_params_spec; assumption.
Qed.

(* white space, empty elements, order of the directives: the same attribute assignment *)
Lemma fvm_spelling_order s sch segs1 segs2 :
  is_ws s = false -> forallb (seg_ok s) segs1 = true -> forallb (seg_ok s) segs2 = true ->
  all_insens sch = true -> NoDup (lcanons sch) ->
  NoDup (lnames (map nvp (seg_items segs1))) ->
  Permutation (seg_items segs1) (seg_items segs2) ->
  res_params (fvm s sch (spell s segs1)) = res_params (fvm s sch (spell s segs2)).
Proof.
  intros Hs H1 H2 Hall Hnc Hnd Hp.
  assert (Hp': Permutation (map nvp (seg_items segs1)) (map nvp (seg_items segs2))) by (apply Permutation_map; exact Hp).
  assert (Hnd2: NoDup (lnames (map nvp (seg_items segs2)))).
  { eapply Permutation_NoDup; [apply Permutation_map; exact Hp'|exact Hnd]. }
  rewrite !fvm_spelled by assumption. cbv zeta.
  destruct (params_spec_perm sch _ _ Hp' Hnd) as [E1 E2]. rewrite E1, E2.
  destruct (required_present sch (map nvp (seg_items segs2))); reflexivity.
Qed.
