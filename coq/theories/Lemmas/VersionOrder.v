(* Proofs about Tls/Version.v for property C17. *)
From Coq Require Import ZArith Bool List Lia String Permutation.
From CP Require Import Tls.Version.
From CPGen Require Import Tables.
Import ListNotations.
Open Scope Z_scope.

(* ---- arithmetic reading of the bit operations -------------------------------------------------- *)
Lemma minor_mod c : 0 <= c -> minor c = c mod 256.
Proof. intros _. unfold minor. change 255 with (Z.ones 8). rewrite Z.land_ones by lia. reflexivity. Qed.

Lemma major_div c : 0 <= c < 65536 -> major c = c / 256.
Proof.
  intros H. unfold major. rewrite Z.shiftr_land. change (Z.shiftr 65280 8) with (Z.ones 8).
  rewrite Z.land_ones by lia. rewrite Z.shiftr_div_pow2 by lia. change (2 ^ 8) with 256.
  apply Z.mod_small. split; [apply Z.div_pos; lia | apply Z.div_lt_upper_bound; lia].
Qed.

(* ---- validity of a code and the rank ("key") that the comparison implements --------------------- *)
Definition validb (c : Z) : bool :=
  (0 <=? c) && (c <? 65536) && (is_pre_release c || (c <=? TLS1_3_code)).
Definition key (c : Z) : Z := if c =? TLS1_3_code then 131072 else c.

Lemma validb_spec c : validb c = true ->
  0 <= c < 65536 /\ (is_pre_release c = true \/ c <= TLS1_3_code).
Proof.
  unfold validb. rewrite !andb_true_iff, orb_true_iff, Z.leb_le, Z.ltb_lt, Z.leb_le. tauto.
Qed.

Lemma pre_release_range c : 0 <= c < 65536 ->
  is_pre_release c = true <-> 32256 <= c < 32768.
Proof.
  intros H. unfold is_pre_release, is_draft, is_google_experimental.
  rewrite (major_div c H). rewrite orb_true_iff, !Z.eqb_eq.
  pose proof (Z.div_mod c 256 ltac:(lia)). pose proof (Z.mod_pos_bound c 256 ltac:(lia)). lia.
Qed.

Lemma v_lt_key a b : validb a = true -> validb b = true -> v_lt a b = (key a <? key b).
Proof.
  intros Ha Hb. apply validb_spec in Ha. apply validb_spec in Hb.
  destruct Ha as [Ra Pa], Hb as [Rb Pb].
  pose proof (pre_release_range a Ra) as PRa. pose proof (pre_release_range b Rb) as PRb.
  unfold v_lt, key. rewrite (major_div a Ra), (major_div b Rb), (minor_mod a), (minor_mod b) by lia.
  unfold TLS1_3_code in *.
  pose proof (Z.div_mod a 256 ltac:(lia)). pose proof (Z.mod_pos_bound a 256 ltac:(lia)).
  pose proof (Z.div_mod b 256 ltac:(lia)). pose proof (Z.mod_pos_bound b 256 ltac:(lia)).
  destruct (is_pre_release a) eqn:Ea; destruct (is_pre_release b) eqn:Eb;
    destruct (a / 256 =? b / 256) eqn:E1; destruct (a =? 772) eqn:E2; destruct (b =? 772) eqn:E3;
    rewrite ?Z.eqb_eq, ?Z.eqb_neq in *;
    repeat match goal with
    | H : _ <-> _ |- _ => destruct H
    | H : true = true -> _ |- _ => specialize (H eq_refl)
    end;
    cbn [negb];
    repeat match goal with |- context [?x <? ?y] => destruct (Z.ltb_spec x y) end;
    try reflexivity; try lia;
    try (exfalso; destruct Pa as [Pa|Pa]; destruct Pb as [Pb|Pb]; try discriminate; lia).
Qed.

Lemma key_inj a b : validb a = true -> validb b = true -> key a = key b -> a = b.
Proof.
  intros Ha Hb. apply validb_spec in Ha. apply validb_spec in Hb. unfold key, TLS1_3_code.
  destruct (Z.eqb_spec a 772), (Z.eqb_spec b 772); lia.
Qed.

(* ---- strict total order for every valid code (unbounded statement: any table of valid codes) ---- *)
Section Order.
  Variables a b c : Z.
  Hypothesis Ha : validb a = true.
  Hypothesis Hb : validb b = true.
  Hypothesis Hc : validb c = true.

  Lemma v_lt_irrefl : v_lt a a = false.
  Proof. rewrite v_lt_key by assumption. apply Z.ltb_irrefl. Qed.

  Lemma v_lt_trans : v_lt a b = true -> v_lt b c = true -> v_lt a c = true.
  Proof. rewrite !v_lt_key by assumption. rewrite !Z.ltb_lt. lia. Qed.

  Lemma v_lt_asym : v_lt a b = true -> v_lt b a = false.
  Proof. rewrite !v_lt_key by assumption. rewrite Z.ltb_lt, Z.ltb_ge. lia. Qed.

  (* exactly one of less / equal / greater *)
  Lemma v_trichotomy :
    (v_lt a b = true /\ v_eq a b = false /\ v_lt b a = false) \/
    (v_lt a b = false /\ v_eq a b = true /\ v_lt b a = false) \/
    (v_lt a b = false /\ v_eq a b = false /\ v_lt b a = true).
  Proof.
    rewrite !v_lt_key by assumption. unfold v_eq.
    destruct (Z.eqb_spec a b) as [->|N].
    - right; left. rewrite Z.ltb_irrefl. auto.
    - assert (key a <> key b) by (intro K; apply N; apply key_inj; assumption).
      destruct (Z.ltb_spec (key a) (key b)); destruct (Z.ltb_spec (key b) (key a)); try lia; auto.
  Qed.

  (* the operators functools.total_ordering derives agree with the order *)
  Lemma v_derived_ops :
    v_le v_lt a b = negb (v_lt b a) /\ v_gt v_lt a b = v_lt b a /\ v_ge v_lt a b = negb (v_lt a b)
    /\ v_le v_lt a b = v_ge v_lt b a.
  Proof.
    unfold v_le, v_gt, v_ge.
    destruct v_trichotomy as [(H1 & H2 & H3)|[(H1 & H2 & H3)|(H1 & H2 & H3)]]; rewrite ?H1, ?H2, ?H3;
      unfold v_eq in *; rewrite ?(Z.eqb_sym b a), ?H2; auto.
  Qed.

  Lemma v_eq_hash : v_eq a b = true <-> v_hash_key a = v_hash_key b.
  Proof. unfold v_eq, v_hash_key. apply Z.eqb_eq. Qed.
End Order.

(* ---- instantiation at the generated table --------------------------------------------------------- *)
Definition table_valid : bool := forallb validb tls_version_codes.
Fixpoint nodupb (l : list Z) : bool :=
  match l with [] => true | x :: r => negb (existsb (Z.eqb x) r) && nodupb r end.

Lemma nodupb_NoDup l : nodupb l = true -> NoDup l.
Proof.
  induction l as [|x r IH]; intros H; [constructor|].
  cbn [nodupb] in H. apply andb_true_iff in H. destruct H as [H1 H2].
  constructor; [|auto]. intro I. apply negb_true_iff in H1.
  assert (existsb (Z.eqb x) r = true) by (apply existsb_exists; exists x; split; [assumption|apply Z.eqb_refl]).
  congruence.
Qed.

Lemma table_valid_true : table_valid = true.
Proof. vm_compute. reflexivity. Qed.

Lemma table_codes_nodup : NoDup tls_version_codes.
Proof. apply nodupb_NoDup. vm_compute. reflexivity. Qed.

Lemma member_valid c : In c tls_version_codes -> validb c = true.
Proof. intro H. pose proof table_valid_true as T. unfold table_valid in T. rewrite forallb_forall in T. auto. Qed.

(* every member with canonical name TLS1_3 has the code the model compares against *)
Lemma tls1_3_code_in_table :
  forallb (fun r => match r with (n, _, c) => if String.eqb n "TLS1_3"%string then c =? TLS1_3_code else negb (c =? TLS1_3_code) end)
          tls_version_table = true.
Proof. vm_compute. reflexivity. Qed.

(* independent finite sweep over all triples of the generated table (bound: the table, 38 members today) *)
Definition triple_ok (x y z : Z) : bool :=
  negb (v_lt x x)
  && implb (v_lt x y && v_lt y z) (v_lt x z)
  && (Nat.eqb (Nat.b2n (v_lt x y) + Nat.b2n (v_eq x y) + Nat.b2n (v_lt y x)) 1).
Definition sweep_ok : bool :=
  forallb (fun x => forallb (fun y => forallb (fun z => triple_ok x y z) tls_version_codes) tls_version_codes)
          tls_version_codes.
Lemma sweep_ok_true : sweep_ok = true.
Proof. vm_compute. reflexivity. Qed.

Lemma sweep_triples x y z :
  In x tls_version_codes -> In y tls_version_codes -> In z tls_version_codes -> triple_ok x y z = true.
Proof.
  intros Hx Hy Hz. pose proof sweep_ok_true as S. unfold sweep_ok in S.
  rewrite forallb_forall in S. specialize (S x Hx). rewrite forallb_forall in S. specialize (S y Hy).
  rewrite forallb_forall in S. exact (S z Hz).
Qed.

(* ---- the chain of the property text ------------------------------------------------------------ *)
Definition code_of (name : String.string) : Z :=
  match find (fun r => match r with (n, _, _) => String.eqb n name end) tls_version_table with
  | Some (_, _, c) => c | None => -1 end.

Definition chain_ok : bool :=
  let ssl2 := code_of "SSL2"%string in let ssl3 := code_of "SSL3"%string in let t10 := code_of "TLS1"%string in
  let t11 := code_of "TLS1_1"%string in let t12 := code_of "TLS1_2"%string in let t13 := code_of "TLS1_3"%string in
  v_lt ssl2 ssl3 && v_lt ssl3 t10 && v_lt t10 t11 && v_lt t11 t12 && v_lt t12 t13
  && forallb (fun c => implb (is_pre_release c) (v_lt t12 c && v_lt c t13)) tls_version_codes
  && forallb (fun a => forallb (fun b =>
        implb (is_draft a && is_draft b) (Bool.eqb (v_lt a b) (minor a <? minor b))) tls_version_codes) tls_version_codes
  && forallb (fun c => is_pre_release c || existsb (Z.eqb c) [ssl2; ssl3; t10; t11; t12; t13]) tls_version_codes.
Lemma chain_ok_true : chain_ok = true.
Proof. vm_compute. reflexivity. Qed.

(* ---- max over a list is independent of the order of arrival ---------------------------------------- *)
Definition v_max2 (m x : Z) : Z := if v_lt m x then x else m.
Definition v_max (d : Z) (l : list Z) : Z := fold_left v_max2 l d.

Lemma v_max_key d l : validb d = true -> Forall (fun x => validb x = true) l ->
  validb (v_max d l) = true /\ key (v_max d l) = fold_left Z.max (map key l) (key d).
Proof.
  revert d. induction l as [|x l IH]; intros d Hd Hl; [simpl; auto|].
  inversion Hl as [|? ? Hx Hl']; subst. cbn [v_max fold_left map].
  assert (validb (v_max2 d x) = true /\ key (v_max2 d x) = Z.max (key d) (key x)) as [V K].
  { unfold v_max2. rewrite v_lt_key by assumption. destruct (Z.ltb_spec (key d) (key x)); split; auto; lia. }
  destruct (IH (v_max2 d x) V Hl') as [V' K']. split; [exact V'|]. unfold v_max in K'. rewrite K', K. reflexivity.
Qed.

Lemma fold_max_perm l l' d : Permutation.Permutation l l' -> fold_left Z.max l d = fold_left Z.max l' d.
Proof.
  intros P. revert d. induction P; intros d; cbn [fold_left]; auto.
  - f_equal. lia.
  - rewrite IHP1. apply IHP2.
Qed.

Lemma v_max_perm d l l' :
  validb d = true -> Forall (fun x => validb x = true) l -> Permutation.Permutation l l' ->
  v_max d l = v_max d l'.
Proof.
  intros Hd Hl P.
  assert (Hl' : Forall (fun x => validb x = true) l').
  { rewrite Forall_forall in *. intros x I. apply Hl. eapply Permutation.Permutation_in; [apply Permutation.Permutation_sym; exact P|exact I]. }
  destruct (v_max_key d l Hd Hl) as [V1 K1]. destruct (v_max_key d l' Hd Hl') as [V2 K2].
  apply key_inj; auto. rewrite K1, K2. apply fold_max_perm. apply Permutation.Permutation_map. exact P.
Qed.

(* ---- the pinned tree's __lt__ (before the fix) is not transitive --------------------------------- *)
Lemma v_lt_orig_intransitive :
  exists x y z, In x tls_version_codes /\ In y tls_version_codes /\ In z tls_version_codes /\
    v_lt_orig x y = true /\ v_lt_orig y z = true /\ v_lt_orig x z = false.
Proof.
  exists 772, 32257, 32512. (* TLS1_3 < GOOGLE_EXPERIMENT_1 < DRAFT_0, but not TLS1_3 < DRAFT_0 *)
  repeat split; vm_compute; tauto.
Qed.
