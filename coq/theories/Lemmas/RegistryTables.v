(* The code points of the live library (regenerated table) against the registries transcribed from the specifications. *)
From Coq Require Import ZArith List Bool String.
From CP Require Import Spec.Registry.
From CPGen Require Import Tables.
Import ListNotations.
Open Scope Z_scope.

Lemma tls_code_points : registry_agrees int_enum_members tls_registry = true /\ registry_covers int_enum_members tls_registry = true.
Proof. vm_compute. split; reflexivity. Qed.
Lemma ssh_code_points : registry_agrees int_enum_members ssh_registry = true /\ registry_covers int_enum_members ssh_registry = true.
Proof. vm_compute. split; reflexivity. Qed.
Lemma dns_code_points : registry_agrees int_enum_members dns_registry = true /\ registry_covers int_enum_members dns_registry = true.
Proof. vm_compute. split; reflexivity. Qed.
Lemma opp_code_points : registry_agrees int_enum_members opp_registry = true /\ registry_covers int_enum_members opp_registry = true.
Proof. vm_compute. split; reflexivity. Qed.

(* what agreement means, member by member *)
Lemma registry_agrees_spec tbl r enum ms m :
  registry_agrees tbl r = true -> In (enum, ms) r -> In m ms -> lookup_code tbl enum (fst m) = Some (snd m).
Proof.
  unfold registry_agrees. intros H He Hm. rewrite forallb_forall in H. specialize (H _ He). cbn [fst snd] in H.
  rewrite forallb_forall in H. specialize (H _ Hm). unfold member_agrees in H.
  destruct (lookup_code tbl enum (fst m)) as [c|]; [|discriminate]. apply Z.eqb_eq in H. subst. reflexivity.
Qed.
