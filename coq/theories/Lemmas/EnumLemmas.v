(* Proofs about Base/Enum.v (property C10). *)
From Coq Require Import ZArith List Bool Lia.
From Coq.Strings Require Import Byte.
From CP Require Import Core.Bytes Core.Result Prim.Int Base.Enum Lemmas.IntLemmas Lemmas.SliceLemmas.
Import ListNotations.
Open Scope Z_scope.
Local Arguments Z.mul : simpl never.
Local Arguments Z.add : simpl never.
Local Arguments Z.sub : simpl never.
Local Arguments Z.pow : simpl never.

(* ---- table search ------------------------------------------------------------------------------------ *)
Lemma find_code_some tbl c k i : find_code tbl c k = Some i ->
  exists j, i = (k + j)%nat /\ nth_error tbl j = Some c /\ forall j', (j' < j)%nat -> nth_error tbl j' <> Some c.
Proof.
  revert k. induction tbl as [|x r IH]; intros k H; [discriminate|]. cbn [find_code] in H.
  destruct (Z.eqb_spec x c) as [->|N].
  - inversion H; subst. exists 0%nat. split; [lia|]. split; [reflexivity|]. intros j' Hj. lia.
  - destruct (IH _ H) as [j [E [Hn Hm]]]. exists (S j). split; [lia|]. split; [exact Hn|].
    intros [|j'] Hj; cbn [nth_error]; [congruence|]. apply Hm. lia.
Qed.

Lemma find_code_none tbl c k : find_code tbl c k = None <-> ~ In c tbl.
Proof.
  revert k. induction tbl as [|x r IH]; intros k; cbn [find_code In]; [tauto|].
  destruct (Z.eqb_spec x c) as [->|N]; [split; [discriminate|intros H; exfalso; apply H; auto]|].
  rewrite IH. tauto.
Qed.

Lemma nth_error_NoDup_unique {A} (l : list A) i j x : NoDup l -> nth_error l i = Some x -> nth_error l j = Some x -> i = j.
Proof. intros ND Hi Hj. apply (proj1 (NoDup_nth_error l) ND); [apply nth_error_Some; congruence|congruence]. Qed.

Lemma decode_member tbl i c : NoDup tbl -> nth_error tbl i = Some c -> decode tbl c = Some i.
Proof.
  intros ND Hn. unfold decode. destruct (find_code tbl c 0) as [i'|] eqn:E.
  - destruct (find_code_some _ _ _ _ E) as [j [-> [Hj _]]]. f_equal. cbn. eapply nth_error_NoDup_unique; eassumption.
  - apply find_code_none in E. exfalso. apply E. eapply nth_error_In; eassumption.
Qed.

Lemma decode_sound tbl c i : decode tbl c = Some i -> nth_error tbl i = Some c.
Proof. unfold decode. intros H. destruct (find_code_some _ _ _ _ H) as [j [-> [Hj _]]]. exact Hj. Qed.

(* ---- re-encoding what parse_numeric read gives the very same bytes ------------------------------- *)
Lemma parse_numeric_reencode w buf c n : In w widths -> parse_numeric Network w buf 0 = Ok (c, n) ->
  n = w /\ w <= zlen buf /\ 0 <= c < 256 ^ w /\ compose_numeric Network w c = Ok (firstn (Z.to_nat w) buf).
Proof.
  intros Hw H. destruct (parse_numeric_range Network w buf 0 c n Hw ltac:(lia) H) as [-> [Hr Hl]].
  destruct (widths_pos w Hw) as [Hp [k Hk]].
  split; [reflexivity|]. split; [lia|]. split; [exact Hr|].
  rewrite compose_numeric_ok by assumption. f_equal. unfold enc. cbn [is_big].
  unfold parse_numeric, parse_numeric_array in H. rewrite Hk in H.
  destruct (Z.gtb_spec (0 + 1 * w) (zlen buf)); cbn [bind] in H; [discriminate|].
  change (Z.to_nat 1) with 1%nat in H. cbn [parse_items] in H. inversion H; subst c. clear H.
  unfold unpack. cbn [is_big]. rewrite Z.add_0_l. rewrite slice_0. rewrite ?Z.mul_1_l.
  set (l := firstn (Z.to_nat w) buf).
  assert (L : length l = Z.to_nat w) by (unfold l; rewrite firstn_length; unfold zlen in *; lia).
  rewrite <- L. apply be_enc_val.
Qed.

Section Table.
  Variable tbl : list Z.
  Variable w : Z.
  Hypothesis Hw : In w widths.
  Hypothesis Hrange : Forall (fun c => 0 <= c < 256 ^ w) tbl.

  Lemma member_code_range i c : nth_error tbl i = Some c -> 0 <= c < 256 ^ w.
  Proof. intros H. rewrite Forall_forall in Hrange. apply Hrange. eapply nth_error_In; eassumption. Qed.

  (* a known code decodes to the member carrying it, consumes w bytes and re-encodes to the same bytes *)
  Lemma parse_enum_sound buf i n : parse_enum tbl w buf = Ok (i, n) ->
    n = w /\ w <= zlen buf /\ nth_error tbl i = Some (be_val (firstn (Z.to_nat w) buf)) /\
    compose_enum tbl w i = Ok (firstn (Z.to_nat w) buf).
  Proof.
    unfold parse_enum. destruct (parse_numeric Network w buf 0) as [[c m]|e] eqn:E; cbn [bind]; [|discriminate].
    destruct (parse_numeric_reencode w buf c m Hw E) as [-> [Hl [Hr Hc]]].
    destruct (decode tbl c) as [i'|] eqn:D; [|discriminate]. intros H; inversion H; subst i' n; clear H.
    pose proof (decode_sound _ _ _ D) as Hn.
    assert (Ev : c = be_val (firstn (Z.to_nat w) buf)).
    { destruct (widths_pos w Hw) as [Hp [k Hk]]. unfold parse_numeric, parse_numeric_array in E. rewrite Hk in E.
      destruct (Z.gtb_spec (0 + 1 * w) (zlen buf)); cbn [bind] in E; [discriminate|].
      change (Z.to_nat 1) with 1%nat in E. cbn [parse_items] in E. inversion E. unfold unpack. cbn [is_big].
      rewrite Z.add_0_l, slice_0. reflexivity. }
    split; [reflexivity|]. split; [exact Hl|]. split; [rewrite <- Ev; exact Hn|].
    unfold compose_enum. rewrite Hn. exact Hc.
  Qed.

  (* every member round-trips: compose, then parse with any suffix, gives the member back *)
  Lemma enum_roundtrip i c s : NoDup tbl -> nth_error tbl i = Some c ->
    exists b, compose_enum tbl w i = Ok b /\ zlen b = w /\ parse_enum tbl w (b ++ s) = Ok (i, w).
  Proof.
    intros ND Hn. pose proof (member_code_range i c Hn) as Hr.
    exists (enc Network (Z.to_nat w) c). destruct (widths_pos w Hw) as [Hp _].
    assert (Hc : compose_numeric Network w c = Ok (enc Network (Z.to_nat w) c)) by (apply compose_numeric_ok; assumption).
    split; [unfold compose_enum; rewrite Hn; exact Hc|]. split; [unfold zlen; rewrite enc_length; lia|].
    unfold parse_enum. pose proof (parse_compose_numeric Network w c _ [] s Hw Hr Hc) as P. cbn [app] in P.
    change (zlen (@nil byte)) with 0 in P. rewrite P. cbn [bind]. rewrite (decode_member tbl i c ND Hn). reflexivity.
  Qed.

  (* an unknown code is rejected as an invalid value; a short buffer asks for the missing bytes; nothing else *)
  Lemma parse_enum_outcomes buf :
    (exists i, parse_enum tbl w buf = Ok (i, w)) \/
    (parse_enum tbl w buf = Err InvalidValue /\ w <= zlen buf /\ ~ In (be_val (firstn (Z.to_nat w) buf)) tbl) \/
    (parse_enum tbl w buf = Err (NotEnoughData (w - zlen buf)) /\ zlen buf < w).
  Proof.
    destruct (widths_pos w Hw) as [Hp [k Hk]]. pose proof (zlen_nonneg buf).
    unfold parse_enum, parse_numeric, parse_numeric_array. rewrite Hk.
    destruct (Z.gtb_spec (0 + 1 * w) (zlen buf)); cbn [bind].
    - right; right. split; [f_equal; f_equal; lia|lia].
    - change (Z.to_nat 1) with 1%nat. cbn [parse_items]. unfold unpack. cbn [is_big]. rewrite Z.add_0_l, slice_0. cbn [bind].
      destruct (decode tbl (be_val (firstn (Z.to_nat w) buf))) as [i|] eqn:D.
      + left. exists i. reflexivity.
      + right; left. split; [reflexivity|]. split; [lia|]. apply (find_code_none _ _ 0%nat). exact D.
  Qed.
End Table.

(* ---- the fallback class preserves any code point bit for bit ------------------------------------- *)
Lemma parse_invalid_preserves g w buf c k n : In w widths -> parse_invalid g w buf = Ok ((c, k), n) ->
  n = w /\ w <= zlen buf /\ compose_invalid w c = Ok (firstn (Z.to_nat w) buf) /\ k = classify g c.
Proof.
  intros Hw. unfold parse_invalid. destruct (parse_numeric Network w buf 0) as [[c' m]|e] eqn:E; cbn [bind]; [|discriminate].
  intros H; inversion H; subst c' k m; clear H.
  destruct (parse_numeric_reencode w buf c n Hw E) as [-> [Hl [_ Hc]]]. repeat split; auto.
Qed.

Section Vector.
  Variable tbl : list Z.
  Variable grease : option (list Z).
  Variable w : Z.
  Hypothesis Hw : In w widths.
  Hypothesis Hrange : Forall (fun c => 0 <= c < 256 ^ w) tbl.

  (* one item: a known code becomes its member, an unknown one is kept verbatim (or rejected without fallback) *)
  Lemma parse_eitem_preserves u it n : parse_eitem tbl grease w u = Ok (it, n) ->
    n = w /\ w <= zlen u /\ compose_eitem tbl w it = Ok (firstn (Z.to_nat w) u).
  Proof.
    unfold parse_eitem. destruct (parse_enum tbl w u) as [[i m]|e] eqn:E.
    - intros H; inversion H; subst it n; clear H.
      destruct (parse_enum_sound tbl w Hw u i m E) as [-> [Hl [_ Hc]]]. auto.
    - destruct e; try discriminate. destruct grease as [g|]; [|discriminate].
      destruct (parse_invalid g w u) as [[[c k] m]|e'] eqn:P; cbn [bind]; [|discriminate].
      intros H; inversion H; subst it n; clear H. cbn [fst snd compose_eitem].
      destruct (parse_invalid_preserves g w u c k m Hw P) as [-> [Hl [Hc _]]]. auto.
  Qed.

  (* the item loop neither drops nor alters anything: the items re-encode to exactly the bytes that were read *)
  Lemma derived_array_preserves fuel u items : derived_array (parse_eitem tbl grease w) fuel u = Ok items ->
    compose_eitems tbl w items = Ok u /\ zlen items * w = zlen u.
  Proof.
    destruct (widths_pos w Hw) as [Hp _].
    revert u items. induction fuel as [|f IH]; intros u items H.
    - destruct u; cbn in H; [|discriminate]. inversion H. cbn. auto.
    - destruct u as [|b r]; [cbn in H; inversion H; cbn; auto|].
      cbn [derived_array] in H. set (u := b :: r) in *.
      destruct (parse_eitem tbl grease w u) as [[it n]|e] eqn:E; cbn [bind] in H; [|discriminate].
      destruct (parse_eitem_preserves u it n E) as [-> [Hl Hc]].
      destruct (derived_array (parse_eitem tbl grease w) f (skipn (Z.to_nat w) u)) as [rest|e] eqn:R; cbn [bind] in H; [|discriminate].
      inversion H; subst items; clear H. destruct (IH _ _ R) as [Hcr Hlr].
      cbn [compose_eitems]. rewrite Hc, Hcr. cbn [bind]. rewrite firstn_skipn. split; [reflexivity|].
      rewrite zlen_cons. rewrite Z.mul_add_distr_r, Hlr. unfold zlen in *. rewrite skipn_length. lia.
  Qed.

  (* the loop never runs out of fuel with the fuel the vector parser gives it (each item consumes w > 0 bytes) *)
  Lemma derived_array_fuel fuel u : (length u < fuel)%nat -> derived_array (parse_eitem tbl grease w) fuel u <> Err OutOfFuel.
  Proof.
    destruct (widths_pos w Hw) as [Hp _].
    revert u. induction fuel as [|f IH]; intros u Hf; [lia|].
    destruct u as [|b r]; [cbn; discriminate|]. cbn [derived_array]. set (u := b :: r) in *.
    destruct (parse_eitem tbl grease w u) as [[it n]|e] eqn:E; cbn [bind].
    - destruct (parse_eitem_preserves u it n E) as [-> [Hl _]].
      assert (Hs : (length (skipn (Z.to_nat w) u) < f)%nat) by (rewrite skipn_length; unfold zlen in *; lia).
      specialize (IH _ Hs). destruct (derived_array (parse_eitem tbl grease w) f (skipn (Z.to_nat w) u)); cbn [bind]; congruence.
    - unfold parse_eitem in E. destruct (parse_enum_outcomes tbl w Hw u) as [[i Hi]|[[Hi _]|[Hi _]]]; rewrite Hi in E.
      + discriminate.
      + destruct grease as [g|]; [|inversion E; discriminate].
        unfold parse_invalid in E. destruct (parse_numeric Network w u 0) as [[c m]|e'] eqn:P; cbn [bind] in E; [discriminate|].
        inversion E; subst e'. intro X; inversion X; subst e.
        unfold parse_numeric, parse_numeric_array in P. destruct (0 + 1 * w >? zlen u); cbn [bind] in P; [discriminate|].
        destruct (fmt_size w); cbn in P; discriminate.
      + inversion E. discriminate.
  Qed.

  Variable p : vparam.
  Hypothesis Hnum : In (vnum p) widths.

  (* the whole vector: what compose emits for the parsed items is, byte for byte, the input that was consumed;
     the number of items is exactly body length / w: no code is dropped, none is added *)
  Lemma enum_vector_verbatim buf items n : parse_enum_vector p tbl grease w buf = Ok (items, n) ->
    compose_enum_vector p tbl w items = Ok (firstn (Z.to_nat n) buf) /\ n <= zlen buf /\
    zlen items * w = n - vnum p /\ vmin p <= n - vnum p <= vmax p.
  Proof.
    unfold parse_enum_vector.
    destruct (parse_numeric Network (vnum p) buf 0) as [[len n0]|e] eqn:E; cbn [bind]; [|discriminate].
    destruct (parse_numeric_reencode (vnum p) buf len n0 Hnum E) as [-> [Hl [Hr Hc]]].
    destruct (widths_pos _ Hnum) as [Hp _].
    destruct (Z.gtb_spec len (zlen buf - vnum p)); [discriminate|].
    set (body := slice buf (vnum p) (vnum p + len)).
    destruct (derived_array (parse_eitem tbl grease w) (S (length body)) body) as [its|e] eqn:D; cbn [bind]; [|discriminate].
    destruct (derived_array_preserves _ _ _ D) as [Hb Hlen].
    assert (Lb : zlen body = len) by (unfold body; rewrite slice_length; lia).
    unfold check_bounds. rewrite Hlen, Lb.
    destruct (Z.ltb_spec len (vmin p)); cbn [bind]; [discriminate|].
    destruct (Z.gtb_spec len (vmax p)); cbn [bind]; [discriminate|].
    intros HH; inversion HH; subst its n; clear HH.
    split; [|split; [lia|split; [rewrite Hlen, Lb; lia|lia]]].
    unfold compose_enum_vector. rewrite Hb. cbn [bind]. rewrite Lb, Hc. cbn [bind]. f_equal.
    replace (Z.to_nat (vnum p + len)) with (Z.to_nat (vnum p) + Z.to_nat len)%nat by lia.
    rewrite firstn_add. f_equal. unfold body, slice. f_equal. lia.
  Qed.
End Vector.

(* ---- C05 for coded enumerations and their vectors: the object parsed from any accepted buffer composes, and the
   composed bytes parse back to the same object, consuming all of them --------------------------------------- *)
Lemma parse_numeric_firstn_app o w (buf s : bytes) n : In w widths -> w <= n -> n <= zlen buf ->
  parse_numeric o w (firstn (Z.to_nat n) buf ++ s) 0 = parse_numeric o w buf 0.
Proof.
  intros Hw H1 H2. destruct (widths_pos w Hw) as [Hp [k Hk]]. unfold parse_numeric, parse_numeric_array. rewrite Hk.
  assert (Lf : zlen (firstn (Z.to_nat n) buf) = n) by (unfold zlen in *; rewrite firstn_length; lia).
  rewrite zlen_app, Lf. pose proof (zlen_nonneg s).
  destruct (Z.gtb_spec (0 + 1 * w) (n + zlen s)); [lia|]. destruct (Z.gtb_spec (0 + 1 * w) (zlen buf)); [lia|].
  cbn [bind]. change (Z.to_nat 1) with 1%nat. cbn [parse_items]. rewrite slice_firstn_app by lia. reflexivity.
Qed.

Lemma parse_enum_canonical tbl w buf i n : In w widths -> parse_enum tbl w buf = Ok (i, n) ->
  exists b2, compose_enum tbl w i = Ok b2 /\ parse_enum tbl w b2 = Ok (i, zlen b2).
Proof.
  intros Hw P. destruct (parse_enum_sound tbl w Hw buf i n P) as [-> [Hl [_ Hc]]]. destruct (widths_pos w Hw) as [Hp _].
  exists (firstn (Z.to_nat w) buf). split; [exact Hc|].
  assert (Lf : zlen (firstn (Z.to_nat w) buf) = w) by (unfold zlen in *; rewrite firstn_length; lia).
  rewrite Lf. unfold parse_enum in *. rewrite <- (app_nil_r (firstn (Z.to_nat w) buf)).
  rewrite parse_numeric_firstn_app by (assumption || lia). exact P.
Qed.

Lemma enum_vector_delimited p tbl grease w buf items n s : In (vnum p) widths ->
  parse_enum_vector p tbl grease w buf = Ok (items, n) -> n <= zlen buf ->
  parse_enum_vector p tbl grease w (firstn (Z.to_nat n) buf ++ s) = Ok (items, n).
Proof.
  intros Hn P Hle. destruct (widths_pos _ Hn) as [Hp _]. revert P. unfold parse_enum_vector.
  destruct (parse_numeric Network (vnum p) buf 0) as [[len n0]|e] eqn:E; cbn [bind]; [|discriminate].
  destruct (parse_numeric_range Network (vnum p) buf 0 len n0 Hn ltac:(lia) E) as [-> [Hr Hl]].
  destruct (Z.gtb_spec len (zlen buf - vnum p)); [discriminate|].
  set (body := slice buf (vnum p) (vnum p + len)).
  destruct (derived_array (parse_eitem tbl grease w) (S (length body)) body) as [its|e] eqn:D; cbn [bind]; [|discriminate].
  destruct (check_bounds p (zlen its * w)) as [u|e] eqn:C; cbn [bind]; [|discriminate].
  intros Q. apply Ok_inj in Q. inversion Q; subst its n; clear Q.
  rewrite parse_numeric_firstn_app by (assumption || lia). rewrite E. cbn [bind].
  assert (Lf : zlen (firstn (Z.to_nat (vnum p + len)) buf) = vnum p + len) by (unfold zlen in *; rewrite firstn_length; lia).
  rewrite zlen_app, Lf. pose proof (zlen_nonneg s). destruct (Z.gtb_spec len (vnum p + len + zlen s - vnum p)); [lia|].
  rewrite slice_firstn_app by lia. fold body. rewrite D. cbn [bind]. rewrite C. reflexivity.
Qed.

Lemma enum_vector_canonical p tbl grease w buf items n : In w widths -> In (vnum p) widths ->
  parse_enum_vector p tbl grease w buf = Ok (items, n) ->
  exists b2, compose_enum_vector p tbl w items = Ok b2 /\ parse_enum_vector p tbl grease w b2 = Ok (items, zlen b2).
Proof.
  intros Hw Hn P. destruct (enum_vector_verbatim tbl grease w Hw p Hn buf items n P) as [C [Hle [Hi Hb]]].
  destruct (widths_pos _ Hn) as [Hp _]. destruct (widths_pos _ Hw) as [Hpw _]. pose proof (zlen_nonneg items).
  exists (firstn (Z.to_nat n) buf). split; [exact C|].
  assert (Lf : zlen (firstn (Z.to_nat n) buf) = n) by (unfold zlen in *; rewrite firstn_length; nia).
  rewrite Lf. rewrite <- (app_nil_r (firstn (Z.to_nat n) buf)). apply enum_vector_delimited; assumption.
Qed.
