(* The layout language of Spec/SshMsgSpec.v is uniquely decodable: whatever follows, the decoder driven by the kinds of
   the fields recovers exactly the encoded fields and leaves exactly the rest; hence every transport-layer message of
   RFC 4253 / RFC 4419 written in it decodes to itself, is self-delimiting, and two different field lists of one
   message type never share an encoding. *)
From Coq Require Import ZArith List Bool Lia.
From CP Require Import Core.Bytes Spec.PL Spec.TlsSpec Spec.SshSpec Spec.SshMsgSpec Lemmas.PLLemmas Lemmas.SliceLemmas
  Lemmas.TlsSpecLemmas Lemmas.UnitLemmas Lemmas.SshLemmas.
Import ListNotations.
Open Scope Z_scope.
Local Arguments Z.mul : simpl never.
Local Arguments Z.add : simpl never.
Local Arguments Z.sub : simpl never.
Local Arguments Z.pow : simpl never.
Local Arguments Z.div : simpl never.

Lemma mpint_value_payload z : 0 <= z -> mpint_value (mpint_payload z) = z.
Proof.
  intros Hz. unfold mpint_payload. destruct (Z.eqb_spec z 0) as [->|NZ]; [reflexivity|].
  assert (Hp : 0 < z) by lia. pose proof (log2_bytes z Hp) as [Lo Hi]. pose proof (Z.log2_nonneg z) as Hl.
  assert (Hq : 0 <= Z.log2 z / 8) by (apply Z.div_pos; lia).
  remember (Z.to_nat (Z.log2 z / 8)) as k eqn:Ek.
  replace (Z.to_nat (Z.log2 z / 8 + 1)) with (S k) by lia.
  assert (Hv : be_val (be_enc (S k) z) = z).
  { apply be_val_be_enc. rewrite Nat2Z.inj_succ. subst k. rewrite Z2Nat.id by lia.
    replace (Z.succ (Z.log2 z / 8)) with (Z.log2 z / 8 + 1) by lia. lia. }
  remember (be_enc (S k) z) as m eqn:Em. destruct m as [|b r].
  - exfalso. apply (f_equal (@length _)) in Em. rewrite be_enc_length in Em. discriminate Em.
  - destruct (128 <=? b2z b) eqn:Hb.
    + unfold mpint_value. change (b2z (z2b 0)) with 0. change (128 <=? 0) with false. cbv iota.
      rewrite be_val_cons. change (b2z (z2b 0)) with 0. lia.
    + unfold mpint_value. rewrite Hb. exact Hv.
Qed.

Lemma dec_enc_field f s : field_ok f -> dec_field (kind_of f) (enc_field f ++ s) = Some (f, s).
Proof.
  destruct f as [z|b|z|t|z]; cbn [field_ok kind_of enc_field dec_field]; intros H.
  - rewrite dec_enc_uint by (change (256 ^ Z.of_nat 1) with 256; lia). reflexivity.
  - rewrite dec_enc_uint by (change (256 ^ Z.of_nat 1) with 256; destruct b; lia). destruct b; reflexivity.
  - rewrite dec_enc_uint by (change (256 ^ Z.of_nat 4) with 4294967296; lia). reflexivity.
  - rewrite dec_enc_string by exact H. reflexivity.
  - destruct H as [Hz Hl]. unfold enc_mpint. rewrite dec_enc_string by exact Hl.
    cbn [obind]. rewrite mpint_value_payload by exact Hz. reflexivity.
Qed.

Lemma dec_enc_fields fs s : Forall field_ok fs -> dec_fields (map kind_of fs) (enc_fields fs ++ s) = Some (fs, s).
Proof.
  induction fs as [|f fs IH]; intros H; [reflexivity|].
  inversion H as [|f' fs' Hf Hfs]; subst.
  unfold enc_fields. cbn [map concat dec_fields]. rewrite <- app_assoc.
  rewrite dec_enc_field by exact Hf. cbn [obind]. change (concat (map enc_field fs)) with (enc_fields fs).
  rewrite IH by exact Hfs. reflexivity.
Qed.

(* two field lists of the same shape with the same encoding (followed by anything) are the same list *)
Lemma enc_fields_injective fs fs' s s' :
  Forall field_ok fs -> Forall field_ok fs' -> map kind_of fs = map kind_of fs' ->
  enc_fields fs ++ s = enc_fields fs' ++ s' -> fs = fs' /\ s = s'.
Proof.
  intros H H' K E. pose proof (dec_enc_fields fs s H) as D. rewrite E, K in D.
  rewrite dec_enc_fields in D by exact H'. inversion D. split; reflexivity.
Qed.

(* every message decodes to itself in its key-exchange context, whatever follows *)
Definition u32 (z : Z) : Prop := 0 <= z < 4294967296.
Definition str (s : bytes) : Prop := zlen s < 4294967296.
Definition mp (z : Z) : Prop := 0 <= z /\ zlen (mpint_payload z) < 4294967296.

Lemma head_of_msg t fs s : exists r, enc_fields (FByte t :: fs) ++ s = z2b t :: r.
Proof.
  unfold enc_fields. cbn [map concat enc_field enc_uint be_enc app]. change (256 ^ Z.of_nat 0) with 1.
  rewrite Z.div_1_r. eexists. reflexivity.
Qed.

Lemma dec_msg_generic kinds t fs s :
  0 <= t < 256 -> kinds t = Some (map kind_of (FByte t :: fs)) -> Forall field_ok fs ->
  dec_msg kinds (enc_fields (FByte t :: fs) ++ s) = Some (FByte t :: fs, s).
Proof.
  intros Ht Hk Hf. destruct (head_of_msg t fs s) as [r Er]. unfold dec_msg.
  rewrite Er. rewrite b2z_z2b, Z.mod_small by lia.
  rewrite Hk. cbn [obind]. rewrite <- Er.
  apply dec_enc_fields. constructor; [cbn [field_ok]; lia|exact Hf].
Qed.

Ltac fields_ok := repeat (first [apply Forall_nil | apply Forall_cons]); cbn [field_ok]; assumption.

Lemma dec_disconnect r d l s : u32 r -> str d -> str l ->
  dec_msg kinds_init (enc_fields (msg_disconnect r d l) ++ s) = Some (msg_disconnect r d l, s).
Proof.
  intros Hr Hd Hl. apply dec_msg_generic; [lia|reflexivity|fields_ok].
Qed.

Lemma dec_unimplemented q s : u32 q ->
  dec_msg kinds_init (enc_fields (msg_unimplemented q) ++ s) = Some (msg_unimplemented q, s).
Proof. intros Hq. apply dec_msg_generic; [lia|reflexivity|fields_ok]. Qed.

Lemma dec_newkeys s : dec_msg kinds_kexdh (enc_fields msg_newkeys ++ s) = Some (msg_newkeys, s) /\
                      dec_msg kinds_gex (enc_fields msg_newkeys ++ s) = Some (msg_newkeys, s).
Proof. split; (apply dec_msg_generic; [lia|reflexivity|apply Forall_nil]). Qed.

Lemma dec_kexdh_init e s : mp e ->
  dec_msg kinds_kexdh (enc_fields (msg_kexdh_init e) ++ s) = Some (msg_kexdh_init e, s).
Proof. intros He. apply dec_msg_generic; [lia|reflexivity|fields_ok]. Qed.

Lemma dec_kexdh_reply ks f sig s : str ks -> mp f -> str sig ->
  dec_msg kinds_kexdh (enc_fields (msg_kexdh_reply ks f sig) ++ s) = Some (msg_kexdh_reply ks f sig, s).
Proof.
  intros Hk Hf Hs. apply dec_msg_generic; [lia|reflexivity|fields_ok].
Qed.

Lemma dec_gex_request mn n mx s : u32 mn -> u32 n -> u32 mx ->
  dec_msg kinds_gex (enc_fields (msg_gex_request mn n mx) ++ s) = Some (msg_gex_request mn n mx, s).
Proof. intros H1 H2 H3. apply dec_msg_generic; [lia|reflexivity|fields_ok]. Qed.

Lemma dec_gex_group p g s : mp p -> mp g ->
  dec_msg kinds_gex (enc_fields (msg_gex_group p g) ++ s) = Some (msg_gex_group p g, s).
Proof.
  intros Hp Hg. apply dec_msg_generic; [lia|reflexivity|fields_ok].
Qed.

Lemma dec_gex_init e s : mp e ->
  dec_msg kinds_gex (enc_fields (msg_gex_init e) ++ s) = Some (msg_gex_init e, s).
Proof. intros He. apply dec_msg_generic; [lia|reflexivity|fields_ok]. Qed.

Lemma dec_gex_reply ks f sig s : str ks -> mp f -> str sig ->
  dec_msg kinds_gex (enc_fields (msg_gex_reply ks f sig) ++ s) = Some (msg_gex_reply ks f sig, s).
Proof.
  intros Hk Hf Hs. apply dec_msg_generic; [lia|reflexivity|fields_ok].
Qed.

(* all nine at once, as the property theorem states it *)
Lemma ssh_messages_decode :
  (forall r d l s, u32 r -> str d -> str l ->
     dec_msg kinds_init (enc_fields (msg_disconnect r d l) ++ s) = Some (msg_disconnect r d l, s)) /\
  (forall q s, u32 q -> dec_msg kinds_init (enc_fields (msg_unimplemented q) ++ s) = Some (msg_unimplemented q, s)) /\
  (forall s, dec_msg kinds_kexdh (enc_fields msg_newkeys ++ s) = Some (msg_newkeys, s) /\
             dec_msg kinds_gex (enc_fields msg_newkeys ++ s) = Some (msg_newkeys, s)) /\
  (forall e s, mp e -> dec_msg kinds_kexdh (enc_fields (msg_kexdh_init e) ++ s) = Some (msg_kexdh_init e, s)) /\
  (forall ks f sig s, str ks -> mp f -> str sig ->
     dec_msg kinds_kexdh (enc_fields (msg_kexdh_reply ks f sig) ++ s) = Some (msg_kexdh_reply ks f sig, s)) /\
  (forall mn n mx s, u32 mn -> u32 n -> u32 mx ->
     dec_msg kinds_gex (enc_fields (msg_gex_request mn n mx) ++ s) = Some (msg_gex_request mn n mx, s)) /\
  (forall p g s, mp p -> mp g -> dec_msg kinds_gex (enc_fields (msg_gex_group p g) ++ s) = Some (msg_gex_group p g, s)) /\
  (forall e s, mp e -> dec_msg kinds_gex (enc_fields (msg_gex_init e) ++ s) = Some (msg_gex_init e, s)) /\
  (forall ks f sig s, str ks -> mp f -> str sig ->
     dec_msg kinds_gex (enc_fields (msg_gex_reply ks f sig) ++ s) = Some (msg_gex_reply ks f sig, s)).
Proof.
  exact (conj dec_disconnect (conj dec_unimplemented (conj dec_newkeys (conj dec_kexdh_init (conj dec_kexdh_reply
        (conj dec_gex_request (conj dec_gex_group (conj dec_gex_init dec_gex_reply)))))))).
Qed.

(* the premises are satisfiable, and the layout is the one the RFC gives: SSH_MSG_KEXDH_REPLY with K_S = 01 02,
   f = 128 (mpint 00 80: the leading zero keeps it non-negative) and signature ff *)
Example kexdh_reply_bytes :
  enc_fields (msg_kexdh_reply [z2b 1; z2b 2] 128 [z2b 255]) =
  map z2b [31; 0; 0; 0; 2; 1; 2; 0; 0; 0; 2; 0; 128; 0; 0; 0; 1; 255].
Proof. vm_compute. reflexivity. Qed.
