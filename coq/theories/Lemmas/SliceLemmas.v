(* list helpers: skipn/firstn/slice algebra *)
From Coq Require Import ZArith List Lia.
From CP Require Import Core.Bytes Prim.Int.
Import ListNotations.
Open Scope Z_scope.

Lemma skipn_skipn {A} (a b : nat) (l : list A) : skipn a (skipn b l) = skipn (b + a) l.
Proof.
  revert l. induction b as [|b IH]; intros l; [reflexivity|].
  destruct l as [|x l]; [cbn; rewrite skipn_nil; reflexivity|]. cbn [skipn plus]. apply IH.
Qed.

Lemma firstn_add {A} (a b : nat) (l : list A) : firstn (a + b) l = firstn a l ++ firstn b (skipn a l).
Proof.
  revert l. induction a as [|a IH]; intros l; [reflexivity|].
  destruct l as [|x l]; [cbn; rewrite firstn_nil; reflexivity|]. cbn [firstn skipn plus app]. f_equal. apply IH.
Qed.

Lemma firstn_app_exact {A} (a b : list A) : firstn (length a) (a ++ b) = a.
Proof. rewrite firstn_app, Nat.sub_diag. cbn [firstn]. rewrite app_nil_r. apply firstn_all. Qed.

Lemma skipn_app_exact {A} (a b : list A) : skipn (length a) (a ++ b) = b.
Proof. rewrite skipn_app, Nat.sub_diag, skipn_all. reflexivity. Qed.

Lemma slice_length (buf : bytes) a b : 0 <= a <= b -> b <= zlen buf -> zlen (slice buf a b) = b - a.
Proof. intros H1 H2. unfold slice, zlen in *. rewrite firstn_length, skipn_length. lia. Qed.

Lemma slice_split (buf : bytes) a b c : 0 <= a <= b -> b <= c -> slice buf a c = slice buf a b ++ slice buf b c.
Proof.
  intros H1 H2. unfold slice.
  replace (Z.to_nat (c - a)) with (Z.to_nat (b - a) + Z.to_nat (c - b))%nat by lia.
  rewrite firstn_add. f_equal. rewrite skipn_skipn. f_equal. f_equal. lia.
Qed.

Lemma slice_app_exact (p b s : bytes) : slice (p ++ b ++ s) (zlen p) (zlen p + zlen b) = b.
Proof.
  unfold slice, zlen. replace (Z.of_nat (length p) + Z.of_nat (length b) - Z.of_nat (length p)) with (Z.of_nat (length b)) by lia.
  rewrite !Nat2Z.id. rewrite skipn_app_exact. apply firstn_app_exact.
Qed.

Lemma slice_full (l : bytes) : slice l 0 (zlen l) = l.
Proof. unfold slice, zlen. rewrite Z.sub_0_r, Nat2Z.id. cbn [Z.to_nat skipn]. apply firstn_all. Qed.

Lemma slice_0 (buf : bytes) n : slice buf 0 n = firstn (Z.to_nat n) buf.
Proof. unfold slice. rewrite Z.sub_0_r. reflexivity. Qed.

(* a slice inside the first n bytes does not see what follows them *)
Lemma slice_firstn_app (buf s : bytes) a b n : 0 <= a <= b -> b <= n -> n <= zlen buf ->
  slice (firstn (Z.to_nat n) buf ++ s) a b = slice buf a b.
Proof.
  intros H1 H2 H3. unfold slice.
  assert (L : length (firstn (Z.to_nat n) buf) = Z.to_nat n) by (rewrite firstn_length; unfold zlen in H3; lia).
  rewrite skipn_app. rewrite L. replace (Z.to_nat a - Z.to_nat n)%nat with 0%nat by lia. cbn [skipn].
  rewrite firstn_app. rewrite skipn_length, L.
  replace (Z.to_nat (b - a) - (Z.to_nat n - Z.to_nat a))%nat with 0%nat by lia. cbn [firstn]. rewrite app_nil_r.
  rewrite skipn_firstn_comm. rewrite firstn_firstn. f_equal. lia.
Qed.

Lemma firstn_firstn_le {A} (buf : list A) a b : (a <= b)%nat -> firstn a (firstn b buf) = firstn a buf.
Proof. intros L. rewrite firstn_firstn. f_equal. lia. Qed.

Lemma firstn_firstn_app {A} (buf s : list A) a n : (a <= n)%nat -> (n <= length buf)%nat ->
  firstn a (firstn n buf ++ s) = firstn a buf.
Proof.
  intros H1 H2. rewrite firstn_app. rewrite firstn_length. replace (a - Nat.min n (length buf))%nat with 0%nat by lia.
  cbn [firstn]. rewrite app_nil_r. apply firstn_firstn_le. exact H1.
Qed.
