(* side conditions of the C12 / C06 lemmas on the generated vector parameters *)
From Coq Require Import ZArith List Bool String.
From CP Require Import Lemmas.EnumTables.
From CPGen Require Import Tables.
Local Open Scope string_scope.
Open Scope Z_scope.

(* every length-prefixed ArrayBase subclass: supported prefix width, 0 <= min <= max, the ceiling fits the prefix,
   and the prefix (computed by the library with floating point logarithms) is the smallest width that fits it *)
Definition array_param_ok (t : string * (string * (Z * Z * Z * Z))) : bool :=
  let '(_, (kind, (mn, mx, num, _))) := t in
  if String.eqb kind "ListParsable" then true
  else widthb num && (0 <=? mn) && (mn <=? mx) && (mx <? 256 ^ num) && (256 ^ (num - 1) <=? mx).
Definition array_params_ok : bool := forallb array_param_ok array_params.
Lemma array_params_ok_true : array_params_ok = true.
Proof. vm_compute. reflexivity. Qed.
