(* Proofs about Prim/Int.v (property C11, integer and flag primitives). *)
From Coq Require Import ZArith List Bool Lia.
From Coq.Strings Require Import Byte.
From CP Require Import Core.Bytes Core.Result Prim.Int.
Import ListNotations.
Open Scope Z_scope.
Local Arguments Z.mul : simpl never.
Local Arguments Z.add : simpl never.
Local Arguments Z.sub : simpl never.
Local Arguments Z.pow : simpl never.

Definition widths : list Z := [1; 2; 3; 4; 8].

Definition enc (o : order) (n : nat) (z : Z) : bytes := if is_big o then be_enc n z else le_enc n z.

Lemma enc_length o n z : length (enc o n z) = n.
Proof. unfold enc. destruct (is_big o); [apply be_enc_length|apply le_enc_length]. Qed.

Lemma unpack_enc o n z : 0 <= z < 256 ^ Z.of_nat n -> unpack o (enc o n z) = z.
Proof.
  intros H. unfold unpack, enc, le_val, le_enc. destruct (is_big o).
  - apply be_enc_small_roundtrip; assumption.
  - rewrite rev_involutive. apply be_enc_small_roundtrip; assumption.
Qed.

(* dropping the high byte of the 4-byte packing yields the 3-byte encoding *)
Lemma skipn1_be_enc4 z : skipn 1 (be_enc 4 z) = be_enc 3 z.
Proof. reflexivity. Qed.

Lemma firstn3_le_enc4 z : firstn 3 (le_enc 4 z) = le_enc 3 z.
Proof. reflexivity. Qed.

Lemma struct_pack_ok o n z : 0 <= z < 256 ^ Z.of_nat n -> struct_pack o n z = Ok (enc o n z).
Proof.
  intros H. unfold struct_pack, enc. destruct (Z.leb_spec 0 z); [|lia].
  destruct (Z.ltb_spec z (256 ^ Z.of_nat n)); [|lia]. reflexivity.
Qed.

Lemma struct_pack_rej o n z : z < 0 \/ 256 ^ Z.of_nat n <= z -> struct_pack o n z = Err InvalidValue.
Proof.
  intros H. unfold struct_pack. destruct (Z.leb_spec 0 z); cbn [andb]; [|reflexivity].
  destruct (Z.ltb_spec z (256 ^ Z.of_nat n)); [lia|reflexivity].
Qed.

Lemma compose_numeric_ok o w z : In w widths -> 0 <= z < 256 ^ w ->
  compose_numeric o w z = Ok (enc o (Z.to_nat w) z).
Proof.
  intros Hw Hz. unfold widths in Hw. cbn [In] in Hw.
  destruct Hw as [<-|[<-|[<-|[<-|[<-|[]]]]]]; unfold compose_numeric; cbn [fmt_size Z.eqb Pos.eqb].
  1,2,4,5: rewrite struct_pack_ok by exact Hz; reflexivity.
  change (256 ^ 3) with 16777216 in Hz.
  rewrite struct_pack_ok by (change (256 ^ Z.of_nat 4) with 4294967296; lia). cbn [bind].
  destruct (Z.leb_spec 16777216 z); [lia|]. unfold enc. change (Z.to_nat 3) with 3%nat.
  destruct (is_big o); [rewrite skipn1_be_enc4|rewrite firstn3_le_enc4]; reflexivity.
Qed.

Lemma compose_numeric_rejects o w z : In w widths -> (z < 0 \/ 256 ^ w <= z) ->
  compose_numeric o w z = Err InvalidValue.
Proof.
  intros Hw Hz. unfold widths in Hw. cbn [In] in Hw.
  destruct Hw as [<-|[<-|[<-|[<-|[<-|[]]]]]]; unfold compose_numeric; cbn [fmt_size Z.eqb Pos.eqb].
  1,2,4,5: rewrite struct_pack_rej by exact Hz; reflexivity.
  change (256 ^ 3) with 16777216 in Hz.
  destruct (Z.lt_ge_cases z 0) as [N|N]; [rewrite struct_pack_rej by lia; reflexivity|].
  destruct (Z.lt_ge_cases z 4294967296) as [M|M].
  - rewrite struct_pack_ok by (change (256 ^ Z.of_nat 4) with 4294967296; lia). cbn [bind].
    destruct (Z.leb_spec 16777216 z); [reflexivity|lia].
  - rewrite struct_pack_rej by (change (256 ^ Z.of_nat 4) with 4294967296; lia). reflexivity.
Qed.

(* an unsupported width leaks KeyError / NotImplementedError (no class of the library passes one: see Props/C11.v) *)
Lemma compose_numeric_bad_width o w z : ~ In w widths -> compose_numeric o w z = Err (Leak KeyError).
Proof.
  intros Hw. unfold compose_numeric, fmt_size.
  destruct (Z.eqb_spec w 1); [exfalso; apply Hw; subst; cbn; auto|].
  destruct (Z.eqb_spec w 2); [exfalso; apply Hw; subst; cbn; auto|].
  destruct (Z.eqb_spec w 3); [exfalso; apply Hw; subst; cbn; auto|].
  destruct (Z.eqb_spec w 4); [exfalso; apply Hw; subst; cbn; auto|].
  destruct (Z.eqb_spec w 8); [exfalso; apply Hw; subst; cbn; auto 6|].
  reflexivity.
Qed.

Lemma widths_pos w : In w widths -> 0 < w /\ exists n, fmt_size w = Some n.
Proof.
  unfold widths. cbn [In]. intros [<-|[<-|[<-|[<-|[<-|[]]]]]]; cbn; split; try lia; eauto.
Qed.

Lemma slice_app_mid (p b s : bytes) : slice (p ++ b ++ s) (zlen p) (zlen p + zlen b) = b.
Proof.
  unfold slice, zlen. replace (Z.of_nat (length p) + Z.of_nat (length b) - Z.of_nat (length p)) with (Z.of_nat (length b)) by lia.
  rewrite !Nat2Z.id. rewrite skipn_app. rewrite skipn_all. rewrite Nat.sub_diag. cbn [skipn app].
  rewrite firstn_app. rewrite Nat.sub_diag. cbn [firstn]. rewrite app_nil_r. apply firstn_all.
Qed.

(* parsing what was composed, at any offset and followed by anything, returns the value and its width *)
Lemma parse_compose_numeric o w z b p s : In w widths -> 0 <= z < 256 ^ w ->
  compose_numeric o w z = Ok b -> parse_numeric o w (p ++ b ++ s) (zlen p) = Ok (z, w).
Proof.
  intros Hw Hz Hc. rewrite (compose_numeric_ok o w z Hw Hz) in Hc. inversion Hc; subst b; clear Hc.
  destruct (widths_pos w Hw) as [Hp [n Hn]].
  assert (Hl : zlen (enc o (Z.to_nat w) z) = w) by (unfold zlen; rewrite enc_length; lia).
  unfold parse_numeric, parse_numeric_array. rewrite Hn.
  rewrite !zlen_app, Hl. pose proof (zlen_nonneg s).
  destruct (Z.gtb_spec (zlen p + 1 * w) (zlen p + (w + zlen s))); [lia|].
  cbn [bind]. change (Z.to_nat 1) with 1%nat. cbn [parse_items].
  rewrite <- Hl at 2. rewrite slice_app_mid. rewrite unpack_enc; [f_equal; f_equal; lia|].
  rewrite Z2Nat.id by lia. exact Hz.
Qed.

(* a proper prefix of an encoded integer is rejected with the exact number of missing bytes *)
Lemma parse_numeric_short o w buf pos : In w widths -> 0 <= pos <= zlen buf -> zlen buf - pos < w ->
  parse_numeric o w buf pos = Err (NotEnoughData (w - (zlen buf - pos))).
Proof.
  intros Hw Hp Hs. unfold parse_numeric, parse_numeric_array.
  destruct (Z.gtb_spec (pos + 1 * w) (zlen buf)); [|lia]. cbn [bind]. f_equal. f_equal. lia.
Qed.

(* parse never leaks for a supported width, whatever the buffer *)
Lemma parse_numeric_no_leak o w buf pos e : In w widths -> parse_numeric o w buf pos <> Err (Leak e).
Proof.
  intros Hw. destruct (widths_pos w Hw) as [_ [n Hn]]. unfold parse_numeric, parse_numeric_array. rewrite Hn.
  destruct (pos + 1 * w >? zlen buf); cbn [bind]; [discriminate|]. change (Z.to_nat 1) with 1%nat. cbn. discriminate.
Qed.

(* the parsed value always fits the width *)
Lemma parse_numeric_range o w buf pos v n : In w widths -> 0 <= pos -> parse_numeric o w buf pos = Ok (v, n) ->
  n = w /\ 0 <= v < 256 ^ w /\ pos + w <= zlen buf.
Proof.
  intros Hw Hp. destruct (widths_pos w Hw) as [Hpos [k Hk]]. unfold parse_numeric, parse_numeric_array. rewrite Hk.
  destruct (Z.gtb_spec (pos + 1 * w) (zlen buf)) as [G|G]; cbn [bind]; [discriminate|].
  change (Z.to_nat 1) with 1%nat. cbn [parse_items]. intros HH. inversion HH; subst; clear HH.
  split; [lia|]. split; [|lia].
  assert (L : zlen (slice buf pos (pos + w)) = w).
  { unfold slice, zlen in *. rewrite firstn_length, skipn_length. lia. }
  unfold unpack, le_val. destruct (is_big o).
  - pose proof (be_val_range (slice buf pos (pos + w))) as R. rewrite L in R. exact R.
  - pose proof (be_val_range (rev (slice buf pos (pos + w)))) as R. unfold zlen in R. rewrite rev_length in R.
    unfold zlen in L. rewrite L in R. exact R.
Qed.

(* ---- the pinned tree truncated silently ----------------------------------------------------------- *)
Lemma compose_numeric_orig_truncates : compose_numeric_orig Network 3 16777216 = Ok [x00; x00; x00].
Proof. vm_compute. reflexivity. Qed.

(* ---- flags ------------------------------------------------------------------------------------------ *)
(* For a table of distinct single-bit flags, parsing the OR of a sub-multiset gives back exactly the members
   that are present, and composing what was parsed gives back the masked word. *)
Definition single_bit (f : Z) : Prop := exists k, 0 <= k /\ f = 2 ^ k.

Lemma compose_flags_acc shift l acc :
  fold_left (fun a f => Z.lor a (Z.shiftr f shift)) l acc = Z.lor acc (compose_flags shift l).
Proof.
  unfold compose_flags. revert acc. induction l as [|f l IH]; intros acc; cbn [fold_left].
  - rewrite Z.lor_0_r. reflexivity.
  - rewrite IH. rewrite (IH (Z.lor 0 (Z.shiftr f shift))). rewrite Z.lor_0_l. rewrite Z.lor_assoc. reflexivity.
Qed.

Lemma compose_flags_cons shift f l : compose_flags shift (f :: l) = Z.lor (Z.shiftr f shift) (compose_flags shift l).
Proof. unfold compose_flags at 1. cbn [fold_left]. rewrite compose_flags_acc. rewrite Z.lor_0_l. reflexivity. Qed.

(* testbit characterisation: bit i of the composed word is set iff some flag has bit i+shift set *)
Lemma compose_flags_testbit shift l i : 0 <= shift -> 0 <= i ->
  Z.testbit (compose_flags shift l) i = existsb (fun f => Z.testbit f (i + shift)) l.
Proof.
  intros Hs Hi. induction l as [|f l IH].
  - cbn. apply Z.testbit_0_l.
  - rewrite compose_flags_cons. rewrite Z.lor_spec. rewrite Z.shiftr_spec by lia. rewrite IH. reflexivity.
Qed.

(* compose (parse v) = v masked by the OR of all table members (shift 0 form used by most classes):
   unknown bits are dropped, known bits survive *)
Lemma flags_roundtrip tbl v i : 0 <= i -> (forall f, In f tbl -> single_bit f) ->
  Z.testbit (compose_flags 0 (parse_flags tbl 0 v)) i =
  Z.testbit v i && existsb (fun f => Z.testbit f i) tbl.
Proof.
  intros Hi Hsb. rewrite compose_flags_testbit by lia. rewrite Z.add_0_r. unfold parse_flags.
  rewrite Z.shiftl_0_r.
  induction tbl as [|f tbl IH]; cbn [filter existsb].
  - rewrite andb_false_r. reflexivity.
  - assert (Hf : single_bit f) by (apply Hsb; left; reflexivity).
    assert (IH' := IH (fun g Hg => Hsb g (or_intror Hg))). clear IH.
    destruct Hf as [k [Hk ->]].
    assert (T : forall j, 0 <= j -> Z.testbit (2 ^ k) j = (k =? j)).
    { intros j Hj. destruct (Z.eqb_spec k j) as [->|N]; [apply Z.pow2_bits_true; lia|apply Z.pow2_bits_false; lia]. }
    assert (L : (Z.land (2 ^ k) v =? 0) = negb (Z.testbit v k)).
    { destruct (Z.testbit v k) eqn:E; cbn [negb].
      - apply Z.eqb_neq. intro Z0. assert (Z.testbit (Z.land (2 ^ k) v) k = false) by (rewrite Z0; apply Z.testbit_0_l).
        rewrite Z.land_spec, T, Z.eqb_refl, E in H by lia. discriminate.
      - apply Z.eqb_eq. apply Z.bits_inj'. intros n Hn. rewrite Z.land_spec, Z.testbit_0_l, T by lia.
        destruct (Z.eqb_spec k n) as [->|]; [rewrite E|]; reflexivity. }
    rewrite L, negb_involutive. destruct (Z.testbit v k) eqn:E; cbn [existsb]; rewrite IH', T by lia.
    + destruct (Z.eqb_spec k i) as [->|]; [rewrite E|]; cbn [orb andb]; [reflexivity|reflexivity].
    + destruct (Z.eqb_spec k i) as [->|]; [rewrite E|]; cbn [orb andb]; reflexivity.
Qed.

(* the other direction: parsing the OR of a set of single-bit table members returns exactly those members *)
Lemma parse_compose_flags tbl sel : NoDup tbl -> (forall f, In f tbl -> single_bit f) -> incl sel tbl ->
  forall f, In f (parse_flags tbl 0 (compose_flags 0 sel)) <-> In f sel.
Proof.
  intros _ Hsb Hincl f. unfold parse_flags. rewrite filter_In, Z.shiftl_0_r. split.
  - intros [Hin Hnz]. destruct (Hsb f Hin) as [k [Hk ->]].
    apply negb_true_iff, Z.eqb_neq in Hnz.
    assert (B : Z.testbit (compose_flags 0 sel) k = true).
    { destruct (Z.testbit (compose_flags 0 sel) k) eqn:E; [reflexivity|]. exfalso. apply Hnz.
      apply Z.bits_inj'. intros n Hn. rewrite Z.land_spec, Z.testbit_0_l.
      destruct (Z.eq_dec k n) as [<-|N]; [rewrite E; apply andb_false_r|rewrite Z.pow2_bits_false by lia; reflexivity]. }
    rewrite compose_flags_testbit in B by lia. apply existsb_exists in B. destruct B as [g [Hg Tg]].
    rewrite Z.add_0_r in Tg. destruct (Hsb g (Hincl g Hg)) as [j [Hj ->]].
    destruct (Z.eq_dec j k) as [->|N]; [exact Hg|]. rewrite Z.pow2_bits_false in Tg by lia. discriminate.
  - intros Hin. split; [apply Hincl; exact Hin|]. destruct (Hsb f (Hincl f Hin)) as [k [Hk ->]].
    apply negb_true_iff, Z.eqb_neq. intro Z0.
    assert (Z.testbit (Z.land (2 ^ k) (compose_flags 0 sel)) k = false) by (rewrite Z0; apply Z.testbit_0_l).
    rewrite Z.land_spec, Z.pow2_bits_true, compose_flags_testbit in H by lia. cbn [andb] in H.
    assert (existsb (fun f => Z.testbit f (k + 0)) sel = true).
    { apply existsb_exists. exists (2 ^ k). split; [exact Hin|]. rewrite Z.add_0_r. apply Z.pow2_bits_true. lia. }
    congruence.
Qed.

(* boolean check of "single bit", usable on generated tables *)
Definition single_bitb (f : Z) : bool := (0 <? f) && (f =? 2 ^ Z.log2 f).
Lemma single_bitb_spec f : single_bitb f = true -> single_bit f.
Proof.
  unfold single_bitb. rewrite andb_true_iff, Z.ltb_lt, Z.eqb_eq. intros [H1 H2].
  exists (Z.log2 f). split; [apply Z.log2_nonneg|exact H2].
Qed.
