(* Text fields: the tokeniser model equals the split/trim/drop-empty specification; every spelling of an item list
   tokenises to the item list; quoting. *)
From Coq Require Import ZArith List Bool Lia.
From Coq.Strings Require Import Byte.
From CP Require Import Core.Bytes Core.Result Text.Field Spec.FieldSpec.
Import ListNotations.
Open Scope Z_scope.

Lemma byte_eqb_eq a b : Byte.eqb a b = true <-> a = b.
Proof. apply Byte.byte_dec_bl || (split; [apply Byte.byte_dec_bl | intros ->; apply Byte.byte_dec_lb; reflexivity]). Qed.

Lemma byte_eqb_refl a : Byte.eqb a a = true.
Proof. apply byte_eqb_eq; reflexivity. Qed.

Lemma byte_eqb_neq a b : Byte.eqb a b = false <-> a <> b.
Proof.
  split.
  - intros H E. subst. rewrite byte_eqb_refl in H. discriminate.
  - intros H. destruct (Byte.eqb a b) eqn:E; [|reflexivity]. apply byte_eqb_eq in E. contradiction.
Qed.

Lemma bytes_eqb_eq a b : bytes_eqb a b = true <-> a = b.
Proof.
  revert b. induction a as [|x a IH]; intros [|y b]; cbn [bytes_eqb]; try (split; [discriminate|discriminate]); [tauto|].
  rewrite andb_true_iff, byte_eqb_eq, IH. split; [intros [-> ->]; reflexivity|intros E; inversion E; auto].
Qed.

Lemma bytes_eqb_refl a : bytes_eqb a a = true.
Proof. apply bytes_eqb_eq; reflexivity. Qed.

Lemma bytes_eqb_neq a b : bytes_eqb a b = false <-> a <> b.
Proof.
  split.
  - intros H E. subst. rewrite bytes_eqb_refl in H. discriminate.
  - intros H. destruct (bytes_eqb a b) eqn:E; [|reflexivity]. apply bytes_eqb_eq in E. contradiction.
Qed.

(* ---- split ---- *)
Lemma split_nonnil s l : split s l <> [].
Proof. destruct l as [|c r]; cbn [split]; [discriminate|]. destruct (Byte.eqb c s); [discriminate|]. destruct (split s r); discriminate. Qed.

Lemma split_no_sep s l : no_sep s l = true -> split s l = [l].
Proof.
  induction l as [|c r IH]; cbn [no_sep forallb split]; [reflexivity|].
  intros H. apply andb_true_iff in H. destruct H as [Hc Hr].
  apply negb_true_iff in Hc. rewrite Hc. fold (no_sep s r) in Hr. rewrite (IH Hr). reflexivity.
Qed.

Lemma split_app_sep s a b : split s (a ++ s :: b) = split s a ++ split s b.
Proof.
  induction a as [|c a IH]; cbn [app split].
  - rewrite byte_eqb_refl. reflexivity.
  - destruct (Byte.eqb c s); rewrite IH; [reflexivity|].
    pose proof (split_nonnil s a) as Hn. destruct (split s a) as [|h t]; [contradiction|]. reflexivity.
Qed.

Lemma take_until_split s l :
  split s l = fst (take_until s l) :: match snd (take_until s l) with [] => [] | _ :: r => split s r end.
Proof.
  induction l as [|c r IH]; cbn [split take_until]; [reflexivity|].
  destruct (Byte.eqb c s) eqn:E; cbn [fst snd]; [reflexivity|].
  rewrite IH. destruct (take_until s r) as [a b]. cbn [fst snd]. reflexivity.
Qed.

Lemma take_until_rest s l : match snd (take_until s l) with [] => True | c :: _ => c = s end.
Proof.
  induction l as [|c r IH]; cbn [take_until]; [exact I|].
  destruct (Byte.eqb c s) eqn:E; cbn [snd]; [apply byte_eqb_eq in E; exact E|].
  destruct (take_until s r) as [a b]. cbn [snd] in *. exact IH.
Qed.

Lemma take_until_length s l : (length (snd (take_until s l)) <= length l)%nat.
Proof.
  induction l as [|c r IH]; cbn [take_until]; [cbn; lia|].
  destruct (Byte.eqb c s); cbn [snd]; [lia|].
  destruct (take_until s r) as [a b]. cbn [snd length] in *. lia.
Qed.

Lemma take_until_fst_head s l : skip_ws l = l -> is_ws s = false -> skip_ws (fst (take_until s l)) = fst (take_until s l).
Proof.
  destruct l as [|c r]; cbn [take_until fst skip_ws]; [reflexivity|].
  intros H Hs. destruct (Byte.eqb c s) eqn:E; cbn [fst skip_ws]; [reflexivity|].
  destruct (take_until s r) as [a b]. cbn [fst skip_ws].
  destruct (is_ws c) eqn:W; [|reflexivity].
  (* skip_ws r = c :: r is impossible *)
  exfalso. assert (Hl: (length (skip_ws r) <= length r)%nat).
  { clear. induction r as [|x r IH]; cbn [skip_ws]; [lia|]. destruct (is_ws x); cbn [length]; lia. }
  rewrite H in Hl. cbn [length] in Hl. lia.
Qed.

(* ---- white space ---- *)
Lemma skip_ws_length l : (length (skip_ws l) <= length l)%nat.
Proof. induction l as [|x r IH]; cbn [skip_ws]; [lia|]. destruct (is_ws x); cbn [length]; lia. Qed.

Lemma skip_sep_length s l : (length (skip_sep s l) <= length l)%nat.
Proof. induction l as [|x r IH]; cbn [skip_sep]; [lia|]. destruct (Byte.eqb x s); cbn [length]; lia. Qed.

Lemma skip_ws_idem l : skip_ws (skip_ws l) = skip_ws l.
Proof. induction l as [|x r IH]; cbn [skip_ws]; [reflexivity|]. destruct (is_ws x) eqn:E; [exact IH|]. cbn [skip_ws]. rewrite E. reflexivity. Qed.

Lemma skip_ws_all w l : all_ws w = true -> skip_ws (w ++ l) = skip_ws l.
Proof.
  induction w as [|c w IH]; cbn [all_ws forallb app]; [reflexivity|].
  intros H. apply andb_true_iff in H. destruct H as [Hc Hw]. cbn [skip_ws]. rewrite Hc. apply IH. exact Hw.
Qed.

Lemma skip_ws_all_nil w : all_ws w = true -> skip_ws w = [].
Proof. intros H. rewrite <- (app_nil_r w). rewrite skip_ws_all by exact H. reflexivity. Qed.

Lemma all_ws_rev w : all_ws (rev w) = all_ws w.
Proof.
  unfold all_ws. induction w as [|c w IH]; [reflexivity|].
  cbn [rev forallb]. rewrite forallb_app. cbn [forallb]. rewrite IH. rewrite andb_true_r. apply andb_comm.
Qed.

Lemma strip_spelled a i b s :
  all_ws a = true -> all_ws b = true -> item_ok s i = true -> strip (a ++ i ++ b) = i.
Proof.
  intros Ha Hb Hi. unfold strip. rewrite skip_ws_all by exact Ha.
  unfold item_ok in Hi. repeat (apply andb_true_iff in Hi; destruct Hi as [Hi ?]).
  destruct i as [|c i]; [discriminate|].
  cbn [app skip_ws]. match goal with H : negb (is_ws c) = true |- _ => apply negb_true_iff in H; rewrite H end.
  unfold rstrip_ws. change (c :: i ++ b) with ((c :: i) ++ b). rewrite rev_app_distr.
  rewrite skip_ws_all by (rewrite all_ws_rev; exact Hb).
  destruct (rev (c :: i)) as [|z zs] eqn:R; [discriminate|].
  cbn [skip_ws]. match goal with H : negb (is_ws z) = true |- _ => apply negb_true_iff in H; rewrite H end.
  rewrite <- R. apply rev_involutive.
Qed.

Lemma strip_all_ws w : all_ws w = true -> strip w = [].
Proof. intros H. unfold strip. rewrite skip_ws_all_nil by exact H. reflexivity. Qed.

Lemma strip_skip_ws l : strip (skip_ws l) = strip l.
Proof. unfold strip. rewrite skip_ws_idem. reflexivity. Qed.

(* ---- the specification on spellings ---- *)
Lemma tokens_spec_app_sep s a b : tokens_spec s (a ++ s :: b) = tokens_spec s a ++ tokens_spec s b.
Proof. unfold tokens_spec. rewrite split_app_sep, map_app, filter_app. reflexivity. Qed.

Lemma no_sep_app s a b : no_sep s (a ++ b) = no_sep s a && no_sep s b.
Proof. unfold no_sep. apply forallb_app. Qed.

Lemma all_ws_no_sep s w : is_ws s = false -> all_ws w = true -> no_sep s w = true.
Proof.
  intros Hs. unfold all_ws, no_sep. induction w as [|c w IH]; cbn [forallb]; [reflexivity|].
  intros H. apply andb_true_iff in H. destruct H as [Hc Hw]. rewrite (IH Hw), andb_true_r.
  apply negb_true_iff. apply byte_eqb_neq. intros ->. rewrite Hs in Hc. discriminate.
Qed.

Lemma seg_no_sep s g : is_ws s = false -> seg_ok s g = true -> no_sep s (seg_bytes g) = true.
Proof.
  intros Hs. destruct g as [w|a i b]; cbn [seg_ok seg_bytes].
  - apply all_ws_no_sep; exact Hs.
  - intros H. apply andb_true_iff in H. destruct H as [H Hb]. apply andb_true_iff in H. destruct H as [Ha Hi].
    rewrite !no_sep_app. rewrite (all_ws_no_sep s a Hs Ha), (all_ws_no_sep s b Hs Hb).
    unfold item_ok in Hi. repeat (apply andb_true_iff in Hi; destruct Hi as [Hi ?]).
    match goal with H : no_sep s i = true |- _ => rewrite H end. reflexivity.
Qed.

Lemma tokens_spec_seg s g :
  is_ws s = false -> seg_ok s g = true ->
  tokens_spec s (seg_bytes g) = match g with Empty _ => [] | Item _ i _ => [i] end.
Proof.
  intros Hs Hg. unfold tokens_spec. rewrite split_no_sep by (apply seg_no_sep; assumption).
  cbn [map filter]. destruct g as [w|a i b]; cbn [seg_ok seg_bytes] in *.
  - rewrite strip_all_ws by exact Hg. reflexivity.
  - apply andb_true_iff in Hg. destruct Hg as [Hg Hb]. apply andb_true_iff in Hg. destruct Hg as [Ha Hi].
    rewrite (strip_spelled a i b s Ha Hb Hi).
    unfold item_ok in Hi. repeat (apply andb_true_iff in Hi; destruct Hi as [Hi ?]).
    match goal with H : nonempty i = true |- _ => rewrite H end. reflexivity.
Qed.

Lemma tokens_spec_spell s segs :
  is_ws s = false -> forallb (seg_ok s) segs = true -> tokens_spec s (spell s segs) = seg_items segs.
Proof.
  intros Hs. unfold spell. induction segs as [|g r IH]; [reflexivity|].
  cbn [forallb map]. intros H. apply andb_true_iff in H. destruct H as [Hg Hr].
  destruct r as [|g2 r2].
  - cbn [join map seg_items flat_map]. rewrite app_nil_r. apply tokens_spec_seg; assumption.
  - change (join s (seg_bytes g :: map seg_bytes (g2 :: r2))) with (seg_bytes g ++ s :: join s (map seg_bytes (g2 :: r2))).
    rewrite tokens_spec_app_sep. rewrite (IH Hr). rewrite tokens_spec_seg by assumption.
    cbn [seg_items flat_map]. reflexivity.
Qed.

(* ---- the model equals the specification ---- *)
Lemma tokens_spec_skip_ws s l : is_ws s = false -> tokens_spec s (skip_ws l) = tokens_spec s l.
Proof.
  intros Hs. induction l as [|c r IH]; [reflexivity|].
  cbn [skip_ws]. destruct (is_ws c) eqn:W; [|reflexivity].
  rewrite IH. unfold tokens_spec. cbn [split].
  assert (E: Byte.eqb c s = false). { apply byte_eqb_neq. intros ->. rewrite Hs in W. discriminate. }
  rewrite E. pose proof (split_nonnil s r) as Hn. destruct (split s r) as [|h t]; [contradiction|].
  cbn [map]. f_equal. f_equal. unfold strip. cbn [skip_ws]. rewrite W. reflexivity.
Qed.

Lemma tokens_spec_skip_sep s l : tokens_spec s (skip_sep s l) = tokens_spec s l.
Proof.
  induction l as [|c r IH]; [reflexivity|].
  cbn [skip_sep]. destruct (Byte.eqb c s) eqn:E; [|reflexivity].
  rewrite IH. unfold tokens_spec. cbn [split]. rewrite E. cbn [map filter]. unfold strip at 2. cbn. reflexivity.
Qed.

Lemma tokens_spec_nil s : tokens_spec s [] = [].
Proof. reflexivity. Qed.

Lemma strip_no_lead l : skip_ws l = l -> strip l = rstrip_ws l.
Proof. intros H. unfold strip. rewrite H. reflexivity. Qed.

Lemma tokens_fuel_spec s : is_ws s = false ->
  forall fuel l, (length l < fuel)%nat -> skip_ws l = l -> tokens_fuel fuel s l = Ok (tokens_spec s l).
Proof.
  intros Hs. induction fuel as [|f IH]; intros l Hf Hl; [lia|].
  cbn [tokens_fuel].
  pose proof (take_until_split s l) as Hsp. pose proof (take_until_rest s l) as Hr.
  pose proof (take_until_length s l) as Hlen. pose proof (take_until_fst_head s l Hl Hs) as Hh.
  destruct (take_until s l) as [raw rest]. cbn [fst snd] in *.
  assert (Hitem: filter nonempty [strip raw] = match rstrip_ws raw with [] => [] | _ => [rstrip_ws raw] end).
  { rewrite (strip_no_lead raw Hh). cbn [filter]. destruct (rstrip_ws raw); reflexivity. }
  destruct rest as [|c rest'].
  - unfold tokens_spec. rewrite Hsp. cbn [map]. rewrite Hitem. reflexivity.
  - subst c.
    assert (Hspec: tokens_spec s l = match rstrip_ws raw with [] => [] | _ => [rstrip_ws raw] end ++ tokens_spec s rest').
    { unfold tokens_spec. rewrite Hsp. cbn [map filter]. fold (tokens_spec s rest').
      rewrite (strip_no_lead raw Hh). destruct (rstrip_ws raw); reflexivity. }
    assert (Hr2: tokens_spec s (skip_ws (skip_sep s (s :: rest'))) = tokens_spec s rest').
    { rewrite tokens_spec_skip_ws by exact Hs. rewrite tokens_spec_skip_sep.
      unfold tokens_spec. cbn [split]. rewrite byte_eqb_refl. cbn [map filter]. unfold strip at 1. cbn. reflexivity. }
    destruct (skip_ws (skip_sep s (s :: rest'))) as [|c2 r2] eqn:E2.
    + rewrite Hspec, <- Hr2. rewrite tokens_spec_nil, app_nil_r. reflexivity.
    + rewrite IH.
      * cbn [bind]. rewrite Hspec, <- Hr2. reflexivity.
      * pose proof (skip_ws_length (skip_sep s (s :: rest'))) as L1.
        assert (L2: (length (skip_sep s (s :: rest')) <= length rest')%nat).
        { cbn [skip_sep]. rewrite byte_eqb_refl. apply skip_sep_length. }
        rewrite E2 in L1. cbn [length] in *. lia.
      * rewrite <- E2. apply skip_ws_idem.
Qed.

Lemma tokens_eq_spec s l : is_ws s = false -> tokens s l = Ok (tokens_spec s l).
Proof.
  intros Hs. unfold tokens. rewrite tokens_fuel_spec.
  - rewrite tokens_spec_skip_ws by exact Hs. reflexivity.
  - exact Hs.
  - pose proof (skip_ws_length l). lia.
  - apply skip_ws_idem.
Qed.

(* every spelling of an item list tokenises to the item list *)
Lemma tokens_spell s segs :
  is_ws s = false -> forallb (seg_ok s) segs = true -> tokens s (spell s segs) = Ok (seg_items segs).
Proof. intros Hs H. rewrite tokens_eq_spec by exact Hs. rewrite tokens_spec_spell by assumption. reflexivity. Qed.

Lemma seg_items_map_item r : seg_items (map (fun x => Item [SP] x []) r) = r.
Proof. unfold seg_items. induction r as [|x r IH]; [reflexivity|]. cbn [map flat_map app]. f_equal. exact IH. Qed.

Lemma canonical_segs_items items : seg_items (canonical_segs items) = items.
Proof.
  destruct items as [|i r]; [reflexivity|]. unfold canonical_segs.
  change (seg_items (Item [] i [] :: map (fun x => Item [SP] x []) r)) with (i :: seg_items (map (fun x => Item [SP] x []) r)).
  rewrite seg_items_map_item. reflexivity.
Qed.

Lemma canonical_segs_ok s items :
  forallb (item_ok s) items = true -> forallb (seg_ok s) (canonical_segs items) = true.
Proof.
  destruct items as [|i r]; [reflexivity|]. cbn [forallb canonical_segs]. intros H.
  apply andb_true_iff in H. destruct H as [Hi Hr]. cbn [seg_ok all_ws forallb]. rewrite Hi. cbn [andb].
  induction r as [|x r IH]; [reflexivity|]. cbn [forallb map] in *.
  apply andb_true_iff in Hr. destruct Hr as [Hx Hr]. cbn [seg_ok all_ws forallb]. rewrite Hx. cbn. apply IH. exact Hr.
Qed.

(* two spellings of the same items give the same token list; the composed spelling is one of them *)
Lemma tokens_spelling_invariant s segs1 segs2 :
  is_ws s = false -> forallb (seg_ok s) segs1 = true -> forallb (seg_ok s) segs2 = true ->
  seg_items segs1 = seg_items segs2 -> tokens s (spell s segs1) = tokens s (spell s segs2).
Proof. intros Hs H1 H2 E. rewrite !tokens_spell by assumption. rewrite E. reflexivity. Qed.

(* ---- quoting ---- *)
Lemma unquote_quoted v : unquote (DQ :: v ++ [DQ]) = v.
Proof.
  unfold unquote. rewrite byte_eqb_refl. rewrite rev_app_distr. cbn [rev app]. rewrite byte_eqb_refl. apply rev_involutive.
Qed.

Lemma unquote_plain v : match v with c :: _ => c <> DQ | [] => True end -> unquote v = v.
Proof. destruct v as [|c r]; [reflexivity|]. intros H. unfold unquote. apply byte_eqb_neq in H. rewrite H. reflexivity. Qed.

Lemma take_until_app_sep s n r : no_sep s n = true -> take_until s (n ++ s :: r) = (n, s :: r).
Proof.
  induction n as [|c n IH]; cbn [no_sep forallb app take_until].
  - intros _. rewrite byte_eqb_refl. reflexivity.
  - intros H. apply andb_true_iff in H. destruct H as [Hc Hn]. apply negb_true_iff in Hc. rewrite Hc.
    fold (no_sep s n) in Hn. rewrite (IH Hn). reflexivity.
Qed.

Lemma take_until_no_sep s n : no_sep s n = true -> take_until s n = (n, []).
Proof.
  induction n as [|c n IH]; cbn [no_sep forallb take_until]; [reflexivity|].
  intros H. apply andb_true_iff in H. destruct H as [Hc Hn]. apply negb_true_iff in Hc. rewrite Hc.
  fold (no_sep s n) in Hn. rewrite (IH Hn). reflexivity.
Qed.

(* name=value and name="value" are the same component *)
Lemma nvp_quoting n v :
  no_sep EQS n = true -> match v with c :: _ => c <> DQ /\ c <> EQS | [] => True end ->
  nvp (n ++ EQS :: DQ :: v ++ [DQ]) = nvp (n ++ EQS :: v) /\ nvp (n ++ EQS :: v) = (n, Some v).
Proof.
  intros Hn Hv. unfold nvp. rewrite !take_until_app_sep by exact Hn.
  cbn [skip_sep]. rewrite byte_eqb_refl.
  assert (E1: skip_sep EQS (DQ :: v ++ [DQ]) = DQ :: v ++ [DQ]) by reflexivity.
  assert (E2: skip_sep EQS v = v).
  { destruct v as [|c r]; [reflexivity|]. cbn [skip_sep]. destruct Hv as [_ Hv]. apply byte_eqb_neq in Hv. rewrite Hv. reflexivity. }
  change (if (DQ =? EQS)%byte then skip_sep EQS (v ++ [DQ]) else DQ :: v ++ [DQ]) with (DQ :: v ++ [DQ]).
  rewrite E2, unquote_quoted. rewrite unquote_plain; [split; reflexivity|].
  destruct v; [exact I|]. tauto.
Qed.

Lemma nvp_bare n : no_sep EQS n = true -> nvp n = (n, None).
Proof. intros Hn. unfold nvp. rewrite take_until_no_sep by exact Hn. reflexivity. Qed.

(* ---- header lines ---- *)
Definition no_crlf (v : bytes) : bool := forallb (fun c => negb (Byte.eqb c CR || Byte.eqb c LF)) v.

Lemma until_cr_or_lf_value v rest : no_crlf v = true -> until_cr_or_lf (v ++ CR :: LF :: rest) = Some (v, CR :: LF :: rest).
Proof.
  induction v as [|c v IH]; cbn [no_crlf forallb app until_cr_or_lf].
  - intros _. rewrite byte_eqb_refl. reflexivity.
  - intros H. apply andb_true_iff in H. destruct H as [Hc Hv]. apply negb_true_iff in Hc. rewrite Hc.
    fold (no_crlf v) in Hv. rewrite (IH Hv). reflexivity.
Qed.

Lemma until_crlf_value v rest : no_crlf v = true -> until_crlf (v ++ CR :: LF :: rest) = Some (v, CR :: LF :: rest).
Proof.
  induction v as [|c v IH]; intros H.
  - cbn [app until_crlf]. rewrite !byte_eqb_refl. reflexivity.
  - cbn [no_crlf forallb] in H. apply andb_true_iff in H. destruct H as [Hc Hv]. fold (no_crlf v) in Hv.
    apply negb_true_iff in Hc. apply orb_false_iff in Hc. destruct Hc as [Hcr _].
    change ((c :: v) ++ CR :: LF :: rest) with (c :: (v ++ CR :: LF :: rest)).
    cbn [until_crlf]. rewrite Hcr. cbn [andb]. rewrite (IH Hv).
    destruct (v ++ CR :: LF :: rest) eqn:E; [destruct v; discriminate|]. reflexivity.
Qed.

Lemma all_ws_no_crlf w : all_ws w = true -> no_crlf w = true.
Proof.
  unfold all_ws, no_crlf. induction w as [|c w IH]; cbn [forallb]; [reflexivity|].
  intros H. apply andb_true_iff in H. destruct H as [Hc Hw]. rewrite (IH Hw), andb_true_r.
  unfold is_ws in Hc. apply orb_true_iff in Hc. destruct Hc as [Hc|Hc]; apply byte_eqb_eq in Hc; subst c; reflexivity.
Qed.

Lemma no_crlf_app a b : no_crlf (a ++ b) = no_crlf a && no_crlf b.
Proof. unfold no_crlf. apply forallb_app. Qed.

(* a field value: not empty, neither starting nor ending with white space, not starting with a colon, free of CR and LF *)
Definition value_ok (v : bytes) : bool :=
  no_crlf v
  && match v with c :: _ => negb (is_ws c) && negb (Byte.eqb c COLON) | [] => false end
  && match rev v with c :: _ => negb (is_ws c) | [] => false end.

(* name, value and length of a header line do not depend on the optional white space around the value *)
Lemma header_line_spelled strict n w1 v w2 rest :
  no_sep COLON n = true -> all_ws w1 = true -> all_ws w2 = true -> value_ok v = true ->
  header_line strict (n ++ COLON :: w1 ++ v ++ w2 ++ CR :: LF :: rest)
  = Ok (n, v, zlen n + 1 + zlen w1 + zlen v + zlen w2).
Proof.
  intros Hn H1 H2 Hv. unfold value_ok in Hv.
  apply andb_true_iff in Hv. destruct Hv as [Hv Hlast]. apply andb_true_iff in Hv. destruct Hv as [Hcr Hfirst].
  destruct v as [|c v']; [discriminate|].
  apply andb_true_iff in Hfirst. destruct Hfirst as [Hws Hcol]. apply negb_true_iff in Hws. apply negb_true_iff in Hcol.
  unfold header_line. rewrite take_until_app_sep by exact Hn.
  cbn [skip_sep]. rewrite byte_eqb_refl.
  assert (E1: skip_sep COLON (w1 ++ (c :: v') ++ w2 ++ CR :: LF :: rest) = w1 ++ (c :: v') ++ w2 ++ CR :: LF :: rest).
  { destruct w1 as [|x w1'].
    - cbn [app skip_sep]. rewrite Hcol. reflexivity.
    - cbn [app skip_sep]. cbn [all_ws forallb] in H1. apply andb_true_iff in H1. destruct H1 as [Hx _].
      assert (Ex: Byte.eqb x COLON = false).
      { apply byte_eqb_neq. intros ->. vm_compute in Hx. discriminate. }
      rewrite Ex. reflexivity. }
  rewrite E1. rewrite skip_ws_all by exact H1.
  assert (E2: skip_ws ((c :: v') ++ w2 ++ CR :: LF :: rest) = (c :: v') ++ w2 ++ CR :: LF :: rest).
  { cbn [app skip_ws]. rewrite Hws. reflexivity. }
  rewrite E2.
  assert (Hcr2: no_crlf ((c :: v') ++ w2) = true).
  { rewrite no_crlf_app, Hcr. apply all_ws_no_crlf. exact H2. }
  assert (E3: (if strict then until_crlf (((c :: v') ++ w2) ++ CR :: LF :: rest)
               else until_cr_or_lf (((c :: v') ++ w2) ++ CR :: LF :: rest))
              = Some ((c :: v') ++ w2, CR :: LF :: rest)).
  { destruct strict; [apply until_crlf_value|apply until_cr_or_lf_value]; exact Hcr2. }
  rewrite <- app_assoc in E3. rewrite E3.
  assert (E4: rstrip_ws ((c :: v') ++ w2) = c :: v').
  { unfold rstrip_ws. rewrite rev_app_distr. rewrite skip_ws_all by (rewrite all_ws_rev; exact H2).
    destruct (rev (c :: v')) as [|z zs] eqn:R; [discriminate|].
    apply negb_true_iff in Hlast. cbn [skip_ws]. rewrite Hlast. rewrite <- R. apply rev_involutive. }
  rewrite E4. f_equal. f_equal. rewrite !zlen_app, zlen_cons, !zlen_app. rewrite !zlen_cons. lia.
Qed.

Lemma header_name_case canon n1 n2 : lower n1 = lower n2 -> header_name_matches canon n1 = header_name_matches canon n2.
Proof. intros E. unfold header_name_matches. rewrite E. reflexivity. Qed.

Lemma lower_idem l : lower (lower l) = lower l.
Proof.
  unfold lower. rewrite map_map. apply map_ext. intros c. unfold lower_b.
  destruct ((65 <=? b2z c) && (b2z c <=? 90)) eqn:E; [|rewrite E; reflexivity].
  rewrite b2z_z2b. apply andb_true_iff in E. destruct E as [E1 E2].
  apply Z.leb_le in E1. apply Z.leb_le in E2. rewrite Z.mod_small by lia.
  destruct ((65 <=? b2z c + 32) && (b2z c + 32 <=? 90)) eqn:F; [|reflexivity].
  apply andb_true_iff in F. destruct F as [_ F2]. apply Z.leb_le in F2. lia.
Qed.
