(* SSL 2.0 records: consumed length = declared length, self-delimiting, honest prefix rejection, round trip. *)
From Coq Require Import ZArith List Bool Lia.
From Coq.Strings Require Import Byte.
From CP Require Import Core.Bytes Core.Result Frame.Ssl2 Lemmas.SliceLemmas.
Import ListNotations.
Open Scope Z_scope.
Local Arguments Z.add : simpl never.
Local Arguments Z.mul : simpl never.
Local Arguments Z.sub : simpl never.
Local Arguments Z.div : simpl never.
Local Arguments Z.modulo : simpl never.

Section Ssl2Lemmas.
  Variable msg : Z -> bytes -> result Z.
  Variable types : list Z.

  Lemma zlen_firstn_le {A} (l : list A) n : 0 <= n <= zlen l -> zlen (firstn (Z.to_nat n) l) = n.
  Proof. intros H. unfold zlen in *. rewrite firstn_length. lia. Qed.

  Lemma firstn_firstn_app {A} (l s : list A) a n : (a <= n)%nat -> (n <= length l)%nat -> firstn a (firstn n l ++ s) = firstn a l.
  Proof.
    intros H1 H2. rewrite firstn_app. rewrite firstn_length. replace (a - Nat.min n (length l))%nat with 0%nat by lia.
    cbn [firstn]. rewrite app_nil_r. rewrite firstn_firstn. f_equal. lia.
  Qed.

  Lemma skipn_firstn_app {A} (l s : list A) a b n : (a + b <= n)%nat -> (n <= length l)%nat ->
    firstn b (skipn a (firstn n l ++ s)) = firstn b (skipn a l).
  Proof.
    intros H1 H2. rewrite skipn_app. rewrite firstn_length. replace (a - Nat.min n (length l))%nat with 0%nat by lia.
    cbn [skipn]. rewrite firstn_app. rewrite skipn_length, firstn_length.
    replace (b - (Nat.min n (length l) - a))%nat with 0%nat by lia. cbn [firstn]. rewrite app_nil_r.
    rewrite skipn_firstn_comm. rewrite firstn_firstn. f_equal. lia.
  Qed.

  (* body: success means the whole declared record was present, and only its bytes matter *)
  Lemma ssl2_body_ok hdr rl pad rest x n : 0 <= pad ->
    ssl2_body msg types hdr rl pad rest = Ok (x, n) -> n = hdr + rl /\ pad + 1 <= rl <= zlen rest.
  Proof.
    intros Hp. unfold ssl2_body. destruct (Z.ltb_spec (zlen rest) rl) as [|Hl]; [discriminate|].
    destruct rest as [|t r]; [discriminate|].
    destruct (negb (existsb (Z.eqb (b2z t)) types)); [discriminate|].
    cbv zeta. destruct (Z.ltb_spec (rl - pad - 1) 0) as [|Hm]; [discriminate|].
    destruct (msg (b2z t) (firstn (Z.to_nat (rl - pad - 1)) r)) as [c|e]; cbn [bind]; [|discriminate].
    destruct (negb (c =? rl - pad - 1)); [discriminate|]. intros H. inversion H; subst. lia.
  Qed.

  (* ... and the result depends only on the rl bytes of the record *)
  Lemma ssl2_body_suffix hdr rl pad rest x n sfx : 0 <= pad ->
    ssl2_body msg types hdr rl pad rest = Ok (x, n) ->
    ssl2_body msg types hdr rl pad (firstn (Z.to_nat rl) rest ++ sfx) = Ok (x, n).
  Proof.
    intros Hp H. pose proof (ssl2_body_ok _ _ _ _ _ _ Hp H) as [_ Hr].
    unfold ssl2_body in *. destruct (Z.ltb_spec (zlen rest) rl) as [|Hl]; [discriminate|].
    destruct rest as [|t r]; [discriminate|].
    assert (Hrl: (Z.to_nat rl = S (Z.to_nat (rl - 1)))%nat) by lia. rewrite Hrl. cbn [firstn app].
    rewrite zlen_cons in Hl. pose proof (zlen_nonneg r) as Hr0.
    assert (Hlen: zlen (firstn (Z.to_nat (rl - 1)) r ++ sfx) >= rl - 1).
    { rewrite zlen_app, zlen_firstn_le by lia. pose proof (zlen_nonneg sfx). lia. }
    rewrite zlen_cons. destruct (Z.ltb_spec (1 + zlen (firstn (Z.to_nat (rl - 1)) r ++ sfx)) rl); [lia|].
    destruct (negb (existsb (Z.eqb (b2z t)) types)); [discriminate|].
    cbv zeta in *. destruct (Z.ltb_spec (rl - pad - 1) 0) as [|Hm]; [discriminate|].
    assert (E1: firstn (Z.to_nat (rl - pad - 1)) (firstn (Z.to_nat (rl - 1)) r ++ sfx) = firstn (Z.to_nat (rl - pad - 1)) r).
    { apply firstn_firstn_app; unfold zlen in *; lia. }
    assert (E2: firstn (Z.to_nat pad) (skipn (Z.to_nat (rl - pad - 1)) (firstn (Z.to_nat (rl - 1)) r ++ sfx))
                = firstn (Z.to_nat pad) (skipn (Z.to_nat (rl - pad - 1)) r)).
    { apply skipn_firstn_app; unfold zlen in *; lia. }
    rewrite E1, E2. exact H.
  Qed.

  (* consumed length = the length the header declares, positive, within the buffer *)
  Lemma ssl2_parse_declared buf x n :
    ssl2_parse msg types buf = Ok (x, n) -> ssl2_declared buf = Some n /\ 0 < n <= zlen buf.
  Proof.
    unfold ssl2_parse, ssl2_declared. destruct buf as [|b0 [|b1 r2]]; try discriminate.
    pose proof (b2z_range b0) as R0. pose proof (b2z_range b1) as R1.
    destruct (Z.leb_spec 128 (b2z b0)) as [Hge|Hlt].
    - intros H. apply ssl2_body_ok in H; [|lia]. destruct H as [-> Hr]. rewrite !zlen_cons. split; [reflexivity|lia].
    - destruct r2 as [|b2 r3]; [discriminate|]. pose proof (b2z_range b2) as R2.
      intros H. apply ssl2_body_ok in H; [|lia]. destruct H as [-> Hr]. rewrite !zlen_cons. split; [reflexivity|lia].
  Qed.

  (* self-delimiting: the first n bytes alone, or followed by any other bytes, give the same record and the same n *)
  Lemma ssl2_self_delimiting buf x n sfx :
    ssl2_parse msg types buf = Ok (x, n) -> ssl2_parse msg types (firstn (Z.to_nat n) buf ++ sfx) = Ok (x, n).
  Proof.
    intros H. pose proof (ssl2_parse_declared _ _ _ H) as [_ Hn].
    unfold ssl2_parse in *. destruct buf as [|b0 [|b1 r2]]; try discriminate.
    pose proof (b2z_range b0) as R0. pose proof (b2z_range b1) as R1. rewrite !zlen_cons in Hn.
    destruct (Z.leb_spec 128 (b2z b0)) as [Hge|Hlt].
    - pose proof (ssl2_body_ok _ _ _ _ _ _ (Z.le_refl 0) H) as [En Hr].
      assert (E: Z.to_nat n = S (S (Z.to_nat ((b2z b0 mod 128) * 256 + b2z b1)))) by lia.
      rewrite E. cbn [firstn app]. destruct (Z.leb_spec 128 (b2z b0)) as [_|Hx]; [|lia].
      apply ssl2_body_suffix; [lia|exact H].
    - destruct r2 as [|b2 r3]; [discriminate|]. pose proof (b2z_range b2) as R2.
      assert (Hp: 0 <= b2z b2) by lia.
      pose proof (ssl2_body_ok _ _ _ _ _ _ Hp H) as [En Hr].
      assert (E: Z.to_nat n = S (S (S (Z.to_nat ((b2z b0 mod 64) * 256 + b2z b1))))) by lia.
      rewrite E. cbn [firstn app]. destruct (Z.leb_spec 128 (b2z b0)) as [Hx|_]; [lia|].
      apply ssl2_body_suffix; [lia|exact H].
  Qed.

  (* every proper prefix of a record that parses exactly is rejected with NotEnoughData m, 1 <= m <= bytes missing *)
  Lemma ssl2_prefix_rejected f x k :
    ssl2_parse msg types f = Ok (x, zlen f) -> 0 <= k < zlen f ->
    exists m, ssl2_parse msg types (firstn (Z.to_nat k) f) = Err (NotEnoughData m) /\ 1 <= m <= zlen f - k.
  Proof.
    intros H Hk. pose proof (ssl2_parse_declared _ _ _ H) as [_ Hn].
    unfold ssl2_parse in *. destruct f as [|b0 [|b1 r2]]; try discriminate.
    pose proof (b2z_range b0) as R0. pose proof (b2z_range b1) as R1. rewrite !zlen_cons in *.
    pose proof (zlen_nonneg r2) as L2.
    destruct (Z.eq_dec k 0) as [->|K0]; [exists 1; cbn [Z.to_nat firstn]; split; [reflexivity|lia]|].
    destruct (Z.eq_dec k 1) as [->|K1]; [exists 1; cbn [Z.to_nat Pos.to_nat firstn]; split; [reflexivity|lia]|].
    assert (E: Z.to_nat k = S (S (Z.to_nat (k - 2)))) by lia. rewrite E. cbn [firstn].
    destruct (Z.leb_spec 128 (b2z b0)) as [Hge|Hlt].
    - pose proof (ssl2_body_ok _ _ _ _ _ _ (Z.le_refl 0) H) as [En Hr].
      unfold ssl2_body. rewrite zlen_firstn_le by lia.
      destruct (Z.ltb_spec (k - 2) ((b2z b0 mod 128) * 256 + b2z b1)) as [Hx|Hx]; [|lia].
      eexists. split; [reflexivity|lia].
    - destruct r2 as [|b2 r3]; [discriminate|]. pose proof (b2z_range b2) as R2. rewrite zlen_cons in *.
      pose proof (zlen_nonneg r3) as L3.
      assert (Hp: 0 <= b2z b2) by lia.
      pose proof (ssl2_body_ok _ _ _ _ _ _ Hp H) as [En Hr].
      destruct (Z.eq_dec k 2) as [->|K2]; [exists 1; cbn [Z.sub Z.to_nat firstn]; split; [reflexivity|lia]|].
      assert (E3: Z.to_nat (k - 2) = S (Z.to_nat (k - 3))) by lia. rewrite E3. cbn [firstn].
      unfold ssl2_body. rewrite zlen_firstn_le by lia.
      destruct (Z.ltb_spec (k - 3) ((b2z b0 mod 64) * 256 + b2z b1)) as [Hx|Hx]; [|lia].
      eexists. split; [reflexivity|lia].
  Qed.

  (* a composed record parses back to its type and message, with any bytes after it *)
  Lemma ssl2_roundtrip t m b sfx :
    In t types -> 0 <= t < 256 -> msg t m = Ok (zlen m) -> ssl2_compose t m = Ok b ->
    ssl2_parse msg types (b ++ sfx) = Ok ((t, m, []), zlen b).
  Proof.
    intros Ht Hr Hm Hc. unfold ssl2_compose in Hc. pose proof (zlen_nonneg m) as Lm.
    destruct (Z.leb_spec 32768 (1 + zlen m)) as [Hbig|Hsmall]; [discriminate|]. apply Ok_inj in Hc. subst b.
    set (n := 1 + zlen m) in *.
    assert (H0: b2z (z2b (128 + n / 256)) = 128 + n / 256).
    { rewrite b2z_z2b. apply Z.mod_small. assert (0 <= n / 256 < 128) by (split; [apply Z.div_pos; lia|apply Z.div_lt_upper_bound; lia]). lia. }
    assert (H1: b2z (z2b n) = n mod 256) by apply b2z_z2b.
    assert (H2: b2z (z2b t) = t) by (rewrite b2z_z2b; apply Z.mod_small; lia).
    cbn [app ssl2_parse]. rewrite H0, H1.
    assert (Hd: 0 <= n / 256 < 128) by (split; [apply Z.div_pos; lia|apply Z.div_lt_upper_bound; lia]).
    destruct (Z.leb_spec 128 (128 + n / 256)) as [_|Hx]; [|lia].
    assert (Erl: (128 + n / 256) mod 128 * 256 + n mod 256 = n).
    { replace (128 + n / 256) with (n / 256 + 1 * 128) by lia. rewrite Z.mod_add by lia. rewrite Z.mod_small by lia.
      pose proof (Z.div_mod n 256 ltac:(lia)). lia. }
    rewrite Erl. unfold ssl2_body. rewrite zlen_cons, zlen_app.
    pose proof (zlen_nonneg sfx) as Ls. destruct (Z.ltb_spec (1 + (zlen m + zlen sfx)) n) as [Hx|_]; [unfold n in *; lia|].
    rewrite H2.
    assert (Ex: existsb (Z.eqb t) types = true) by (apply existsb_exists; exists t; split; [exact Ht|apply Z.eqb_refl]).
    rewrite Ex. cbn [negb]. cbv zeta.
    replace (n - 0 - 1) with (zlen m) by (unfold n; lia).
    destruct (Z.ltb_spec (zlen m) 0) as [Hx|_]; [lia|].
    unfold zlen at 1 3. rewrite Nat2Z.id. rewrite firstn_app_exact. rewrite Hm. cbn [bind].
    rewrite Z.eqb_refl. cbn [negb]. cbn [Z.to_nat firstn].
    rewrite !zlen_cons. unfold n. f_equal. f_equal. lia.
  Qed.
End Ssl2Lemmas.
