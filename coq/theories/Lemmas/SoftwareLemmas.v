From Coq Require Import ZArith List Bool Lia.
From Coq.Strings Require Import Byte.
From CP Require Import Core.Bytes Core.Result Text.Field Spec.FieldSpec Text.Cookie Ssh.Software Lemmas.FieldLemmas.
Import ListNotations.
Open Scope Z_scope.

Lemma take_until_concat s l : fst (take_until s l) ++ snd (take_until s l) = l.
Proof.
  induction l as [|c r IH]; cbn [take_until]; [reflexivity|].
  destruct (Byte.eqb c s); cbn [fst snd app]; [reflexivity|].
  destruct (take_until s r) as [a b]. cbn [fst snd app] in *. rewrite IH. reflexivity.
Qed.

(* what is accepted is written back verbatim: the identification string is recovered exactly *)
Lemma sw_parse_verbatim vendor sep l ver : sw_parse vendor sep l = Ok ver -> sw_compose vendor sep ver = l.
Proof.
  unfold sw_parse, sw_compose. pose proof (take_until_concat sep l) as C. pose proof (take_until_rest sep l) as R.
  destruct (take_until sep l) as [v rest]. cbn [fst snd] in C, R.
  destruct (bytes_eqb v vendor) eqn:E; cbn [negb]; [|discriminate]. apply bytes_eqb_eq in E. subst v.
  destruct rest as [|c0 r1]; [intros Q; apply Ok_inj in Q; subst ver; rewrite app_nil_r in C; rewrite app_nil_r; exact C|].
  subst c0. destruct r1 as [|c r2]; [discriminate|].
  destruct (Byte.eqb c sep); [discriminate|]. intros Q. apply Ok_inj in Q. subst ver. exact C.
Qed.

(* a vendor without the separator and a non-empty version that does not begin with it come back *)
Lemma sw_compose_parse vendor sep w :
  no_sep sep vendor = true -> w <> [] -> head_not sep w = true -> sw_parse vendor sep (sw_compose vendor sep (Some w)) = Ok (Some w).
Proof.
  intros Hv Hw Hh. unfold sw_parse, sw_compose. rewrite take_until_app_sep by exact Hv. rewrite bytes_eqb_refl. cbn [negb].
  destruct w as [|c r]; [contradiction|]. cbn [head_not] in Hh. apply negb_true_iff in Hh. rewrite Hh. reflexivity.
Qed.
Lemma sw_compose_parse_none vendor sep : no_sep sep vendor = true -> sw_parse vendor sep (sw_compose vendor sep None) = Ok None.
Proof.
  intros Hv. unfold sw_parse, sw_compose. rewrite app_nil_r. rewrite take_until_no_sep by exact Hv. rewrite bytes_eqb_refl. reflexivity.
Qed.

(* a repeated separator is not split (the string goes to the class that keeps it as received) *)
Lemma sw_parse_separator_run vendor sep r : no_sep sep vendor = true -> sw_parse vendor sep (vendor ++ sep :: sep :: r) = Err InvalidType.
Proof.
  intros Hv. unfold sw_parse. rewrite take_until_app_sep by exact Hv. rewrite bytes_eqb_refl. cbn [negb]. rewrite byte_eqb_refl. reflexivity.
Qed.
