(* C04: the reader loop reassembles the stream for every fragmentation (induction over the chunk list). *)
From Coq Require Import ZArith List Bool Lia.
From CP Require Import Core.Bytes Core.Result Reader.Reader Lemmas.SliceLemmas.
Import ListNotations.
Open Scope Z_scope.
Local Arguments Z.sub : simpl never.
Local Arguments Z.add : simpl never.

Lemma app_eq_app_cases {A} (x r b c : list A) : x ++ r = b ++ c ->
  ((length x < length b)%nat /\ x = firstn (length x) b) \/
  (exists x', x = b ++ x' /\ x' ++ r = c).
Proof.
  revert b. induction x as [|a x IH]; intros b H.
  - destruct b as [|y b]; [right; exists []; cbn in *; auto|left; cbn; split; [lia|reflexivity]].
  - destruct b as [|y b].
    + right. exists (a :: x). cbn in *. auto.
    + cbn [app] in H. inversion H; subst y. destruct (IH b H2) as [[L E]|[x' [E R]]].
      * left. cbn [length firstn]. split; [lia|]. f_equal. exact E.
      * right. exists x'. subst x. cbn. auto.
Qed.

Section R.
  Variable A : Type.
  Variable parse : bytes -> result (A * Z).

  (* a frame: a value together with the bytes compose() gives for it *)
  Definition good_frame (f : A * bytes) : Prop :=
    0 < zlen (snd f) /\
    (forall s, parse (snd f ++ s) = Ok (fst f, zlen (snd f))) /\                     (* rt_X with any suffix *)
    (forall k, 0 < k < zlen (snd f) ->                                               (* prefix_X *)
       exists m, parse (firstn (Z.to_nat k) (snd f)) = Err (NotEnoughData m) /\ 1 <= m <= zlen (snd f) - k).

  Notation drain := (drain A parse).
  Notation feed := (feed A parse).

  (* where the reader stands: `pending` are the frames not yet emitted, `rest` the bytes not yet delivered *)
  Definition standing (pending : list (A * bytes)) (rest : bytes) (st : rstate A) : Prop :=
    rbuf st ++ rest = concat (map snd pending) /\
    match pending with
    | [] => rbuf st = []
    | f :: _ => zlen (rbuf st) < zlen (snd f) /\ (rbuf st = [] \/ 0 < need st) /\ need st <= zlen (snd f) - zlen (rbuf st)
    end.

  Lemma drain_nil fuel o : drain fuel [] o = {| rbuf := []; need := 0; out := o; status := Running |}.
  Proof. destruct fuel; reflexivity. Qed.

  Lemma drain_spec pending : Forall good_frame pending ->
    forall x rest o fuel, x ++ rest = concat (map snd pending) -> (length x < fuel)%nat ->
    let st := drain fuel x o in
    status st = Running /\ exists d p, pending = d ++ p /\ out st = o ++ map fst d /\ standing p rest st.
  Proof.
    induction pending as [|[v b] ps IH]; intros G x rest o fuel E F.
    - cbn in E. apply app_eq_nil in E. destruct E as [-> ->]. rewrite drain_nil. cbn. split; [reflexivity|].
      exists [], []. cbn. rewrite app_nil_r. repeat split.
    - inversion G as [|? ? [Hne [Hrt Hpre]] G']; subst. cbn [fst snd] in *.
      destruct x as [|a x].
      + rewrite drain_nil. cbn. split; [reflexivity|]. exists [], ((v, b) :: ps). cbn [app map fst out rbuf need]. rewrite app_nil_r.
        split; [reflexivity|]. split; [reflexivity|]. split; [exact E|]. cbn [snd zlen length]. unfold zlen in *. cbn. split; [lia|]. split; [left; reflexivity|lia].
      + destruct fuel as [|f]; [lia|]. cbn [map concat snd] in E.
        destruct (app_eq_app_cases _ _ _ _ E) as [[L Ex]|[x' [Ex R]]].
        * (* proper prefix of the frame in progress *)
          set (xx := a :: x) in *.
          assert (Hk : 0 < zlen xx < zlen b) by (unfold zlen, xx in *; cbn [length] in *; lia).
          destruct (Hpre (zlen xx) Hk) as [m [Pm Bm]].
          assert (Efx : firstn (Z.to_nat (zlen xx)) b = xx) by (unfold zlen; rewrite Nat2Z.id; symmetry; exact Ex).
          rewrite Efx in Pm. cbn [Reader.drain]. fold xx. rewrite Pm. cbn.
          split; [reflexivity|]. exists [], ((v, b) :: ps). cbn [app map fst]. rewrite app_nil_r.
          split; [reflexivity|]. split; [reflexivity|]. split; [exact E|]. cbn [snd rbuf need]. split; [lia|]. split; [right; lia|lia].
        * (* at least one complete frame *)
          cbn [Reader.drain]. rewrite Ex. rewrite (Hrt x'). 
          replace (skipn (Z.to_nat (zlen b)) (b ++ x')) with x' by (unfold zlen; rewrite Nat2Z.id, skipn_app_exact; reflexivity).
          assert (F' : (length x' < f)%nat).
          { assert (length (a :: x) = length b + length x')%nat by (rewrite Ex, app_length; reflexivity).
            unfold zlen in Hne. lia. }
          destruct (IH G' x' rest (o ++ [v]) f R F') as [S [d [p [Ep [Eo St]]]]].
          destruct b as [|b0 bt]; [unfold zlen in Hne; cbn in Hne; lia|].
          change ((b0 :: bt) ++ x') with (b0 :: (bt ++ x')) in *.
          split; [exact S|]. exists ((v, b0 :: bt) :: d), p. split; [cbn; f_equal; exact Ep|].
          split; [rewrite Eo, <- app_assoc; reflexivity|exact St].
  Qed.

  (* one chunk *)
  Lemma feed_spec frames done pending chunk rest st : Forall good_frame frames -> frames = done ++ pending ->
    status st = Running -> out st = map fst done -> standing pending (chunk ++ rest) st ->
    let st' := feed st chunk in
    status st' = Running /\ exists done' pending', frames = done' ++ pending' /\ out st' = map fst done' /\ standing pending' rest st'.
  Proof.
    intros G Ef Sr So [Eb Sp]. unfold Reader.feed. rewrite Sr.
    assert (Gp : Forall good_frame pending) by (subst frames; apply Forall_app in G; tauto).
    destruct (Z.gtb_spec (need st - zlen chunk) 0) as [W|W].
    - (* still waiting: only possible inside a frame *)
      cbn. split; [reflexivity|]. exists done, pending. split; [exact Ef|]. split; [exact So|].
      unfold standing. cbn [rbuf need]. split; [rewrite <- app_assoc; exact Eb|].
      destruct pending as [|f ps].
      + pose proof (zlen_nonneg chunk). rewrite Sp in *. destruct st; cbn in *. subst.
        (* rbuf = [] and need > |chunk| >= 0: standing for no pending frame says nothing about need; but then the
           stream is exhausted: chunk ++ rest = [] *)
        cbn in Eb. apply app_eq_nil in Eb. destruct Eb as [-> ->]. reflexivity.
      + destruct Sp as [S1 [S2 S3]]. rewrite zlen_app. pose proof (zlen_nonneg chunk). split; [lia|]. split; [right; lia|lia].
    - assert (Ex : (rbuf st ++ chunk) ++ rest = concat (map snd pending)) by (rewrite <- app_assoc; exact Eb).
      destruct (drain_spec pending Gp (rbuf st ++ chunk) rest (out st) (S (length (rbuf st ++ chunk))) Ex ltac:(lia))
        as [S [d [p [Ep [Eo St]]]]].
      split; [exact S|]. exists (done ++ d), p. split; [subst; rewrite <- app_assoc; reflexivity|].
      split; [rewrite Eo, So, map_app; reflexivity|exact St].
  Qed.

  (* every fragmentation: after any number of delivered chunks the reader is running, has emitted exactly a prefix of
     the sent records, holds a proper prefix of the record in progress and never waits beyond its end; once all
     chunks are delivered it has emitted exactly the original sequence and its buffer is empty *)
  Theorem reader_correct frames : Forall good_frame frames ->
    forall chunks1 chunks2, concat (chunks1 ++ chunks2) = concat (map snd frames) ->
    let st := run_reader A parse chunks1 in
    status st = Running /\ exists done pending, frames = done ++ pending /\ out st = map fst done /\
      standing pending (concat chunks2) st.
  Proof.
    intros G chunks1. unfold run_reader.
    assert (Gen : forall st done pending chunks2, frames = done ++ pending -> status st = Running -> out st = map fst done ->
              standing pending (concat (chunks1 ++ chunks2)) st ->
              let st' := fold_left feed chunks1 st in
              status st' = Running /\ exists done' pending', frames = done' ++ pending' /\ out st' = map fst done' /\
                standing pending' (concat chunks2) st').
    { induction chunks1 as [|c cs IH]; intros st done pending chunks2 Ef Sr So St.
      - cbn in *. split; [exact Sr|]. exists done, pending. auto.
      - cbn [fold_left app concat] in *.
        destruct (feed_spec frames done pending c (concat (cs ++ chunks2)) st G Ef Sr So St) as [Sr' [d' [p' [Ef' [So' St']]]]].
        exact (IH (feed st c) d' p' chunks2 Ef' Sr' So' St'). }
    intros chunks2 E. apply (Gen (rinit A) [] frames chunks2); try reflexivity.
    unfold standing, rinit. cbn [rbuf need app]. split; [exact E|].
    destruct frames as [|f fs]; [reflexivity|]. inversion G as [|? ? [Hne _] _]; subst. unfold zlen at 1. cbn. split; [lia|]. split; [left; reflexivity|lia].
  Qed.

  Corollary reader_complete frames chunks : Forall good_frame frames -> concat chunks = concat (map snd frames) ->
    let st := run_reader A parse chunks in status st = Running /\ out st = map fst frames /\ rbuf st = [].
  Proof.
    intros G E. destruct (reader_correct frames G chunks [] ltac:(rewrite app_nil_r; exact E)) as [S [d [p [Ef [Eo [Eb Sp]]]]]].
    cbn [concat] in Eb. rewrite app_nil_r in Eb. cbn zeta. split; [exact S|].
    destruct p as [|f ps].
    - rewrite app_nil_r in Ef. subst d. auto.
    - exfalso. destruct Sp as [S1 _]. cbn [map concat] in Eb.
      assert (zlen (rbuf (run_reader A parse chunks)) = zlen (snd f ++ concat (map snd ps))) by (rewrite Eb; reflexivity).
      rewrite zlen_app in H. pose proof (zlen_nonneg (concat (map snd ps))). lia.
  Qed.
End R.
