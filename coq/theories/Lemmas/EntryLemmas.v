From Coq Require Import ZArith List Bool Lia.
From CP Require Import Core.Bytes Core.Result Frame.Entry.
Open Scope Z_scope.

Section E.
  Variable A : Type.
  Variable parse : bytes -> result (A * Z).
  (* len_X: the class reports a consumed length inside the buffer *)
  Hypothesis len_ok : forall buf v n, parse buf = Ok (v, n) -> 0 <= n <= zlen buf.

  (* the exact-size variant succeeds precisely when n equals the buffer length *)
  Lemma exact_size_iff buf v : parse_exact_size A parse buf = Ok v <-> parse buf = Ok (v, zlen buf).
  Proof.
    unfold parse_exact_size. destruct (parse buf) as [[v' n]|e] eqn:P; cbn [bind].
    - pose proof (len_ok buf v' n P). destruct (Z.gtb_spec (zlen buf) n); split; intros Q; try discriminate.
      + inversion Q; subst. lia.
      + inversion Q; subst. f_equal. f_equal. lia.
      + inversion Q; subst. reflexivity.
    - split; discriminate.
  Qed.

  (* the in-place variant removes exactly the first n bytes and nothing else *)
  Lemma mutable_removes_prefix buf v rest : parse_mutable A parse buf = Ok (v, rest) ->
    exists n, parse buf = Ok (v, n) /\ rest = skipn (Z.to_nat n) buf /\ firstn (Z.to_nat n) buf ++ rest = buf.
  Proof.
    unfold parse_mutable. destruct (parse buf) as [[v' n]|e] eqn:P; cbn [bind]; [|discriminate].
    intros Q; inversion Q; subst. pose proof (len_ok buf v n P). exists n. split; [reflexivity|].
    unfold py_del_prefix. destruct (Z.leb_spec 0 n); [|lia]. split; [reflexivity|apply firstn_skipn].
  Qed.

  (* a failed parse returns no buffer at all: the caller's bytearray is left as it was *)
  Lemma failure_leaves_buffer buf e : parse buf = Err e -> parse_mutable A parse buf = Err e /\ parse_exact_size A parse buf = Err e.
  Proof. intros P. unfold parse_mutable, parse_exact_size. rewrite P. split; reflexivity. Qed.
End E.
