(* Canonical re-serialisation (property C05) for SSL 2.0 records, SSH binary packets and SSH mpints: whatever accepted
   input an object came from (3-byte header with padding, more padding than necessary, unnecessary leading bytes), the
   bytes composed for it are accepted again, consumed entirely, and give the same object; composing is a function of the
   object, so one more round changes nothing. *)
From Coq Require Import ZArith List Bool Lia.
From Coq.Strings Require Import Byte.
From CP Require Import Core.Bytes Core.Result Prim.Int Prim.Mpint Ssh.Record Frame.Ssl2 Frame.SshPacket Lemmas.SliceLemmas
  Lemmas.IntLemmas Lemmas.MpintLemmas Lemmas.MpintNegLemmas Lemmas.SshLemmas Lemmas.Ssl2Lemmas Lemmas.SshPacketLemmas.
Import ListNotations.
Open Scope Z_scope.
Local Arguments Z.mul : simpl never.
Local Arguments Z.add : simpl never.
Local Arguments Z.sub : simpl never.
Local Arguments Z.pow : simpl never.

Section Ssl2Canon.
  Variable msg : Z -> bytes -> result Z.
  Variable types : list Z.

  (* what an accepted record tells about its type and message *)
  Lemma ssl2_body_facts hdr rl pad rest t m p n : 0 <= pad ->
    ssl2_body msg types hdr rl pad rest = Ok ((t, m, p), n) ->
    In t types /\ 0 <= t < 256 /\ msg t m = Ok (zlen m) /\ zlen m = rl - pad - 1.
  Proof.
    intros Hp. unfold ssl2_body. destruct (Z.ltb_spec (zlen rest) rl) as [|Hl]; [discriminate|].
    destruct rest as [|t0 r]; [discriminate|].
    destruct (existsb (Z.eqb (b2z t0)) types) eqn:Ex; cbn [negb]; [|discriminate].
    cbv zeta. destruct (Z.ltb_spec (rl - pad - 1) 0) as [|Hm]; [discriminate|].
    destruct (msg (b2z t0) (firstn (Z.to_nat (rl - pad - 1)) r)) as [c|e] eqn:Em; cbn [bind]; [|discriminate].
    destruct (Z.eqb_spec c (rl - pad - 1)) as [Ec|]; cbn [negb]; [|discriminate].
    intros H. apply Ok_inj in H. inversion H; subst t m p n. clear H.
    rewrite zlen_cons in Hl.
    assert (Lm : zlen (firstn (Z.to_nat (rl - pad - 1)) r) = rl - pad - 1).
    { unfold zlen. rewrite firstn_length. unfold zlen in Hl. lia. }
    apply existsb_exists in Ex. destruct Ex as [x [Hin Hx]]. apply Z.eqb_eq in Hx. subst x.
    split; [exact Hin|]. split; [apply b2z_range|]. split; [rewrite Lm, Em, Ec; reflexivity|exact Lm].
  Qed.

  Lemma ssl2_parse_facts buf t m p n :
    ssl2_parse msg types buf = Ok ((t, m, p), n) ->
    In t types /\ 0 <= t < 256 /\ msg t m = Ok (zlen m) /\ zlen m < 32767.
  Proof.
    unfold ssl2_parse. destruct buf as [|b0 [|b1 r2]]; try discriminate.
    pose proof (b2z_range b0) as R0. pose proof (b2z_range b1) as R1.
    destruct (Z.leb_spec 128 (b2z b0)) as [Hge|Hlt].
    - intros H. apply ssl2_body_facts in H; [|lia]. destruct H as [A [B [C D]]].
      split; [exact A|]. split; [exact B|]. split; [exact C|].
      assert (b2z b0 mod 128 < 128) by (apply Z.mod_pos_bound; lia). lia.
    - destruct r2 as [|b2 r3]; [discriminate|]. pose proof (b2z_range b2) as R2.
      intros H. apply ssl2_body_facts in H; [|lia]. destruct H as [A [B [C D]]].
      split; [exact A|]. split; [exact B|]. split; [exact C|].
      assert (b2z b0 mod 64 < 64) by (apply Z.mod_pos_bound; lia). lia.
  Qed.

  (* C05 for SSL 2.0 records: any accepted record (2- or 3-byte header, padding or not) composes, and the composed record
     is accepted again, consumed entirely, with the same type and message and no padding *)
  Lemma ssl2_canonical buf t m p n :
    ssl2_parse msg types buf = Ok ((t, m, p), n) ->
    exists b2, ssl2_compose t m = Ok b2 /\ ssl2_parse msg types b2 = Ok ((t, m, []), zlen b2).
  Proof.
    intros H. destruct (ssl2_parse_facts buf t m p n H) as [A [B [C D]]].
    assert (Ec : ssl2_compose t m = Ok (z2b (128 + (1 + zlen m) / 256) :: z2b (1 + zlen m) :: z2b t :: m)).
    { unfold ssl2_compose. destruct (Z.leb_spec 32768 (1 + zlen m)) as [Hbig|_]; [lia|reflexivity]. }
    eexists. split; [exact Ec|].
    pose proof (ssl2_roundtrip msg types t m _ [] A B C Ec) as R. rewrite app_nil_r in R. exact R.
  Qed.
End Ssl2Canon.

Section SshCanon.
  Variable msg : bytes -> result unit.

  Lemma ssh_body_facts pl rest m p n :
    ssh_body msg pl rest = Ok ((m, p), n) -> msg m = Ok tt /\ zlen m < pl.
  Proof.
    unfold ssh_body. destruct (Z.ltb_spec (zlen rest) pl) as [|Hl]; [discriminate|].
    destruct rest as [|p0 r]; [discriminate|]. pose proof (b2z_range p0) as Rp.
    cbv zeta. destruct (Z.ltb_spec (pl - b2z p0 - 1) 0) as [|Hm]; [discriminate|].
    destruct (msg (firstn (Z.to_nat (pl - b2z p0 - 1)) r)) as [u|e] eqn:Em; cbn [bind]; [|discriminate].
    intros H. apply Ok_inj in H. inversion H; subst m p n. clear H. destruct u.
    split; [exact Em|]. unfold zlen. rewrite firstn_length. lia.
  Qed.

  (* C05 for SSH binary packets: any accepted packet (whatever its padding length and padding bytes) composes to the packet
     with the padding of the rule and zero padding bytes, which is accepted again with the same payload *)
  Lemma ssh_canonical buf m p n :
    ssh_parse msg buf = Ok ((m, p), n) -> zlen m < 4294967000 ->
    ssh_parse msg (ssh_compose m) = Ok ((m, repeat x00 (Z.to_nat (padding_length (zlen m)))), zlen (ssh_compose m)).
  Proof.
    intros H Hl. unfold ssh_parse in H. destruct buf as [|b0 [|b1 [|b2 [|b3 rest]]]]; try discriminate.
    apply ssh_body_facts in H. destruct H as [Hm _].
    pose proof (ssh_roundtrip msg m [] Hm Hl) as R. rewrite app_nil_r in R. exact R.
  Qed.
End SshCanon.

(* C05 for SSH mpints: every integer a parse can return (canonical input or not) composes, and the composed mpint parses
   back to the same integer, consumed entirely *)
Lemma ssh_mpint_canonical z :
  (0 <= z -> zlen (ssh_payload z) < 4294967296) -> (z < 0 -> neg_width z < 4294967296) ->
  exists b2, compose_ssh_mpint z = Ok b2 /\ parse_ssh_mpint b2 0 = Ok (z, zlen b2).
Proof.
  intros Hp Hn. destruct (Z.lt_ge_cases z 0) as [Hneg|Hpos].
  - specialize (Hn Hneg). eexists. split; [apply compose_ssh_mpint_neg; assumption|].
    pose proof (parse_compose_ssh_mpint_neg z _ [] Hneg Hn (compose_ssh_mpint_neg z Hneg Hn)) as R.
    rewrite app_nil_r in R. exact R.
  - specialize (Hp Hpos). eexists. split; [apply compose_ssh_mpint_nonneg; assumption|].
    pose proof (parse_compose_ssh_mpint z _ [] Hpos Hp (compose_ssh_mpint_nonneg z Hpos Hp)) as R.
    rewrite app_nil_r in R. exact R.
Qed.

(* non-vacuity: a non-canonical mpint (00 00 7f, unnecessary leading zeros) is accepted and re-serialises to 7f *)
Example mpint_noncanonical_accepted :
  parse_ssh_mpint (map z2b [0; 0; 0; 3; 0; 0; 127]) 0 = Ok (127, 7) /\
  compose_ssh_mpint 127 = Ok (map z2b [0; 0; 0; 1; 127]).
Proof. split; vm_compute; reflexivity. Qed.

(* ---- property C02 for the two record layers: whatever the buffer, the record parsers end in a parsed record or one of the
   four documented errors, provided the message parser they hand the payload to does ---- *)
Section RecordNoLeak.
  Lemma ssl2_no_leak (msg : Z -> bytes -> result Z) types :
    (forall t m e, msg t m <> Err (Leak e)) -> forall buf e, ssl2_parse msg types buf <> Err (Leak e).
  Proof.
    intros Hm buf e. unfold ssl2_parse.
    assert (B : forall hdr rl pad rest, ssl2_body msg types hdr rl pad rest <> Err (Leak e)).
    { intros hdr rl pad rest. unfold ssl2_body. destruct (zlen rest <? rl); [discriminate|].
      destruct rest as [|t r]; [discriminate|]. destruct (negb (existsb (Z.eqb (b2z t)) types)); [discriminate|].
      cbv zeta. destruct (rl - pad - 1 <? 0); [discriminate|].
      destruct (msg (b2z t) (firstn (Z.to_nat (rl - pad - 1)) r)) as [c|e'] eqn:Em; cbn [bind].
      - destruct (negb (c =? rl - pad - 1)); discriminate.
      - intros H. injection H as He. subst e'. exact (Hm _ _ _ Em). }
    destruct buf as [|b0 [|b1 r2]]; try discriminate.
    destruct (128 <=? b2z b0); [apply B|]. destruct r2 as [|b2 r3]; [discriminate|apply B].
  Qed.

  Lemma ssh_no_leak (msg : bytes -> result unit) :
    (forall m e, msg m <> Err (Leak e)) -> forall buf e, ssh_parse msg buf <> Err (Leak e).
  Proof.
    intros Hm buf e. unfold ssh_parse.
    assert (B : forall pl rest, ssh_body msg pl rest <> Err (Leak e)).
    { intros pl rest. unfold ssh_body. destruct (zlen rest <? pl); [discriminate|].
      destruct rest as [|p r]; [discriminate|]. cbv zeta. destruct (pl - b2z p - 1 <? 0); [discriminate|].
      destruct (msg (firstn (Z.to_nat (pl - b2z p - 1)) r)) as [u|e'] eqn:Em; cbn [bind]; [discriminate|].
      intros H. injection H as He. subst e'. exact (Hm _ _ Em). }
    destruct buf as [|b0 [|b1 [|b2 [|b3 rest]]]]; try discriminate. apply B.
  Qed.

  (* the message parsers of the runner satisfy the premise *)
  Lemma ssl2_msg_no_leak codes t m e : ssl2_msg codes t m <> Err (Leak e).
  Proof.
    unfold ssl2_msg. destruct (t =? 0); [|discriminate]. destruct m as [|a [|b r]]; try discriminate.
    destruct (existsb (Z.eqb (b2z a * 256 + b2z b)) codes); discriminate.
  Qed.
  Lemma ssh_msg_init_no_leak codes m e : ssh_msg_init codes m <> Err (Leak e).
  Proof.
    unfold ssh_msg_init. destruct m as [|t r]; [discriminate|].
    destruct (negb (existsb (Z.eqb (b2z t)) codes)); [discriminate|].
    destruct (b2z t =? 3).
    - destruct (zlen r <? 4); [discriminate|]. destruct (4 <? zlen r); discriminate.
    - destruct ((b2z t =? 1) || (b2z t =? 20)); discriminate.
  Qed.
End RecordNoLeak.

Lemma record_message_parsers_no_leak codes :
  (forall t m e, ssl2_msg codes t m <> Err (Leak e)) /\ (forall m e, ssh_msg_init codes m <> Err (Leak e)).
Proof. exact (conj (ssl2_msg_no_leak codes) (ssh_msg_init_no_leak codes)). Qed.
