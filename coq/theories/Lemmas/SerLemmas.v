(* C14: set-valued fields are serialised in an order that does not depend on the iteration order of the set. *)
From Coq Require Import ZArith List Bool String Ascii Lia Permutation Sorting.Sorted.
From CP Require Import Ser.PyVal.
Import ListNotations.
Open Scope Z_scope.

(* lexicographic comparison of strings is a total order *)
Lemma str_leb_refl a : str_leb a a = true.
Proof. induction a as [|x r IH]; [reflexivity|]. cbn [str_leb]. rewrite Nat.ltb_irrefl. exact IH. Qed.

Lemma str_leb_total a b : str_leb a b = true \/ str_leb b a = true.
Proof.
  revert b. induction a as [|x r IH]; intros b; [left; destruct b; reflexivity|].
  destruct b as [|y s]; [right; reflexivity|]. cbn [str_leb].
  destruct (Nat.ltb_spec (nat_of_ascii x) (nat_of_ascii y)); [left; reflexivity|].
  destruct (Nat.ltb_spec (nat_of_ascii y) (nat_of_ascii x)); [right; reflexivity|].
  destruct (Nat.ltb_spec (nat_of_ascii x) (nat_of_ascii y)); [lia|]. apply IH.
Qed.

Lemma str_leb_antisym a b : str_leb a b = true -> str_leb b a = true -> a = b.
Proof.
  revert b. induction a as [|x r IH]; intros b H1 H2; destruct b as [|y s]; try reflexivity; try discriminate.
  cbn [str_leb] in *.
  destruct (Nat.ltb_spec (nat_of_ascii x) (nat_of_ascii y)); destruct (Nat.ltb_spec (nat_of_ascii y) (nat_of_ascii x)); try lia; try discriminate.
  assert (nat_of_ascii x = nat_of_ascii y) by lia.
  assert (x = y) by (rewrite <- (ascii_nat_embedding x), <- (ascii_nat_embedding y); congruence). subst. f_equal. apply IH; assumption.
Qed.

Lemma str_leb_trans a b c : str_leb a b = true -> str_leb b c = true -> str_leb a c = true.
Proof.
  revert b c. induction a as [|x r IH]; intros b c H1 H2; [reflexivity|].
  destruct b as [|y s]; [discriminate|]. destruct c as [|z t]; [cbn in H2; discriminate|]. cbn [str_leb] in *.
  destruct (Nat.ltb_spec (nat_of_ascii x) (nat_of_ascii y)); destruct (Nat.ltb_spec (nat_of_ascii y) (nat_of_ascii z));
    destruct (Nat.ltb_spec (nat_of_ascii x) (nat_of_ascii z)); try reflexivity; try lia;
    destruct (Nat.ltb_spec (nat_of_ascii y) (nat_of_ascii x)); try discriminate; try lia;
    destruct (Nat.ltb_spec (nat_of_ascii z) (nat_of_ascii y)); try discriminate; try lia;
    destruct (Nat.ltb_spec (nat_of_ascii z) (nat_of_ascii x)); try lia.
  eapply IH; eassumption.
Qed.

Section S.
  Context {A : Type}.
  Variable key : A -> string.
  Hypothesis key_inj_on : forall (l : list A) x y, In x l -> In y l -> key x = key y -> x = y -> True.
  Definition le (x y : A) : Prop := str_leb (key x) (key y) = true.

  Lemma insert_perm x l : Permutation (x :: l) (insert key x l).
  Proof.
    induction l as [|y r IH]; [reflexivity|]. cbn [insert]. destruct (str_leb (key x) (key y)); [reflexivity|].
    eapply perm_trans; [apply perm_swap|]. apply perm_skip. exact IH.
  Qed.
  Lemma isort_perm l : Permutation l (isort key l).
  Proof. induction l as [|x r IH]; [reflexivity|]. cbn [isort]. eapply perm_trans; [apply perm_skip; exact IH|apply insert_perm]. Qed.

  Lemma insert_sorted x l : StronglySorted le l -> StronglySorted le (insert key x l).
  Proof.
    induction l as [|y r IH]; intros S; [repeat constructor|]. cbn [insert]. inversion S as [|? ? Sr Hy]; subst.
    destruct (str_leb (key x) (key y)) eqn:E.
    - constructor; [exact S|]. constructor; [exact E|]. rewrite Forall_forall in *. intros z Hz. unfold le in *. eapply str_leb_trans; [exact E|apply Hy; exact Hz].
    - constructor; [apply IH; exact Sr|]. rewrite Forall_forall in *. intros z Hz.
      apply (Permutation_in z (Permutation_sym (insert_perm x r))) in Hz. destruct Hz as [<-|Hz]; [|apply Hy; exact Hz].
      unfold le. destruct (str_leb_total (key y) (key x)) as [T|T]; [exact T|congruence].
  Qed.
  Lemma isort_sorted l : StronglySorted le (isort key l).
  Proof. induction l as [|x r IH]; [constructor|]. cbn [isort]. apply insert_sorted. exact IH. Qed.

  (* two sorted lists with the same members and pairwise distinct keys are equal *)
  Lemma sorted_unique l1 l2 : NoDup (map key l1) -> StronglySorted le l1 -> StronglySorted le l2 -> Permutation l1 l2 ->
    (forall x y, In x l1 -> In y l1 -> key x = key y -> x = y) -> l1 = l2.
  Proof.
    revert l2. induction l1 as [|x r IH]; intros l2 ND S1 S2 P KI.
    - apply Permutation_nil in P. subst. reflexivity.
    - destruct l2 as [|y s]; [apply Permutation_sym, Permutation_nil in P; discriminate|].
      inversion S1 as [|? ? Sr Hx]; subst. inversion S2 as [|? ? Ss Hy]; subst. rewrite Forall_forall in Hx, Hy.
      assert (Exy : x = y).
      { assert (Iy : In y (x :: r)) by (apply (Permutation_in y (Permutation_sym P)); left; reflexivity).
        assert (Ix : In x (y :: s)) by (apply (Permutation_in x P); left; reflexivity).
        destruct Iy as [E|Iy]; [exact E|]. destruct Ix as [E|Ix]; [symmetry; exact E|].
        apply KI; [left; reflexivity|right; exact Iy|]. apply str_leb_antisym; [apply Hx; exact Iy|apply Hy; exact Ix]. }
      subst y. f_equal. apply IH; try assumption.
      + cbn in ND. inversion ND; assumption.
      + apply Permutation_cons_inv in P. exact P.
      + intros a b Ha Hb. apply KI; right; assumption.
  Qed.

  (* the order in which the members of a set arrive does not matter *)
  Theorem isort_permutation_invariant l l' : NoDup (map key l) -> (forall x y, In x l -> In y l -> key x = key y -> x = y) ->
    Permutation l l' -> isort key l = isort key l'.
  Proof.
    intros ND KI P. apply sorted_unique.
    - apply (Permutation_NoDup (Permutation_map key (isort_perm l))). exact ND.
    - apply isort_sorted.
    - apply isort_sorted.
    - eapply perm_trans; [apply Permutation_sym, isort_perm|]. eapply perm_trans; [exact P|apply isort_perm].
    - intros x y Hx Hy. apply KI; apply (Permutation_in _ (Permutation_sym (isort_perm l))); assumption.
  Qed.
End S.

(* C14: a set-valued field renders identically whatever the iteration order of the set *)
Theorem set_render_order_independent fuel l l' : NoDup (map sort_key l) ->
  (forall x y, In x l -> In y l -> sort_key x = sort_key y -> x = y) -> Permutation l l' ->
  traverse fuel (PSet l) = traverse fuel (PSet l').
Proof.
  intros ND KI P. destruct fuel as [|f]; [reflexivity|]. cbn [traverse]. rewrite (isort_permutation_invariant sort_key l l' ND KI P). reflexivity.
Qed.

(* the same for the keys of a plain dict (sorted by the library) *)
Theorem dict_render_order_independent fuel kvs kvs' : NoDup (map (fun kv => sort_key (fst kv)) kvs) ->
  (forall x y, In x kvs -> In y kvs -> sort_key (fst x) = sort_key (fst y) -> x = y) -> Permutation kvs kvs' ->
  traverse fuel (PDict false kvs) = traverse fuel (PDict false kvs').
Proof.
  intros ND KI P. destruct fuel as [|f]; [reflexivity|]. cbn [traverse].
  rewrite (isort_permutation_invariant (fun kv => sort_key (fst kv)) kvs kvs' ND KI P). reflexivity.
Qed.

(* the pinned tree listed set members in iteration order: two iteration orders of the same set rendered differently *)
Definition traverse_set_unsorted (fuel : nat) (l : list pyval) : json := JArr (map (traverse fuel) l).
Theorem pinned_set_order_refuted :
  traverse_set_unsorted 3 [PEnum "REVOKE" false (PInt 128); PEnum "DNS_ZONE_KEY" false (PInt 256)]
  <> traverse_set_unsorted 3 [PEnum "DNS_ZONE_KEY" false (PInt 256); PEnum "REVOKE" false (PInt 128)].
Proof. vm_compute. discriminate. Qed.
