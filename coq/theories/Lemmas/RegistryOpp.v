(* The code points of the live library (regenerated table) against the registry transcribed from the specifications.
   One file per property, so that a wrong constant of one protocol family breaks the proof of that family only. *)
From Coq Require Import ZArith List Bool String.
From CP Require Import Spec.Registry.
From CPGen Require Import Tables.
Import ListNotations.
Open Scope Z_scope.

Lemma opp_code_points : registry_agrees int_enum_members opp_registry = true /\ registry_covers int_enum_members opp_registry = true.
Proof. vm_compute. split; reflexivity. Qed.
