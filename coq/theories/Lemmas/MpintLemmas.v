(* Proofs about Prim/Mpint.v (properties C11 and C07): non-negative integers. *)
From Coq Require Import ZArith List Bool Lia.
From Coq.Strings Require Import Byte.
From CP Require Import Core.Bytes Core.Result Prim.Int Prim.Mpint Lemmas.IntLemmas Lemmas.SliceLemmas.
Import ListNotations.
Open Scope Z_scope.
Local Arguments Z.mul : simpl never.
Local Arguments Z.add : simpl never.
Local Arguments Z.sub : simpl never.
Local Arguments Z.pow : simpl never.
Local Arguments Z.div : simpl never.
Local Arguments Z.modulo : simpl never.

(* ---- generic facts about be_enc / be_val --------------------------------------------------------- *)
Lemma pow256_pos n : 0 < 256 ^ Z.of_nat n.
Proof. apply Z.pow_pos_nonneg; lia. Qed.

Lemma be_enc_app a b z : be_enc (a + b) z = be_enc a (z / 256 ^ Z.of_nat b) ++ be_enc b z.
Proof.
  induction a as [|a IH]; [reflexivity|].
  cbn [plus be_enc app]. rewrite IH. f_equal. f_equal.
  pose proof (pow256_pos a). pose proof (pow256_pos b).
  rewrite Z.div_div by lia. rewrite <- Z.pow_add_r by lia. f_equal. f_equal. lia.
Qed.

Lemma be_val_repeat0 n l : be_val (repeat x00 n ++ l) = be_val l.
Proof.
  induction n as [|n IH]; [reflexivity|]. cbn [repeat app]. rewrite be_val_cons. rewrite IH.
  change (b2z x00) with 0. lia.
Qed.

Lemma be_val_lstrip0 l : be_val (lstrip0 l) = be_val l.
Proof.
  induction l as [|b r IH]; [reflexivity|]. cbn [lstrip0]. unfold is_zero_byte.
  destruct (Z.eqb_spec (b2z b) 0) as [E|E]; [|reflexivity].
  rewrite IH. rewrite be_val_cons, E. lia.
Qed.

Lemma lstrip0_head l : match lstrip0 l with [] => True | b :: _ => b2z b <> 0 end.
Proof.
  induction l as [|b r IH]; [exact I|]. cbn [lstrip0]. unfold is_zero_byte.
  destruct (Z.eqb_spec (b2z b) 0); [exact IH|assumption].
Qed.

Lemma be_val_lower l b r : l = b :: r -> b2z b <> 0 -> 256 ^ zlen r <= be_val l.
Proof.
  intros -> Hb. rewrite be_val_cons. pose proof (b2z_range b). pose proof (be_val_range r).
  assert (0 < 256 ^ zlen r) by (apply Z.pow_pos_nonneg; [lia|apply zlen_nonneg]). nia.
Qed.

(* a list is determined by its length and its big-endian value *)
Lemma be_enc_of_val l n : length l = n -> be_enc n (be_val l) = l.
Proof. intros <-. apply be_enc_val. Qed.

(* ---- limbs --------------------------------------------------------------------------------------------- *)
Lemma limbs_S pv n : limbs pv (S n) = limbs pv n ++ [Z.land (Z.shiftr pv (32 * Z.of_nat n)) 4294967295].
Proof. unfold limbs. rewrite seq_S, map_app. reflexivity. Qed.

Lemma limb_value pv n : 0 <= pv ->
  Z.land (Z.shiftr pv (32 * Z.of_nat n)) 4294967295 = (pv / 256 ^ Z.of_nat (4 * n)) mod 256 ^ Z.of_nat 4.
Proof.
  intros H. change 4294967295 with (Z.ones 32). rewrite Z.land_ones by lia.
  rewrite Z.shiftr_div_pow2 by lia.
  change 256 with (2 ^ 8). rewrite <- !Z.pow_mul_r by lia.
  replace (8 * Z.of_nat (4 * n)) with (32 * Z.of_nat n) by lia. replace (8 * Z.of_nat 4) with 32 by lia. reflexivity.
Qed.

Lemma compose_limbs pv n : 0 <= pv ->
  compose_numeric_array Network 4 (rev (limbs pv n)) = Ok (be_enc (4 * n) pv).
Proof.
  intros Hpv. induction n as [|n IH]; [reflexivity|].
  rewrite limbs_S, rev_app_distr. cbn [rev app compose_numeric_array].
  rewrite limb_value by assumption.
  set (x := (pv / 256 ^ Z.of_nat (4 * n)) mod 256 ^ Z.of_nat 4).
  assert (Hx : 0 <= x < 256 ^ 4) by (apply Z.mod_pos_bound; apply (pow256_pos 4)).
  rewrite (compose_numeric_ok Network 4 x ltac:(cbn; auto 6) Hx). cbn [bind]. rewrite IH. cbn [bind].
  f_equal. replace (4 * S n)%nat with (4 + 4 * n)%nat by lia. rewrite be_enc_app. f_equal.
  unfold enc. cbn [is_big]. change (Z.to_nat 4) with 4%nat. apply be_enc_mod_eq.
  unfold x. rewrite Z.mod_mod; [reflexivity|]. pose proof (pow256_pos 4). lia.
Qed.

Lemma positive_image_nonneg z : 0 <= z -> positive_image z = z.
Proof. intros H. unfold positive_image. destruct (Z.ltb_spec z 0); [lia|reflexivity]. Qed.

Lemma compose_mpint_raw_nonneg z nl : 0 <= z -> 0 <= nl ->
  compose_mpint_raw z nl = Ok (lstrip0 (be_enc (4 * Z.to_nat nl) z)).
Proof.
  intros Hz Hn. unfold compose_mpint_raw. rewrite positive_image_nonneg by assumption.
  rewrite compose_limbs by assumption. reflexivity.
Qed.

(* ---- bit_length --------------------------------------------------------------------------------------- *)
Lemma bit_length_bound z : 0 <= z -> z < 2 ^ bit_length z.
Proof.
  intros H. unfold bit_length. destruct (Z.eqb_spec z 0) as [->|N]; [cbn; lia|].
  rewrite Z.abs_eq by lia. apply Z.log2_spec. lia.
Qed.

Lemma bit_length_nonneg z : 0 <= bit_length z.
Proof. unfold bit_length. destruct (z =? 0); [lia|]. pose proof (Z.log2_nonneg (Z.abs z)). lia. Qed.

Lemma fits_limbs z nl : 0 <= z -> bit_length z <= 32 * nl -> z < 256 ^ Z.of_nat (4 * Z.to_nat nl).
Proof.
  intros Hz Hb. pose proof (bit_length_bound z Hz). pose proof (bit_length_nonneg z).
  change 256 with (2 ^ 8). rewrite <- Z.pow_mul_r by lia.
  eapply Z.lt_le_trans; [eassumption|]. apply Z.pow_le_mono_r; lia.
Qed.

Lemma lstrip0_length l : (length (lstrip0 l) <= length l)%nat.
Proof. induction l as [|b r IH]; [cbn; lia|]. cbn [lstrip0]. destruct (is_zero_byte b); cbn [length]; lia. Qed.

(* the stripped encoding is the minimal big-endian representation *)
Lemma minimal_be z n : 0 <= z < 256 ^ Z.of_nat n ->
  let m := lstrip0 (be_enc n z) in
  be_val m = z /\ match m with [] => True | b :: _ => b2z b <> 0 end /\ (length m <= n)%nat.
Proof.
  intros Hz m. split; [|split].
  - unfold m. rewrite be_val_lstrip0. apply be_enc_small_roundtrip. exact Hz.
  - apply lstrip0_head.
  - unfold m. pose proof (lstrip0_length (be_enc n z)) as L. rewrite be_enc_length in L. exact L.
Qed.

Lemma minimal_len_iff z n k : 0 <= z < 256 ^ Z.of_nat n -> 0 <= k ->
  (zlen (lstrip0 (be_enc n z)) <= k <-> z < 256 ^ k).
Proof.
  intros Hz Hk. destruct (minimal_be z n Hz) as [Hv [Hh Hl]]. set (m := lstrip0 (be_enc n z)) in *.
  split.
  - intros Hlen. pose proof (be_val_range m) as R. rewrite Hv in R.
    eapply Z.lt_le_trans; [apply R|]. apply Z.pow_le_mono_r; lia.
  - intros Hlt. destruct m as [|b r] eqn:E; [unfold zlen; cbn; lia|].
    pose proof (be_val_lower (b :: r) b r eq_refl Hh) as L. rewrite Hv in L.
    rewrite zlen_cons. destruct (Z.le_gt_cases (1 + zlen r) k); [assumption|].
    exfalso. assert (256 ^ k <= 256 ^ zlen r) by (apply Z.pow_le_mono_r; lia). lia.
Qed.

(* ---- compose_mpint: exact fixed-width big-endian, never truncating ------------------------------- *)
Lemma nl_covers z len : 0 <= z -> 0 <= len -> bit_length z <= 32 * Z.max len (bit_length z / 32 + 1).
Proof.
  intros Hz Hl. pose proof (bit_length_nonneg z).
  pose proof (Z.div_mod (bit_length z) 32 ltac:(lia)). pose proof (Z.mod_pos_bound (bit_length z) 32 ltac:(lia)). lia.
Qed.

Lemma compose_mpint_nonneg z len : 0 <= z -> 0 <= len ->
  compose_mpint z len = if z <? 256 ^ len then Ok (be_enc (Z.to_nat len) z) else Err InvalidValue.
Proof.
  intros Hz Hl. unfold compose_mpint.
  set (nl := Z.max len (bit_length z / 32 + 1)).
  assert (Hnl : 0 <= nl) by (unfold nl; lia).
  rewrite compose_mpint_raw_nonneg by assumption. cbn [bind].
  assert (Hfit : 0 <= z < 256 ^ Z.of_nat (4 * Z.to_nat nl)) by (split; [assumption|apply fits_limbs; [assumption|apply nl_covers; assumption]]).
  pose proof (minimal_len_iff z _ len Hfit Hl) as Iff.
  destruct (minimal_be z _ Hfit) as [Hv [Hh _]].
  set (m := lstrip0 (be_enc (4 * Z.to_nat nl) z)) in *.
  destruct (Z.ltb_spec z 0); [lia|].
  destruct (Z.ltb_spec len (zlen m)) as [Hlt|Hge].
  - destruct (Z.ltb_spec z (256 ^ len)); [exfalso; apply Iff in H0; lia|reflexivity].
  - destruct (Z.ltb_spec z (256 ^ len)) as [Hin|Hout]; [|exfalso; apply Iff in Hge; lia].
    f_equal. rewrite <- Hv. rewrite <- (be_val_repeat0 (Z.to_nat (len - zlen m)) m).
    symmetry. apply be_enc_of_val. rewrite app_length, repeat_length. unfold zlen in *. lia.
Qed.

(* ---- reading limbs back -------------------------------------------------------------------------------- *)
Lemma fold_limbs buf pos k acc : 0 <= pos -> pos + 4 * Z.of_nat k <= zlen buf ->
  fold_left (fun a p => Z.shiftl a 32 + p) (parse_items Network 4 buf pos k) acc
  = acc * 256 ^ (4 * Z.of_nat k) + be_val (slice buf pos (pos + 4 * Z.of_nat k)).
Proof.
  revert pos acc. induction k as [|k IH]; intros pos acc Hp Hl.
  - cbn [parse_items fold_left]. replace (pos + 4 * Z.of_nat 0) with pos by lia.
    unfold slice. rewrite Z.sub_diag. cbn [Z.to_nat firstn]. unfold be_val; cbn [be_val_acc].
    change (4 * Z.of_nat 0) with 0. rewrite Z.pow_0_r. lia.
  - cbn [parse_items fold_left]. rewrite IH by lia.
    rewrite Z.shiftl_mul_pow2 by lia. unfold unpack. cbn [is_big].
    assert (S1 : slice buf pos (pos + 4 * Z.of_nat (S k)) = slice buf pos (pos + 4) ++ slice buf (pos + 4) (pos + 4 + 4 * Z.of_nat k)).
    { replace (pos + 4 * Z.of_nat (S k)) with (pos + 4 + 4 * Z.of_nat k) by lia. apply slice_split; lia. }
    rewrite S1. rewrite be_val_app.
    assert (L2 : zlen (slice buf (pos + 4) (pos + 4 + 4 * Z.of_nat k)) = 4 * Z.of_nat k).
    { rewrite slice_length by lia. lia. }
    rewrite L2. replace (4 * Z.of_nat (S k)) with (4 + 4 * Z.of_nat k) by lia.
    rewrite Z.pow_add_r by lia. change (2 ^ 32) with (256 ^ 4). ring.
Qed.


(* _parse_mpint on a non-negative number: pads to a multiple of four and reads the big-endian value *)
Lemma parse_mpint_raw_nonneg buf pos len off : 0 <= len -> 0 <= pos -> 0 <= off -> pos + off + len <= zlen buf ->
  parse_mpint_raw buf pos len off false = Ok (be_val (slice buf (pos + off) (pos + off + len))).
Proof.
  intros Hlen Hpos Hoff Hfit. unfold parse_mpint_raw.
  set (padn := if len mod 4 =? 0 then 0 else 4 - len mod 4).
  pose proof (Z.mod_pos_bound len 4 ltac:(lia)) as Hm. pose proof (Z.div_mod len 4 ltac:(lia)) as Hd.
  assert (Hpad : 0 <= padn < 4 /\ (len + padn) mod 4 = 0).
  { unfold padn. destruct (Z.eqb_spec (len mod 4) 0) as [E|E].
    - rewrite Z.add_0_r. lia.
    - split; [lia|]. replace (len + (4 - len mod 4)) with (4 * (len / 4 + 1)) by lia.
      rewrite Z.mul_comm. apply Z.mod_mul. lia. }
  destruct Hpad as [Hp0 Hp4].
  set (rest := skipn (Z.to_nat (pos + off)) buf).
  set (padded := repeat x00 (Z.to_nat padn) ++ rest).
  assert (Lrest : zlen rest = zlen buf - (pos + off)).
  { unfold rest, zlen in *. rewrite skipn_length. lia. }
  assert (Lpad : zlen padded = padn + zlen rest).
  { unfold padded. rewrite zlen_app. unfold zlen at 1. rewrite repeat_length. lia. }
  set (k := (len + padn) / 4).
  assert (Hk : 4 * k = len + padn).
  { unfold k. pose proof (Z.div_mod (len + padn) 4 ltac:(lia)). lia. }
  assert (Hk0 : 0 <= k) by lia.
  unfold parse_numeric_array.
  destruct (Z.gtb_spec (0 + k * 4) (zlen padded)); [lia|].
  cbn [fmt_size Z.eqb Pos.eqb bind].
  pose proof (fold_limbs padded 0 (Z.to_nat k) 0 ltac:(lia)) as F.
  rewrite Z2Nat.id in F by lia. rewrite F by lia. clear F.
  f_equal. rewrite Z.mul_0_l, Z.add_0_l, Z.add_0_l. rewrite slice_0. rewrite Hk.
  unfold padded. rewrite firstn_app. rewrite repeat_length.
  rewrite firstn_all2 by (rewrite repeat_length; lia).
  rewrite be_val_repeat0. f_equal.
  unfold slice, rest. f_equal. lia.
Qed.

(* fixed-length mpint: parse (compose z) = z for every 0 <= z < 256^len, with any suffix *)
Lemma parse_compose_mpint z len b s : 0 <= z < 256 ^ len -> 0 <= len ->
  compose_mpint z len = Ok b -> parse_mpint (b ++ s) 0 len = Ok (z, len) /\ zlen b = len.
Proof.
  intros Hz Hlen Hc. rewrite compose_mpint_nonneg in Hc by lia.
  destruct (Z.ltb_spec z (256 ^ len)); [|lia]. inversion Hc; subst b; clear Hc.
  assert (L : zlen (be_enc (Z.to_nat len) z) = len) by (unfold zlen; rewrite be_enc_length; lia).
  split; [|exact L].
  unfold parse_mpint. rewrite parse_mpint_raw_nonneg; try lia.
  - cbn [bind]. f_equal. f_equal. rewrite Z.add_0_l. rewrite slice_0. rewrite Z.add_0_l.
    rewrite <- (be_enc_length (Z.to_nat len) z) at 1. rewrite firstn_app_exact.
    apply be_enc_small_roundtrip. rewrite Z2Nat.id by lia. lia.
  - rewrite zlen_app, L. pose proof (zlen_nonneg s). lia.
Qed.

Lemma In4 : In 4 widths.
Proof. cbn; auto 6. Qed.

(* ---- SSH mpint (RFC 4251 section 5) for non-negative integers -------------------------------------------- *)
(* two's complement reading of a byte string *)
Definition tc_val (l : bytes) : Z :=
  match l with
  | [] => 0
  | b :: _ => if 128 <=? b2z b then be_val l - 256 ^ zlen l else be_val l
  end.

(* "Unnecessary leading bytes with the value 0 or 255 MUST NOT be included"; zero is the empty string *)
Definition canonical (l : bytes) : Prop :=
  match l with
  | [] => True
  | [b] => b2z b <> 0
  | b :: c :: _ => ~ (b2z b = 0 /\ b2z c < 128) /\ ~ (b2z b = 255 /\ 128 <= b2z c)
  end.

Definition ssh_nl (z : Z) : Z := bit_length z / 32 + (if bit_length z mod 32 =? 0 then 0 else 1).

Definition ssh_payload (z : Z) : bytes :=
  let m := lstrip0 (be_enc (4 * Z.to_nat (ssh_nl z)) z) in
  match m with
  | b :: _ => if 128 <=? b2z b then x00 :: m else m
  | [] => []
  end.

Lemma ssh_nl_covers z : 0 <= ssh_nl z /\ bit_length z <= 32 * ssh_nl z.
Proof.
  unfold ssh_nl. pose proof (bit_length_nonneg z).
  pose proof (Z.div_mod (bit_length z) 32 ltac:(lia)). pose proof (Z.mod_pos_bound (bit_length z) 32 ltac:(lia)).
  destruct (Z.eqb_spec (bit_length z mod 32) 0); lia.
Qed.

Lemma ssh_payload_props z : 0 <= z ->
  tc_val (ssh_payload z) = z /\ canonical (ssh_payload z) /\ be_val (ssh_payload z) = z /\
  match ssh_payload z with [] => True | b :: _ => b2z b < 128 end.
Proof.
  intros Hz. destruct (ssh_nl_covers z) as [Hn Hc].
  assert (Hfit : 0 <= z < 256 ^ Z.of_nat (4 * Z.to_nat (ssh_nl z))) by (split; [assumption|apply fits_limbs; assumption]).
  destruct (minimal_be z _ Hfit) as [Hv [Hh _]]. unfold ssh_payload.
  set (m := lstrip0 (be_enc (4 * Z.to_nat (ssh_nl z)) z)) in *.
  destruct m as [|b r] eqn:E.
  - cbn. unfold be_val in Hv. cbn in Hv. repeat split; auto.
  - destruct (Z.leb_spec 128 (b2z b)) as [Hhi|Hlo].
    + (* sign byte added *)
      assert (V : be_val (x00 :: b :: r) = z).
      { rewrite be_val_cons. change (b2z x00) with 0. lia. }
      unfold tc_val. change (b2z x00) with 0. destruct (Z.leb_spec 128 0); [lia|].
      split; [exact V|]. split; [|split; [exact V|lia]].
      cbn [canonical]. change (b2z x00) with 0. split; intros [? ?]; lia.
    + pose proof (b2z_range b).
      unfold tc_val. destruct (Z.leb_spec 128 (b2z b)); [lia|].
      split; [exact Hv|]. split; [|split; [exact Hv|lia]].
      cbn [canonical]. destruct r as [|c r']; [assumption|]. split; intros [? ?]; lia.
Qed.

Lemma compose_ssh_mpint_nonneg z : 0 <= z -> zlen (ssh_payload z) < 4294967296 ->
  compose_ssh_mpint z = Ok (be_enc 4 (zlen (ssh_payload z)) ++ ssh_payload z).
Proof.
  intros Hz Hlen. destruct (ssh_nl_covers z) as [Hn _].
  unfold compose_ssh_mpint, compose_ssh_mpint_with, ssh_bits. destruct (Z.ltb_spec z 0) as [Hneg|_]; [lia|]. fold (ssh_nl z).
  rewrite compose_mpint_raw_nonneg by assumption. cbn [bind].
  unfold ssh_payload in *. set (m := lstrip0 (be_enc (4 * Z.to_nat (ssh_nl z)) z)) in *.
  destruct (Z.ltb_spec z 0); [lia|].
  destruct m as [|b r] eqn:E.
  - cbn [app zlen length]. change (zlen (@nil byte) + zlen (@nil byte)) with 0.
    rewrite (compose_numeric_ok Network 4 0 In4) by (change (256 ^ 4) with 4294967296; lia). reflexivity.
  - destruct (Z.leb_spec 128 (b2z b)); cbn [Bool.eqb].
    + rewrite <- zlen_app. cbn [app] in *.
      rewrite (compose_numeric_ok Network 4 _ In4) by (pose proof (zlen_nonneg (x00 :: b :: r)); change (256 ^ 4) with 4294967296; lia).
      reflexivity.
    + change (zlen (@nil byte) + zlen (b :: r)) with (zlen (b :: r)). cbn [app].
      rewrite (compose_numeric_ok Network 4 _ In4) by (pose proof (zlen_nonneg (b :: r)); change (256 ^ 4) with 4294967296; lia).
      reflexivity.
Qed.

(* parse (compose z) = z with the exact consumed length, whatever follows *)
Lemma parse_compose_ssh_mpint z b s : 0 <= z -> zlen (ssh_payload z) < 4294967296 ->
  compose_ssh_mpint z = Ok b -> parse_ssh_mpint (b ++ s) 0 = Ok (z, zlen b).
Proof.
  intros Hz Hlen Hc. rewrite compose_ssh_mpint_nonneg in Hc by assumption.
  assert (Eb : b = be_enc 4 (zlen (ssh_payload z)) ++ ssh_payload z) by congruence. subst b. clear Hc.
  destruct (ssh_payload_props z Hz) as [_ [_ [Hv Hhd]]].
  set (pl := ssh_payload z) in *. set (L := zlen pl) in *.
  assert (HL : 0 <= L) by apply zlen_nonneg.
  assert (L4 : zlen (be_enc 4 L) = 4) by (unfold zlen; rewrite be_enc_length; reflexivity).
  unfold parse_ssh_mpint. rewrite <- ?app_assoc. rewrite !zlen_app, L4. fold L. pose proof (zlen_nonneg s).
  destruct (Z.ltb_spec (4 + (L + zlen s) - 0) 4); [lia|].
  assert (PN : parse_numeric Network 4 (be_enc 4 L ++ pl ++ s) 0 = Ok (L, 4)).
  { apply (parse_compose_numeric Network 4 L (be_enc 4 L) [] (pl ++ s)); [exact In4|change (256 ^ 4) with 4294967296; lia|].
    rewrite (compose_numeric_ok Network 4 _ In4) by (change (256 ^ 4) with 4294967296; lia). reflexivity. }
  rewrite PN. cbn [bind].
  destruct (Z.gtb_spec L (4 + (L + zlen s) - 0 - 4)); [lia|].
  assert (NEG : (if L =? 0 then Ok false
                 else match nth_error (be_enc 4 L ++ pl ++ s) (Z.to_nat (0 + 4)) with
                      | Some b => Ok (128 <=? b2z b) | None => Err (Leak IndexError) end) = Ok false).
  { destruct (Z.eqb_spec L 0); [reflexivity|].
    change (Z.to_nat (0 + 4)) with (length (be_enc 4 L)). rewrite nth_error_app2 by lia. rewrite Nat.sub_diag.
    destruct pl as [|h t]; [unfold L, zlen in n; cbn in n; lia|]. cbn [app nth_error].
    destruct (Z.leb_spec 128 (b2z h)); [lia|reflexivity]. }
  rewrite NEG. cbn [bind].
  rewrite parse_mpint_raw_nonneg; try lia.
  - cbn [bind]. f_equal. f_equal.
    rewrite <- Hv. f_equal.
    replace (0 + 4) with (zlen (be_enc 4 L)) by (rewrite L4; reflexivity).
    apply slice_app_exact.
  - rewrite !zlen_app, L4. fold L. lia.
Qed.

(* the pinned tree's compose_mpint truncated silently *)
Lemma compose_mpint_orig_truncates : compose_mpint_orig 4294967296 1 = Ok [x00].
Proof. vm_compute. reflexivity. Qed.

(* negative SSH mpints: the limb count is taken from bit_length of the negative number, one limb short for
   z = -(2^(32k) - 1): the composed bytes do not parse back to z *)
Lemma ssh_mpint_negative_refuted :
  exists z b, compose_ssh_mpint_orig z = Ok b /\ parse_ssh_mpint b 0 <> Ok (z, zlen b).
Proof.
  exists (-4294967295). eexists. split; [vm_compute; reflexivity|]. vm_compute. discriminate.
Qed.
