(* C15: the implementation's JA3 against the published definition. *)
From Coq Require Import ZArith List Bool String Lia.
From CP Require Import Core.Bytes Core.Show Spec.PL Spec.TlsSpec Spec.Ja3 Tls.Ja3Model.
From CPGen Require Import Tables.
Import ListNotations.
Open Scope Z_scope.

(* the library's GREASE table is exactly RFC 8701's set, on the whole two-byte code space (finite sweep, 65536 codes) *)
Definition grease_table_ok : bool :=
  forallb (fun hi => forallb (fun lo => let c := 256 * Z.of_nat hi + Z.of_nat lo in
                                         Bool.eqb (is_grease c) (memzb c grease_two_byte)) (seq 0 256)) (seq 0 256).
Lemma grease_table_ok_true : grease_table_ok = true.
Proof. vm_compute. reflexivity. Qed.

Lemma grease_agrees c : 0 <= c < 65536 -> memzb c grease_two_byte = is_grease c.
Proof.
  intros H. pose proof grease_table_ok_true as T. unfold grease_table_ok in T. rewrite forallb_forall in T.
  pose proof (Z.div_mod c 256 ltac:(lia)) as D. pose proof (Z.mod_pos_bound c 256 ltac:(lia)) as M.
  assert (Hq : 0 <= c / 256 < 256) by (split; [apply Z.div_pos; lia|apply Z.div_lt_upper_bound; lia]).
  specialize (T (Z.to_nat (c / 256))). rewrite forallb_forall in T by (apply in_seq; lia).
  specialize (T ltac:(apply in_seq; lia) (Z.to_nat (c mod 256)) ltac:(apply in_seq; lia)).
  cbv zeta in T. rewrite !Z2Nat.id in T by lia. rewrite <- D in T. symmetry. apply eqb_prop. exact T.
Qed.

Lemma filter_ext_eq {A} (f g : A -> bool) l : (forall x, In x l -> f x = g x) -> filter f l = filter g l.
Proof.
  induction l as [|x l IH]; intros H; [reflexivity|]. cbn [filter]. rewrite (H x (or_introl eq_refl)).
  rewrite IH by (intros y Hy; apply H; right; exact Hy). reflexivity.
Qed.

Lemma filter_true {A} (f : A -> bool) l : (forall x, In x l -> f x = true) -> filter f l = l.
Proof. induction l as [|x l IH]; intros H; [reflexivity|]. cbn [filter]. rewrite (H x (or_introl eq_refl)). f_equal. apply IH. intros y Hy. apply H. right. exact Hy. Qed.

Definition in16 (l : list Z) : Prop := Forall (fun c => 0 <= c < 65536) l.

(* hypotheses under which the method agrees with the published algorithm *)
Record ja3_comparable (h : client_hello) : Prop := {
  no_grease_suite : forall c, In c (ch_suites h) -> is_grease c = false;
  no_scsv_suite : forall c, In c (ch_suites h) -> is_scsv c = false;
  types16 : in16 (map fst (ch_extensions h));
  single_groups : last_payload 10 (ch_extensions h) = first_payload 10 (ch_extensions h);
  single_formats : last_payload 11 (ch_extensions h) = first_payload 11 (ch_extensions h);
  groups16 : forall p l, first_payload 10 (ch_extensions h) = Some p -> dec_supported_groups p = Some l -> in16 l;
  formats_plain : forall p l, first_payload 11 (ch_extensions h) = Some p -> dec_point_formats p = Some l ->
                  forall c, In c l -> memzb c grease_one_byte = false
}.

Lemma ja3_partial h : ja3_comparable h -> ja3_impl h = ja3_struct h.
Proof.
  intros [NG NS T16 SG SF G16 FP]. unfold ja3_impl, ja3_struct. rewrite SG, SF.
  f_equal. f_equal. f_equal.
  { f_equal. rewrite (filter_true _ (ch_suites h)) by (intros c Hc; rewrite (NS c Hc); reflexivity).
    rewrite (filter_true _ (ch_suites h)) by (intros c Hc; rewrite (NG c Hc); reflexivity). reflexivity. }
  f_equal.
  { f_equal. apply filter_ext_eq. intros c Hc. unfold in16 in T16. rewrite Forall_forall in T16. rewrite grease_agrees by (apply T16; exact Hc). reflexivity. }
  f_equal.
  { f_equal. destruct (first_payload 10 (ch_extensions h)) as [p|] eqn:E; [|reflexivity].
    destruct (dec_supported_groups p) as [l|] eqn:D; [|reflexivity].
    apply filter_ext_eq. intros c Hc. pose proof (G16 p l eq_refl D) as R. unfold in16 in R. rewrite Forall_forall in R.
    rewrite grease_agrees by (apply R; exact Hc). reflexivity. }
  f_equal. f_equal. destruct (first_payload 11 (ch_extensions h)) as [p|] eqn:E; [|reflexivity].
  destruct (dec_point_formats p) as [l|] eqn:D; [|reflexivity].
  apply filter_true. intros c Hc. rewrite (FP p l eq_refl D c Hc). reflexivity.
Qed.

(* stability: composing and parsing again moves the signalling suites to the end, which the method never looks at *)
Lemma filter_app_nil {A} (f : A -> bool) a b : filter f b = [] -> filter f (a ++ b) = filter f a.
Proof. intros H. rewrite filter_app, H, app_nil_r. reflexivity. Qed.

Lemma filter_filter_same {A} (f : A -> bool) l : filter f (filter f l) = filter f l.
Proof. induction l as [|x l IH]; [reflexivity|]. cbn [filter]. destruct (f x) eqn:E; cbn [filter]; [rewrite E, IH|]; auto. Qed.

Lemma ja3_stable h : ja3_impl (recompose h) = ja3_impl h.
Proof.
  unfold ja3_impl, recompose. cbn [ch_version ch_suites ch_extensions]. f_equal. f_equal. f_equal.
  unfold recompose_suites. rewrite filter_app_nil.
  - rewrite filter_filter_same. reflexivity.
  - destruct (memzb FALLBACK_SCSV (ch_suites h)); destruct (memzb EMPTY_RENEGOTIATION_INFO_SCSV (ch_suites h)); reflexivity.
Qed.

(* the full statement is false of the method: a GREASE cipher suite is kept, a signalling suite is dropped *)
Definition hello_with_suites (l : list Z) : client_hello :=
  {| ch_version := 771; ch_random := repeat Byte.x00 32; ch_session_id := []; ch_suites := l; ch_compressions := [0]; ch_extensions := [] |}.
Lemma ja3_grease_suite_refuted : ja3_impl (hello_with_suites [2570; 49199]) <> ja3_struct (hello_with_suites [2570; 49199]).
Proof. vm_compute. discriminate. Qed.
Lemma ja3_scsv_refuted : ja3_impl (hello_with_suites [49199; 255]) <> ja3_struct (hello_with_suites [49199; 255]).
Proof. vm_compute. discriminate. Qed.
