From Coq Require Import ZArith List Bool Lia.
From CP Require Import Core.Bytes Spec.PL Spec.TlsSpec Spec.SshSpec Ssh.Record Lemmas.PLLemmas Lemmas.SliceLemmas Lemmas.TlsSpecLemmas.
Import ListNotations.
Open Scope Z_scope.

(* the padding rule, for every payload length (not only 0..35000) *)
Lemma padding_rule L : 0 <= L -> packet_well_formed L (padding_length L) (packet_length L) /\ 4 <= padding_length L <= 11.
Proof.
  intros H. unfold packet_well_formed, packet_length, padding_length.
  pose proof (Z.mod_pos_bound (L + 5) 8 ltac:(lia)) as M. pose proof (Z.div_mod (L + 5) 8 ltac:(lia)) as D.
  destruct (Z.ltb_spec (8 - (L + 5) mod 8) 4).
  - repeat split; try lia. replace (4 + (L + (8 - (L + 5) mod 8 + 8) + 1)) with (8 * ((L + 5) / 8 + 2)) by lia.
    rewrite Z.mul_comm. apply Z.mod_mul. lia.
  - repeat split; try lia. replace (4 + (L + (8 - (L + 5) mod 8) + 1)) with (8 * ((L + 5) / 8 + 1)) by lia.
    rewrite Z.mul_comm. apply Z.mod_mul. lia.
Qed.

(* splitting a name-list at commas and joining it again gives back the very same bytes: the HASSH text the model builds
   from the parsed lists is the concatenation of the raw name-list strings of the wire *)
Lemma join_split_acc b cur : join [comma] (split_acc comma b cur) = rev cur ++ b.
Proof.
  revert cur. induction b as [|x r IH]; intros cur.
  - cbn. rewrite app_nil_r. reflexivity.
  - cbn [split_acc]. destruct (Z.eqb_spec (b2z x) (b2z comma)) as [E|E].
    + apply b2z_inj in E. subst x. specialize (IH []). cbn [rev app] in IH.
      destruct (split_acc comma r []) as [|y ys] eqn:S.
      * destruct r; cbn in S; [discriminate|]. destruct (b2z b =? b2z comma); discriminate.
      * change (join [comma] (rev cur :: y :: ys)) with (rev cur ++ [comma] ++ join [comma] (y :: ys)). rewrite IH. reflexivity.
    + rewrite IH. cbn [rev]. rewrite <- app_assoc. reflexivity.
Qed.

Lemma join_split b : join [comma] (split comma b) = b.
Proof. destruct b as [|x r]; [reflexivity|]. unfold split. rewrite join_split_acc. reflexivity. Qed.

Lemma joinb_join sep l : joinb sep l = join sep l.
Proof. induction l as [|x [|y r] IH]; [reflexivity|reflexivity|]. cbn [joinb join] in *. rewrite IH. reflexivity. Qed.

(* C16: for any four name-list strings read from the wire, what the model of _hassh hashes is exactly
   kex ";" enc ";" mac ";" comp as they appear on the wire *)
Lemma hassh_preimage (k e m c : bytes) :
  hassh_model (split comma k) (split comma e) (split comma m) (split comma c) = k ++ [semicolon] ++ e ++ [semicolon] ++ m ++ [semicolon] ++ c.
Proof. unfold hassh_model. rewrite !joinb_join, !join_split. reflexivity. Qed.

(* the specification's strings decode back *)
Lemma dec_enc_string b s : zlen b < 4294967296 -> dec_string (enc_string b ++ s) = Some (b, s).
Proof.
  intros H. unfold dec_string, enc_string. rewrite <- app_assoc. pose proof (zlen_nonneg b).
  rewrite dec_enc_uint by (change (256 ^ Z.of_nat 4) with 4294967296; lia). cbn [obind]. rewrite zlen_app. pose proof (zlen_nonneg s).
  destruct (Z.ltb_spec (zlen b + zlen s) (zlen b)); [lia|]. replace (Z.to_nat (zlen b)) with (length b) by (unfold zlen; lia).
  rewrite firstn_app_exact, skipn_app_exact. reflexivity.
Qed.

(* ---- the model's SSH mpint is the specification's mpint, for every non-negative integer ------------------- *)
From CP Require Import Core.Result Prim.Int Prim.Mpint Lemmas.IntLemmas Lemmas.MpintLemmas.

Definition no_leading_zero (l : bytes) : Prop := match l with [] => True | b :: _ => b2z b <> 0 end.

Lemma minimal_length_unique (l1 l2 : bytes) : no_leading_zero l1 -> no_leading_zero l2 -> be_val l1 = be_val l2 -> length l1 = length l2.
Proof.
  intros N1 N2 E.
  assert (G : forall (a b : bytes), no_leading_zero a -> be_val a = be_val b -> (length a <= length b)%nat).
  { intros a b Na Eab. destruct a as [|x r]; [cbn; lia|].
    pose proof (be_val_lower (x :: r) x r eq_refl Na) as Lo. pose proof (be_val_range b) as Hi. rewrite Eab in Lo.
    destruct (Nat.le_gt_cases (length (x :: r)) (length b)) as [|Gt]; [assumption|exfalso].
    assert (256 ^ zlen b <= 256 ^ zlen r) by (apply Z.pow_le_mono_r; [lia|unfold zlen; cbn [length] in Gt; lia]). lia. }
  apply Nat.le_antisymm; [apply G; assumption|apply G; [assumption|symmetry; assumption]].
Qed.

Lemma minimal_unique (l1 l2 : bytes) : no_leading_zero l1 -> no_leading_zero l2 -> be_val l1 = be_val l2 -> l1 = l2.
Proof.
  intros N1 N2 E. pose proof (minimal_length_unique l1 l2 N1 N2 E) as L.
  rewrite <- (be_enc_val l1), <- (be_enc_val l2), L, E. reflexivity.
Qed.

Lemma log2_bytes z : 0 < z -> 256 ^ (Z.log2 z / 8) <= z < 256 ^ (Z.log2 z / 8 + 1).
Proof.
  intros H. pose proof (Z.log2_spec z H) as [Lo Hi]. pose proof (Z.log2_nonneg z).
  pose proof (Z.div_mod (Z.log2 z) 8 ltac:(lia)) as D. pose proof (Z.mod_pos_bound (Z.log2 z) 8 ltac:(lia)) as M.
  change 256 with (2 ^ 8). rewrite <- !Z.pow_mul_r by lia. split.
  - eapply Z.le_trans; [|exact Lo]. apply Z.pow_le_mono_r; lia.
  - eapply Z.lt_le_trans; [exact Hi|]. apply Z.pow_le_mono_r; lia.
Qed.

Lemma be_enc_head_nonzero n z : 256 ^ Z.of_nat n <= z < 256 ^ Z.of_nat (S n) -> no_leading_zero (be_enc (S n) z).
Proof.
  intros [Lo Hi]. cbn [be_enc no_leading_zero]. rewrite b2z_z2b.
  assert (P : 0 < 256 ^ Z.of_nat n) by (apply Z.pow_pos_nonneg; lia).
  rewrite Nat2Z.inj_succ, Z.pow_succ_r in Hi by lia.
  assert (1 <= z / 256 ^ Z.of_nat n < 256).
  { split; [apply Z.div_le_lower_bound; lia|apply Z.div_lt_upper_bound; lia]. }
  rewrite Z.mod_small by lia. lia.
Qed.

Lemma ssh_payload_is_spec z : 0 <= z -> ssh_payload z = mpint_payload z.
Proof.
  intros Hz. destruct (ssh_nl_covers z) as [Hn Hc].
  assert (Hfit : 0 <= z < 256 ^ Z.of_nat (4 * Z.to_nat (ssh_nl z))) by (split; [assumption|apply fits_limbs; assumption]).
  destruct (minimal_be z _ Hfit) as [Hv [Hh _]]. unfold ssh_payload, mpint_payload.
  set (m := lstrip0 (be_enc (4 * Z.to_nat (ssh_nl z)) z)) in *.
  destruct (Z.eqb_spec z 0) as [->|NZ].
  - destruct m as [|b r]; [reflexivity|]. exfalso. pose proof (be_val_lower (b :: r) b r eq_refl Hh) as Lo. rewrite Hv in Lo.
    assert (0 < 256 ^ zlen r) by (apply Z.pow_pos_nonneg; [lia|apply zlen_nonneg]). lia.
  - assert (Hp : 0 < z) by lia. pose proof (log2_bytes z Hp) as [Lo Hi]. pose proof (Z.log2_nonneg z).
    assert (Hq : 0 <= Z.log2 z / 8) by (apply Z.div_pos; lia).
    set (k := Z.to_nat (Z.log2 z / 8)).
    replace (Z.to_nat (Z.log2 z / 8 + 1)) with (S k) by (unfold k; lia).
    assert (E : m = be_enc (S k) z).
    { apply minimal_unique.
      - exact Hh.
      - apply be_enc_head_nonzero. unfold k. rewrite Nat2Z.inj_succ, Z2Nat.id by lia. split; [exact Lo|]. replace (Z.succ (Z.log2 z / 8)) with (Z.log2 z / 8 + 1) by lia. exact Hi.
      - rewrite Hv. symmetry. apply be_enc_small_roundtrip. unfold k. rewrite Nat2Z.inj_succ, Z2Nat.id by lia.
        replace (Z.succ (Z.log2 z / 8)) with (Z.log2 z / 8 + 1) by lia. lia. }
    rewrite E. reflexivity.
Qed.

(* compose_ssh_mpint(z) emits exactly the RFC 4251 mpint of z *)
Lemma compose_ssh_mpint_is_spec z : 0 <= z -> zlen (mpint_payload z) < 4294967296 -> compose_ssh_mpint z = Ok (enc_mpint z).
Proof.
  intros Hz Hl. rewrite <- (ssh_payload_is_spec z Hz) in Hl. rewrite compose_ssh_mpint_nonneg by assumption.
  unfold enc_mpint, enc_string, enc_uint. rewrite (ssh_payload_is_spec z Hz). reflexivity.
Qed.

(* identification string: the specification accepts exactly the strings of at most 255 characters, CR LF included,
   and what it emits is SSH-proto-software[ SP comments] CR LF *)
Lemma banner_length_rule proto software comment :
  let b := banner_prefix ++ proto ++ [b_dash] ++ software ++ match comment with Some c => b_sp :: c | None => [] end ++ [b_cr; b_lf] in
  (zlen b <= 255 -> enc_banner proto software comment = Some b) /\ (255 < zlen b -> enc_banner proto software comment = None).
Proof.
  cbv zeta. unfold enc_banner, banner_max. cbv zeta.
  split; intros H; match goal with |- (if ?c then _ else _) = _ => destruct c eqn:E end; try reflexivity.
  - apply Z.leb_gt in E. exfalso. apply (Z.lt_irrefl 255). eapply Z.lt_le_trans; [exact E|exact H].
  - apply Z.leb_le in E. exfalso. apply (Z.lt_irrefl 255). eapply Z.lt_le_trans; [exact H|exact E].
Qed.

Lemma banner_length_formula proto software comment :
  zlen (banner_prefix ++ proto ++ [b_dash] ++ software ++ match comment with Some c => b_sp :: c | None => [] end ++ [b_cr; b_lf])
  = 4 + zlen proto + 1 + zlen software + match comment with Some c => 1 + zlen c | None => 0 end + 2.
Proof.
  rewrite !zlen_app. destruct comment as [c|]; rewrite ?zlen_cons, ?zlen_nil; change (zlen banner_prefix) with 4; lia.
Qed.

(* ECDSA host keys (RFC 5656 3.1 / SEC 1 2.3.3): the point always has 1 + 2 * size octets, whatever the coordinates, and
   both coordinates are recovered from their fixed positions *)
From CP Require Import Lemmas.UnitLemmas.
Lemma ec_point_fixed_width size x y :
  0 <= x < 256 ^ Z.of_nat size -> 0 <= y < 256 ^ Z.of_nat size ->
  zlen (enc_ec_point size x y) = 1 + 2 * Z.of_nat size /\
  (exists r, enc_ec_point size x y = z2b 4 :: r /\ be_val (firstn size r) = x /\ be_val (skipn size r) = y).
Proof.
  intros Hx Hy. unfold enc_ec_point. split.
  - rewrite zlen_cons, zlen_app. unfold zlen. rewrite !be_enc_length. lia.
  - eexists. split; [reflexivity|].
    assert (E1 : firstn size (be_enc size x ++ be_enc size y) = be_enc size x).
    { rewrite <- (be_enc_length size x) at 1. apply firstn_app_exact. }
    assert (E2 : skipn size (be_enc size x ++ be_enc size y) = be_enc size y).
    { rewrite <- (be_enc_length size x) at 1. apply skipn_app_exact. }
    rewrite E1, E2, !be_val_be_enc by assumption. split; reflexivity.
Qed.

Lemma ecdsa_blob_decodes ident size x y s :
  zlen ident < 4294967000 -> Z.of_nat size < 1000000 ->
  exists r1 r2,
    dec_string (enc_ecdsa_blob ident size x y ++ s) = Some (name_ecdsa_prefix ++ ident, r1) /\
    dec_string r1 = Some (ident, r2) /\
    dec_string r2 = Some (enc_ec_point size x y, s).
Proof.
  intros Hi Hs. unfold enc_ecdsa_blob. rewrite <- !app_assoc.
  assert (Lp : zlen name_ecdsa_prefix = 11) by reflexivity.
  assert (Lq : zlen (enc_ec_point size x y) = 1 + 2 * Z.of_nat size).
  { unfold enc_ec_point. rewrite zlen_cons, zlen_app. unfold zlen. rewrite !be_enc_length. lia. }
  pose proof (zlen_nonneg ident).
  eexists. eexists. split; [|split].
  - apply dec_enc_string. rewrite zlen_app. lia.
  - apply dec_enc_string. lia.
  - apply dec_enc_string. lia.
Qed.

(* the identification string is self-delimiting: what the decoder returns depends only on the bytes up to and including the
   first LF, the reported length n is their number (1 <= n <= 255), and the same bytes followed by anything else decode alike *)
Lemma until_byte_split x l a b : until_byte x l = Some (a, b) -> exists c, l = a ++ c :: b /\ b2z c = b2z x.
Proof.
  revert a b. induction l as [|c r IH]; intros a b H; [discriminate|]. cbn [until_byte] in H.
  destruct (Z.eqb_spec (b2z c) (b2z x)) as [E|_].
  - injection H as <- <-. exists c. split; [reflexivity|exact E].
  - destruct (until_byte x r) as [[a' b']|] eqn:Er; [|discriminate]. injection H as <- <-.
    destruct (IH a' b' eq_refl) as [c' [-> Ec]]. exists c'. split; [reflexivity|exact Ec].
Qed.

Lemma until_byte_app x l a b s : until_byte x l = Some (a, b) -> until_byte x (l ++ s) = Some (a, b ++ s).
Proof.
  revert a b. induction l as [|c r IH]; intros a b H; [discriminate|]. cbn [until_byte app] in *.
  destruct (b2z c =? b2z x).
  - injection H as <- <-. reflexivity.
  - destruct (until_byte x r) as [[a' b']|] eqn:Er; [|discriminate]. injection H as <- <-. rewrite (IH a' b' eq_refl). reflexivity.
Qed.

Lemma until_byte_first x a c s : b2z c = b2z x -> until_byte x a = None -> until_byte x (a ++ c :: s) = Some (a, s).
Proof.
  intros Ec. induction a as [|d r IH]; intros H.
  - cbn [app until_byte]. rewrite Ec, Z.eqb_refl. reflexivity.
  - cbn [app until_byte] in *. destruct (b2z d =? b2z x); [discriminate|].
    destruct (until_byte x r) as [[a' b']|]; [discriminate|]. rewrite (IH eq_refl). reflexivity.
Qed.

Lemma until_byte_none_prefix x l a b : until_byte x l = Some (a, b) -> until_byte x a = None.
Proof.
  revert a b. induction l as [|c r IH]; intros a b H; [discriminate|]. cbn [until_byte] in H.
  destruct (b2z c =? b2z x) eqn:E.
  - injection H as <- <-. reflexivity.
  - destruct (until_byte x r) as [[a' b']|] eqn:Er; [|discriminate]. injection H as <- <-.
    cbn [until_byte]. rewrite E, (IH a' b' eq_refl). reflexivity.
Qed.

Lemma banner_self_delimiting l p sw c n : dec_banner l = Some (p, sw, c, n) ->
  1 <= n <= 255 /\ n <= zlen l /\ forall s, dec_banner (firstn (Z.to_nat n) l ++ s) = Some (p, sw, c, n).
Proof.
  unfold dec_banner. destruct (until_byte b_lf l) as [[line rest]|] eqn:El; cbn [obind]; [|discriminate].
  destruct (until_byte_split _ _ _ _ El) as [lf [-> Elf]]. pose proof (zlen_nonneg line) as Ln.
  unfold banner_max. destruct (Z.ltb_spec 255 (zlen line + 1)) as [|Hn]; [discriminate|].
  intros H.
  assert (En : n = zlen line + 1).
  { destruct (negb _); [discriminate|]. destruct (until_byte b_dash _) as [[pr rs]|]; cbn [obind] in H; [|discriminate].
    destruct (until_byte b_sp rs) as [[s1 s2]|]; injection H; intros; subst; reflexivity. }
  split; [lia|]. split.
  - rewrite zlen_app, zlen_cons. pose proof (zlen_nonneg rest). lia.
  - intros s. subst n.
    assert (Ef : firstn (Z.to_nat (zlen line + 1)) (line ++ lf :: rest) = line ++ [lf]).
    { replace (Z.to_nat (zlen line + 1)) with (length (line ++ [lf])) by (rewrite app_length; unfold zlen; cbn [length]; lia).
      replace (line ++ lf :: rest) with ((line ++ [lf]) ++ rest) by (rewrite <- app_assoc; reflexivity).
      apply firstn_app_exact. }
    rewrite Ef, <- app_assoc. cbn [app].
    rewrite (until_byte_first b_lf line lf s Elf (until_byte_none_prefix _ _ _ _ El)). cbn [obind].
    destruct (Z.ltb_spec 255 (zlen line + 1)) as [|_]; [lia|]. exact H.
Qed.
