(* SSH mpints of negative integers: what compose_ssh_mpint writes is the two's complement of the number in
   bit_length/8 + 1 bytes, and parse_ssh_mpint reads it back with the exact consumed length, whatever follows. *)
From Coq Require Import ZArith List Bool Lia.
From Coq.Strings Require Import Byte.
From CP Require Import Core.Bytes Core.Result Prim.Int Prim.Mpint Lemmas.SliceLemmas Lemmas.IntLemmas Lemmas.MpintLemmas.
Import ListNotations.
Open Scope Z_scope.
Local Arguments Z.mul : simpl never.
Local Arguments Z.add : simpl never.
Local Arguments Z.sub : simpl never.
Local Arguments Z.pow : simpl never.

(* width in bytes of the image of a negative number *)
Definition neg_width (z : Z) : Z := bit_length z / 8 + 1.

Lemma be_val_repeat_ff n l : be_val (repeat xff n ++ l) = (256 ^ Z.of_nat n - 1) * 256 ^ zlen l + be_val l.
Proof.
  induction n as [|n IH].
  - cbn [repeat app]. change (256 ^ Z.of_nat 0) with 1. lia.
  - cbn [repeat app]. rewrite be_val_cons, IH. change (b2z xff) with 255.
    rewrite zlen_app. unfold zlen at 1. rewrite repeat_length.
    rewrite Nat2Z.inj_succ, Z.pow_succ_r by lia. pose proof (zlen_nonneg l).
    rewrite Z.pow_add_r by lia. ring.
Qed.

Lemma be_enc_zero n : be_enc n 0 = repeat x00 n.
Proof.
  induction n as [|n IH]; [reflexivity|]. cbn [be_enc repeat]. rewrite IH. f_equal.
Qed.

Lemma lstrip0_repeat0 n l : lstrip0 (repeat x00 n ++ l) = lstrip0 l.
Proof. induction n as [|n IH]; [reflexivity|]. cbn [repeat app lstrip0]. exact IH. Qed.

(* a number whose top byte (of W bytes) is not zero keeps exactly its W bytes when leading zeros are stripped *)
Lemma lstrip0_be_enc_exact n W v : (1 <= W <= n)%nat -> 256 ^ Z.of_nat (W - 1) <= v < 256 ^ Z.of_nat W ->
  lstrip0 (be_enc n v) = be_enc W v.
Proof.
  intros Hw [Lo Hi]. replace n with ((n - W) + W)%nat by lia. rewrite be_enc_app.
  assert (P: 0 < 256 ^ Z.of_nat (W - 1)) by (apply Z.pow_pos_nonneg; lia).
  rewrite Z.div_small by lia. rewrite be_enc_zero, lstrip0_repeat0.
  destruct W as [|w]; [lia|]. cbn [be_enc lstrip0]. unfold is_zero_byte. rewrite b2z_z2b.
  replace (S w - 1)%nat with w in * by lia.
  assert (Hq: 1 <= v / 256 ^ Z.of_nat w < 256).
  { split; [apply Z.div_le_lower_bound; lia|]. apply Z.div_lt_upper_bound; [lia|].
    rewrite Nat2Z.inj_succ, Z.pow_succ_r in Hi by lia. lia. }
  rewrite Z.mod_small by lia. destruct (Z.eqb_spec (v / 256 ^ Z.of_nat w) 0); [lia|]. reflexivity.
Qed.

(* bounds of the image: 256^W / 2 <= 256^W + z < 256^W *)
Lemma neg_image_bounds z : z < 0 ->
  let W := neg_width z in 1 <= W /\ 256 ^ W / 2 <= 256 ^ W + z < 256 ^ W /\ 256 ^ W / 2 = 128 * 256 ^ (W - 1).
Proof.
  intros Hz W. unfold W, neg_width, bit_length. destruct (Z.eqb_spec z 0); [lia|].
  set (a := Z.abs z). assert (Ha: 0 < a) by (unfold a; lia).
  pose proof (Z.log2_spec a Ha) as [Lo Hi]. pose proof (Z.log2_nonneg a) as Ln.
  remember (Z.log2 a + 1) as L eqn:EL. remember (L / 8) as k eqn:Ek.
  pose proof (Z.div_mod L 8 ltac:(lia)) as D. pose proof (Z.mod_pos_bound L 8 ltac:(lia)) as M. rewrite <- Ek in D.
  assert (Hk: 0 <= k) by (subst k; apply Z.div_pos; lia).
  assert (E: 256 ^ (k + 1) = 2 ^ (8 * k + 8)).
  { change 256 with (2 ^ 8). rewrite <- Z.pow_mul_r by lia. f_equal. lia. }
  assert (E2: 256 ^ (k + 1) / 2 = 2 ^ (8 * k + 7)).
  { rewrite E. replace (8 * k + 8) with (1 + (8 * k + 7)) by lia. rewrite Z.pow_add_r by lia. change (2 ^ 1) with 2.
    rewrite Z.mul_comm, Z.div_mul by lia. reflexivity. }
  assert (Hup: a < 2 ^ (8 * k + 7) \/ a = 2 ^ (8 * k + 7) \/ True) by tauto.
  assert (Hle: a <= 2 ^ (8 * k + 7)).
  { replace (Z.succ (Z.log2 a)) with L in Hi by lia.
    assert (L <= 8 * k + 7) by lia. assert (2 ^ L <= 2 ^ (8 * k + 7)) by (apply Z.pow_le_mono_r; lia). lia. }
  assert (E3: 2 ^ (8 * k + 8) = 2 * 2 ^ (8 * k + 7)).
  { replace (8 * k + 8) with (1 + (8 * k + 7)) by lia. rewrite Z.pow_add_r by lia. reflexivity. }
  assert (E4: 2 ^ (8 * k + 7) = 128 * 256 ^ k).
  { change 256 with (2 ^ 8). rewrite <- Z.pow_mul_r by lia. replace (8 * k + 7) with (7 + 8 * k) by lia.
    rewrite Z.pow_add_r by lia. reflexivity. }
  assert (Hz': z = - a) by (unfold a; lia).
  assert (P: 0 < 2 ^ (8 * k + 7)) by (apply Z.pow_pos_nonneg; lia).
  split; [lia|]. rewrite E2, E, E3. split; [lia|]. replace (k + 1 - 1) with k by lia. exact E4.
Qed.

Lemma be_enc_head_high W v : (1 <= W)%nat -> 128 * 256 ^ Z.of_nat (W - 1) <= v < 256 ^ Z.of_nat W ->
  exists b r, be_enc W v = b :: r /\ 128 <= b2z b.
Proof.
  intros Hw [Lo Hi]. destruct W as [|w]; [lia|]. replace (S w - 1)%nat with w in Lo by lia.
  cbn [be_enc]. eexists. eexists. split; [reflexivity|]. rewrite b2z_z2b.
  assert (P: 0 < 256 ^ Z.of_nat w) by (apply Z.pow_pos_nonneg; lia).
  assert (Hq: 128 <= v / 256 ^ Z.of_nat w < 256).
  { split; [apply Z.div_le_lower_bound; lia|]. apply Z.div_lt_upper_bound; [lia|].
    rewrite Nat2Z.inj_succ, Z.pow_succ_r in Hi by lia. lia. }
  rewrite Z.mod_small by lia. lia.
Qed.

Lemma ssh_bits_neg z : z < 0 -> ssh_bits z = 8 * neg_width z.
Proof. intros H. unfold ssh_bits, neg_width. destruct (Z.ltb_spec z 0); [|lia]. lia. Qed.

Lemma positive_image_neg z : z < 0 -> positive_image z = 256 ^ neg_width z + z.
Proof.
  intros H. unfold positive_image, neg_width. destruct (Z.ltb_spec z 0); [|lia].
  pose proof (bit_length_nonneg z) as B. assert (0 <= bit_length z / 8) by (apply Z.div_pos; lia).
  rewrite Z.shiftl_mul_pow2 by lia. change 256 with (2 ^ 8). rewrite <- Z.pow_mul_r by lia.
  f_equal. rewrite Z.mul_1_l. f_equal. lia.
Qed.

(* compose: uint32 width, then the two's complement image in exactly that many bytes *)
Lemma compose_ssh_mpint_neg z : z < 0 -> neg_width z < 4294967296 ->
  compose_ssh_mpint z = Ok (be_enc 4 (neg_width z) ++ be_enc (Z.to_nat (neg_width z)) (256 ^ neg_width z + z)).
Proof.
  intros Hz Hw. destruct (neg_image_bounds z Hz) as [W1 [[Lo Hi] Eh]]. set (W := neg_width z) in *.
  set (pv := 256 ^ W + z) in *.
  unfold compose_ssh_mpint, compose_ssh_mpint_with. rewrite (ssh_bits_neg z Hz). fold W.
  destruct (Z.ltb_spec z 0) as [_|Hx]; [|lia].
  set (nl := 8 * W / 32 + (if 8 * W mod 32 =? 0 then 0 else 1)).
  assert (Hnl: 0 <= nl /\ W <= 4 * nl).
  { unfold nl. pose proof (Z.div_mod (8 * W) 32 ltac:(lia)) as D. pose proof (Z.mod_pos_bound (8 * W) 32 ltac:(lia)) as M.
    assert (0 <= 8 * W / 32) by (apply Z.div_pos; lia).
    destruct (Z.eqb_spec (8 * W mod 32) 0); lia. }
  destruct Hnl as [Hn0 Hn4].
  unfold compose_mpint_raw. rewrite (positive_image_neg z Hz). fold W. fold pv.
  assert (Hpv: 0 <= pv) by (pose proof (Z.pow_pos_nonneg 256 (W - 1) ltac:(lia) ltac:(lia)); lia).
  rewrite compose_limbs by exact Hpv. cbn [bind].
  assert (EW: Z.of_nat (Z.to_nat W) = W) by lia.
  assert (EW1: Z.of_nat (Z.to_nat W - 1) = W - 1) by lia.
  assert (Hstrip: lstrip0 (be_enc (4 * Z.to_nat nl) pv) = be_enc (Z.to_nat W) pv).
  { apply lstrip0_be_enc_exact; [lia|]. rewrite EW, EW1.
    pose proof (Z.pow_pos_nonneg 256 (W - 1) ltac:(lia) ltac:(lia)). lia. }
  rewrite Hstrip.
  destruct (be_enc_head_high (Z.to_nat W) pv ltac:(lia)) as [b [r [Eb Hb]]]; [rewrite EW, EW1; lia|].
  rewrite Eb. destruct (Z.leb_spec 128 (b2z b)) as [_|Hx]; [|lia]. cbn [Bool.eqb].
  assert (Lm: zlen (b :: r) = W) by (rewrite <- Eb; unfold zlen; rewrite be_enc_length; lia).
  change (zlen (@nil byte)) with 0. rewrite Lm.
  rewrite (compose_numeric_ok Network 4 (0 + W) In4) by (change (256 ^ 4) with 4294967296; lia). cbn [bind app].
  reflexivity.
Qed.

(* _parse_mpint on a negative number: pads with 0xff to a multiple of four, reads the value and subtracts 2^(8 * width) *)
Lemma parse_mpint_raw_neg buf pos len off : 0 <= len -> 0 <= pos -> 0 <= off -> pos + off + len <= zlen buf ->
  parse_mpint_raw buf pos len off true = Ok (be_val (slice buf (pos + off) (pos + off + len)) - 256 ^ len).
Proof.
  intros Hlen Hpos Hoff Hfit. unfold parse_mpint_raw.
  set (padn := if len mod 4 =? 0 then 0 else 4 - len mod 4).
  pose proof (Z.mod_pos_bound len 4 ltac:(lia)) as Hm. pose proof (Z.div_mod len 4 ltac:(lia)) as Hd.
  assert (Hpad : 0 <= padn < 4 /\ (len + padn) mod 4 = 0).
  { unfold padn. destruct (Z.eqb_spec (len mod 4) 0) as [E|E].
    - rewrite Z.add_0_r. lia.
    - split; [lia|]. replace (len + (4 - len mod 4)) with (4 * (len / 4 + 1)) by lia.
      rewrite Z.mul_comm. apply Z.mod_mul. lia. }
  destruct Hpad as [Hp0 Hp4].
  set (rest := skipn (Z.to_nat (pos + off)) buf).
  set (padded := repeat xff (Z.to_nat padn) ++ rest).
  assert (Lrest : zlen rest = zlen buf - (pos + off)).
  { unfold rest, zlen in *. rewrite skipn_length. lia. }
  assert (Lpad : zlen padded = padn + zlen rest).
  { unfold padded. rewrite zlen_app. unfold zlen at 1. rewrite repeat_length. lia. }
  set (k := (len + padn) / 4).
  assert (Hk : 4 * k = len + padn).
  { unfold k. pose proof (Z.div_mod (len + padn) 4 ltac:(lia)). lia. }
  assert (Hk0 : 0 <= k) by lia.
  unfold parse_numeric_array.
  destruct (Z.gtb_spec (0 + k * 4) (zlen padded)); [lia|].
  cbn [fmt_size Z.eqb Pos.eqb bind].
  pose proof (fold_limbs padded 0 (Z.to_nat k) 0 ltac:(lia)) as F.
  rewrite Z2Nat.id in F by lia. rewrite F by lia. clear F.
  f_equal. rewrite Z.mul_0_l, Z.add_0_l, Z.add_0_l. rewrite slice_0. rewrite Hk.
  unfold padded. rewrite firstn_app. rewrite repeat_length.
  rewrite firstn_all2 by (rewrite repeat_length; lia).
  rewrite be_val_repeat_ff.
  replace (Z.to_nat (len + padn) - Z.to_nat padn)%nat with (Z.to_nat len) by lia.
  assert (Es: firstn (Z.to_nat len) rest = slice buf (pos + off) (pos + off + len)).
  { unfold slice, rest. f_equal. lia. }
  rewrite Es.
  assert (Ls: zlen (slice buf (pos + off) (pos + off + len)) = len) by (rewrite slice_length by lia; lia).
  rewrite Ls. rewrite Z2Nat.id by lia.
  rewrite Z.shiftl_mul_pow2 by lia. rewrite Z.mul_1_l.
  replace (2 ^ (8 * (len + padn))) with (256 ^ padn * 256 ^ len).
  - ring.
  - change 256 with (2 ^ 8). rewrite <- !Z.pow_mul_r by lia. rewrite <- Z.pow_add_r by lia. f_equal. lia.
Qed.

(* parse (compose z) = z for every negative z, with the exact consumed length, whatever follows *)
Lemma parse_compose_ssh_mpint_neg z b s : z < 0 -> neg_width z < 4294967296 ->
  compose_ssh_mpint z = Ok b -> parse_ssh_mpint (b ++ s) 0 = Ok (z, zlen b).
Proof.
  intros Hz Hw Hc. rewrite (compose_ssh_mpint_neg z Hz Hw) in Hc. apply Ok_inj in Hc. subst b.
  destruct (neg_image_bounds z Hz) as [W1 [[Lo Hi] Eh]]. set (W := neg_width z) in *. set (pv := 256 ^ W + z) in *.
  set (m := be_enc (Z.to_nat W) pv).
  assert (Lm : zlen m = W) by (unfold m, zlen; rewrite be_enc_length; lia).
  assert (L4 : zlen (be_enc 4 W) = 4) by (unfold zlen; rewrite be_enc_length; reflexivity).
  assert (EW: Z.of_nat (Z.to_nat W) = W) by lia.
  assert (EW1: Z.of_nat (Z.to_nat W - 1) = W - 1) by lia.
  destruct (be_enc_head_high (Z.to_nat W) pv ltac:(lia)) as [hb [r [Eb Hb]]]; [rewrite EW, EW1; lia|]. fold m in Eb.
  unfold parse_ssh_mpint. rewrite <- ?app_assoc. rewrite !zlen_app, L4, Lm. pose proof (zlen_nonneg s) as Ls.
  destruct (Z.ltb_spec (4 + (W + zlen s) - 0) 4) as [Hx|_]; [lia|].
  assert (PN : parse_numeric Network 4 (be_enc 4 W ++ m ++ s) 0 = Ok (W, 4)).
  { apply (parse_compose_numeric Network 4 W (be_enc 4 W) [] (m ++ s)); [exact In4|change (256 ^ 4) with 4294967296; lia|].
    rewrite (compose_numeric_ok Network 4 _ In4) by (change (256 ^ 4) with 4294967296; lia). reflexivity. }
  rewrite PN. cbn [bind].
  destruct (Z.gtb_spec W (4 + (W + zlen s) - 0 - 4)) as [Hx|_]; [lia|].
  assert (NEG : (if W =? 0 then Ok false
                 else match nth_error (be_enc 4 W ++ m ++ s) (Z.to_nat (0 + 4)) with
                      | Some b => Ok (128 <=? b2z b) | None => Err (Leak IndexError) end) = Ok true).
  { destruct (Z.eqb_spec W 0); [lia|].
    change (Z.to_nat (0 + 4)) with (length (be_enc 4 W)). rewrite nth_error_app2 by lia. rewrite Nat.sub_diag.
    rewrite Eb. cbn [app nth_error]. destruct (Z.leb_spec 128 (b2z hb)); [reflexivity|lia]. }
  rewrite NEG. cbn [bind].
  rewrite parse_mpint_raw_neg; try lia.
  - cbn [bind]. f_equal. f_equal.
    replace (0 + 4) with (zlen (be_enc 4 W)) by (rewrite L4; reflexivity).
    replace (zlen (be_enc 4 W) + W) with (zlen (be_enc 4 W) + zlen m) by (rewrite Lm; reflexivity).
    rewrite slice_app_exact.
    unfold m. rewrite be_enc_small_roundtrip by (rewrite EW; pose proof (Z.pow_pos_nonneg 256 (W - 1) ltac:(lia) ltac:(lia)); lia).
    unfold pv. lia.
  - rewrite !zlen_app, L4, Lm. lia.
Qed.
