(* Strict-Transport-Security end to end: every spelling of a value parses to (max-age, includeSubDomains, preload). *)
From Coq Require Import ZArith List Bool Lia Permutation.
From Coq.Strings Require Import Byte.
From Coq.Strings Require String.
From CP Require Import Core.Bytes Core.Result Text.Field Spec.FieldSpec Lemmas.FieldLemmas Lemmas.FvmLemmas Lemmas.SliceLemmas.
Import ListNotations.
Open Scope Z_scope.

Definition all_digits (ds : bytes) : bool := forallb is_digit ds.

Lemma span_digits_all ds : all_digits ds = true -> span_digits ds = (ds, []).
Proof.
  induction ds as [|c r IH]; cbn [all_digits forallb span_digits]; [reflexivity|].
  intros H. apply andb_true_iff in H. destruct H as [Hc Hr]. rewrite Hc. fold (all_digits r) in Hr. rewrite (IH Hr). reflexivity.
Qed.

Lemma lower_length l : length (lower l) = length l.
Proof. unfold lower. apply map_length. Qed.

Lemma digit_not_eqs c : is_digit c = true -> Byte.eqb c EQS = false.
Proof.
  intros H. apply byte_eqb_neq. intros ->. vm_compute in H. discriminate.
Qed.

(* the value class of max-age on what _parse_basic_params hands over *)
Lemma parse_timedelta_canonical canon ds :
  ds <> [] -> all_digits ds = true -> dec_val ds <= timedelta_max_seconds ->
  parse_timedelta_component canon (canon ++ EQS :: ds) = Ok (dec_val ds).
Proof.
  intros Hne Hd Hmax. unfold parse_timedelta_component.
  assert (L: (length (canon ++ EQS :: ds) <? length canon)%nat = false).
  { apply Nat.ltb_ge. rewrite app_length. lia. }
  rewrite L. rewrite firstn_app_exact. rewrite bytes_eqb_refl. cbn [negb].
  rewrite skipn_app_exact. rewrite byte_eqb_refl. cbn [negb].
  destruct ds as [|c r]; [contradiction|].
  assert (Hc: is_digit c = true) by (cbn [all_digits forallb] in Hd; apply andb_true_iff in Hd; tauto).
  cbn [skip_sep]. rewrite byte_eqb_refl. cbn [skip_sep]. rewrite (digit_not_eqs c Hc).
  rewrite (span_digits_all (c :: r) Hd).
  destruct (Z.ltb_spec timedelta_max_seconds (dec_val (c :: r))) as [Hx|_]; [lia|]. reflexivity.
Qed.

(* the flag class on the name as it was spelled *)
Lemma parse_option_matched canon k : lower k = lower canon -> parse_option_component canon k = Ok true.
Proof.
  intros E. unfold parse_option_component.
  assert (Hl: length k = length canon) by (rewrite <- (lower_length k), <- (lower_length canon), E; reflexivity).
  assert (L: (length k <? length canon)%nat = false) by (apply Nat.ltb_ge; lia).
  rewrite L. rewrite <- Hl. rewrite firstn_all. rewrite E, bytes_eqb_refl. cbn [negb]. rewrite skipn_all. reflexivity.
Qed.

(* what the record says about a flag: absent, or present without a value *)
Definition flag_state (canon : bytes) (d : list comp) (b : bool) : Prop :=
  match lookup_ci canon d with
  | None => b = false
  | Some (_, None) => b = true
  | Some (_, Some _) => False
  end.

Lemma sts_canons_distinct :
  lower sts_canon_max_age <> lower sts_canon_include /\ lower sts_canon_max_age <> lower sts_canon_preload
  /\ lower sts_canon_include <> lower sts_canon_preload.
Proof. repeat split; intros H; vm_compute in H; discriminate. Qed.

Lemma semi_not_ws : is_ws SEMI = false.
Proof. reflexivity. Qed.

Lemma one_attr_flag canon d b :
  NoDup (lnames d) -> flag_state canon d b ->
  exists i, one_attr {| fa_canon := canon; fa_mode := Insens; fa_required := false |} d
            = Ok (i, filter (fun kv => negb (matches canon kv)) d)
            /\ match i with Some raw => parse_option_component canon raw | None => Ok false end = Ok b.
Proof.
  intros Hn Hf. rewrite (one_attr_spec {| fa_canon := canon; fa_mode := Insens; fa_required := false |} d eq_refl Hn). cbn [fa_canon fa_required]. unfold flag_state in Hf.
  destruct (lookup_ci canon d) as [[k v]|] eqn:E.
  - destruct v as [v|]; [contradiction|]. subst b. eexists. split; [reflexivity|].
    unfold raw_of. cbn [snd fst]. apply parse_option_matched.
    apply lookup_ci_matches in E. cbn [fst] in E. apply (matches_lower canon (k, None)) in E. exact E.
  - subst b. exists None. split; reflexivity.
Qed.

Lemma flag_state_filter_other ca cb d b : lower ca <> lower cb ->
  flag_state cb d b -> flag_state cb (filter (fun kv => negb (matches ca kv)) d) b.
Proof. intros Hne. unfold flag_state, lookup_ci. rewrite (find_comp_filter_other ca cb d Hne). exact (fun H => H). Qed.

(* end to end: any spelling (blanks, empty elements, letter case of names, order, quoting already removed by nvp, unknown
   directives) of a record whose directives are distinct parses to the value it spells *)
Lemma sts_end_to_end segs k ds inc pre :
  forallb (seg_ok SEMI) segs = true ->
  let d := map nvp (seg_items segs) in
  NoDup (lnames d) ->
  lookup_ci sts_canon_max_age d = Some (k, Some ds) -> ds <> [] -> all_digits ds = true -> dec_val ds <= timedelta_max_seconds ->
  flag_state sts_canon_include d inc -> flag_state sts_canon_preload d pre ->
  sts_parse (spell SEMI segs) = Ok (dec_val ds, inc, pre).
Proof.
  intros Hok d Hn Hm Hne Hd Hmax Hi Hp. destruct sts_canons_distinct as [D1 [D2 D3]].
  unfold sts_parse, nvlist. rewrite (tokens_spell SEMI segs semi_not_ws Hok). cbn [bind].
  rewrite od_of_list_nodup by (apply lnames_nodup_keys; exact Hn). fold d.
  rewrite (one_attr_spec {| fa_canon := sts_canon_max_age; fa_mode := Insens; fa_required := true |} d eq_refl Hn). cbn [fa_canon fa_required]. rewrite Hm. cbn [bind].
  unfold raw_of. cbn [snd fst]. rewrite (parse_timedelta_canonical sts_canon_max_age ds Hne Hd Hmax). cbn [bind].
  set (d1 := filter (fun kv => negb (matches sts_canon_max_age kv)) d).
  assert (Hn1: NoDup (lnames d1)) by (apply nodup_map_filter; exact Hn).
  assert (Hi1: flag_state sts_canon_include d1 inc) by (apply flag_state_filter_other; assumption).
  assert (Hp1: flag_state sts_canon_preload d1 pre) by (apply flag_state_filter_other; assumption).
  destruct (one_attr_flag sts_canon_include d1 inc Hn1 Hi1) as [i [Ei Eb]]. rewrite Ei. cbn [bind]. rewrite Eb. cbn [bind].
  set (d2 := filter (fun kv => negb (matches sts_canon_include kv)) d1).
  assert (Hn2: NoDup (lnames d2)) by (apply nodup_map_filter; exact Hn1).
  assert (Hp2: flag_state sts_canon_preload d2 pre) by (apply flag_state_filter_other; assumption).
  destruct (one_attr_flag sts_canon_preload d2 pre Hn2 Hp2) as [p [Ep Epb]]. rewrite Ep. cbn [bind]. rewrite Epb. cbn [bind].
  reflexivity.
Qed.

(* hence two spellings of the same directives - in any order, with any blanks, empty elements and letter case of names -
   parse to the same value *)
Lemma sts_spellings_agree segs1 segs2 k1 k2 ds inc pre :
  forallb (seg_ok SEMI) segs1 = true -> forallb (seg_ok SEMI) segs2 = true ->
  NoDup (lnames (map nvp (seg_items segs1))) -> NoDup (lnames (map nvp (seg_items segs2))) ->
  lookup_ci sts_canon_max_age (map nvp (seg_items segs1)) = Some (k1, Some ds) ->
  lookup_ci sts_canon_max_age (map nvp (seg_items segs2)) = Some (k2, Some ds) ->
  ds <> [] -> all_digits ds = true -> dec_val ds <= timedelta_max_seconds ->
  flag_state sts_canon_include (map nvp (seg_items segs1)) inc -> flag_state sts_canon_include (map nvp (seg_items segs2)) inc ->
  flag_state sts_canon_preload (map nvp (seg_items segs1)) pre -> flag_state sts_canon_preload (map nvp (seg_items segs2)) pre ->
  sts_parse (spell SEMI segs1) = sts_parse (spell SEMI segs2).
Proof.
  intros. rewrite (sts_end_to_end segs1 k1 ds inc pre) by assumption. rewrite (sts_end_to_end segs2 k2 ds inc pre) by assumption. reflexivity.
Qed.

(* the premises are satisfiable: upper-case names, a quoted value, an empty element, a tab, an unknown directive, reversed order *)
From Coq.Strings Require Import String.
Lemma sts_example :
  sts_parse (list_byte_of_string "PRELOAD	; ;  foo=bar;MAX-AGE=""31536000"" ;includesubdomains;"%string) = Ok (31536000, true, true)
  /\ sts_parse (list_byte_of_string "max-age=31536000; includeSubDomains; preload"%string) = Ok (31536000, true, true).
Proof. vm_compute. split; reflexivity. Qed.
