From Coq Require Import ZArith List Bool Lia.
From CP Require Import Core.Bytes Spec.PL Spec.TlsSpec Spec.DnsSpec Lemmas.PLLemmas Lemmas.SliceLemmas Lemmas.TlsSpecLemmas.
Import ListNotations.
Open Scope Z_scope.
Local Arguments Z.mul : simpl never.
Local Arguments Z.add : simpl never.
Local Arguments Z.sub : simpl never.
Local Arguments Z.pow : simpl never.

(* the DS specification is coherent *)
Lemma dec_enc_ds kt a d digest : 0 <= kt < 65536 -> 0 <= a < 256 -> 0 <= d < 256 ->
  dec_ds (enc_ds kt a d digest) = Some (kt, a, d, digest).
Proof.
  intros H1 H2 H3. unfold dec_ds, enc_ds.
  rewrite dec_enc_uint by (change (256 ^ Z.of_nat 2) with 65536; lia). cbn [obind].
  rewrite dec_enc_uint by (change (256 ^ Z.of_nat 1) with 256; lia). cbn [obind].
  rewrite dec_enc_uint by (change (256 ^ Z.of_nat 1) with 256; lia). reflexivity.
Qed.

(* names: decoding an encoded label sequence (followed by anything) returns the labels *)
Lemma dec_enc_labels labels b s fuel : enc_labels labels = Some b -> (length labels < fuel)%nat -> dec_labels fuel (b ++ s) = Some (labels, s).
Proof.
  revert b fuel. induction labels as [|l r IH]; intros b fuel E F.
  - cbn [enc_labels] in E. apply Some_inj in E. subst b. destruct fuel as [|f]; [cbn in F; lia|]. cbn [dec_labels].
    rewrite dec_enc_uint by (change (256 ^ Z.of_nat 1) with 256; lia). reflexivity.
  - cbn [enc_labels] in E. destruct ((1 <=? zlen l) && (zlen l <=? 63)) eqn:B; [|discriminate].
    apply andb_true_iff in B. rewrite !Z.leb_le in B.
    destruct (enc_labels r) as [rest|] eqn:Er; cbn [obind] in E; [|discriminate]. apply Some_inj in E. subst b.
    destruct fuel as [|f]; [lia|]. cbn [dec_labels length] in *. rewrite <- !app_assoc.
    rewrite dec_enc_uint by (change (256 ^ Z.of_nat 1) with 256; lia). cbn [obind].
    destruct (Z.eqb_spec (zlen l) 0); [lia|]. rewrite zlen_app. pose proof (zlen_nonneg (rest ++ s)).
    destruct (Z.ltb_spec (zlen l + zlen (rest ++ s)) (zlen l)); [lia|].
    replace (Z.to_nat (zlen l)) with (length l) by (unfold zlen; lia). rewrite skipn_app_exact, firstn_app_exact.
    rewrite (IH rest f eq_refl) by lia. reflexivity.
Qed.

Lemma enc_labels_length labels b : enc_labels labels = Some b -> (length labels < length b)%nat.
Proof.
  revert b. induction labels as [|l r IH]; intros b E.
  - cbn [enc_labels] in E. apply Some_inj in E. subst b. cbn. lia.
  - cbn [enc_labels] in E. destruct ((1 <=? zlen l) && (zlen l <=? 63)); [|discriminate].
    destruct (enc_labels r) as [rest|] eqn:Er; cbn [obind] in E; [|discriminate]. apply Some_inj in E. subst b.
    specialize (IH rest eq_refl). rewrite !app_length. cbn [length]. unfold enc_uint. rewrite be_enc_length. lia.
Qed.

(* MX: what the specification encodes decodes to the same preference and exchange, the null MX of RFC 7505 included *)
Lemma dec_enc_mx pref exchange b : 0 <= pref < 65536 -> enc_mx pref exchange = Some b -> dec_mx b = Some (pref, exchange).
Proof.
  intros Hp E. unfold enc_mx in E. destruct (enc_labels exchange) as [n|] eqn:En; cbn [obind] in E; [|discriminate].
  apply Some_inj in E. subst b. unfold dec_mx.
  rewrite dec_enc_uint by (change (256 ^ Z.of_nat 2) with 65536; lia). cbn [obind].
  pose proof (enc_labels_length _ _ En) as L.
  rewrite <- (app_nil_r n) at 2. rewrite (dec_enc_labels exchange n [] (S (length n)) En) by lia. cbn [obind]. reflexivity.
Qed.
Example null_mx : enc_mx 0 [] = Some [Byte.x00; Byte.x00; Byte.x00] /\ dec_mx [Byte.x00; Byte.x00; Byte.x00] = Some (0, []).
Proof. split; reflexivity. Qed.

(* TXT: the strings a text is cut into are its pieces in order, none longer than 255 octets; every text has an encoding, and
   decoding it gives the text back - texts of more than 255 octets included *)
Lemma txt_chunks_concat fuel s : concat (txt_chunks fuel s) = s.
Proof.
  revert s. induction fuel as [|f IH]; intros s; cbn [txt_chunks].
  - cbn. apply app_nil_r.
  - destruct (zlen s <=? 255); cbn [concat]; [apply app_nil_r|]. rewrite IH. apply firstn_skipn.
Qed.

Lemma txt_chunks_small fuel s : (length s <= fuel + 255)%nat -> Forall (fun c => zlen c <= 255) (txt_chunks fuel s).
Proof.
  revert s. induction fuel as [|f IH]; intros s L; cbn [txt_chunks].
  - constructor; [unfold zlen; lia|constructor].
  - destruct (Z.leb_spec (zlen s) 255) as [Hs|Hs]; [constructor; [exact Hs|constructor]|].
    constructor.
    + unfold zlen. rewrite firstn_length. lia.
    + apply IH. rewrite skipn_length. unfold zlen in Hs. lia.
Qed.

Lemma enc_strings_total l : Forall (fun c => zlen c <= 255) l -> exists b, enc_strings l = Some b.
Proof.
  induction 1 as [|x r Hx _ [b Eb]]; [exists []; reflexivity|].
  cbn [enc_strings]. unfold enc_opaque. pose proof (zlen_nonneg x).
  destruct (Z.leb_spec 0 (zlen x)); [|lia]. destruct (Z.leb_spec (zlen x) 255); [|lia]. cbn [andb obind]. rewrite Eb. cbn [obind]. eauto.
Qed.

Lemma enc_strings_length l b : enc_strings l = Some b -> (length l <= length b)%nat.
Proof.
  revert b. induction l as [|x r IH]; intros b E; [cbn; lia|].
  cbn [enc_strings] in E. destruct (enc_opaque 0 255 x) as [a|] eqn:Ea; cbn [obind] in E; [|discriminate].
  destruct (enc_strings r) as [b'|] eqn:Er; cbn [obind] in E; [|discriminate]. apply Some_inj in E. subst b.
  specialize (IH b' eq_refl). unfold enc_opaque in Ea. destruct ((0 <=? zlen x) && (zlen x <=? 255)); [|discriminate].
  apply Some_inj in Ea. subst a. rewrite !app_length. unfold enc_uint. rewrite be_enc_length. change (width_of_ceiling 255) with 1%nat. cbn [length]. lia.
Qed.

Lemma dec_enc_strings l b fuel : enc_strings l = Some b -> (length l < fuel)%nat -> dec_strings fuel b = Some (concat l).
Proof.
  revert b fuel. induction l as [|x r IH]; intros b fuel E F.
  - cbn in E. apply Some_inj in E. subst b. destruct fuel as [|f]; [lia|]. reflexivity.
  - cbn [enc_strings] in E. destruct (enc_opaque 0 255 x) as [a|] eqn:Ea; cbn [obind] in E; [|discriminate].
    destruct (enc_strings r) as [b'|] eqn:Er; cbn [obind] in E; [|discriminate]. apply Some_inj in E. subst b.
    destruct fuel as [|f]; [lia|]. cbn [dec_strings length concat] in *.
    assert (Hne : zlen (a ++ b') <> 0).
    { unfold enc_opaque in Ea. destruct ((0 <=? zlen x) && (zlen x <=? 255)); [|discriminate]. apply Some_inj in Ea. subst a.
      unfold zlen. rewrite !app_length. unfold enc_uint. rewrite be_enc_length. change (width_of_ceiling 255) with 1%nat. lia. }
    destruct (Z.eqb_spec (zlen (a ++ b')) 0); [contradiction|].
    rewrite (dec_enc_opaque 0 255 x a b' ltac:(lia) Ea). cbn [obind]. rewrite (IH b' f eq_refl) by lia. reflexivity.
Qed.

Lemma dec_enc_txt s : exists b, enc_txt s = Some b /\ dec_txt b = Some s.
Proof.
  unfold enc_txt. destruct (enc_strings_total (txt_chunks (length s) s)) as [b Eb]; [apply txt_chunks_small; lia|].
  exists b. split; [exact Eb|]. unfold dec_txt.
  pose proof (enc_strings_length _ _ Eb) as L.
  assert (Hn : (1 <= length (txt_chunks (length s) s))%nat).
  { destruct (length s) as [|f]; cbn [txt_chunks]; [cbn; lia|]. destruct (zlen s <=? 255); cbn [length]; lia. }
  destruct (Z.eqb_spec (zlen b) 0) as [Z0|_]; [unfold zlen in Z0; lia|].
  rewrite (dec_enc_strings _ b (S (length b)) Eb) by lia. rewrite txt_chunks_concat. reflexivity.
Qed.

(* a text of at most 255 octets is a single character-string: the length octet and the text *)
Lemma enc_txt_short s : zlen s <= 255 -> enc_txt s = Some (enc_uint 1 (zlen s) ++ s).
Proof.
  intros H. unfold enc_txt. assert (E : txt_chunks (length s) s = [s]).
  { destruct (length s) as [|f]; cbn [txt_chunks]; [reflexivity|]. destruct (Z.leb_spec (zlen s) 255); [reflexivity|lia]. }
  rewrite E. cbn [enc_strings]. unfold enc_opaque. pose proof (zlen_nonneg s).
  destruct (Z.leb_spec 0 (zlen s)); [|lia]. destruct (Z.leb_spec (zlen s) 255); [|lia]. cbn [andb obind].
  change (width_of_ceiling 255) with 1%nat. rewrite app_nil_r. reflexivity.
Qed.

(* ECDSA keys (RFC 6605): what the specification encodes decodes to the same point, and the key has exactly 2 x 32 or
   2 x 48 octets; EdDSA keys (RFC 8080) are 32 or 57 octets taken verbatim *)
From CP Require Import Lemmas.UnitLemmas.

Lemma dec_enc_ecdsa_key alg x y k : enc_ecdsa_key alg x y = Some k ->
  dec_ecdsa_key alg k = Some (x, y) /\ (alg = 13 /\ zlen k = 64 \/ alg = 14 /\ zlen k = 96).
Proof.
  unfold enc_ecdsa_key, dec_ecdsa_key. destruct (ecdsa_size alg) as [n|] eqn:En; cbn [obind]; [|discriminate].
  destruct (Z.leb_spec 0 x) as [Hx0|]; cbn [andb]; [|discriminate].
  destruct (Z.ltb_spec x (256 ^ Z.of_nat n)) as [Hx1|]; cbn [andb]; [|discriminate].
  destruct (Z.leb_spec 0 y) as [Hy0|]; cbn [andb]; [|discriminate].
  destruct (Z.ltb_spec y (256 ^ Z.of_nat n)) as [Hy1|]; [|discriminate].
  intros H. injection H as <-.
  assert (L : zlen (be_enc n x ++ be_enc n y) = 2 * Z.of_nat n).
  { rewrite zlen_app. unfold zlen. rewrite !be_enc_length. lia. }
  rewrite L, Z.eqb_refl. split.
  - assert (E1 : firstn n (be_enc n x ++ be_enc n y) = be_enc n x).
    { rewrite <- (be_enc_length n x) at 1. apply firstn_app_exact. }
    assert (E2 : skipn n (be_enc n x ++ be_enc n y) = be_enc n y).
    { rewrite <- (be_enc_length n x) at 1. apply skipn_app_exact. }
    rewrite E1, E2, !be_val_be_enc by lia. reflexivity.
  - unfold ecdsa_size in En. destruct (Z.eqb_spec alg 13) as [->|_].
    + injection En as En'. subst n. left. split; [reflexivity|exact L].
    + destruct (Z.eqb_spec alg 14) as [->|_]; [|discriminate]. injection En as En'. subst n. right. split; [reflexivity|exact L].
Qed.

Lemma enc_eddsa_key_verbatim alg k k' : enc_eddsa_key alg k = Some k' ->
  k' = k /\ (alg = 15 /\ zlen k = 32 \/ alg = 16 /\ zlen k = 57).
Proof.
  unfold enc_eddsa_key, eddsa_size.
  destruct (Z.eqb_spec alg 15) as [->|_]; cbn [obind].
  - destruct (Z.eqb_spec (zlen k) 32) as [E|]; [|discriminate]. intros H. injection H as <-. split; [reflexivity|left; split; [reflexivity|exact E]].
  - destruct (Z.eqb_spec alg 16) as [->|_]; cbn [obind]; [|discriminate].
    destruct (Z.eqb_spec (zlen k) 57) as [E|]; [|discriminate]. intros H. injection H as <-. split; [reflexivity|right; split; [reflexivity|exact E]].
Qed.

Lemma dec_enc_dnskey flags alg key : 0 <= flags < 65536 -> 0 <= alg < 256 ->
  dec_dnskey (enc_dnskey flags alg key) = Some (flags, 3, alg, key).
Proof.
  intros H1 H2. unfold dec_dnskey, enc_dnskey.
  rewrite dec_enc_uint by (change (256 ^ Z.of_nat 2) with 65536; lia). cbn [obind].
  rewrite dec_enc_uint by (change (256 ^ Z.of_nat 1) with 256; lia). cbn [obind].
  rewrite dec_enc_uint by (change (256 ^ Z.of_nat 1) with 256; lia). reflexivity.
Qed.
