From Coq Require Import ZArith List Bool Lia.
From CP Require Import Core.Bytes Spec.PL Spec.TlsSpec Spec.DnsSpec Lemmas.PLLemmas Lemmas.SliceLemmas Lemmas.TlsSpecLemmas.
Import ListNotations.
Open Scope Z_scope.
Local Arguments Z.mul : simpl never.
Local Arguments Z.add : simpl never.
Local Arguments Z.sub : simpl never.
Local Arguments Z.pow : simpl never.

(* the DS specification is coherent *)
Lemma dec_enc_ds kt a d digest : 0 <= kt < 65536 -> 0 <= a < 256 -> 0 <= d < 256 ->
  dec_ds (enc_ds kt a d digest) = Some (kt, a, d, digest).
Proof.
  intros H1 H2 H3. unfold dec_ds, enc_ds.
  rewrite dec_enc_uint by (change (256 ^ Z.of_nat 2) with 65536; lia). cbn [obind].
  rewrite dec_enc_uint by (change (256 ^ Z.of_nat 1) with 256; lia). cbn [obind].
  rewrite dec_enc_uint by (change (256 ^ Z.of_nat 1) with 256; lia). reflexivity.
Qed.

(* names: decoding an encoded label sequence (followed by anything) returns the labels *)
Lemma dec_enc_labels labels b s fuel : enc_labels labels = Some b -> (length labels < fuel)%nat -> dec_labels fuel (b ++ s) = Some (labels, s).
Proof.
  revert b fuel. induction labels as [|l r IH]; intros b fuel E F.
  - cbn [enc_labels] in E. apply Some_inj in E. subst b. destruct fuel as [|f]; [cbn in F; lia|]. cbn [dec_labels].
    rewrite dec_enc_uint by (change (256 ^ Z.of_nat 1) with 256; lia). reflexivity.
  - cbn [enc_labels] in E. destruct ((1 <=? zlen l) && (zlen l <=? 63)) eqn:B; [|discriminate].
    apply andb_true_iff in B. rewrite !Z.leb_le in B.
    destruct (enc_labels r) as [rest|] eqn:Er; cbn [obind] in E; [|discriminate]. apply Some_inj in E. subst b.
    destruct fuel as [|f]; [lia|]. cbn [dec_labels length] in *. rewrite <- !app_assoc.
    rewrite dec_enc_uint by (change (256 ^ Z.of_nat 1) with 256; lia). cbn [obind].
    destruct (Z.eqb_spec (zlen l) 0); [lia|]. rewrite zlen_app. pose proof (zlen_nonneg (rest ++ s)).
    destruct (Z.ltb_spec (zlen l + zlen (rest ++ s)) (zlen l)); [lia|].
    replace (Z.to_nat (zlen l)) with (length l) by (unfold zlen; lia). rewrite skipn_app_exact, firstn_app_exact.
    rewrite (IH rest f eq_refl) by lia. reflexivity.
Qed.
