(* The TLS specification decodes what it encodes, and the models of the implementation coincide with it. *)
From Coq Require Import ZArith List Bool Lia.
From CP Require Import Core.Bytes Core.Result Prim.Int Base.Enum Frame.LVFrame Frame.Units Spec.PL Spec.TlsSpec.
From CP Require Import Lemmas.SliceLemmas Lemmas.PLLemmas Lemmas.IntLemmas Lemmas.UnitLemmas.
Import ListNotations.
Open Scope Z_scope.
Local Arguments Z.mul : simpl never.
Local Arguments Z.add : simpl never.
Local Arguments Z.sub : simpl never.
Local Arguments Z.pow : simpl never.

Lemma Some_inj {A} (a b : A) : Some a = Some b -> a = b.
Proof. congruence. Qed.

Definition ext_ok (e : extension) : Prop := 0 <= fst e < 65536.

Lemma dec_enc_extension_list l b fuel : Forall ext_ok l -> enc_extension_list l = Some b -> (length b < fuel)%nat ->
  dec_extension_list fuel b = Some l.
Proof.
  revert b fuel. induction l as [|[t d] l IH]; intros b fuel F E L.
  - cbn in E. inversion E; subst. destruct fuel; reflexivity.
  - inversion F as [|? ? Ht F']; subst. unfold ext_ok in Ht. cbn [fst] in Ht.
    cbn [enc_extension_list] in E. unfold enc_extension in E. cbn [fst snd] in E.
    destruct (enc_opaque 0 65535 d) as [od|] eqn:Eo; cbn [obind] in E; [|discriminate].
    destruct (enc_extension_list l) as [r|] eqn:Er; cbn [obind] in E; [|discriminate]. apply Some_inj in E; subst b.
    assert (L2 : length (enc_uint 2 t) = 2%nat) by apply be_enc_length.
    destruct ((enc_uint 2 t ++ od) ++ r) as [|b0 bt] eqn:Eb.
    + apply (f_equal (@length _)) in Eb. rewrite !app_length, L2 in Eb. cbn in Eb. lia.
    + destruct fuel as [|f]; [cbn in L; lia|]. cbn [dec_extension_list]. rewrite <- Eb. rewrite <- !app_assoc.
      rewrite dec_enc_uint by (change (256 ^ Z.of_nat 2) with 65536; lia). cbn [obind].
      rewrite (dec_enc_opaque 0 65535 d od r ltac:(lia) Eo). cbn [obind].
      rewrite (IH r f F' eq_refl); [reflexivity|]. rewrite <- Eb, !app_length, L2 in L. lia.
Qed.

Lemma dec_enc_extensions_block l b : Forall ext_ok l -> enc_extensions_block l = Some b -> dec_extensions_block b = Some l.
Proof.
  intros F. destruct l as [|e l]; [cbn; intros Q; inversion Q; reflexivity|]. cbn [enc_extensions_block].
  destruct (enc_extension_list (e :: l)) as [body|] eqn:Eb; cbn [obind]; [|discriminate]. intros Eo.
  unfold dec_extensions_block. destruct b as [|b0 bt] eqn:E.
  - exfalso. unfold enc_opaque in Eo. destruct (_ && _); [|discriminate]. apply Some_inj in Eo. apply (f_equal (@length _)) in Eo.
    rewrite app_length in Eo. unfold enc_uint in Eo. rewrite be_enc_length in Eo. cbn in Eo. lia.
  - rewrite <- E in *. pose proof (dec_enc_opaque 0 65535 body b [] ltac:(lia) Eo) as D. rewrite app_nil_r in D. rewrite D. cbn [obind].
    apply dec_enc_extension_list; [exact F|exact Eb|lia].
Qed.

Record ch_ok (h : client_hello) : Prop := {
  ok_version : 0 <= ch_version h < 65536;
  ok_suites : Forall (fun z => 0 <= z < 256 ^ Z.of_nat 2) (ch_suites h);
  ok_comps : Forall (fun z => 0 <= z < 256 ^ Z.of_nat 1) (ch_compressions h);
  ok_exts : Forall ext_ok (ch_extensions h)
}.

Lemma dec_enc_handshake ty body b s : 0 <= ty < 256 -> enc_handshake ty body = Some b -> dec_handshake ty (b ++ s) = Some (body, s).
Proof.
  intros Ht. unfold enc_handshake. destruct (enc_opaque 0 16777215 body) as [ob|] eqn:Eo; cbn [obind]; [|discriminate].
  intros Q; apply Some_inj in Q; subst b. unfold dec_handshake. rewrite <- app_assoc.
  rewrite dec_enc_uint by (change (256 ^ Z.of_nat 1) with 256; lia). cbn [obind]. rewrite Z.eqb_refl.
  apply (dec_enc_opaque 0 16777215 body ob s ltac:(lia) Eo).
Qed.

(* the specification of the client hello is coherent: decoding an encoded hello (followed by anything) returns it *)
Lemma dec_enc_client_hello h b s : ch_ok h -> enc_client_hello h = Some b -> dec_client_hello (b ++ s) = Some (h, s).
Proof.
  intros [Hv Hs Hc He]. unfold enc_client_hello. destruct (enc_client_hello_body h) as [body|] eqn:Eb; cbn [obind]; [|discriminate].
  intros Eh. unfold dec_client_hello. rewrite (dec_enc_handshake 1 body b s ltac:(lia) Eh). cbn [obind].
  unfold enc_client_hello_body in Eb. destruct (Z.eqb_spec (zlen (ch_random h)) 32) as [Lr|]; cbn [negb] in Eb; [|discriminate].
  destruct (enc_opaque 0 32 (ch_session_id h)) as [sid|] eqn:E1; cbn [obind] in Eb; [|discriminate].
  destruct (enc_uint_vec 2 2 65534 (ch_suites h)) as [cs|] eqn:E2; cbn [obind] in Eb; [|discriminate].
  destruct (enc_uint_vec 1 1 255 (ch_compressions h)) as [cm|] eqn:E3; cbn [obind] in Eb; [|discriminate].
  destruct (enc_extensions_block (ch_extensions h)) as [ex|] eqn:E4; cbn [obind] in Eb; [|discriminate].
  apply Some_inj in Eb; subst body.
  unfold dec_client_hello_body. rewrite dec_enc_uint by (change (256 ^ Z.of_nat 2) with 65536; lia). cbn [obind].
  assert (L32 : length (ch_random h) = 32%nat) by (unfold zlen in Lr; lia).
  destruct (Nat.ltb_spec (length (ch_random h ++ sid ++ cs ++ cm ++ ex)) 32); [rewrite app_length in *; lia|].
  replace (firstn 32 (ch_random h ++ sid ++ cs ++ cm ++ ex)) with (ch_random h) by (rewrite <- L32; rewrite firstn_app_exact; reflexivity).
  replace (skipn 32 (ch_random h ++ sid ++ cs ++ cm ++ ex)) with (sid ++ cs ++ cm ++ ex) by (rewrite <- L32; rewrite skipn_app_exact; reflexivity).
  rewrite (dec_enc_opaque 0 32 _ sid _ ltac:(lia) E1). cbn [obind].
  rewrite (dec_enc_uint_vec 2 2 65534 _ cs _ ltac:(lia) ltac:(lia) Hs E2). cbn [obind].
  rewrite (dec_enc_uint_vec 1 1 255 _ cm _ ltac:(lia) ltac:(lia) Hc E3). cbn [obind].
  rewrite (dec_enc_extensions_block _ ex He E4). cbn [obind]. destruct h; reflexivity.
Qed.

(* the same for the server hello and, under its own handshake type, the library's hello retry request: every field - the single
   cipher suite and the single compression method included - comes back *)
Record sh_ok (h : server_hello) : Prop := {
  sok_version : 0 <= sh_version h < 65536;
  sok_suite : 0 <= sh_suite h < 65536;
  sok_comp : 0 <= sh_compression h < 256;
  sok_exts : Forall ext_ok (sh_extensions h)
}.

Lemma dec_server_hello_body_enc h sid ex :
  sh_ok h -> zlen (sh_random h) = 32 -> enc_opaque 0 32 (sh_session_id h) = Some sid -> enc_extensions_block (sh_extensions h) = Some ex ->
  dec_server_hello_body (enc_uint 2 (sh_version h) ++ sh_random h ++ sid ++ enc_uint 2 (sh_suite h) ++ enc_uint 1 (sh_compression h) ++ ex) = Some h.
Proof.
  intros [Hv Hs Hc He] Lr E1 E4. unfold dec_server_hello_body.
  rewrite dec_enc_uint by (change (256 ^ Z.of_nat 2) with 65536; lia). cbn [obind].
  assert (L32 : length (sh_random h) = 32%nat) by (unfold zlen in Lr; lia).
  set (tl := sid ++ enc_uint 2 (sh_suite h) ++ enc_uint 1 (sh_compression h) ++ ex).
  destruct (Nat.ltb_spec (length (sh_random h ++ tl)) 32); [rewrite app_length in *; lia|].
  replace (firstn 32 (sh_random h ++ tl)) with (sh_random h) by (rewrite <- L32; rewrite firstn_app_exact; reflexivity).
  replace (skipn 32 (sh_random h ++ tl)) with tl by (rewrite <- L32; rewrite skipn_app_exact; reflexivity).
  unfold tl. rewrite (dec_enc_opaque 0 32 _ sid _ ltac:(lia) E1). cbn [obind].
  rewrite dec_enc_uint by (change (256 ^ Z.of_nat 2) with 65536; lia). cbn [obind].
  rewrite dec_enc_uint by (change (256 ^ Z.of_nat 1) with 256; lia). cbn [obind].
  rewrite (dec_enc_extensions_block _ ex He E4). cbn [obind]. destruct h; reflexivity.
Qed.

Lemma dec_enc_server_hello h b s : sh_ok h -> enc_server_hello h = Some b -> dec_server_hello_typed 2 (b ++ s) = Some (h, s).
Proof.
  intros Hok. unfold enc_server_hello. destruct (Z.eqb_spec (zlen (sh_random h)) 32) as [Lr|]; cbn [negb]; [|discriminate].
  destruct (enc_opaque 0 32 (sh_session_id h)) as [sid|] eqn:E1; cbn [obind]; [|discriminate].
  destruct (enc_extensions_block (sh_extensions h)) as [ex|] eqn:E4; cbn [obind]; [|discriminate].
  intros Eh. unfold dec_server_hello_typed. rewrite (dec_enc_handshake 2 _ b s ltac:(lia) Eh). cbn [obind].
  rewrite (dec_server_hello_body_enc h sid ex Hok Lr E1 E4). reflexivity.
Qed.

Lemma dec_enc_hello_retry_request h b s : sh_ok h -> enc_hello_retry_request h = Some b -> dec_server_hello_typed 6 (b ++ s) = Some (h, s).
Proof.
  intros Hok. unfold enc_hello_retry_request. destruct (Z.eqb_spec (zlen (sh_random h)) 32) as [Lr|]; cbn [negb]; [|discriminate].
  destruct (enc_opaque 0 32 (sh_session_id h)) as [sid|] eqn:E1; cbn [obind]; [|discriminate].
  destruct (enc_extensions_block (sh_extensions h)) as [ex|] eqn:E4; cbn [obind]; [|discriminate].
  intros Eh. unfold dec_server_hello_typed. rewrite (dec_enc_handshake 6 _ b s ltac:(lia) Eh). cbn [obind].
  rewrite (dec_server_hello_body_enc h sid ex Hok Lr E1 E4). reflexivity.
Qed.

(* ---- model = specification ---------------------------------------------------------------------------- *)
(* TlsRecord: what the model of TlsRecord.compose emits is the RFC 5246 6.2.1 TLSPlaintext encoding *)
Lemma tls_record_model_is_spec ct ver frag b : compose_tls_record ((ct, ver), frag) = Ok b -> enc_record ct ver frag = Some b.
Proof.
  unfold compose_tls_record, lv_compose, tls_record_mk. cbn [fst snd].
  destruct (memz ct content_types && memz ver tls_versions); cbn [negb]; [|discriminate].
  destruct (Z.leb_spec 65536 (zlen frag)); cbn [bind]; [discriminate|]. intros Q; apply Ok_inj in Q; subst b.
  unfold enc_record, enc_opaque. pose proof (zlen_nonneg frag).
  destruct (Z.leb_spec 0 (zlen frag)); [|lia]. destruct (Z.leb_spec (zlen frag) 65535); [|lia]. cbn [andb obind].
  unfold enc_uint. change (width_of_ceiling 65535) with 2%nat. rewrite <- !app_assoc. reflexivity.
Qed.

(* the handshake message header *)
Lemma handshake_model_is_spec ty body b : compose_handshake ty (tt, body) = Ok b -> enc_handshake ty body = Some b.
Proof.
  unfold compose_handshake, lv_compose, handshake_mk. cbn [fst snd]. destruct (memz ty handshake_types); cbn [negb]; [|discriminate].
  destruct (Z.leb_spec 16777216 (zlen body)); cbn [bind]; [discriminate|]. intros Q; apply Ok_inj in Q; subst b.
  unfold enc_handshake, enc_opaque. pose proof (zlen_nonneg body).
  destruct (Z.leb_spec 0 (zlen body)); [|lia]. destruct (Z.leb_spec (zlen body) 16777215); [|lia]. cbn [andb obind].
  unfold enc_uint. change (width_of_ceiling 16777215) with 3%nat. rewrite <- !app_assoc. reflexivity.
Qed.

(* vectors of coded enumerations (cipher suites, groups, signature schemes, point formats, ...): constructing and
   composing the vector gives exactly the RFC's `T v<min..max>` encoding of the codes of its items *)
Definition item_code (tbl : list Z) (it : eitem) : Z :=
  match it with Known i => nth i tbl 0 | Invalid c _ => c end.
Definition item_valid (tbl : list Z) (w : Z) (it : eitem) : Prop :=
  match it with Known i => (i < length tbl)%nat | Invalid c _ => True end /\ 0 <= item_code tbl it < 256 ^ w.

Lemma compose_eitems_is_spec tbl w items : In w widths -> Forall (item_valid tbl w) items ->
  compose_eitems tbl w items = Ok (enc_items (Z.to_nat w) (map (item_code tbl) items)).
Proof.
  intros Hw. induction items as [|it r IH]; intros F; [reflexivity|]. inversion F as [|? ? [Hv Hr] F']; subst.
  cbn [compose_eitems map]. unfold enc_items in *. cbn [map concat].
  assert (Ci : compose_eitem tbl w it = Ok (enc_uint (Z.to_nat w) (item_code tbl it))).
  { destruct it as [i|c k]; cbn [compose_eitem item_code] in *.
    - unfold compose_enum. destruct (nth_error tbl i) as [c|] eqn:N; [|apply nth_error_None in N; lia].
      rewrite (nth_error_nth _ _ 0 N) in Hr. rewrite (nth_error_nth _ _ 0 N). rewrite compose_numeric_ok by assumption. reflexivity.
    - unfold compose_invalid. rewrite compose_numeric_ok by assumption. reflexivity. }
  rewrite Ci, (IH F'). reflexivity.
Qed.

Lemma enum_vector_model_is_spec p tbl w items b : In w widths -> 0 < w -> Forall (item_valid tbl w) items ->
  vnum p = Z.of_nat (width_of_ceiling (vmax p)) -> 0 <= vmin p -> vmax p < 4294967296 ->
  (mk_compose_enum_vector p tbl w items = Ok b <-> enc_uint_vec (Z.to_nat w) (vmin p) (vmax p) (map (item_code tbl) items) = Some b).
Proof.
  intros Hw Hp F Hn Hmin Hmax. unfold mk_compose_enum_vector, compose_enum_vector, enc_uint_vec, enc_opaque.
  rewrite (compose_eitems_is_spec tbl w items Hw F). cbn [bind].
  set (body := enc_items (Z.to_nat w) (map (item_code tbl) items)).
  assert (Lb : zlen body = zlen items * w).
  { unfold body, enc_items. clear F. induction items as [|it r IH]; [reflexivity|]. cbn [map concat]. rewrite zlen_app, IH, zlen_cons.
    unfold enc_uint, zlen at 1. rewrite be_enc_length. lia. }
  unfold check_bounds. rewrite <- Lb.
  assert (Wn : In (vnum p) widths).
  { rewrite Hn. unfold width_of_ceiling. destruct (vmax p <? 256); [cbn; auto|]. destruct (vmax p <? 65536); [cbn; auto|].
    destruct (vmax p <? 16777216); cbn; auto 6. }
  pose proof (zlen_nonneg body).
  destruct (Z.ltb_spec (zlen body) (vmin p)); destruct (Z.leb_spec (vmin p) (zlen body)); try lia; cbn [bind andb].
  - split; discriminate.
  - destruct (Z.gtb_spec (zlen body) (vmax p)); destruct (Z.leb_spec (zlen body) (vmax p)); try lia; cbn [bind].
    + split; discriminate.
    + rewrite compose_numeric_ok by (try assumption; rewrite Hn; apply width_fits; lia). cbn [bind].
      unfold enc, enc_uint. cbn [is_big]. rewrite Hn, Nat2Z.id. split; intros Q; inversion Q; reflexivity.
Qed.

(* CertificateRequest and CertificateStatus: the specification decodes what it encodes, whatever follows the message *)
Lemma dec_enc_certificate_request types sigalgs cas b s :
  Forall (fun z => 0 <= z < 256) types ->
  match sigalgs with Some l => Forall (fun z => 0 <= z < 65536) l | None => True end ->
  enc_certificate_request types sigalgs cas = Some b ->
  dec_certificate_request (match sigalgs with Some _ => true | None => false end) (b ++ s) = Some ((types, sigalgs, cas), s).
Proof.
  intros Ft Fs. unfold enc_certificate_request.
  destruct (enc_uint_vec 1 1 255 types) as [t|] eqn:Et; cbn [obind]; [|discriminate].
  destruct (match sigalgs with None => Some [] | Some l => enc_uint_vec 2 2 65534 l end) as [sa|] eqn:Es; cbn [obind]; [|discriminate].
  destruct (enc_opaque_items 1 65535 cas) as [items|] eqn:Ei; cbn [obind]; [|discriminate].
  destruct (enc_opaque 0 65535 items) as [c|] eqn:Ec; cbn [obind]; [|discriminate].
  intros Eh. unfold dec_certificate_request.
  rewrite (dec_enc_handshake 13 _ b s ltac:(lia) Eh). cbn [obind].
  rewrite (dec_enc_uint_vec 1 1 255 types t (sa ++ c) ltac:(lia) ltac:(lia)); [|exact Ft|exact Et]. cbn [obind].
  assert (Ec' : dec_opaque 0 65535 c = Some (items, [])).
  { pose proof (dec_enc_opaque 0 65535 items c [] ltac:(lia) Ec) as D. rewrite app_nil_r in D. exact D. }
  assert (Ei' : dec_opaque_items 1 65535 (S (length items)) items = Some cas).
  { apply dec_enc_opaque_items; [lia|exact Ei|lia]. }
  destruct sigalgs as [l|].
  - rewrite (dec_enc_uint_vec 2 2 65534 l sa c ltac:(lia) ltac:(lia)); [|exact Fs|exact Es]. cbn [obind].
    rewrite Ec'. cbn [obind]. rewrite Ei'. reflexivity.
  - injection Es as <-. cbn [app obind]. rewrite Ec'. cbn [obind]. rewrite Ei'. reflexivity.
Qed.

Lemma dec_enc_certificate_status ty resp b s : 0 <= ty < 256 ->
  enc_certificate_status ty resp = Some b -> dec_certificate_status (b ++ s) = Some ((ty, resp), s).
Proof.
  intros Ht. unfold enc_certificate_status.
  destruct (enc_opaque 1 16777215 resp) as [r|] eqn:Er; cbn [obind]; [|discriminate].
  intros Eh. unfold dec_certificate_status.
  rewrite (dec_enc_handshake 22 _ b s ltac:(lia) Eh). cbn [obind].
  rewrite dec_enc_uint by (change (256 ^ Z.of_nat 1) with 256; lia). cbn [obind].
  pose proof (dec_enc_opaque 1 16777215 resp r [] ltac:(lia) Er) as D. rewrite app_nil_r in D. rewrite D. reflexivity.
Qed.
