From Coq Require Import ZArith List Bool Lia.
From CP Require Import Core.Bytes Spec.KeyTag Dns.KeyTag.
Import ListNotations.
Open Scope Z_scope.

(* two bytes at a time: the word loop adds what the RFC's byte loop adds, at even offsets; the flag only matters for
   an odd tail *)
Lemma words_sum_ac : forall n (l : bytes) i sh, (length l <= n)%nat -> Nat.even i = true ->
  (sh = true \/ Nat.even (length l) = true) -> words_sum sh l = keytag_ac i l.
Proof.
  induction n as [|n IH]; intros l i sh Hl Hi Hs.
  - destruct l; [reflexivity|cbn in Hl; lia].
  - destruct l as [|a [|b r]]; [reflexivity| |].
    + cbn [words_sum keytag_ac]. rewrite <- Nat.negb_even, Hi. cbn [negb]. destruct Hs as [->|E]; [lia|cbn in E; discriminate].
    + cbn [words_sum keytag_ac]. rewrite <- !Nat.negb_even, Nat.even_succ, <- Nat.negb_even, Hi. cbn [negb].
      rewrite (IH r (S (S i)) sh); [|cbn in Hl; lia|rewrite Nat.even_succ, <- Nat.negb_even, Nat.even_succ, <- Nat.negb_even, Hi; reflexivity|].
      * unfold be_val. cbn [be_val_acc]. rewrite Z.shiftl_mul_pow2 by lia. change (2 ^ 8) with 256. lia.
      * destruct Hs as [->|E]; [left; reflexivity|right]. cbn [length] in E. rewrite Nat.even_succ, <- Nat.negb_even, Nat.even_succ, <- Nat.negb_even in E.
        destruct (Nat.even (length r)); [reflexivity|discriminate].
Qed.

(* the code agrees with RFC 4034 Appendix B on every RDATA of even length *)
Theorem key_tag_even_is_rfc4034 rdata : Nat.even (length rdata) = true -> key_tag rdata = rfc4034_keytag rdata.
Proof.
  intros E. unfold key_tag, key_tag_of, rfc4034_keytag, fold16.
  rewrite (words_sum_ac (length rdata) rdata 0 false (le_n _) eq_refl (or_intror E)). reflexivity.
Qed.

(* with the trailing byte shifted it would agree on every RDATA *)
Theorem key_tag_repaired_is_rfc4034 rdata : key_tag_repaired rdata = rfc4034_keytag rdata.
Proof.
  unfold key_tag_repaired, key_tag_of, rfc4034_keytag, fold16.
  rewrite (words_sum_ac (length rdata) rdata 0 true (le_n _) eq_refl (or_introl eq_refl)). reflexivity.
Qed.

Theorem key_tag_alg1_is_rfc4034 m : key_tag_alg1 m = rfc4034_keytag_alg1 m.
Proof. reflexivity. Qed.

Lemma key_tag_range rdata : 0 <= key_tag rdata < 65536.
Proof.
  unfold key_tag, key_tag_of. change 65535 with (Z.ones 16). rewrite (Z.land_ones _ 16) by lia. apply Z.mod_pos_bound. lia.
Qed.

(* the full statement is false of the code: wrong already for a one-byte RDATA (known finding) *)
Theorem key_tag_odd_refuted : key_tag [Byte.x01] <> rfc4034_keytag [Byte.x01].
Proof. vm_compute. discriminate. Qed.
