(* The schemas generated from the live library (CPGen.Tables.field_schemas) satisfy the premises of the refinement:
   after an optional positional first attribute every component name is matched case-insensitively, the lower-cased
   canonical names are pairwise distinct, and the separator is a single non-blank character. *)
From Coq Require Import ZArith List Bool String.
From Coq.Strings Require Import Byte.
From CP Require Import Core.Bytes Core.Result Core.Show Text.Field Spec.FieldSpec Lemmas.FieldLemmas Lemmas.FvmLemmas.
From CPGen Require Import Tables.
Import ListNotations.
Open Scope Z_scope.

Definition mode_of (z : Z) : mode := if z =? 1 then Insens else if z =? 2 then AnyName else Exact.
Definition schema_of (rows : list (string * Z * bool)) : list fattr :=
  map (fun t => {| fa_canon := bytes_of_hex (fst (fst t)); fa_mode := mode_of (snd (fst t)); fa_required := snd t |}) rows.
Definition split_head (sch : list fattr) : option fattr * list fattr :=
  match sch with
  | a :: r => match fa_mode a with AnyName => (Some a, r) | _ => (None, sch) end
  | [] => (None, [])
  end.
Fixpoint nodupb (l : list bytes) : bool :=
  match l with [] => true | x :: r => negb (existsb (bytes_eqb x) r) && nodupb r end.
Definition sep_ok (h : string) : bool :=
  match bytes_of_hex h with [c] => negb (is_ws c) | _ => false end.
Definition schema_ok (sch : list fattr) : bool :=
  all_insens (snd (split_head sch)) && nodupb (lcanons (snd (split_head sch))).
Definition entry_ok (t : string * (string * bool * list (string * Z * bool))) : bool :=
  sep_ok (fst (fst (snd t))) && schema_ok (schema_of (snd (snd t))).

Lemma generated_schemas_ok : forallb entry_ok field_schemas = true.
Proof. vm_compute. reflexivity. Qed.

Lemma generated_schemas_nonempty : (0 < List.length field_schemas)%nat.
Proof. vm_compute. apply le_n_S, Nat.le_0_l || auto with arith. Qed.

Lemma nodupb_NoDup l : nodupb l = true -> NoDup l.
Proof.
  induction l as [|x r IH]; cbn [nodupb]; [constructor|].
  intros H. apply andb_true_iff in H. destruct H as [Hx Hr]. constructor; [|apply IH; exact Hr].
  intros Hin. apply negb_true_iff in Hx. assert (E: existsb (bytes_eqb x) r = true).
  { apply existsb_exists. exists x. split; [exact Hin|apply bytes_eqb_refl]. }
  rewrite E in Hx. discriminate.
Qed.

(* for every class in the generated table, _parse_basic_params (after the positional attribute, if any) is the
   per-attribute case-insensitive lookup *)
Lemma generated_refinement name sep ext rows :
  In (name, (sep, ext, rows)) field_schemas ->
  forall d, NoDup (lnames d) ->
  let sch := snd (split_head (schema_of rows)) in
  basic_params sch d = if required_present sch d then Ok (params_spec sch d, leftover_spec sch d) else Err InvalidValue.
Proof.
  intros Hin d Hd. pose proof generated_schemas_ok as H. rewrite forallb_forall in H. specialize (H _ Hin).
  unfold entry_ok in H. cbn [fst snd] in H. apply andb_true_iff in H. destruct H as [_ H].
  unfold schema_ok in H. apply andb_true_iff in H. destruct H as [Ha Hn].
  cbv zeta. apply basic_params_spec; [exact Ha|apply nodupb_NoDup; exact Hn|exact Hd].
Qed.

Lemma generated_separator name sep ext rows :
  In (name, (sep, ext, rows)) field_schemas -> exists c, bytes_of_hex sep = [c] /\ is_ws c = false.
Proof.
  intros Hin. pose proof generated_schemas_ok as H. rewrite forallb_forall in H. specialize (H _ Hin).
  unfold entry_ok in H. cbn [fst snd] in H. apply andb_true_iff in H. destruct H as [H _].
  unfold sep_ok in H. destruct (bytes_of_hex sep) as [|c [|c2 r]]; try discriminate.
  exists c. split; [reflexivity|]. apply negb_true_iff. exact H.
Qed.

(* ---- non-vacuity and the pinned behaviour ---- *)
Local Open Scope string_scope.
Definition b (s : string) : bytes := list_byte_of_string s.
Definition hsts_schema : list fattr :=
  [ {| fa_canon := b "max-age"; fa_mode := Insens; fa_required := true |};
    {| fa_canon := b "includeSubDomains"; fa_mode := Insens; fa_required := false |};
    {| fa_canon := b "preload"; fa_mode := Insens; fa_required := false |} ].
Definition semi : byte := ";"%byte.
(* what a component class sees of the text handed to it: the lower-cased name and the value *)
Definition raw_abs (r : bytes) : bytes * option bytes :=
  let (n, rest) := take_until EQS r in (lower n, match rest with [] => None | _ :: v => Some v end).
Definition res_abs (r : result (list (option bytes))) : result (list (option (bytes * option bytes))) :=
  match r with Ok l => Ok (map (option_map raw_abs) l) | Err e => Err e end.

(* a spelling with upper-case names, an empty element, tabs, a quoted value, an unknown directive and the directives
   out of order meets every premise and gives the canonical assignment *)
Lemma hsts_example :
  let segs := [Item [] (b "PRELOAD") [HT]; Empty [SP]; Item [SP; SP] (b "foo=bar") []; Item [] (b "MAX-AGE=""31""") [SP];
               Item [] (b "includesubdomains") []; Empty []] in
  forallb (seg_ok semi) segs = true /\ nodupb (lnames (map nvp (seg_items segs))) = true /\
  schema_ok hsts_schema = true /\
  res_abs (res_params (fvm semi hsts_schema (spell semi segs)))
  = res_abs (res_params (fvm semi hsts_schema (b "max-age=31; includeSubDomains; preload"))).
Proof. vm_compute. repeat split; reflexivity. Qed.

(* before the repair the component names (other than flags, pins and max-age) were compared exactly: the usual
   spelling of a cookie attribute was dropped *)
Definition cookie_schema_pinned : list fattr :=
  [ {| fa_canon := b "expires"; fa_mode := Exact; fa_required := false |};
    {| fa_canon := b "Domain"; fa_mode := Exact; fa_required := false |} ].
Lemma pinned_exact_match_refuted :
  res_params (fvm semi cookie_schema_pinned (b "Expires=x; domain=example.com"))
  <> res_params (fvm semi cookie_schema_pinned (b "expires=x; Domain=example.com")).
Proof. vm_compute. intros H. discriminate H. Qed.
