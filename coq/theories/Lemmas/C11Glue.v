(* glue lemmas for Props/C11.v *)
From Coq Require Import ZArith List Bool Lia.
From Coq.Strings Require Import Byte.
From CP Require Import Core.Bytes Core.Result Prim.Int Prim.Mpint Prim.Timestamp.
From CP Require Import Lemmas.IntLemmas Lemmas.MpintLemmas Lemmas.TimestampLemmas.
Import ListNotations.
Open Scope Z_scope.

Lemma int_exact : forall o w z, In w widths -> 0 <= z < 256 ^ w ->
  compose_numeric o w z = Ok (if is_big o then be_enc (Z.to_nat w) z else le_enc (Z.to_nat w) z)
  /\ be_val (be_enc (Z.to_nat w) z) = z /\ le_val (le_enc (Z.to_nat w) z) = z.
Proof.
  intros o w z Hw Hz. split; [exact (compose_numeric_ok o w z Hw Hz)|].
  assert (0 <= w) by (destruct (widths_pos w Hw); lia).
  split; [|unfold le_val, le_enc; rewrite rev_involutive]; apply be_enc_small_roundtrip; rewrite Z2Nat.id by lia; exact Hz.
Qed.

Lemma int_parse_bounds : forall o w buf pos, In w widths -> 0 <= pos <= zlen buf ->
  (forall v n, parse_numeric o w buf pos = Ok (v, n) -> n = w /\ 0 <= v < 256 ^ w /\ pos + w <= zlen buf) /\
  (zlen buf - pos < w -> parse_numeric o w buf pos = Err (NotEnoughData (w - (zlen buf - pos)))) /\
  (forall e, parse_numeric o w buf pos <> Err (Leak e)).
Proof.
  intros o w buf pos Hw Hp. split; [|split].
  - intros v n. apply parse_numeric_range; [exact Hw|lia].
  - apply parse_numeric_short; assumption.
  - intros e. apply parse_numeric_no_leak. exact Hw.
Qed.

Lemma mpint_ssh_canonical : forall z, 0 <= z -> zlen (ssh_payload z) < 4294967296 ->
  compose_ssh_mpint z = Ok (be_enc 4 (zlen (ssh_payload z)) ++ ssh_payload z)
  /\ tc_val (ssh_payload z) = z /\ canonical (ssh_payload z).
Proof.
  intros z Hz Hl. split; [exact (compose_ssh_mpint_nonneg z Hz Hl)|].
  destruct (ssh_payload_props z Hz) as [A [B _]]. split; assumption.
Qed.
