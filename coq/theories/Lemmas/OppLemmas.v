From Coq Require Import ZArith List Bool Lia String.
From CP Require Import Core.Bytes Core.Result Prim.Int Frame.LVFrame Frame.Units Opp.Rdp Lemmas.LVFrameLemmas.
Import ListNotations.
Open Scope Z_scope.

(* C09: the message type that is on the wire is the type of the class that accepted it: a confirm is never returned as
   a request (each class rejects the other's PDU with InvalidType) *)
Lemma cotp_type_preserved ty buf x n : parse_cotp ty buf = Ok (x, n) -> cotp_wire_type buf = ty.
Proof.
  unfold parse_cotp, lv_parse. destruct (Z.ltb_spec (zlen buf) 7); [discriminate|].
  destruct (cotp_check (firstn (Z.to_nat 7) buf)) as [v|e]; cbn [bind]; [|discriminate].
  destruct (zlen buf - 7 <? cotp_plen (firstn (Z.to_nat 7) buf)); cbn [bind]; [discriminate|].
  unfold cotp_post. destruct (Z.eqb_spec (Z.shiftr (byte_at (firstn 7 buf) 1) 4) ty) as [E|E]; cbn [negb bind]; [|discriminate].
  intros _. unfold cotp_wire_type. rewrite <- E. f_equal. unfold byte_at.
  assert (L : (7 <= List.length buf)%nat) by (unfold zlen in *; lia).
  destruct buf as [|b0 [|b1 r]]; cbn in L; try lia. reflexivity.
Qed.

Lemma cotp_request_confirm_disjoint buf x n y m : parse_cotp COTP_CR_code buf = Ok (x, n) -> parse_cotp COTP_CC_code buf = Ok (y, m) -> False.
Proof. intros A B. apply cotp_type_preserved in A. apply cotp_type_preserved in B. unfold COTP_CR_code, COTP_CC_code in *. lia. Qed.

Lemma rdp_neg_type_preserved ty tbl buf x n : parse_rdp_neg ty tbl buf = Ok (x, n) -> rdp_wire_type buf = ty.
Proof.
  unfold parse_rdp_neg, lv_parse. destruct (Z.ltb_spec (zlen buf) 8); [discriminate|].
  unfold rdp_neg_check at 1. set (h := firstn (Z.to_nat 8) buf).
  destruct (memz (byte_at h 0) (int_enum_values "RDPPacketType")); cbn [negb bind]; [|discriminate].
  destruct (Z.eqb_spec (byte_at h 0) ty) as [E|E]; cbn [negb bind]; [|discriminate]. intros _.
  unfold rdp_wire_type. rewrite <- E. unfold h, byte_at. destruct buf as [|b0 r]; [unfold zlen in *; cbn in *; lia|reflexivity].
Qed.
