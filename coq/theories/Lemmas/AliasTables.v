(* Distinct symbolic names never share a code: decided on the regenerated member tables.  Kept apart from EnumTables.v so that
   an alias introduced in one IntEnum breaks the proof of C10 only, not of every property whose theorems use the code tables. *)
From Coq Require Import ZArith List Bool String.
From CP Require Import Lemmas.VersionOrder Lemmas.EnumTables.
From CPGen Require Import Tables.
Import ListNotations.
Local Open Scope string_scope.
Open Scope Z_scope.

(* distinct symbolic names never share a code - over __members__, where IntEnum / Enum aliases are visible -
   unless the protocol itself assigns one number to both (the list below) *)
Definition protocol_shared : list (string * string) :=
  [("SshMessageCode", "DH_GEX_GROUP")].   (* RFC 4253 SSH_MSG_KEXDH_REPLY = RFC 4419 SSH_MSG_KEX_DH_GEX_GROUP = 31 *)
Definition shared (cls name : string) : bool :=
  existsb (fun p => String.eqb (fst p) cls && String.eqb (snd p) name) protocol_shared.
Definition members_ok (t : string * list (string * Z)) : bool :=
  nodupb (map snd (filter (fun m => negb (shared (fst t) (fst m))) (snd t))).
Definition no_alias_ok : bool := forallb members_ok enum_members && forallb members_ok int_enum_members.
Lemma no_alias_ok_true : no_alias_ok = true.
Proof. vm_compute. reflexivity. Qed.

