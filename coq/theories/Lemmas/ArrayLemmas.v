(* Proofs about Base/Array.v (property C12). *)
From Coq Require Import ZArith List Bool Lia.
From CP Require Import Core.Bytes Core.Result Base.Array.
Import ListNotations.
Open Scope Z_scope.
Local Arguments Z.mul : simpl never.
Local Arguments Z.add : simpl never.
Local Arguments Z.sub : simpl never.

Section A.
  Context {item : Type}.
  Variable sz : item -> Z.
  Variable item_eqb : item -> item -> bool.
  Variable vmin vmax : Z.
  Notation total := (total sz).
  Notation step := (step sz item_eqb vmin vmax).
  Notation check := (@check vmin vmax).
  Notation Inv := (Inv sz vmin vmax).
  Notation list_step := (@list_step item item_eqb).

  Definition in_bounds (s : Z) : bool := (vmin <=? s) && (s <=? vmax).
  Definition data_length (e : err) : Prop := e = NotEnoughData vmin \/ e = TooMuchData vmax.

  Lemma total_cons x l : total (x :: l) = sz x + total l.
  Proof. reflexivity. Qed.

  Lemma total_nil : total [] = 0.
  Proof. reflexivity. Qed.

  Lemma total_app a b : total (a ++ b) = total a + total b.
  Proof. induction a as [|x a IH]; cbn [app]; [rewrite total_nil; lia|]. rewrite !total_cons, IH. lia. Qed.

  Lemma total_rev l : total (rev l) = total l.
  Proof. induction l as [|x l IH]; [reflexivity|]. cbn [rev]. rewrite total_app, IH, !total_cons, total_nil. lia. Qed.

  Lemma total_firstn_skipn k l : total (firstn k l) + total (skipn k l) = total l.
  Proof. rewrite <- total_app, firstn_skipn. reflexivity. Qed.

  Lemma total_nth k l x : nth_error l k = Some x -> total l = total (firstn k l) + sz x + total (skipn (S k) l).
  Proof.
    revert l. induction k as [|k IH]; intros [|y l] H; try discriminate.
    - inversion H; subst. cbn [firstn skipn]. rewrite total_cons, total_nil. lia.
    - cbn [nth_error] in H. change (skipn (S (S k)) (y :: l)) with (skipn (S k) l). cbn [firstn]. rewrite !total_cons, (IH l H). lia.
  Qed.

  Lemma check_ok s : in_bounds s = true -> check s = Ok s.
  Proof.
    unfold in_bounds, Array.check. rewrite andb_true_iff, !Z.leb_le. intros [A B].
    destruct (Z.ltb_spec s vmin); [lia|]. destruct (Z.gtb_spec s vmax); [lia|]. reflexivity.
  Qed.

  Lemma check_err s : in_bounds s = false -> exists e, check s = Err e /\ data_length e.
  Proof.
    unfold in_bounds, Array.check, data_length. rewrite andb_false_iff, !Z.leb_gt. intros H.
    destruct (Z.ltb_spec s vmin); [eauto|]. destruct (Z.gtb_spec s vmax); [eauto|]. lia.
  Qed.

  Lemma norm_index_lt (l : list item) i k : norm_index (zlen l) i = Some k -> exists x, nth_error l k = Some x.
  Proof.
    unfold norm_index. set (j := if i <? 0 then i + zlen l else i).
    destruct ((0 <=? j) && (j <? zlen l)) eqn:E; [|discriminate]. intros H; inversion H; subst k.
    apply andb_true_iff in E. rewrite Z.leb_le, Z.ltb_lt in E.
    destruct (nth_error l (Z.to_nat j)) eqn:N; [eauto|]. apply nth_error_None in N. unfold zlen in *. lia.
  Qed.

  Lemma index_of_nth x l k0 k : index_of item_eqb x l k0 = Some k -> exists y, nth_error l (k - k0) = Some y /\ (k0 <= k)%nat.
  Proof.
    revert k0. induction l as [|y l IH]; intros k0 H; [discriminate|]. cbn [index_of] in H.
    destruct (item_eqb y x).
    - inversion H; subst. rewrite Nat.sub_diag. cbn. eauto.
    - destruct (IH _ H) as [z [Hz Hk]]. exists z. split; [|lia].
      replace (k - k0)%nat with (S (k - S k0)) by lia. exact Hz.
  Qed.

  (* what the vector does with the outcome of the corresponding plain-list operation *)
  Definition agrees (v : vec) (r : option (list item)) (res : vec * outcome) : Prop :=
    match r with
    | None => exists e, res = (v, Refused (Leak e)) /\ (e = IndexError \/ e = ValueError)
    | Some l' =>
        if in_bounds (total l') then res = ({| items := l'; isz := total l' |}, Accepted)
        else exists e, res = (v, Refused e) /\ data_length e
    end.

  Lemma replace_agrees v l' : agrees v (Some l') (replace_items sz vmin vmax v l').
  Proof.
    unfold agrees, replace_items. destruct (in_bounds (total l')) eqn:B.
    - rewrite check_ok by assumption. reflexivity.
    - destruct (check_err _ B) as [e [-> D]]. eauto.
  Qed.

  Lemma del_at_agrees v k x : isz v = total (items v) -> nth_error (items v) k = Some x ->
    agrees v (Some (remove_at k (items v))) (del_at sz vmin vmax v k).
  Proof.
    intros Hs Hn. unfold agrees, del_at, update_size. rewrite Hn.
    assert (T : total (remove_at k (items v)) = isz v - sz x + 0).
    { unfold remove_at. rewrite total_app, Hs, (total_nth k _ x Hn). lia. }
    rewrite <- T. destruct (in_bounds (total (remove_at k (items v)))) eqn:B.
    - rewrite check_ok by assumption. reflexivity.
    - destruct (check_err _ B) as [e [-> D]]. eauto.
  Qed.

  (* the central lemma: every operation either does exactly what a plain list does (when the result is within
     the bounds), or is refused with a data-length error and leaves the vector untouched (when it is not), or
     fails exactly where the plain list fails *)
  Lemma step_agrees v o : Inv v -> agrees v (list_step (items v) o) (step v o).
  Proof.
    intros [Hs Hb]. destruct o as [x|i x|i|i x|a b|a b xs|xs|xs|i|x| |]; cbn [Array.step Array.list_step].
    - (* Append *)
      assert (E : insert_at (insert_index (zlen (items v)) (zlen (items v))) x (items v) = items v ++ [x]).
      { unfold insert_at, insert_index. pose proof (zlen_nonneg (items v)).
        destruct (Z.ltb_spec (zlen (items v)) 0); [lia|]. destruct (Z.ltb_spec (zlen (items v)) 0); [lia|].
        destruct (Z.gtb_spec (zlen (items v)) (zlen (items v))); [lia|].
        unfold zlen. rewrite Nat2Z.id, firstn_all, skipn_all. reflexivity. }
      rewrite E. unfold agrees, update_size.
      assert (T : total (items v ++ [x]) = isz v - 0 + sz x) by (rewrite total_app, Hs, total_cons; cbn; lia).
      rewrite <- T. destruct (in_bounds (total (items v ++ [x]))) eqn:B.
      + rewrite check_ok by assumption. reflexivity.
      + destruct (check_err _ B) as [e [-> D]]. eauto.
    - (* Insert *)
      unfold agrees, update_size. set (k := insert_index (zlen (items v)) i).
      assert (T : total (insert_at k x (items v)) = isz v - 0 + sz x).
      { unfold insert_at. rewrite total_app, total_cons, Hs. pose proof (total_firstn_skipn k (items v)). lia. }
      rewrite <- T. destruct (in_bounds (total (insert_at k x (items v)))) eqn:B.
      + rewrite check_ok by assumption. reflexivity.
      + destruct (check_err _ B) as [e [-> D]]. eauto.
    - (* DelIdx *)
      destruct (norm_index (zlen (items v)) i) as [k|] eqn:N; cbn [option_map].
      + destruct (norm_index_lt _ _ _ N) as [x Hx]. exact (del_at_agrees v k x Hs Hx).
      + cbn. eauto.
    - (* SetIdx *)
      destruct (norm_index (zlen (items v)) i) as [k|] eqn:N; cbn [option_map]; [|cbn; eauto].
      destruct (norm_index_lt _ _ _ N) as [y Hy]. unfold agrees, update_size. rewrite Hy.
      assert (T : total (set_at k x (items v)) = isz v - sz y + sz x).
      { unfold set_at. rewrite total_app, total_cons, Hs, (total_nth k _ y Hy). lia. }
      rewrite <- T. destruct (in_bounds (total (set_at k x (items v)))) eqn:B.
      + rewrite check_ok by assumption. reflexivity.
      + destruct (check_err _ B) as [e [-> D]]. eauto.
    - destruct (slice_bounds (zlen (items v)) a b). apply replace_agrees.
    - destruct (slice_bounds (zlen (items v)) a b). apply replace_agrees.
    - apply replace_agrees.
    - apply replace_agrees.
    - (* Pop *)
      destruct (norm_index (zlen (items v)) match i with Some j => j | None => -1 end) as [k|] eqn:N; cbn [option_map]; [|cbn; eauto].
      destruct (norm_index_lt _ _ _ N) as [x Hx]. exact (del_at_agrees v k x Hs Hx).
    - (* Remove *)
      destruct (index_of item_eqb x (items v) 0) as [k|] eqn:N; cbn [option_map]; [|cbn; eauto].
      destruct (index_of_nth _ _ _ _ N) as [y [Hy _]]. rewrite Nat.sub_0_r in Hy. exact (del_at_agrees v k y Hs Hy).
    - (* Reverse: the size does not change and no check is made; the invariant keeps the result within bounds *)
      unfold agrees. rewrite total_rev, <- Hs.
      assert (B : in_bounds (isz v) = true) by (unfold in_bounds; rewrite andb_true_iff, !Z.leb_le; lia).
      rewrite B. reflexivity.
    - apply replace_agrees.
  Qed.

  (* ---- consequences ---------------------------------------------------------------------------------- *)
  Lemma mk_vec_inv l v : mk_vec sz vmin vmax l = Ok v -> Inv v /\ items v = l.
  Proof.
    unfold mk_vec, Array.check. destruct (Z.ltb_spec (total l) vmin); cbn [bind]; [discriminate|].
    destruct (Z.gtb_spec (total l) vmax); cbn [bind]; [discriminate|]. intros HH; inversion HH; subst v; clear HH.
    unfold Array.Inv. cbn. repeat split; lia.
  Qed.

  Lemma step_inv v o : Inv v -> Inv (fst (step v o)).
  Proof.
    intros HI. pose proof (step_agrees v o HI) as A. unfold agrees in A.
    destruct (list_step (items v) o) as [l'|].
    - destruct (in_bounds (total l')) eqn:B.
      + rewrite A. cbn [fst]. unfold in_bounds in B. rewrite andb_true_iff, !Z.leb_le in B.
        split; cbn [items isz]; [reflexivity|lia].
      + destruct A as [e [-> _]]. exact HI.
    - destruct A as [e [-> _]]. exact HI.
  Qed.

  Lemma run_inv ops v : Inv v -> Inv (run sz item_eqb vmin vmax v ops).
  Proof.
    revert v. induction ops as [|o ops IH]; intros v HI; [exact HI|]. cbn [run fold_left]. apply IH. apply step_inv. exact HI.
  Qed.

  (* an accepted edit leaves exactly the list a plain list would hold *)
  Lemma step_refines v o v' : Inv v -> step v o = (v', Accepted) -> list_step (items v) o = Some (items v').
  Proof.
    intros HI H. pose proof (step_agrees v o HI) as A. unfold agrees in A. rewrite H in A.
    destruct (list_step (items v) o) as [l'|].
    - destruct (in_bounds (total l')); [inversion A; reflexivity|destruct A as [e [A _]]; discriminate].
    - destruct A as [e [A _]]. discriminate.
  Qed.

  (* a refused edit changes nothing; it is refused with a data-length error exactly when the plain-list result
     would leave the bounds, and otherwise only where the plain list itself raises IndexError / ValueError *)
  Lemma step_refused v o v' e : Inv v -> step v o = (v', Refused e) ->
    v' = v /\ ((data_length e /\ exists l', list_step (items v) o = Some l' /\ in_bounds (total l') = false) \/
               ((e = Leak IndexError \/ e = Leak ValueError) /\ list_step (items v) o = None)).
  Proof.
    intros HI H. pose proof (step_agrees v o HI) as A. unfold agrees in A. rewrite H in A.
    destruct (list_step (items v) o) as [l'|].
    - destruct (in_bounds (total l')) eqn:B; [discriminate|]. destruct A as [e' [A D]]. inversion A; subst.
      split; [reflexivity|]. left. split; [exact D|eauto].
    - destruct A as [e' [A D]]. inversion A; subst. split; [reflexivity|]. right. split; [destruct D; subst; auto|reflexivity].
  Qed.

  (* no spurious refusal: an edit whose plain-list result is within the bounds is accepted *)
  Lemma step_accepts v o l' : Inv v -> list_step (items v) o = Some l' -> in_bounds (total l') = true ->
    step v o = ({| items := l'; isz := total l' |}, Accepted).
  Proof.
    intros HI L B. pose proof (step_agrees v o HI) as A. unfold agrees in A. rewrite L, B in A. exact A.
  Qed.
End A.

From CP Require Import Prim.Int Lemmas.IntLemmas.
Definition enc_be (num : Z) (z : Z) : bytes := be_enc (Z.to_nat num) z.

Section C.
  Context {item : Type}.
  Variable sz : item -> Z.
  Variable ienc : item -> bytes.
  Hypothesis ienc_size : forall x, zlen (ienc x) = sz x.    (* get_item_size(item) = len(item.compose()) *)

  Lemma body_length l : zlen (body ienc l) = total sz l.
  Proof.
    induction l as [|x l IH]; [reflexivity|]. unfold body in *. cbn [map concat]. rewrite zlen_app, IH, ienc_size. reflexivity.
  Qed.

  (* the composed length prefix equals the number of body bytes that follow and fits the prefix width *)
  Lemma compose_prefix_fits vmin vmax num v : Inv sz vmin vmax v -> In num widths -> 0 <= vmin -> vmax < 256 ^ num ->
    compose_vec ienc num v = Ok (enc_be num (isz v) ++ body ienc (items v))
    /\ zlen (body ienc (items v)) = isz v /\ 0 <= isz v < 256 ^ num.
  Proof.
    intros [Hs Hb] Hn Hmin Hmax. unfold compose_vec. rewrite body_length, <- Hs.
    rewrite compose_numeric_ok by (assumption || lia). cbn [bind]. unfold enc_be, IntLemmas.enc. cbn [is_big].
    repeat split; lia.
  Qed.
End C.
