(* The presentation-language library decodes what it encodes (with any suffix): the specification is coherent. *)
From Coq Require Import ZArith List Bool Lia.
From CP Require Import Core.Bytes Spec.PL Lemmas.SliceLemmas.
Import ListNotations.
Open Scope Z_scope.
Local Arguments Z.mul : simpl never.
Local Arguments Z.add : simpl never.
Local Arguments Z.sub : simpl never.
Local Arguments Z.pow : simpl never.

Lemma dec_enc_uint w z s : 0 <= z < 256 ^ Z.of_nat w -> dec_uint w (enc_uint w z ++ s) = Some (z, s).
Proof.
  intros H. unfold dec_uint, enc_uint. rewrite app_length, be_enc_length.
  destruct (Nat.ltb_spec (w + length s) w); [lia|].
  replace (firstn w (be_enc w z ++ s)) with (be_enc w z) by (rewrite <- (be_enc_length w z) at 2; rewrite firstn_app_exact; reflexivity).
  replace (skipn w (be_enc w z ++ s)) with s by (rewrite <- (be_enc_length w z) at 1; rewrite skipn_app_exact; reflexivity).
  rewrite be_enc_small_roundtrip by assumption. reflexivity.
Qed.

Lemma width_fits hi n : 0 <= n <= hi -> hi < 4294967296 -> 0 <= n < 256 ^ Z.of_nat (width_of_ceiling hi).
Proof.
  intros H1 H2. unfold width_of_ceiling.
  destruct (Z.ltb_spec hi 256); [change (256 ^ Z.of_nat 1) with 256; lia|].
  destruct (Z.ltb_spec hi 65536); [change (256 ^ Z.of_nat 2) with 65536; lia|].
  destruct (Z.ltb_spec hi 16777216); [change (256 ^ Z.of_nat 3) with 16777216; lia|].
  change (256 ^ Z.of_nat 4) with 4294967296. lia.
Qed.

Lemma dec_enc_opaque lo hi d b s : hi < 4294967296 -> enc_opaque lo hi d = Some b -> dec_opaque lo hi (b ++ s) = Some (d, s).
Proof.
  intros Hh. unfold enc_opaque. destruct ((lo <=? zlen d) && (zlen d <=? hi)) eqn:E; [|discriminate].
  apply andb_true_iff in E. rewrite !Z.leb_le in E. intros Q; inversion Q; subst b; clear Q.
  unfold dec_opaque. rewrite <- app_assoc. pose proof (zlen_nonneg d).
  rewrite dec_enc_uint by (apply width_fits; lia).
  rewrite zlen_app. pose proof (zlen_nonneg s).
  destruct (Z.leb_spec lo (zlen d)); [|lia]. destruct (Z.leb_spec (zlen d) hi); [|lia].
  destruct (Z.leb_spec (zlen d) (zlen d + zlen s)); [|lia]. cbn [andb].
  unfold zlen. rewrite Nat2Z.id, firstn_app_exact, skipn_app_exact. reflexivity.
Qed.

Lemma dec_enc_items w l fuel : (0 < w)%nat -> Forall (fun z => 0 <= z < 256 ^ Z.of_nat w) l -> (length (enc_items w l) < fuel)%nat ->
  dec_items w fuel (enc_items w l) = Some l.
Proof.
  intros Hw. revert fuel. induction l as [|z l IH]; intros fuel F L.
  - destruct fuel; reflexivity.
  - inversion F as [|? ? Hz F']; subst. unfold enc_items in *. cbn [map concat] in *.
    assert (Ln : length (enc_uint w z) = w) by apply be_enc_length.
    destruct (enc_uint w z ++ concat (map (enc_uint w) l)) as [|b0 bt] eqn:E.
    + exfalso. apply (f_equal (@length _)) in E. rewrite app_length, Ln in E. cbn in E. lia.
    + destruct fuel as [|f]; [cbn in L; lia|]. cbn [dec_items]. rewrite <- E. rewrite dec_enc_uint by assumption.
      rewrite IH; [reflexivity|assumption|]. rewrite <- E in L. rewrite app_length, Ln in L. lia.
Qed.

Lemma dec_enc_uint_vec w lo hi l b s : (0 < w)%nat -> hi < 4294967296 -> Forall (fun z => 0 <= z < 256 ^ Z.of_nat w) l ->
  enc_uint_vec w lo hi l = Some b -> dec_uint_vec w lo hi (b ++ s) = Some (l, s).
Proof.
  intros Hw Hh F E. unfold enc_uint_vec in E. unfold dec_uint_vec. rewrite (dec_enc_opaque lo hi _ b s Hh E).
  rewrite dec_enc_items by (assumption || lia). reflexivity.
Qed.

Lemma dec_enc_opaque_items ilo ihi l b fuel : ihi < 4294967296 -> enc_opaque_items ilo ihi l = Some b -> (length b < fuel)%nat ->
  dec_opaque_items ilo ihi fuel b = Some l.
Proof.
  intros Hh. revert b fuel. induction l as [|x l IH]; intros b fuel E L.
  - cbn in E. inversion E. subst. destruct fuel; reflexivity.
  - cbn [enc_opaque_items] in E. destruct (enc_opaque ilo ihi x) as [a|] eqn:Ea; [|discriminate].
    destruct (enc_opaque_items ilo ihi l) as [r|] eqn:Er; [|discriminate]. inversion E; subst b; clear E.
    assert (La : (0 < length a)%nat).
    { unfold enc_opaque in Ea. destruct (_ && _); [|discriminate]. inversion Ea. rewrite app_length. unfold enc_uint. rewrite be_enc_length.
      unfold width_of_ceiling. destruct (ihi <? 256); [lia|]. destruct (ihi <? 65536); [lia|]. destruct (ihi <? 16777216); lia. }
    destruct (a ++ r) as [|b0 bt] eqn:E.
    + apply (f_equal (@length _)) in E. rewrite app_length in E. cbn in E. lia.
    + destruct fuel as [|f]; [cbn in L; lia|]. cbn [dec_opaque_items]. rewrite <- E. rewrite (dec_enc_opaque ilo ihi x a r Hh Ea).
      rewrite (IH r f eq_refl); [reflexivity|]. rewrite <- E, app_length in L. lia.
Qed.
