(* side condition of the defaults theorem, decided on the generated table of default sites *)
From Coq Require Import ZArith List Bool String.
From CPGen Require Import Tables.
Import ListNotations.
Local Open Scope string_scope.
Open Scope Z_scope.

(* shared mutable defaults that are known findings (replacing them by attr.Factory breaks the repository's own tests) *)
Definition known_shared_sites : list (string * string) := [
  ("cryptoparser.httpx.header.HttpHeaderFieldValueSetCookie", "secure");
  ("cryptoparser.httpx.header.HttpHeaderFieldValueSetCookie", "http_only");
  ("cryptoparser.httpx.header.HttpHeaderFieldValueSetCookieParams", "secure");
  ("cryptoparser.httpx.header.HttpHeaderFieldValueSetCookieParams", "http_only")
].
Definition is_known (c f : string) : bool := existsb (fun p => String.eqb (fst p) c && String.eqb (snd p) f) known_shared_sites.
(* every other site builds its default per instance (or the default is immutable / not a data value) *)
Definition default_sites_ok : bool :=
  forallb (fun s => let '(c, f, k) := s in negb (k =? 3) || is_known c f) default_sites.
Lemma default_sites_ok_true : default_sites_ok = true.
Proof. vm_compute. reflexivity. Qed.
