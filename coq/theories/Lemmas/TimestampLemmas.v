From Coq Require Import ZArith List Bool Lia.
From CP Require Import Core.Bytes Core.Result Prim.Int Prim.Timestamp Lemmas.IntLemmas.
Import ListNotations.
Open Scope Z_scope.
Local Arguments Z.mul : simpl never.
Local Arguments Z.add : simpl never.
Local Arguments Z.sub : simpl never.
Local Arguments Z.pow : simpl never.

Lemma pow256_8 w : 0 <= w -> 256 ^ w = 2 ^ (8 * w).
Proof. intros H. change 256 with (2 ^ 8). rewrite <- Z.pow_mul_r by lia. reflexivity. Qed.

Lemma land_mask32 v : 0 <= v < 4294967296 -> Z.land 4294967295 v = v.
Proof.
  intros H. rewrite Z.land_comm. change 4294967295 with (Z.ones 32). rewrite Z.land_ones by lia.
  apply Z.mod_small. change (2 ^ 32) with 4294967296. lia.
Qed.

(* the instant (seconds resolution) survives compose -> parse in a field of 4 or 8 bytes; any suffix may follow *)
Lemma ts_roundtrip_seconds w s b p sfx : In w [4; 8] -> 0 <= s <= dt_max -> s < 256 ^ w -> s <> 2 ^ (8 * w) - 1 ->
  compose_timestamp false w (Some {| secs := s; micros := 0 |}) = Ok b ->
  parse_timestamp false w (p ++ b ++ sfx) (zlen p) = Ok (Some {| secs := s; micros := 0 |}, w).
Proof.
  intros Hw Hs Hfit Hne Hc. cbn [compose_timestamp secs] in Hc.
  assert (Hw' : In w widths) by (cbn in Hw |- *; destruct Hw as [<-|[<-|[]]]; auto 6).
  assert (Hr : 0 <= s < 256 ^ w) by lia.
  unfold parse_timestamp. rewrite (parse_compose_numeric Network w s b p sfx Hw' Hr Hc). cbn [bind].
  destruct (Z.eqb_spec s (2 ^ (8 * w) - 1)); [contradiction|].
  destruct (Z.ltb_spec dt_max s); [lia|]. reflexivity.
Qed.

(* millisecond resolution (8-byte field, as used for signed certificate timestamps) *)
Lemma ts_roundtrip_millis s ms b p sfx : 0 <= s <= dt_max -> 0 <= ms < 1000 ->
  compose_timestamp true 8 (Some {| secs := s; micros := ms * 1000 |}) = Ok b ->
  parse_timestamp true 8 (p ++ b ++ sfx) (zlen p) = Ok (Some {| secs := s; micros := ms * 1000 |}, 8).
Proof.
  intros Hs Hms Hc. cbn [compose_timestamp secs micros] in Hc.
  rewrite Z.div_mul in Hc by lia.
  assert (Hw' : In 8 widths) by (cbn; auto 6).
  assert (Hr : 0 <= s * 1000 + ms < 256 ^ 8) by (change (256 ^ 8) with 18446744073709551616; unfold dt_max in Hs; lia).
  unfold parse_timestamp. rewrite (parse_compose_numeric Network 8 _ b p sfx Hw' Hr Hc). cbn [bind].
  change (2 ^ (8 * 8) - 1) with 18446744073709551615.
  destruct (Z.eqb_spec (s * 1000 + ms) 18446744073709551615); [unfold dt_max in Hs; lia|].
  replace ((s * 1000 + ms) / 1000) with s by (rewrite Z.div_add_l by lia; rewrite Z.div_small by lia; lia).
  replace ((s * 1000 + ms) mod 1000) with ms by (rewrite Z.add_comm, Z.mod_add by lia; rewrite Z.mod_small by lia; reflexivity).
  destruct (Z.ltb_spec dt_max s); [lia|]. reflexivity.
Qed.

(* the pinned parser masked the seconds: 2^32 came back as the epoch *)
Lemma ts_orig_mask_refuted :
  parse_timestamp_orig false 8 (be_enc 8 4294967296) 0 = Ok (Some {| secs := 0; micros := 0 |}, 8).
Proof. vm_compute. reflexivity. Qed.

(* the "forever" sentinel round-trips in the width of the field *)
Lemma ts_roundtrip_none msf w b p sfx : In w [4; 8] ->
  compose_timestamp msf w None = Ok b -> parse_timestamp msf w (p ++ b ++ sfx) (zlen p) = Ok (None, w).
Proof.
  intros Hw Hc. cbn [compose_timestamp] in Hc.
  assert (Hw' : In w widths) by (cbn in Hw |- *; destruct Hw as [<-|[<-|[]]]; auto 6).
  assert (Hr : 0 <= 2 ^ (8 * w) - 1 < 256 ^ w).
  { cbn in Hw; destruct Hw as [<-|[<-|[]]]; cbv; split; congruence. }
  unfold parse_timestamp. rewrite (parse_compose_numeric Network w _ b p sfx Hw' Hr Hc). cbn [bind].
  rewrite Z.eqb_refl. reflexivity.
Qed.
