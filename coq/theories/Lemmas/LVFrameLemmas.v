(* Generic lemma family for LV frames: round trip with suffix, exact length, self-delimitation, prefix rejection. *)
From Coq Require Import ZArith List Bool Lia.
From CP Require Import Core.Bytes Core.Result Prim.Int Frame.LVFrame Lemmas.SliceLemmas.
Import ListNotations.
Open Scope Z_scope.
Local Arguments Z.mul : simpl never.
Local Arguments Z.add : simpl never.
Local Arguments Z.sub : simpl never.

Section LV.
  Variable hv : Type.
  Variable H : Z.
  Variable hdr_check : bytes -> result hv.
  Variable plen : bytes -> Z.
  Variable mk_hdr : hv -> Z -> result bytes.
  Hypothesis H_pos : 0 < H.
  (* a payload length read from a valid header is never negative *)
  Hypothesis plen_nonneg : forall h v, hdr_check h = Ok v -> 0 <= plen h.
  (* the composed header has H bytes, validates to the same value and declares the payload length given *)
  (* header values the class accepts back (e.g. TPKT: version 3) *)
  Variable okv : hv -> Prop.
  Hypothesis mk_hdr_spec : forall v n h, okv v -> 0 <= n -> mk_hdr v n = Ok h -> zlen h = H /\ hdr_check h = Ok v /\ plen h = n.

  Notation parse := (lv_parse hv H hdr_check plen).
  Notation compose := (lv_compose hv mk_hdr).

  Lemma firstn_H_app (h r : bytes) : zlen h = H -> firstn (Z.to_nat H) (h ++ r) = h.
  Proof. intros L. replace (Z.to_nat H) with (length h) by (unfold zlen in L; lia). apply firstn_app_exact. Qed.

  (* C01 / C03: what was composed parses back, whatever follows, consuming exactly the composed bytes *)
  Lemma lv_roundtrip x b s : okv (fst x) -> compose x = Ok b -> parse (b ++ s) = Ok (x, zlen b).
  Proof.
    destruct x as [v pl]. intros Hv. unfold lv_compose. cbn [fst snd] in *.
    destruct (mk_hdr v (zlen pl)) as [h|e] eqn:E; cbn [bind]; [|discriminate]. intros HH; inversion HH; subst b; clear HH.
    destruct (mk_hdr_spec v (zlen pl) h Hv (zlen_nonneg pl) E) as [L [C P]].
    unfold lv_parse. rewrite <- app_assoc. rewrite !zlen_app, L. pose proof (zlen_nonneg pl). pose proof (zlen_nonneg s).
    destruct (Z.ltb_spec (H + (zlen pl + zlen s)) H); [lia|].
    rewrite (firstn_H_app h (pl ++ s) L), C, P. cbn [bind].
    destruct (Z.ltb_spec (H + (zlen pl + zlen s) - H) (zlen pl)); [lia|].
    f_equal. f_equal. f_equal. rewrite <- L. apply slice_app_exact.
  Qed.

  (* C03: the consumed length is positive, within the buffer, and equals the declared length *)
  Lemma lv_length buf x n : parse buf = Ok (x, n) -> 0 < n <= zlen buf /\ n = lv_declared H plen buf /\ H <= n.
  Proof.
    unfold lv_parse, lv_declared. destruct (Z.ltb_spec (zlen buf) H); [discriminate|].
    destruct (hdr_check (firstn (Z.to_nat H) buf)) as [v|e] eqn:C; cbn [bind]; [|discriminate].
    pose proof (plen_nonneg _ _ C).
    destruct (Z.ltb_spec (zlen buf - H) (plen (firstn (Z.to_nat H) buf))); [discriminate|].
    intros HH; inversion HH; subst. lia.
  Qed.

  (* C03: self-delimiting - the result depends only on the first n bytes *)
  Lemma lv_delimited buf x n s : parse buf = Ok (x, n) -> parse (firstn (Z.to_nat n) buf ++ s) = Ok (x, n).
  Proof.
    intros P. destruct (lv_length buf x n P) as [[Hn Hl] [_ HH]]. revert P.
    unfold lv_parse. destruct (Z.ltb_spec (zlen buf) H); [discriminate|].
    set (h := firstn (Z.to_nat H) buf).
    destruct (hdr_check h) as [v|e] eqn:C; cbn [bind]; [|discriminate].
    destruct (Z.ltb_spec (zlen buf - H) (plen h)); [discriminate|].
    intros Q; inversion Q; subst x n; clear Q.
    set (n := H + plen h) in *. pose proof (zlen_nonneg s).
    assert (Lf : zlen (firstn (Z.to_nat n) buf) = n) by (unfold zlen in *; rewrite firstn_length; lia).
    rewrite zlen_app, Lf. destruct (Z.ltb_spec (n + zlen s) H); [lia|].
    assert (Eh : firstn (Z.to_nat H) (firstn (Z.to_nat n) buf ++ s) = h).
    { apply firstn_firstn_app; unfold zlen in *; lia. }
    rewrite Eh, C. cbn [bind]. destruct (Z.ltb_spec (n + zlen s - H) (plen h)); [lia|].
    f_equal. f_equal. f_equal. apply slice_firstn_app; unfold n; lia.
  Qed.

  (* C04: every proper prefix of a composed frame is rejected with not-enough-data, and the missing count it
     reports is at least 1 and at most the number of bytes really missing *)
  Lemma lv_prefix x b k : okv (fst x) -> compose x = Ok b -> 0 <= k < zlen b ->
    exists m, parse (firstn (Z.to_nat k) b) = Err (NotEnoughData m) /\ 1 <= m <= zlen b - k.
  Proof.
    destruct x as [v pl]. intros Hv. unfold lv_compose. cbn [fst snd] in *.
    destruct (mk_hdr v (zlen pl)) as [h|e] eqn:E; cbn [bind]; [|discriminate]. intros HH; inversion HH; subst b; clear HH.
    destruct (mk_hdr_spec v (zlen pl) h Hv (zlen_nonneg pl) E) as [L [C P]].
    rewrite zlen_app, L. intros Hk. pose proof (zlen_nonneg pl).
    assert (Lf : zlen (firstn (Z.to_nat k) (h ++ pl)) = k).
    { unfold zlen in *. rewrite firstn_length, app_length. lia. }
    unfold lv_parse. rewrite Lf. destruct (Z.ltb_spec k H).
    - exists (H - k). split; [reflexivity|lia].
    - assert (Eh : firstn (Z.to_nat H) (firstn (Z.to_nat k) (h ++ pl)) = h).
      { rewrite firstn_firstn_le by lia. apply firstn_H_app. exact L. }
      rewrite Eh, C, P. cbn [bind]. destruct (Z.ltb_spec (k - H) (zlen pl)); [|lia].
      exists (zlen pl - (k - H)). split; [reflexivity|lia].
  Qed.

  (* C02: no undocumented exception, provided the header validation itself raises none *)
  Lemma lv_noleak buf e : (forall h e', hdr_check h <> Err (Leak e')) -> parse buf <> Err (Leak e).
  Proof.
    intros NL. unfold lv_parse. destruct (zlen buf <? H); [discriminate|].
    destruct (hdr_check (firstn (Z.to_nat H) buf)) as [v|e'] eqn:C; cbn [bind].
    - destruct (zlen buf - H <? plen (firstn (Z.to_nat H) buf)); discriminate.
    - intro X. inversion X. subst e'. exact (NL _ _ C).
  Qed.

  (* every outcome of parse is: a frame, one of the two documented header errors, or not-enough-data *)
  Lemma lv_accepts_whole b x : parse b = Ok (x, zlen b) -> forall k, 0 <= k < zlen b ->
    exists m, parse (firstn (Z.to_nat k) b) = Err (NotEnoughData m) /\ 1 <= m <= zlen b - k.
  Proof.
    intros P k Hk. revert P. unfold lv_parse. destruct (Z.ltb_spec (zlen b) H); [discriminate|].
    set (h := firstn (Z.to_nat H) b). destruct (hdr_check h) as [v|e] eqn:C; cbn [bind]; [|discriminate].
    destruct (Z.ltb_spec (zlen b - H) (plen h)); [discriminate|]. intros Q; inversion Q; clear Q.
    assert (Lf : zlen (firstn (Z.to_nat k) b) = k) by (unfold zlen in *; rewrite firstn_length; lia).
    rewrite Lf. destruct (Z.ltb_spec k H).
    - exists (H - k). split; [reflexivity|lia].
    - rewrite firstn_firstn_le by lia. fold h. rewrite C. cbn [bind].
      destruct (Z.ltb_spec (k - H) (plen h)); [|lia]. exists (plen h - (k - H)). split; [reflexivity|lia].
  Qed.
End LV.

(* C05 for LV frames: the object parsed from ANY accepted buffer composes, and the composed bytes parse back to it *)
Section LVCanonical.
  Variable hv : Type.
  Variable H : Z.
  Variable hdr_check : bytes -> result hv.
  Variable plen : bytes -> Z.
  Variable mk_hdr : hv -> Z -> result bytes.
  Variable okv : hv -> Prop.
  Hypothesis H_pos : 0 < H.
  Hypothesis plen_nonneg : forall h v, hdr_check h = Ok v -> 0 <= plen h.
  Hypothesis mk_hdr_spec : forall v n h, okv v -> 0 <= n -> mk_hdr v n = Ok h -> zlen h = H /\ hdr_check h = Ok v /\ plen h = n.
  (* compose is total on what the parser produces *)
  Hypothesis mk_total : forall h v, zlen h = H -> hdr_check h = Ok v -> okv v /\ exists h', mk_hdr v (plen h) = Ok h'.

  Lemma lv_canonical buf x n : lv_parse hv H hdr_check plen buf = Ok (x, n) ->
    exists b2, lv_compose hv mk_hdr x = Ok b2 /\ lv_parse hv H hdr_check plen b2 = Ok (x, zlen b2).
  Proof.
    unfold lv_parse. destruct (Z.ltb_spec (zlen buf) H); [discriminate|].
    set (h := firstn (Z.to_nat H) buf). destruct (hdr_check h) as [v|e] eqn:C; cbn [bind]; [|discriminate].
    destruct (Z.ltb_spec (zlen buf - H) (plen h)); [discriminate|]. intros Q; apply Ok_inj in Q. inversion Q; subst x n; clear Q.
    assert (Lh : zlen h = H) by (unfold h, zlen in *; rewrite firstn_length; lia).
    destruct (mk_total h v Lh C) as [Hv [h' Hm]]. pose proof (plen_nonneg h v C) as Pn.
    assert (Ls : zlen (slice buf H (H + plen h)) = plen h) by (rewrite slice_length; lia).
    assert (Cx : lv_compose hv mk_hdr (v, slice buf H (H + plen h)) = Ok (h' ++ slice buf H (H + plen h))).
    { unfold lv_compose. cbn [fst snd]. rewrite Ls, Hm. reflexivity. }
    exists (h' ++ slice buf H (H + plen h)). split; [exact Cx|].
    assert (R : lv_parse hv H hdr_check plen ((h' ++ slice buf H (H + plen h)) ++ []) = Ok ((v, slice buf H (H + plen h)), zlen (h' ++ slice buf H (H + plen h)))).
    { eapply lv_roundtrip; eauto. }
    rewrite app_nil_r in R. exact R.
  Qed.
End LVCanonical.
