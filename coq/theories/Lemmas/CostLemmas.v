From Coq Require Import ZArith List Bool Lia.
From CP Require Import Core.Bytes Core.Result Prim.Int Base.Enum Base.Cost Lemmas.IntLemmas Lemmas.EnumLemmas Lemmas.SliceLemmas.
Import ListNotations.
Open Scope Z_scope.
Local Arguments Z.mul : simpl never.
Local Arguments Z.add : simpl never.
Local Arguments Z.sub : simpl never.

Section L.
  Variable tbl : list Z.
  Variable grease : option (list Z).
  Variable w : Z.
  Hypothesis Hw : In w widths.

  (* every iteration consumes w >= 1 bytes, so the loop runs at most once per byte present (plus the failing one) *)
  Lemma iters_le_length fuel u : derived_array_iters (parse_eitem tbl grease w) fuel u <= zlen u.
  Proof.
    destruct (widths_pos w Hw) as [Hp _].
    revert u. induction fuel as [|f IH]; intros u; destruct u as [|b r]; cbn [derived_array_iters]; try (unfold zlen; cbn [length]; lia).
    set (u := b :: r). destruct (parse_eitem tbl grease w u) as [[it n]|e] eqn:E.
    - destruct (parse_eitem_preserves tbl grease w Hw u it n E) as [-> [Hl _]].
      specialize (IH (skipn (Z.to_nat w) u)). unfold zlen in *. rewrite skipn_length in IH. lia.
    - unfold u, zlen. cbn [length]. lia.
  Qed.

  Variable p : vparam.
  Hypothesis Hn : In (vnum p) widths.

  (* linear bound with an explicit constant per class: a = eitem_cost (table sizes), c = 3 *)
  Lemma enum_vector_cost_linear buf : enum_vector_cost p tbl grease w buf <= eitem_cost tbl grease * zlen buf + 3.
  Proof.
    pose proof (zlen_nonneg buf). pose proof (zlen_nonneg tbl).
    assert (Hc : 2 <= eitem_cost tbl grease) by (unfold eitem_cost; destruct grease as [g|]; [pose proof (zlen_nonneg g)|]; lia).
    unfold enum_vector_cost. destruct (parse_numeric Network (vnum p) buf 0) as [[len n0]|e] eqn:E; [|nia].
    destruct (parse_numeric_range Network (vnum p) buf 0 len n0 Hn ltac:(lia) E) as [-> [Hr Hl]].
    destruct (widths_pos _ Hn) as [Hp _].
    destruct (Z.gtb_spec len (zlen buf - vnum p)); [nia|].
    set (body := slice buf (vnum p) (vnum p + len)).
    pose proof (iters_le_length (S (length body)) body) as I.
    assert (Lb : zlen body = len) by (unfold body; rewrite slice_length; lia).
    assert (0 <= derived_array_iters (parse_eitem tbl grease w) (S (length body)) body).
    { generalize (S (length body)). intros fu. generalize body. induction fu as [|f IH]; intros u; destruct u; cbn [derived_array_iters]; try lia.
      destruct (parse_eitem tbl grease w (b :: u)) as [[it n]|e]; [specialize (IH (skipn (Z.to_nat n) (b :: u))); lia|lia]. }
    nia.
  Qed.

  (* a length field larger than the data present never drives any iteration: constant work *)
  Lemma enum_vector_declared_beyond_data buf len n0 : parse_numeric Network (vnum p) buf 0 = Ok (len, n0) ->
    len > zlen buf - n0 -> enum_vector_cost p tbl grease w buf = 2 /\ exists k, parse_enum_vector p tbl grease w buf = Err (NotEnoughData k).
  Proof.
    intros E G. unfold enum_vector_cost, parse_enum_vector. rewrite E. cbn [bind].
    destruct (Z.gtb_spec len (zlen buf - n0)); [|lia]. split; [reflexivity|eauto].
  Qed.
End L.
