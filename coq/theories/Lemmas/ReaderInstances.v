(* C04 for the two record layers that are not length-value frames of Frame/LVFrame.v: composed SSL 2.0 records and SSH
   binary packets are good frames of the generic reader theorem, hence a reader guided by the missing-byte count
   reassembles any sequence of them from any fragmentation. *)
From Coq Require Import ZArith List Bool Lia.
From Coq.Strings Require Import Byte.
From CP Require Import Core.Bytes Core.Result Reader.Reader Ssh.Record Frame.Ssl2 Frame.SshPacket Lemmas.SliceLemmas Lemmas.ReaderLemmas
  Lemmas.Ssl2Lemmas Lemmas.SshPacketLemmas.
Import ListNotations.
Open Scope Z_scope.
Local Arguments Z.sub : simpl never.
Local Arguments Z.add : simpl never.

Section Ssl2Reader.
  Variable msg : Z -> bytes -> result Z.
  Variable types : list Z.

  (* a record as SslRecord.compose writes it, for a message the message parser accepts entirely *)
  Definition ssl2_composed (f : (Z * bytes * bytes) * bytes) : Prop :=
    exists t m, fst f = (t, m, []) /\ In t types /\ 0 <= t < 256 /\ msg t m = Ok (zlen m) /\ ssl2_compose t m = Ok (snd f).

  Lemma ssl2_good_frame f : ssl2_composed f -> good_frame _ (ssl2_parse msg types) f.
  Proof.
    intros [t [m [Ef [Ht [Hr [Hm Hc]]]]]]. destruct f as [x b]. cbn [fst snd] in *. subst x.
    assert (R : forall s, ssl2_parse msg types (b ++ s) = Ok ((t, m, []), zlen b)) by (intros s; apply ssl2_roundtrip; assumption).
    assert (Lb : 0 < zlen b).
    { unfold ssl2_compose in Hc. destruct (32768 <=? 1 + zlen m); [discriminate|]. apply Ok_inj in Hc. subst b.
      rewrite !zlen_cons. pose proof (zlen_nonneg m) as Lm. clear R. lia. }
    split; [exact Lb|]. split; [exact R|].
    intros k Hk. cbn [snd] in Hk. pose proof (R []) as R0. rewrite app_nil_r in R0.
    apply (ssl2_prefix_rejected msg types b _ k R0). lia.
  Qed.

  Lemma ssl2_reader frames chunks : Forall ssl2_composed frames -> concat chunks = concat (map snd frames) ->
    let st := run_reader _ (ssl2_parse msg types) chunks in status st = Running /\ out st = map fst frames /\ rbuf st = [].
  Proof.
    intros F E. apply reader_complete; [|exact E].
    apply Forall_forall. intros f Hf. apply ssl2_good_frame. rewrite Forall_forall in F. exact (F f Hf).
  Qed.
End Ssl2Reader.

Section SshReader.
  Variable msg : bytes -> result unit.

  Definition ssh_composed (f : (bytes * bytes) * bytes) : Prop :=
    exists payload, fst f = (payload, repeat x00 (Z.to_nat (padding_length (zlen payload)))) /\ msg payload = Ok tt /\
                    zlen payload < 4294967000 /\ snd f = ssh_compose payload.

  Lemma ssh_good_frame f : ssh_composed f -> good_frame _ (ssh_parse msg) f.
  Proof.
    intros [payload [Ef [Hm [Hl Es]]]]. destruct f as [x b]. cbn [fst snd] in *. subst x b.
    assert (R : forall s, ssh_parse msg (ssh_compose payload ++ s)
                          = Ok ((payload, repeat x00 (Z.to_nat (padding_length (zlen payload)))), zlen (ssh_compose payload)))
      by (intros s; apply ssh_roundtrip; assumption).
    assert (Lb : 0 < zlen (ssh_compose payload)).
    { unfold ssh_compose. rewrite zlen_app. unfold zlen at 1. rewrite be_enc_length. rewrite zlen_cons.
      pose proof (zlen_nonneg (payload ++ repeat x00 (Z.to_nat (padding_length (zlen payload))))). lia. }
    split; [exact Lb|]. split; [exact R|].
    intros k Hk. cbn [snd] in Hk. pose proof (R []) as R0. rewrite app_nil_r in R0.
    apply (ssh_prefix_rejected msg _ _ k R0). lia.
  Qed.

  Lemma ssh_reader frames chunks : Forall ssh_composed frames -> concat chunks = concat (map snd frames) ->
    let st := run_reader _ (ssh_parse msg) chunks in status st = Running /\ out st = map fst frames /\ rbuf st = [].
  Proof.
    intros F E. apply reader_complete; [|exact E].
    apply Forall_forall. intros f Hf. apply ssh_good_frame. rewrite Forall_forall in F. exact (F f Hf).
  Qed.
End SshReader.
