(* C02 on the model: for every buffer, no parse function of the modelled classes ends in an undocumented exception. *)
From Coq Require Import ZArith List Bool Lia.
From Coq.Strings Require Import Byte.
From CP Require Import Core.Bytes Core.Result Core.Utf8 Prim.Int Prim.Mpint Prim.Timestamp Base.Enum.
From CP Require Import Lemmas.IntLemmas Lemmas.EnumLemmas.
Import ListNotations.
Open Scope Z_scope.
Local Arguments Z.mul : simpl never.
Local Arguments Z.add : simpl never.
Local Arguments Z.sub : simpl never.

Definition no_leak {A} (r : result A) : Prop := forall e, r <> Err (Leak e).

Lemma no_leak_bind {A B} (r : result A) (f : A -> result B) : no_leak r -> (forall a, r = Ok a -> no_leak (f a)) -> no_leak (bind r f).
Proof.
  intros Hr Hf e. destruct r as [a|x]; cbn [bind].
  - apply Hf. reflexivity.
  - intro X. inversion X. subst. exact (Hr e eq_refl).
Qed.

Lemma no_leak_ok {A} (a : A) : no_leak (Ok a).
Proof. intros e. discriminate. Qed.

Lemma parse_numeric_no_leak' o w buf pos : In w widths -> no_leak (parse_numeric o w buf pos).
Proof. intros Hw e. apply parse_numeric_no_leak. exact Hw. Qed.

Lemma parse_numeric_array_no_leak o w num buf pos : In w widths -> no_leak (parse_numeric_array o w num buf pos).
Proof.
  intros Hw e. destruct (widths_pos w Hw) as [_ [n Hn]]. unfold parse_numeric_array. rewrite Hn.
  destruct (pos + num * w >? zlen buf); discriminate.
Qed.

Lemma parse_mpint_raw_no_leak buf pos len off neg : no_leak (parse_mpint_raw buf pos len off neg).
Proof.
  unfold parse_mpint_raw. apply no_leak_bind.
  - apply parse_numeric_array_no_leak. cbn; auto 6.
  - intros [parts n] _. apply no_leak_ok.
Qed.

Lemma parse_mpint_no_leak buf pos len : no_leak (parse_mpint buf pos len).
Proof. unfold parse_mpint. apply no_leak_bind; [apply parse_mpint_raw_no_leak|intros; apply no_leak_ok]. Qed.

(* after "fix: report a truncated SSH mpint as not enough data": the sign byte is only read when it exists *)
Lemma parse_ssh_mpint_no_leak buf pos : 0 <= pos -> no_leak (parse_ssh_mpint buf pos).
Proof.
  intros Hp. unfold parse_ssh_mpint. destruct (zlen buf - pos <? 4); [intros e; discriminate|].
  apply no_leak_bind; [apply parse_numeric_no_leak'; cbn; auto 6|]. intros [len n] P.
  destruct (parse_numeric_range Network 4 buf pos len n ltac:(cbn; auto 6) Hp P) as [-> [Hr Hl]].
  destruct (Z.gtb_spec len (zlen buf - pos - 4)); [intros e; discriminate|].
  apply no_leak_bind.
  - destruct (Z.eqb_spec len 0); [apply no_leak_ok|].
    destruct (nth_error buf (Z.to_nat (pos + 4))) eqn:N; [apply no_leak_ok|].
    exfalso. apply nth_error_None in N. unfold zlen in *. lia.
  - intros neg _. apply no_leak_bind; [apply parse_mpint_raw_no_leak|intros; apply no_leak_ok].
Qed.

Lemma parse_timestamp_no_leak ms w buf pos : In w widths -> no_leak (parse_timestamp ms w buf pos).
Proof.
  intros Hw. unfold parse_timestamp. apply no_leak_bind; [apply parse_numeric_no_leak'; exact Hw|].
  intros [v n] _. destruct (v =? 2 ^ (8 * w) - 1); [apply no_leak_ok|]. cbv zeta.
  destruct ms; match goal with |- no_leak (if ?c then _ else _) => destruct c end; try apply no_leak_ok; intros e; discriminate.
Qed.

Lemma parse_enum_no_leak tbl w buf : In w widths -> no_leak (parse_enum tbl w buf).
Proof.
  intros Hw. unfold parse_enum. apply no_leak_bind; [apply parse_numeric_no_leak'; exact Hw|].
  intros [c n] _. destruct (decode tbl c); intros e; discriminate.
Qed.

Lemma parse_invalid_no_leak g w buf : In w widths -> no_leak (parse_invalid g w buf).
Proof. intros Hw. unfold parse_invalid. apply no_leak_bind; [apply parse_numeric_no_leak'; exact Hw|]. intros [c n] _. apply no_leak_ok. Qed.

Lemma parse_eitem_no_leak tbl g w u : In w widths -> no_leak (parse_eitem tbl g w u).
Proof.
  intros Hw. unfold parse_eitem. pose proof (parse_enum_no_leak tbl w u Hw) as N.
  destruct (parse_enum tbl w u) as [[i n]|e]; [apply no_leak_ok|].
  destruct e; try (intros x; discriminate); try (intros x X; inversion X; subst; exact (N _ eq_refl)).
  destruct g as [gt|]; [|intros x; discriminate].
  apply no_leak_bind; [apply parse_invalid_no_leak; exact Hw|]. intros [ck n] _. apply no_leak_ok.
Qed.

Lemma derived_array_no_leak tbl g w fuel u : In w widths -> no_leak (derived_array (parse_eitem tbl g w) fuel u).
Proof.
  intros Hw. revert u. induction fuel as [|f IH]; intros u; destruct u as [|b r]; cbn [derived_array]; try apply no_leak_ok; try (intros e; discriminate).
  apply no_leak_bind; [apply parse_eitem_no_leak; exact Hw|]. intros [it n] _.
  apply no_leak_bind; [apply IH|]. intros rest _. apply no_leak_ok.
Qed.

Lemma parse_enum_vector_no_leak p tbl g w buf : In w widths -> In (vnum p) widths -> no_leak (parse_enum_vector p tbl g w buf).
Proof.
  intros Hw Hn. unfold parse_enum_vector. apply no_leak_bind; [apply parse_numeric_no_leak'; exact Hn|]. intros [len n0] _.
  destruct (len >? zlen buf - n0); [intros e; discriminate|].
  apply no_leak_bind; [apply derived_array_no_leak; exact Hw|]. intros items _.
  apply no_leak_bind; [|intros; apply no_leak_ok]. unfold check_bounds.
  destruct (_ <? vmin p); [intros e; discriminate|]. destruct (_ >? vmax p); intros e; discriminate.
Qed.

(* after "fix: reject an opaque enum value that is not valid in its encoding" *)
Lemma parse_opaque_enum_no_leak p tbl buf : In (vnum p) widths -> no_leak (parse_opaque_enum p tbl buf).
Proof.
  intros Hn. unfold parse_opaque_enum. apply no_leak_bind; [apply parse_numeric_no_leak'; exact Hn|]. intros [len n0] _.
  destruct (n0 + len >? zlen buf); [intros e; discriminate|].
  apply no_leak_bind.
  - unfold check_bounds. destruct (len <? vmin p); [intros e; discriminate|]. destruct (len >? vmax p); intros e; discriminate.
  - intros _ _. destruct (utf8_valid _); cbn [negb]; [|intros e; discriminate]. destruct (find_bytes tbl _ 0); intros e; discriminate.
Qed.

(* the pinned tree leaked IndexError here: a length of 3 with no data *)
Definition parse_ssh_mpint_orig (buf : bytes) (pos : Z) : result (Z * Z) :=
  if zlen buf - pos <? 4 then Err (NotEnoughData (4 - (zlen buf - pos)))
  else
    let* (len, n) := parse_numeric Network 4 buf pos in
    let* negative :=
       if len =? 0 then Ok false
       else match nth_error buf (Z.to_nat (pos + 4)) with Some b => Ok (128 <=? b2z b) | None => Err (Leak IndexError) end in
    let* v := parse_mpint_raw buf pos len 4 negative in Ok (v, n + len).
Lemma parse_ssh_mpint_orig_leaks : parse_ssh_mpint_orig [x00; x00; x00; x03] 0 = Err (Leak IndexError).
Proof. vm_compute. reflexivity. Qed.
