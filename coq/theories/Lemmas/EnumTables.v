(* Side conditions of the C10 lemmas, decided on the generated tables by vm_compute, and the instantiation
   of the generic lemmas at every generated factory and vector. *)
From Coq Require Import ZArith List Bool Lia String.
From Coq.Strings Require Import Byte.
From CP Require Import Core.Bytes Core.Result Core.Show Prim.Int Base.Enum Lemmas.IntLemmas Lemmas.EnumLemmas Lemmas.VersionOrder.
From CPGen Require Import Tables.
Import ListNotations.
Local Open Scope string_scope.
Open Scope Z_scope.

Definition widthb (w : Z) : bool := existsb (Z.eqb w) widths.
Lemma widthb_In w : widthb w = true -> In w widths.
Proof. unfold widthb. rewrite existsb_exists. intros [x [Hx E]]. apply Z.eqb_eq in E. subst. exact Hx. Qed.

Definition rangeb (w : Z) (c : Z) : bool := (0 <=? c) && (c <? 256 ^ w).
Lemma rangeb_Forall w l : forallb (rangeb w) l = true -> Forall (fun c => 0 <= c < 256 ^ w) l.
Proof.
  rewrite forallb_forall, Forall_forall. intros H x Hx. specialize (H x Hx). unfold rangeb in H.
  rewrite andb_true_iff, Z.leb_le, Z.ltb_lt in H. exact H.
Qed.

(* a factory table is well formed: supported width, codes fit the width, no two canonical members share a code *)
Definition table_ok (t : string * (Z * list Z)) : bool :=
  let '(_, (w, codes)) := t in widthb w && forallb (rangeb w) codes && nodupb codes.
Definition enum_tables_ok : bool := forallb table_ok enum_tables.
Lemma enum_tables_ok_true : enum_tables_ok = true.
Proof. vm_compute. reflexivity. Qed.

Lemma table_ok_spec n w codes : In (n, (w, codes)) enum_tables ->
  In w widths /\ Forall (fun c => 0 <= c < 256 ^ w) codes /\ NoDup codes.
Proof.
  intros H. pose proof enum_tables_ok_true as T. unfold enum_tables_ok in T. rewrite forallb_forall in T.
  specialize (T _ H). cbn [table_ok] in T. rewrite !andb_true_iff in T. destruct T as [[A B] C].
  split; [apply widthb_In; exact A|]. split; [apply rangeb_Forall; exact B|apply nodupb_NoDup; exact C].
Qed.

Fixpoint nodupsb (l : list string) : bool :=
  match l with [] => true | x :: r => negb (existsb (String.eqb x) r) && nodupsb r end.
Definition string_tables_ok : bool :=
  forallb (fun t => nodupsb (map snd (snd t))) opaque_enum_members
  && forallb (fun t => nodupsb (map snd (snd (snd t)))) ssh_name_lists.
Lemma string_tables_ok_true : string_tables_ok = true.
Proof. vm_compute. reflexivity. Qed.

(* every generated vector of coded enums refers to an existing factory, has a supported prefix width, the item
   width of its factory, a fallback of the same width, and a ceiling that fits its length prefix *)
Definition vector_ok (v : string * ((Z * Z * Z) * (string * Z * Z))) : bool :=
  let '(_, ((mn, mx, nm), (fac, g, w))) := v in
  widthb nm && (0 <=? mn) && (mn <=? mx) && (mx <? 256 ^ nm)
  && match find (fun t => String.eqb (fst t) fac) enum_tables with
     | Some (_, (w', _)) => (w =? w') && ((g =? 0) || (g =? w))
     | None => false
     end.
Definition enum_vectors_ok : bool := forallb vector_ok enum_vectors.
Lemma enum_vectors_ok_true : enum_vectors_ok = true.
Proof. vm_compute. reflexivity. Qed.

(* lookup functions shared with the runner *)
Definition enum_table (name : string) : Z * list Z :=
  match find (fun t => String.eqb (fst t) name) enum_tables with Some t => snd t | None => (0, []) end.
Definition grease_of (g : Z) : option (list Z) :=
  if g =? 1 then Some grease_one_byte else if g =? 2 then Some grease_two_byte else None.

Lemma find_In {A} (f : A -> bool) l x : find f l = Some x -> In x l.
Proof. induction l as [|y r IH]; cbn; [discriminate|]. destruct (f y); [intros H; inversion H; auto|auto]. Qed.

(* instantiation: every generated factory *)
Lemma factory_instance n w codes : In (n, (w, codes)) enum_tables ->
  (forall i c s, nth_error codes i = Some c ->
     exists b, compose_enum codes w i = Ok b /\ zlen b = w /\ parse_enum codes w (b ++ s)%list = Ok (i, w)) /\
  (forall buf i m, parse_enum codes w buf = Ok (i, m) ->
     m = w /\ w <= zlen buf /\ nth_error codes i = Some (be_val (firstn (Z.to_nat w) buf)) /\
     compose_enum codes w i = Ok (firstn (Z.to_nat w) buf)) /\
  (forall buf, (exists i, parse_enum codes w buf = Ok (i, w)) \/
     (parse_enum codes w buf = Err InvalidValue /\ w <= zlen buf /\ ~ In (be_val (firstn (Z.to_nat w) buf)) codes) \/
     (parse_enum codes w buf = Err (NotEnoughData (w - zlen buf)) /\ zlen buf < w)).
Proof.
  intros H. destruct (table_ok_spec n w codes H) as [Hw [Hr Hn]]. split; [|split].
  - intros i c s Hi. exact (enum_roundtrip codes w Hw Hr i c s Hn Hi).
  - intros buf i m. exact (parse_enum_sound codes w Hw buf i m).
  - intros buf. exact (parse_enum_outcomes codes w Hw buf).
Qed.

(* instantiation: every generated vector of coded enums *)
Lemma vector_instance n mn mx nm fac g w : In (n, ((mn, mx, nm), (fac, g, w))) enum_vectors ->
  forall buf items k,
    parse_enum_vector {| vmin := mn; vmax := mx; vnum := nm |} (snd (enum_table fac)) (grease_of g) w buf = Ok (items, k) ->
    compose_enum_vector {| vmin := mn; vmax := mx; vnum := nm |} (snd (enum_table fac)) w items = Ok (firstn (Z.to_nat k) buf)
    /\ k <= zlen buf /\ zlen items * w = k - nm /\ mn <= k - nm <= mx.
Proof.
  intros H buf items k P. pose proof enum_vectors_ok_true as T. unfold enum_vectors_ok in T. rewrite forallb_forall in T.
  specialize (T _ H). cbn [vector_ok] in T. unfold enum_table in *.
  destruct (find (fun t => String.eqb (fst t) fac) enum_tables) as [[n' [w' codes]]|] eqn:F.
  2: { rewrite !andb_true_iff in T. destruct T as [_ T]. discriminate. }
  rewrite !andb_true_iff in T. destruct T as [[[[A _] _] _] [E _]]. apply Z.eqb_eq in E. subst w'.
  apply find_In in F. destruct (table_ok_spec _ _ _ F) as [Hw [Hr _]]. cbn [snd] in *.
  exact (enum_vector_verbatim codes (grease_of g) w Hw {| vmin := mn; vmax := mx; vnum := nm |} (widthb_In _ A) buf items k P).
Qed.
