(* The separator-list tokeniser does work linear in the text: at most 7 steps per byte plus 3, whatever the text (runs of
   separators, runs of blanks, empty items, no separator at all), and it never runs out of the fuel its caller provides. *)
From Coq Require Import ZArith List Bool Lia.
From Coq.Strings Require Import Byte.
From CP Require Import Core.Bytes Core.Result Text.Field Text.FieldCost.
Import ListNotations.
Open Scope Z_scope.
Local Arguments Z.mul : simpl never.
Local Arguments Z.add : simpl never.
Local Arguments Z.sub : simpl never.

Lemma take_until_split s l : l = fst (take_until s l) ++ snd (take_until s l).
Proof.
  induction l as [|c r IH]; [reflexivity|]. cbn [take_until]. destruct (Byte.eqb c s); [reflexivity|].
  destruct (take_until s r) as [a b]. cbn [fst snd] in *. cbn [app]. f_equal. exact IH.
Qed.

Lemma take_until_steps_eq s l : take_until_steps s l = zlen (fst (take_until s l)) + 1.
Proof.
  induction l as [|c r IH]; [reflexivity|]. cbn [take_until take_until_steps]. destruct (Byte.eqb c s); [reflexivity|].
  destruct (take_until s r) as [a b]. cbn [fst] in *. rewrite zlen_cons. lia.
Qed.

(* what follows the item starts with the separator (or is empty) *)
Lemma take_until_rest s l c r : snd (take_until s l) = c :: r -> Byte.eqb c s = true.
Proof.
  induction l as [|d t IH]; [discriminate|]. cbn [take_until]. destruct (Byte.eqb d s) eqn:E.
  - cbn [snd]. intros H. injection H as <- _. exact E.
  - destruct (take_until s t) as [a b]. cbn [snd] in *. exact IH.
Qed.

Lemma skip_sep_steps_le s l : skip_sep_steps s l <= zlen l - zlen (skip_sep s l) + 1.
Proof.
  induction l as [|c r IH]; [cbn; lia|]. cbn [skip_sep skip_sep_steps]. destruct (Byte.eqb c s).
  - rewrite zlen_cons. lia.
  - lia.
Qed.
Lemma skip_ws_steps_le l : skip_ws_steps l <= zlen l - zlen (skip_ws l) + 1.
Proof.
  induction l as [|c r IH]; [cbn; lia|]. cbn [skip_ws skip_ws_steps]. destruct (is_ws c).
  - rewrite zlen_cons. lia.
  - lia.
Qed.
Lemma skip_sep_shorter s l : zlen (skip_sep s l) <= zlen l.
Proof. induction l as [|c r IH]; [cbn; lia|]. cbn [skip_sep]. destruct (Byte.eqb c s); rewrite ?zlen_cons; lia. Qed.
Lemma skip_ws_shorter l : zlen (skip_ws l) <= zlen l.
Proof. induction l as [|c r IH]; [cbn; lia|]. cbn [skip_ws]. destruct (is_ws c); rewrite ?zlen_cons; lia. Qed.

Lemma tokens_steps_linear fuel s l : tokens_steps fuel s l <= 7 * zlen l + 3.
Proof.
  revert l. induction fuel as [|f IH]; intros l; [cbn [tokens_steps]; pose proof (zlen_nonneg l); lia|].
  cbn [tokens_steps]. pose proof (take_until_split s l) as Sp. pose proof (take_until_steps_eq s l) as St.
  pose proof (take_until_rest s l) as Hr.
  destruct (take_until s l) as [raw rest]. cbn [fst snd] in *. unfold rstrip_steps.
  assert (Ll : zlen l = zlen raw + zlen rest) by (rewrite Sp at 1; apply zlen_app).
  pose proof (zlen_nonneg raw) as L0.
  destruct rest as [|c r]; [change (zlen (@nil byte)) with 0 in Ll; lia|].
  specialize (Hr c r eq_refl).
  pose proof (skip_sep_steps_le s (c :: r)) as A. pose proof (skip_ws_steps_le (skip_sep s (c :: r))) as B.
  assert (C : zlen (skip_sep s (c :: r)) <= zlen r).
  { cbn [skip_sep]. rewrite Hr. apply skip_sep_shorter. }
  pose proof (skip_ws_shorter (skip_sep s (c :: r))) as D. rewrite zlen_cons in *.
  destruct (skip_ws (skip_sep s (c :: r))) as [|x r2] eqn:E2.
  - change (zlen (@nil byte)) with 0 in *. pose proof (zlen_nonneg (skip_sep s (c :: r))). pose proof (zlen_nonneg r). lia.
  - specialize (IH (x :: r2)). pose proof (zlen_nonneg (skip_sep s (c :: r))). lia.
Qed.

(* the caller's fuel (length of the text + 1) is never exhausted *)
Lemma tokens_fuel_enough fuel s l : (length l < fuel)%nat -> tokens_fuel fuel s l <> Err OutOfFuel.
Proof.
  revert l. induction fuel as [|f IH]; intros l Hl; [lia|].
  cbn [tokens_fuel]. pose proof (take_until_split s l) as Sp. pose proof (take_until_rest s l) as Hr.
  destruct (take_until s l) as [raw rest]. cbn [fst snd] in *.
  destruct rest as [|c r]; [discriminate|]. specialize (Hr c r eq_refl).
  destruct (skip_ws (skip_sep s (c :: r))) as [|x r2] eqn:E2; [discriminate|].
  assert (Lr : (length (x :: r2) < f)%nat).
  { pose proof (skip_ws_shorter (skip_sep s (c :: r))) as D. rewrite E2 in D.
    assert (C : zlen (skip_sep s (c :: r)) <= zlen r) by (cbn [skip_sep]; rewrite Hr; apply skip_sep_shorter).
    assert (Ll : length l = (length raw + length (c :: r))%nat) by (rewrite Sp at 1; apply app_length).
    unfold zlen in *. cbn [length] in *. lia. }
  specialize (IH (x :: r2) Lr). destruct (tokens_fuel f s (x :: r2)) as [t|e]; cbn [bind]; [discriminate|].
  intros H. apply IH. injection H as ->. reflexivity.
Qed.

Lemma tokens_never_out_of_fuel s l : tokens s l <> Err OutOfFuel.
Proof.
  unfold tokens. apply tokens_fuel_enough. pose proof (skip_ws_shorter l) as D. unfold zlen in D. lia.
Qed.

(* the whole call: the leading blanks are skipped once, then the loop *)
Definition tokens_total_steps (s : byte) (l : bytes) : Z := skip_ws_steps l + tokens_steps (S (length l)) s (skip_ws l).
Lemma tokens_total_linear s l : tokens_total_steps s l <= 7 * zlen l + 4.
Proof.
  unfold tokens_total_steps. pose proof (skip_ws_steps_le l) as A. pose proof (tokens_steps_linear (S (length l)) s (skip_ws l)) as B.
  pose proof (skip_ws_shorter l) as C. pose proof (zlen_nonneg (skip_ws l)). lia.
Qed.
