(* The converse of Lemmas/PLLemmas.v: the vectors of the TLS presentation language (RFC 5246 section 4.3) have one spelling
   only - whatever dec_opaque / dec_uint_vec accept is exactly what enc_opaque / enc_uint_vec write for the value returned,
   followed by what was left.  So decode-then-encode gives the received octets back, for every buffer. *)
From Coq Require Import ZArith List Bool Lia.
From CP Require Import Core.Bytes Spec.PL Lemmas.PLLemmas Lemmas.SshMsgInverse.
Import ListNotations.
Open Scope Z_scope.
Local Arguments Z.mul : simpl never.
Local Arguments Z.add : simpl never.
Local Arguments Z.sub : simpl never.
Local Arguments Z.pow : simpl never.

Lemma dec_opaque_inv lo hi b d r : dec_opaque lo hi b = Some (d, r) ->
  exists e, enc_opaque lo hi d = Some e /\ b = e ++ r.
Proof.
  unfold dec_opaque, enc_opaque. destruct (dec_uint (width_of_ceiling hi) b) as [[n t]|] eqn:E; [|discriminate].
  apply dec_uint_inv in E. destruct E as [-> Hn].
  destruct ((lo <=? n) && (n <=? hi) && (n <=? zlen t)) eqn:C; [|discriminate].
  apply andb_true_iff in C. destruct C as [C C3]. apply andb_true_iff in C. destruct C as [C1 C2].
  rewrite Z.leb_le in C1, C2, C3. intros H. injection H as <- <-.
  assert (L : zlen (firstn (Z.to_nat n) t) = n).
  { unfold zlen in *. rewrite firstn_length_le by lia. lia. }
  rewrite L. destruct (Z.leb_spec lo n); [|lia]. destruct (Z.leb_spec n hi); [|lia]. cbn [andb].
  eexists. split; [reflexivity|]. rewrite <- app_assoc. rewrite firstn_skipn. reflexivity.
Qed.

Lemma dec_items_inv w : forall fuel b l, (0 < w)%nat -> dec_items w fuel b = Some l ->
  b = enc_items w l /\ Forall (fun z => 0 <= z < 256 ^ Z.of_nat w) l.
Proof.
  induction fuel as [|f IH]; intros b l Hw H.
  - destruct b; [|discriminate]. cbn [dec_items] in H. injection H as <-. split; [reflexivity|constructor].
  - destruct b as [|x b'].
    + cbn [dec_items] in H. injection H as <-. split; [reflexivity|constructor].
    + cbn [dec_items] in H. destruct (dec_uint w (x :: b')) as [[z t]|] eqn:E; [|discriminate].
      destruct (dec_items w f t) as [l'|] eqn:E'; [|discriminate]. injection H as <-.
      apply dec_uint_inv in E. destruct E as [E Hz]. apply IH in E'; [|exact Hw]. destruct E' as [-> Hl].
      split; [|constructor; assumption]. unfold enc_items. cbn [map concat]. exact E.
Qed.

Lemma dec_uint_vec_inv w lo hi b l r : (0 < w)%nat -> dec_uint_vec w lo hi b = Some (l, r) ->
  exists e, enc_uint_vec w lo hi l = Some e /\ b = e ++ r /\ Forall (fun z => 0 <= z < 256 ^ Z.of_nat w) l.
Proof.
  intros Hw. unfold dec_uint_vec, enc_uint_vec. destruct (dec_opaque lo hi b) as [[body t]|] eqn:E; [|discriminate].
  destruct (dec_items w (S (length body)) body) as [l'|] eqn:E'; [|discriminate]. intros H. injection H as <- <-.
  apply dec_items_inv in E'; [|exact Hw]. destruct E' as [-> Hl].
  apply dec_opaque_inv in E. destruct E as [e [He ->]]. exists e. auto.
Qed.

(* not vacuous: a two-element uint16 vector under a one-octet length *)
Example uint_vec_inverse_example :
  dec_uint_vec 2 2 254 (map z2b [4; 0; 5; 192; 47; 9]) = Some ([5; 49199], [z2b 9]) /\
  enc_uint_vec 2 2 254 [5; 49199] = Some (map z2b [4; 0; 5; 192; 47]).
Proof. split; vm_compute; reflexivity. Qed.
