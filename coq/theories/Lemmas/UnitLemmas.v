(* The framing units of Frame/Units.v satisfy the hypotheses of the generic LV-frame lemmas. *)
From Coq Require Import ZArith List Bool Lia String.
From CP Require Import Core.Bytes Core.Result Prim.Int Frame.LVFrame Frame.Units.
From CP Require Import Lemmas.SliceLemmas Lemmas.IntLemmas Lemmas.LVFrameLemmas Lemmas.EnumTables.
From CPGen Require Import Tables.
Import ListNotations.
Open Scope Z_scope.
Local Arguments Z.mul : simpl never.
Local Arguments Z.add : simpl never.
Local Arguments Z.sub : simpl never.
Local Arguments Z.pow : simpl never.
Local Arguments Z.div : simpl never.

Definition always {A} (_ : A) : Prop := True.

Lemma memz_In x l : memz x l = true -> In x l.
Proof. unfold memz. rewrite existsb_exists. intros [y [Hy E]]. apply Z.eqb_eq in E. subst. exact Hy. Qed.

Lemma slice_mid (p b s : bytes) a e : zlen p = a -> zlen b = e - a -> slice (p ++ b ++ s) a e = b.
Proof. intros <- Hb. replace e with (zlen p + zlen b) by lia. apply slice_app_exact. Qed.

Lemma slice_mid_last (p b : bytes) a e : zlen p = a -> zlen b = e - a -> slice (p ++ b) a e = b.
Proof. intros Hp Hb. rewrite <- (app_nil_r b) at 1. apply slice_mid; assumption. Qed.

Lemma slice_first (b s : bytes) e : zlen b = e -> slice (b ++ s) 0 e = b.
Proof. intros Hb. apply (slice_mid [] b s 0 e); [reflexivity|lia]. Qed.

Lemma zlen_be_enc n z : zlen (be_enc n z) = Z.of_nat n.
Proof. unfold zlen. rewrite be_enc_length. reflexivity. Qed.

Lemma zlen_le_enc n z : zlen (le_enc n z) = Z.of_nat n.
Proof. unfold zlen. rewrite le_enc_length. reflexivity. Qed.

Lemma byte_at_0_be1 z r : 0 <= z < 256 -> byte_at (be_enc 1 z ++ r) 0 = z.
Proof.
  intros H. cbn [be_enc app byte_at nth_error]. rewrite b2z_z2b. change (256 ^ Z.of_nat 0) with 1.
  rewrite Z.div_1_r. apply Z.mod_small. exact H.
Qed.

Lemma be_val_be_enc n z : 0 <= z < 256 ^ Z.of_nat n -> be_val (be_enc n z) = z.
Proof. apply be_enc_small_roundtrip. Qed.

Lemma be_val_nonneg l : 0 <= be_val l.
Proof. pose proof (be_val_range l). lia. Qed.

Lemma le_val_nonneg l : 0 <= le_val l.
Proof. unfold le_val. apply be_val_nonneg. Qed.

(* side conditions on the generated tables used by the units *)
Definition unit_tables_ok : bool :=
  forallb (fun c => (0 <=? c) && (c <? 256)) content_types && forallb (fun c => (0 <=? c) && (c <? 256)) handshake_types
  && forallb (fun c => (0 <=? c) && (c <? 65536)) tls_versions
  && negb (Nat.eqb (List.length content_types) 0) && negb (Nat.eqb (List.length handshake_types) 0) && negb (Nat.eqb (List.length tls_versions) 0).
Lemma unit_tables_ok_true : unit_tables_ok = true.
Proof. vm_compute. reflexivity. Qed.

Lemma in_range_of (l : list Z) hi x : forallb (fun c => (0 <=? c) && (c <? hi)) l = true -> In x l -> 0 <= x < hi.
Proof. rewrite forallb_forall. intros H I. specialize (H x I). rewrite andb_true_iff, Z.leb_le, Z.ltb_lt in H. exact H. Qed.

Lemma content_type_range x : In x content_types -> 0 <= x < 256.
Proof.
  pose proof unit_tables_ok_true as T. unfold unit_tables_ok in T. rewrite !andb_true_iff in T.
  destruct T as [[[[[A _] _] _] _] _]. exact (in_range_of _ _ _ A).
Qed.
Lemma handshake_type_range x : In x handshake_types -> 0 <= x < 256.
Proof.
  pose proof unit_tables_ok_true as T. unfold unit_tables_ok in T. rewrite !andb_true_iff in T.
  destruct T as [[[[[_ A] _] _] _] _]. exact (in_range_of _ _ _ A).
Qed.
Lemma tls_version_range x : In x tls_versions -> 0 <= x < 65536.
Proof.
  pose proof unit_tables_ok_true as T. unfold unit_tables_ok in T. rewrite !andb_true_iff in T.
  destruct T as [[[[_ A] _] _] _]. exact (in_range_of _ _ _ A).
Qed.

(* ---- TlsRecord ---------------------------------------------------------------------------------------- *)
Lemma tls_record_plen_nonneg h v : tls_record_check h = Ok v -> 0 <= tls_record_plen h.
Proof. intros _. apply be_val_nonneg. Qed.

Lemma tls_record_mk_spec v n h : 0 <= n -> tls_record_mk v n = Ok h ->
  zlen h = 5 /\ tls_record_check h = Ok v /\ tls_record_plen h = n.
Proof.
  destruct v as [ct ver]. unfold tls_record_mk. cbn [fst snd]. intros Hn.
  destruct (memz ct content_types) eqn:M1; cbn [andb negb]; [|discriminate].
  destruct (memz ver tls_versions) eqn:M2; cbn [negb]; [|discriminate].
  destruct (Z.leb_spec 65536 n); [discriminate|]. intros HH; apply Ok_inj in HH; subst h.
  pose proof (content_type_range _ (memz_In _ _ M1)) as R1. pose proof (tls_version_range _ (memz_In _ _ M2)) as R2.
  split; [rewrite !zlen_app, !zlen_be_enc; reflexivity|].
  unfold tls_record_check, tls_record_plen.
  rewrite byte_at_0_be1 by assumption.
  rewrite (slice_mid (be_enc 1 ct) (be_enc 2 ver) (be_enc 2 n) 1 3) by (rewrite zlen_be_enc; reflexivity).
  rewrite (app_assoc (be_enc 1 ct)).
  rewrite (slice_mid_last (be_enc 1 ct ++ be_enc 2 ver) (be_enc 2 n) 3 5) by (rewrite ?zlen_app, !zlen_be_enc; reflexivity).
  rewrite !be_val_be_enc by (change (256 ^ Z.of_nat 2) with 65536; lia).
  rewrite M1, M2. cbn [negb]. split; reflexivity.
Qed.

Lemma tls_record_check_noleak h e : tls_record_check h <> Err (Leak e).
Proof. unfold tls_record_check. destruct (memz _ content_types); cbn [negb]; [|discriminate]. destruct (memz _ tls_versions); discriminate. Qed.

(* ---- handshake header ----------------------------------------------------------------------------------- *)
Lemma handshake_plen_nonneg ty h v : handshake_check ty h = Ok v -> 0 <= handshake_plen h.
Proof. intros _. apply be_val_nonneg. Qed.

Lemma handshake_mk_spec ty v n h : 0 <= n -> handshake_mk ty v n = Ok h ->
  zlen h = 4 /\ handshake_check ty h = Ok v /\ handshake_plen h = n.
Proof.
  destruct v. unfold handshake_mk. intros Hn. destruct (memz ty handshake_types) eqn:M; cbn [negb]; [|discriminate].
  destruct (Z.leb_spec 16777216 n); [discriminate|]. intros HH; apply Ok_inj in HH; subst h.
  pose proof (handshake_type_range _ (memz_In _ _ M)) as R.
  split; [rewrite zlen_app, !zlen_be_enc; reflexivity|].
  unfold handshake_check, handshake_plen. rewrite byte_at_0_be1 by assumption. rewrite M, Z.eqb_refl. cbn [negb].
  split; [reflexivity|].
  rewrite (slice_mid_last (be_enc 1 ty) (be_enc 3 n) 1 4) by (rewrite zlen_be_enc; reflexivity).
  apply be_val_be_enc. change (256 ^ Z.of_nat 3) with 16777216. lia.
Qed.

Lemma handshake_check_noleak ty h e : handshake_check ty h <> Err (Leak e).
Proof. unfold handshake_check. destruct (memz _ handshake_types); cbn [negb]; [|discriminate]. destruct (_ =? ty); discriminate. Qed.

(* ---- MySQLRecord ---------------------------------------------------------------------------------------- *)
Lemma mysql_plen_nonneg h v : mysql_check h = Ok v -> 0 <= mysql_plen h.
Proof. intros _. apply le_val_nonneg. Qed.

Lemma byte_at_after (p : bytes) x r k : List.length p = k -> byte_at (p ++ x :: r) k = b2z x.
Proof. intros <-. unfold byte_at. rewrite nth_error_app2 by lia. rewrite Nat.sub_diag. reflexivity. Qed.

Lemma mysql_mk_spec v n h : 0 <= n -> mysql_mk v n = Ok h -> zlen h = 4 /\ mysql_check h = Ok v /\ mysql_plen h = n.
Proof.
  unfold mysql_mk. intros Hn. destruct (Z.leb_spec 16777216 n); [discriminate|].
  destruct (Z.ltb_spec v 0); cbn [orb]; [discriminate|]. destruct (Z.leb_spec 256 v); [discriminate|].
  intros HH; apply Ok_inj in HH; subst h.
  split; [rewrite zlen_app, zlen_le_enc, zlen_be_enc; reflexivity|]. unfold mysql_check, mysql_plen. split.
  - f_equal. cbn [be_enc]. rewrite (byte_at_after (le_enc 3 n) _ [] 3) by apply le_enc_length.
    rewrite b2z_z2b. change (256 ^ Z.of_nat 0) with 1. rewrite Z.div_1_r. apply Z.mod_small. lia.
  - rewrite (slice_first (le_enc 3 n) (be_enc 1 v) 3) by (rewrite zlen_le_enc; reflexivity).
    unfold le_val, le_enc. rewrite rev_involutive. apply be_val_be_enc. change (256 ^ Z.of_nat 3) with 16777216. lia.
Qed.

Lemma mysql_check_noleak h e : mysql_check h <> Err (Leak e).
Proof. discriminate. Qed.

(* ---- TPKT ------------------------------------------------------------------------------------------------ *)
Lemma tpkt_plen_nonneg h v : tpkt_check h = Ok v -> 0 <= tpkt_plen h.
Proof.
  unfold tpkt_check, tpkt_plen. destruct (byte_at h 0 =? 3); cbn [negb]; [|discriminate].
  destruct (Z.ltb_spec (be_val (slice h 2 4)) 4); [discriminate|]. intros _. lia.
Qed.

(* the parser only accepts version 3: the round trip is stated for that version (see DESIGN.md, findings) *)
Lemma tpkt_mk_spec v n h : v = 3 -> 0 <= n -> tpkt_mk v n = Ok h -> zlen h = 4 /\ tpkt_check h = Ok v /\ tpkt_plen h = n.
Proof.
  intros -> Hn. unfold tpkt_mk. cbn [Z.ltb Z.leb orb Z.compare Pos.compare Pos.compare_cont].
  destruct (Z.leb_spec 65536 (n + 4)); [discriminate|]. intros HH; apply Ok_inj in HH; subst h.
  split; [rewrite !zlen_app, !zlen_be_enc; reflexivity|]. unfold tpkt_check, tpkt_plen.
  assert (B0 : byte_at (be_enc 1 3 ++ [z2b 0] ++ be_enc 2 (n + 4)) 0 = 3) by (apply byte_at_0_be1; lia).
  rewrite B0. cbn [Z.eqb Pos.eqb negb].
  assert (S : slice (be_enc 1 3 ++ [z2b 0] ++ be_enc 2 (n + 4)) 2 4 = be_enc 2 (n + 4)).
  { rewrite app_assoc. apply slice_mid_last; [reflexivity|rewrite zlen_be_enc; reflexivity]. }
  rewrite S, be_val_be_enc by (change (256 ^ Z.of_nat 2) with 65536; lia).
  destruct (Z.ltb_spec (n + 4) 4); [lia|]. split; [reflexivity|lia].
Qed.

Lemma tpkt_check_noleak h e : tpkt_check h <> Err (Leak e).
Proof. unfold tpkt_check. destruct (_ =? 3); cbn [negb]; [|discriminate]. destruct (_ <? 4); discriminate. Qed.

(* ---- OpenVPN TCP wrapper ------------------------------------------------------------------------------ *)
Lemma ovpn_plen_nonneg h v : ovpn_check h = Ok v -> 0 <= ovpn_plen h.
Proof. intros _. apply be_val_nonneg. Qed.
Lemma ovpn_mk_spec v n h : 0 <= n -> ovpn_mk v n = Ok h -> zlen h = 2 /\ ovpn_check h = Ok v /\ ovpn_plen h = n.
Proof.
  destruct v. unfold ovpn_mk. intros Hn. destruct (Z.leb_spec 65536 n); [discriminate|]. intros HH; apply Ok_inj in HH; subst h.
  split; [apply zlen_be_enc|]. split; [reflexivity|]. unfold ovpn_plen. apply be_val_be_enc. change (256 ^ Z.of_nat 2) with 65536. lia.
Qed.
Lemma ovpn_check_noleak h e : ovpn_check h <> Err (Leak e).
Proof. discriminate. Qed.

(* ---- PostgreSQL ---------------------------------------------------------------------------------------- *)
Lemma zero_plen_nonneg {V} (chk : bytes -> result V) h v : chk h = Ok v -> 0 <= zero_plen h.
Proof. intros _. unfold zero_plen. lia. Qed.
Lemma pg_sslrequest_mk_spec v n h : 0 <= n -> pg_sslrequest_mk v n = Ok h ->
  zlen h = 8 /\ pg_sslrequest_check h = Ok v /\ zero_plen h = n.
Proof.
  destruct v. unfold pg_sslrequest_mk. intros _. destruct (Z.eqb_spec n 0); [|discriminate]. intros HH; apply Ok_inj in HH; subst.
  split; [reflexivity|]. split; [vm_compute; reflexivity|reflexivity].
Qed.
Lemma pg_sslrequest_check_noleak h e : pg_sslrequest_check h <> Err (Leak e).
Proof. unfold pg_sslrequest_check. destruct (_ =? 8); cbn [negb]; [|discriminate]. destruct (_ =? 80877103); discriminate. Qed.
Lemma pg_sync_mk_spec v n h : 0 <= n -> pg_sync_mk v n = Ok h -> zlen h = 1 /\ pg_sync_check h = Ok v /\ zero_plen h = n.
Proof.
  destruct v. unfold pg_sync_mk. intros _. destruct (Z.eqb_spec n 0); [|discriminate]. intros HH; apply Ok_inj in HH; subst.
  split; [reflexivity|]. split; [vm_compute; reflexivity|reflexivity].
Qed.
Lemma pg_sync_check_noleak h e : pg_sync_check h <> Err (Leak e).
Proof. unfold pg_sync_check. destruct (_ =? 83); discriminate. Qed.

(* ---- compose is total on parser output (needed for C05) ---------------------------------------------- *)
Lemma slice_val_bound (h : bytes) a b : 0 <= a <= b -> b <= zlen h -> 0 <= be_val (slice h a b) < 256 ^ (b - a).
Proof. intros H1 H2. pose proof (be_val_range (slice h a b)) as R. rewrite slice_length in R by assumption. exact R. Qed.

Lemma byte_at_bound h i : 0 <= byte_at h i < 256.
Proof. unfold byte_at. destruct (nth_error h i); [apply b2z_range|lia]. Qed.

Lemma tls_record_mk_total h v : zlen h = 5 -> tls_record_check h = Ok v -> always v /\ exists h', tls_record_mk v (tls_record_plen h) = Ok h'.
Proof.
  intros L. unfold tls_record_check. destruct (memz (byte_at h 0) content_types) eqn:M1; cbn [negb]; [|discriminate].
  destruct (memz (be_val (slice h 1 3)) tls_versions) eqn:M2; cbn [negb]; [|discriminate]. intros Q; apply Ok_inj in Q; subst v.
  split; [exact I|]. unfold tls_record_mk, tls_record_plen. cbn [fst snd]. rewrite M1, M2. cbn [andb negb].
  pose proof (slice_val_bound h 3 5 ltac:(lia) ltac:(lia)) as B. change (256 ^ (5 - 3)) with 65536 in B.
  destruct (Z.leb_spec 65536 (be_val (slice h 3 5))); [lia|]. eauto.
Qed.

Lemma handshake_mk_total ty h v : zlen h = 4 -> handshake_check ty h = Ok v -> always v /\ exists h', handshake_mk ty v (handshake_plen h) = Ok h'.
Proof.
  intros L. unfold handshake_check. destruct (memz (byte_at h 0) handshake_types) eqn:M; cbn [negb]; [|discriminate].
  destruct (Z.eqb_spec (byte_at h 0) ty) as [E|E]; cbn [negb]; [|discriminate]. intros _. split; [exact I|].
  unfold handshake_mk, handshake_plen. rewrite <- E, M. cbn [negb].
  pose proof (slice_val_bound h 1 4 ltac:(lia) ltac:(lia)) as B. change (256 ^ (4 - 1)) with 16777216 in B.
  destruct (Z.leb_spec 16777216 (be_val (slice h 1 4))); [lia|]. eauto.
Qed.

Lemma mysql_mk_total h v : zlen h = 4 -> mysql_check h = Ok v -> always v /\ exists h', mysql_mk v (mysql_plen h) = Ok h'.
Proof.
  intros L Q. apply Ok_inj in Q. subst v. split; [exact I|]. unfold mysql_mk, mysql_plen, le_val.
  pose proof (be_val_range (rev (slice h 0 3))) as B. unfold zlen in B. rewrite rev_length in B.
  pose proof (slice_length h 0 3 ltac:(lia) ltac:(lia)) as SL. unfold zlen in SL. rewrite SL in B. change (256 ^ (3 - 0)) with 16777216 in B.
  destruct (Z.leb_spec 16777216 (be_val (rev (slice h 0 3)))); [lia|].
  pose proof (byte_at_bound h 3). destruct (Z.ltb_spec (byte_at h 3) 0); [lia|]. destruct (Z.leb_spec 256 (byte_at h 3)); [lia|]. cbn [orb]. eauto.
Qed.

Lemma tpkt_mk_total h v : zlen h = 4 -> tpkt_check h = Ok v -> v = 3 /\ exists h', tpkt_mk v (tpkt_plen h) = Ok h'.
Proof.
  intros L. unfold tpkt_check. destruct (Z.eqb_spec (byte_at h 0) 3) as [E|E]; cbn [negb]; [|discriminate].
  destruct (Z.ltb_spec (be_val (slice h 2 4)) 4); [discriminate|]. intros Q; apply Ok_inj in Q; subst v. split; [exact E|].
  unfold tpkt_mk, tpkt_plen. rewrite E. cbn [Z.ltb Z.leb orb Z.compare Pos.compare Pos.compare_cont].
  pose proof (slice_val_bound h 2 4 ltac:(lia) ltac:(lia)) as B. change (256 ^ (4 - 2)) with 65536 in B.
  destruct (Z.leb_spec 65536 (be_val (slice h 2 4) - 4 + 4)); [lia|]. eauto.
Qed.

Lemma ovpn_mk_total h v : zlen h = 2 -> ovpn_check h = Ok v -> always v /\ exists h', ovpn_mk v (ovpn_plen h) = Ok h'.
Proof.
  intros L _. split; [exact I|]. unfold ovpn_mk, ovpn_plen. pose proof (be_val_range h) as B. rewrite L in B. change (256 ^ 2) with 65536 in B.
  destruct (Z.leb_spec 65536 (be_val h)); [lia|]. eauto.
Qed.

Lemma pg_sslrequest_mk_total h v : zlen h = 8 -> pg_sslrequest_check h = Ok v -> always v /\ exists h', pg_sslrequest_mk v (zero_plen h) = Ok h'.
Proof. intros _ _. split; [exact I|]. unfold pg_sslrequest_mk, zero_plen. cbn. eauto. Qed.
Lemma pg_sync_mk_total h v : zlen h = 1 -> pg_sync_check h = Ok v -> always v /\ exists h', pg_sync_mk v (zero_plen h) = Ok h'.
Proof. intros _ _. split; [exact I|]. unfold pg_sync_mk, zero_plen. cbn. eauto. Qed.
