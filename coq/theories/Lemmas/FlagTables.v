(* side condition of the flag lemmas, decided on the generated flag tables *)
From Coq Require Import ZArith List Bool String.
From CP Require Import Lemmas.IntLemmas.
From CPGen Require Import Tables.
Local Open Scope string_scope.

Definition flag_tables_ok : bool :=
  forallb (fun t => String.eqb (fst t) "RDPProtocol" || forallb single_bitb (snd t)) flag_tables.
Lemma flag_tables_ok_true : flag_tables_ok = true.
Proof. vm_compute. reflexivity. Qed.
