(* The lemma families of every framing unit, and the reader theorem instantiated through them. *)
From Coq Require Import ZArith List Bool Lia.
From CP Require Import Core.Bytes Core.Result Prim.Int Frame.LVFrame Frame.Units Frame.Entry Reader.Reader.
From CP Require Import Lemmas.SliceLemmas Lemmas.LVFrameLemmas Lemmas.UnitLemmas Lemmas.ReaderLemmas Lemmas.EntryLemmas.
Import ListNotations.
Open Scope Z_scope.

(* what C01/C02/C03/C04 ask of a framing unit *)
Definition frame_unit_ok {hv : Type} (parse : bytes -> result ((hv * bytes) * Z)) (compose : hv * bytes -> result bytes)
    (okv : hv -> Prop) (declared : bytes -> Z) : Prop :=
  (* rt: composed bytes parse back, whatever follows, consuming exactly the composed bytes *)
  (forall x b s, okv (fst x) -> compose x = Ok b -> parse (b ++ s) = Ok (x, zlen b)) /\
  (* len: 0 < n <= len(buffer), and n is the length the header declares *)
  (forall buf x n, parse buf = Ok (x, n) -> 0 < n <= zlen buf /\ n = declared buf) /\
  (* delim: the result depends only on the first n bytes *)
  (forall buf x n s, parse buf = Ok (x, n) -> parse (firstn (Z.to_nat n) buf ++ s) = Ok (x, n)) /\
  (* prefix: a proper prefix is rejected with NotEnoughData m, 1 <= m <= bytes really missing *)
  (forall x b k, okv (fst x) -> compose x = Ok b -> 0 <= k < zlen b ->
     exists m, parse (firstn (Z.to_nat k) b) = Err (NotEnoughData m) /\ 1 <= m <= zlen b - k) /\
  (* noleak: no undocumented exception for any buffer *)
  (forall buf e, parse buf <> Err (Leak e)).

Section Generic.
  Variable hv : Type.
  Variable H : Z.
  Variable hdr_check : bytes -> result hv.
  Variable plen : bytes -> Z.
  Variable mk_hdr : hv -> Z -> result bytes.
  Variable okv : hv -> Prop.
  Hypothesis H_pos : 0 < H.
  Hypothesis plen_nonneg : forall h v, hdr_check h = Ok v -> 0 <= plen h.
  Hypothesis mk_hdr_spec : forall v n h, okv v -> 0 <= n -> mk_hdr v n = Ok h -> zlen h = H /\ hdr_check h = Ok v /\ plen h = n.
  Hypothesis check_noleak : forall h e, hdr_check h <> Err (Leak e).

  Lemma lv_unit_ok : frame_unit_ok (lv_parse hv H hdr_check plen) (lv_compose hv mk_hdr) okv (lv_declared H plen).
  Proof.
    unfold frame_unit_ok. split; [|split; [|split; [|split]]].
    - intros x b s Hv C. eapply lv_roundtrip; eauto.
    - intros buf x n P. edestruct lv_length as [A [B _]]; eauto.
    - intros buf x n s P. eapply lv_delimited; eauto.
    - intros x b k Hv C Hk. eapply lv_prefix; eauto.
    - intros buf e. apply lv_noleak. exact check_noleak.
  Qed.
End Generic.


Lemma tls_record_unit : frame_unit_ok parse_tls_record compose_tls_record always (lv_declared 5 tls_record_plen).
Proof.
  apply lv_unit_ok; [lia|exact tls_record_plen_nonneg|intros v n h _; apply tls_record_mk_spec|exact tls_record_check_noleak].
Qed.
Lemma handshake_unit ty : frame_unit_ok (parse_handshake ty) (compose_handshake ty) always (lv_declared 4 handshake_plen).
Proof.
  apply lv_unit_ok; [lia|exact (handshake_plen_nonneg ty)|intros v n h _; apply handshake_mk_spec|exact (handshake_check_noleak ty)].
Qed.
Lemma mysql_unit : frame_unit_ok parse_mysql_record compose_mysql_record always (lv_declared 4 mysql_plen).
Proof. apply lv_unit_ok; [lia|exact mysql_plen_nonneg|intros v n h _; apply mysql_mk_spec|exact mysql_check_noleak]. Qed.
Lemma tpkt_unit : frame_unit_ok parse_tpkt compose_tpkt (fun v => v = 3) (lv_declared 4 tpkt_plen).
Proof. apply lv_unit_ok; [lia|exact tpkt_plen_nonneg|exact tpkt_mk_spec|exact tpkt_check_noleak]. Qed.
Lemma ovpn_unit : frame_unit_ok parse_ovpn_tcp compose_ovpn_tcp always (lv_declared 2 ovpn_plen).
Proof. apply lv_unit_ok; [lia|exact ovpn_plen_nonneg|intros v n h _; apply ovpn_mk_spec|exact ovpn_check_noleak]. Qed.
Lemma pg_sslrequest_unit : frame_unit_ok parse_pg_sslrequest compose_pg_sslrequest always (lv_declared 8 zero_plen).
Proof.
  apply lv_unit_ok; [lia|exact (zero_plen_nonneg pg_sslrequest_check)|intros v n h _; apply pg_sslrequest_mk_spec|exact pg_sslrequest_check_noleak].
Qed.
Lemma pg_sync_unit : frame_unit_ok parse_pg_sync compose_pg_sync always (lv_declared 1 zero_plen).
Proof.
  apply lv_unit_ok; [lia|exact (zero_plen_nonneg pg_sync_check)|intros v n h _; apply pg_sync_mk_spec|exact pg_sync_check_noleak].
Qed.

(* C05 for the units: the object parsed from any accepted buffer composes and the result parses back to it *)
Definition canonical_ok {hv : Type} (parse : bytes -> result ((hv * bytes) * Z)) (compose : hv * bytes -> result bytes) : Prop :=
  forall buf x n, parse buf = Ok (x, n) -> exists b2, compose x = Ok b2 /\ parse b2 = Ok (x, zlen b2).

Lemma tls_record_canonical : canonical_ok parse_tls_record compose_tls_record.
Proof. intros buf x n. eapply lv_canonical with (okv := always); [lia|exact tls_record_plen_nonneg|intros v m h _; apply tls_record_mk_spec|exact tls_record_mk_total]. Qed.
Lemma handshake_canonical ty : canonical_ok (parse_handshake ty) (compose_handshake ty).
Proof. intros buf x n. eapply lv_canonical with (okv := always); [lia|exact (handshake_plen_nonneg ty)|intros v m h _; apply handshake_mk_spec|exact (handshake_mk_total ty)]. Qed.
Lemma mysql_canonical : canonical_ok parse_mysql_record compose_mysql_record.
Proof. intros buf x n. eapply lv_canonical with (okv := always); [lia|exact mysql_plen_nonneg|intros v m h _; apply mysql_mk_spec|exact mysql_mk_total]. Qed.
Lemma tpkt_canonical : canonical_ok parse_tpkt compose_tpkt.
Proof. intros buf x n. eapply lv_canonical with (okv := fun v => v = 3); [lia|exact tpkt_plen_nonneg|exact tpkt_mk_spec|exact tpkt_mk_total]. Qed.
Lemma ovpn_canonical : canonical_ok parse_ovpn_tcp compose_ovpn_tcp.
Proof. intros buf x n. eapply lv_canonical with (okv := always); [lia|exact ovpn_plen_nonneg|intros v m h _; apply ovpn_mk_spec|exact ovpn_mk_total]. Qed.
Lemma pg_sslrequest_canonical : canonical_ok parse_pg_sslrequest compose_pg_sslrequest.
Proof. intros buf x n. eapply lv_canonical with (okv := always); [lia|exact (zero_plen_nonneg pg_sslrequest_check)|intros v m h _; apply pg_sslrequest_mk_spec|exact pg_sslrequest_mk_total]. Qed.
Lemma pg_sync_canonical : canonical_ok parse_pg_sync compose_pg_sync.
Proof. intros buf x n. eapply lv_canonical with (okv := always); [lia|exact (zero_plen_nonneg pg_sync_check)|intros v m h _; apply pg_sync_mk_spec|exact pg_sync_mk_total]. Qed.

(* ---- the entry-point laws for any unit -------------------------------------------------------------------- *)
Section EntryLaws.
  Context {hv : Type}.
  Variables (parse : bytes -> result ((hv * bytes) * Z)) (compose : hv * bytes -> result bytes) (okv : hv -> Prop) (declared : bytes -> Z).
  Hypothesis U : frame_unit_ok parse compose okv declared.

  Lemma unit_len_ok buf v n : parse buf = Ok (v, n) -> 0 <= n <= zlen buf.
  Proof. intros P. destruct U as [_ [L _]]. destruct (L buf v n P). lia. Qed.

  Lemma unit_entry_laws :
    (forall buf v, parse_exact_size _ parse buf = Ok v <-> parse buf = Ok (v, zlen buf)) /\
    (forall buf v rest, parse_mutable _ parse buf = Ok (v, rest) ->
       exists n, parse buf = Ok (v, n) /\ rest = skipn (Z.to_nat n) buf /\ firstn (Z.to_nat n) buf ++ rest = buf) /\
    (forall buf e, parse buf = Err e -> parse_mutable _ parse buf = Err e /\ parse_exact_size _ parse buf = Err e).
  Proof.
    split; [|split].
    - exact (exact_size_iff _ parse unit_len_ok).
    - exact (mutable_removes_prefix _ parse unit_len_ok).
    - exact (failure_leaves_buffer _ parse).
  Qed.

  (* ---- the reader, for any sequence of frames of the unit and any fragmentation ---- *)
  Definition composed_frame (f : (hv * bytes) * bytes) : Prop := okv (fst (fst f)) /\ compose (fst f) = Ok (snd f).

  Lemma composed_good f : composed_frame f -> good_frame _ parse f.
  Proof.
    destruct f as [x b]. intros [Hv C]. cbn [fst snd] in *. destruct U as [RT [LEN [_ [PRE _]]]].
    assert (P0 : parse b = Ok (x, zlen b)) by (rewrite <- (app_nil_r b) at 1; apply RT; assumption).
    unfold good_frame. cbn [fst snd]. split; [destruct (LEN b x _ P0); lia|]. split.
    - intros s. apply RT; assumption.
    - intros k Hk. apply (PRE x b k Hv C). lia.
  Qed.

  Theorem unit_reader frames : Forall composed_frame frames ->
    (forall chunks1 chunks2, concat (chunks1 ++ chunks2) = concat (map snd frames) ->
       let st := run_reader _ parse chunks1 in
       status st = Running /\ exists done pending, frames = done ++ pending /\ out st = map fst done /\
         standing _ pending (concat chunks2) st) /\
    (forall chunks, concat chunks = concat (map snd frames) ->
       let st := run_reader _ parse chunks in status st = Running /\ out st = map fst frames /\ rbuf st = []).
  Proof.
    intros F. assert (G : Forall (good_frame _ parse) frames) by (eapply Forall_impl; [|exact F]; intros f; apply composed_good).
    split.
    - intros c1 c2 E. exact (reader_correct _ parse frames G c1 c2 E).
    - intros cs E. exact (reader_complete _ parse frames cs G E).
  Qed.
End EntryLaws.
