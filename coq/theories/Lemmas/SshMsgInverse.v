(* The converse of Lemmas/SshMsgLemmas.v for the fields whose RFC 4251 encoding is unique (byte, uint32, string): whatever
   the decoder accepts IS the encoding of what it returned followed by what it left - no second spelling of one value
   exists, so decoding then encoding gives the received octets back (canonical form).  boolean and mpint are excluded on
   purpose: RFC 4251 lets every non-zero octet mean TRUE and an mpint decoder accepts redundant leading octets. *)
From Coq Require Import ZArith List Bool Lia.
From CP Require Import Core.Bytes Spec.PL Spec.TlsSpec Spec.SshSpec Spec.SshMsgSpec Lemmas.PLLemmas Lemmas.SshMsgLemmas.
Import ListNotations.
Open Scope Z_scope.
Local Arguments Z.mul : simpl never.
Local Arguments Z.add : simpl never.
Local Arguments Z.sub : simpl never.
Local Arguments Z.pow : simpl never.

Definition rigid (k : skind) : bool := match k with KByte | KU32 | KStr => true | KBool | KMpint => false end.

Lemma dec_uint_inv w b z r : dec_uint w b = Some (z, r) -> b = enc_uint w z ++ r /\ 0 <= z < 256 ^ Z.of_nat w.
Proof.
  unfold dec_uint, enc_uint. destruct (Nat.ltb (length b) w) eqn:E; [discriminate|].
  apply Nat.ltb_ge in E. intros H. injection H as <- <-.
  assert (L : length (firstn w b) = w) by (apply firstn_length_le; exact E).
  split.
  - rewrite <- L at 1. rewrite be_enc_val. symmetry. apply firstn_skipn.
  - pose proof (be_val_range (firstn w b)) as R. unfold zlen in R. rewrite L in R. exact R.
Qed.

Lemma dec_string_inv b s r : dec_string b = Some (s, r) -> b = enc_string s ++ r /\ zlen s < 4294967296.
Proof.
  unfold dec_string, enc_string. destruct (dec_uint 4 b) as [[n t]|] eqn:E; cbn [obind]; [|discriminate].
  apply dec_uint_inv in E. destruct E as [-> Hn]. change (256 ^ Z.of_nat 4) with 4294967296 in Hn.
  destruct (zlen t <? n) eqn:C; [discriminate|]. apply Z.ltb_ge in C.
  intros H. injection H as <- <-.
  assert (L : zlen (firstn (Z.to_nat n) t) = n).
  { unfold zlen in *. rewrite firstn_length_le by lia. lia. }
  rewrite L. split; [|lia]. rewrite <- app_assoc. rewrite firstn_skipn. reflexivity.
Qed.

Lemma dec_field_inv k b f r : rigid k = true -> dec_field k b = Some (f, r) ->
  b = enc_field f ++ r /\ kind_of f = k /\ field_ok f.
Proof.
  destruct k; cbn [rigid dec_field]; intros Hk H; try discriminate.
  - destruct (dec_uint 1 b) as [[z t]|] eqn:E; cbn [obind] in H; [|discriminate]. injection H as <- <-.
    apply dec_uint_inv in E. destruct E as [-> Hz]. change (256 ^ Z.of_nat 1) with 256 in Hz. cbn [enc_field kind_of field_ok]. auto.
  - destruct (dec_uint 4 b) as [[z t]|] eqn:E; cbn [obind] in H; [|discriminate]. injection H as <- <-.
    apply dec_uint_inv in E. destruct E as [-> Hz]. change (256 ^ Z.of_nat 4) with 4294967296 in Hz. cbn [enc_field kind_of field_ok]. auto.
  - destruct (dec_string b) as [[z t]|] eqn:E; cbn [obind] in H; [|discriminate]. injection H as <- <-.
    apply dec_string_inv in E. destruct E as [-> Hz]. cbn [enc_field kind_of field_ok]. auto.
Qed.

Lemma dec_fields_inv ks : forall b fs r, forallb rigid ks = true -> dec_fields ks b = Some (fs, r) ->
  b = enc_fields fs ++ r /\ map kind_of fs = ks /\ Forall field_ok fs.
Proof.
  induction ks as [|k ks IH]; intros b fs r Hk H.
  - cbn [dec_fields] in H. injection H as <- <-. repeat split; constructor.
  - cbn [forallb] in Hk. apply andb_prop in Hk. destruct Hk as [Hk Hks]. cbn [dec_fields] in H.
    destruct (dec_field k b) as [[f t]|] eqn:E; cbn [obind] in H; [|discriminate].
    destruct (dec_fields ks t) as [[fs' r']|] eqn:E'; cbn [obind] in H; [|discriminate]. injection H as <- <-.
    apply dec_field_inv in E; [|exact Hk]. destruct E as [-> [Kf Of]].
    apply IH in E'; [|exact Hks]. destruct E' as [-> [Kfs Ofs]].
    repeat split.
    + unfold enc_fields. cbn [map concat]. rewrite <- app_assoc. reflexivity.
    + cbn [map]. rewrite Kf, Kfs. reflexivity.
    + constructor; assumption.
Qed.

(* decode, encode, decode again: a fixed point, and the first decode already determined the octets *)
Lemma dec_fields_canonical ks b fs r : forallb rigid ks = true -> dec_fields ks b = Some (fs, r) ->
  enc_fields fs ++ r = b /\ dec_fields ks (enc_fields fs ++ r) = Some (fs, r).
Proof.
  intros Hk H. destruct (dec_fields_inv ks b fs r Hk H) as [-> [Kf Of]]. split; [reflexivity|exact H].
Qed.

(* the messages whose layout has only such fields: DISCONNECT, UNIMPLEMENTED, NEWKEYS, KEX_DH_GEX_REQUEST; for every
   message number of the three contexts, when the layout is rigid an accepted buffer is exactly the encoding of the result *)
Lemma dec_msg_canonical kinds b fs r :
  (forall t ks, kinds t = Some ks -> forallb rigid ks = true) ->
  dec_msg kinds b = Some (fs, r) -> b = enc_fields fs ++ r.
Proof.
  intros Hk. unfold dec_msg. destruct b as [|t b']; [discriminate|].
  destruct (kinds (b2z t)) as [ks|] eqn:E; cbn [obind]; [|discriminate].
  intros H. apply (dec_fields_inv ks _ fs r (Hk _ _ E)) in H. destruct H as [H _]. exact H.
Qed.

Lemma kinds_init_rigid t ks : kinds_init t = Some ks -> forallb rigid ks = true.
Proof.
  unfold kinds_init. destruct (t =? 1); [intros H; injection H as <-; reflexivity|].
  destruct (t =? 3); [intros H; injection H as <-; reflexivity|discriminate].
Qed.

Theorem ssh_init_messages_canonical b fs r : dec_msg kinds_init b = Some (fs, r) -> b = enc_fields fs ++ r.
Proof. apply dec_msg_canonical. exact kinds_init_rigid. Qed.

(* in the key-exchange contexts the same holds for every message but those with an mpint *)
Definition rigid_only (kinds : Z -> option (list skind)) (t : Z) : option (list skind) :=
  match kinds t with Some ks => if forallb rigid ks then Some ks else None | None => None end.
Lemma rigid_only_rigid kinds t ks : rigid_only kinds t = Some ks -> forallb rigid ks = true.
Proof.
  unfold rigid_only. destruct (kinds t) as [k|]; [|discriminate].
  destruct (forallb rigid k) eqn:E; [|discriminate]. intros H. injection H as <-. exact E.
Qed.
Theorem ssh_rigid_messages_canonical kinds b fs r : dec_msg (rigid_only kinds) b = Some (fs, r) -> b = enc_fields fs ++ r.
Proof. apply dec_msg_canonical. apply rigid_only_rigid. Qed.

(* not vacuous: NEWKEYS and GEX_REQUEST are rigid in the group-exchange context, and the excluded kinds really have a
   second spelling (TRUE as 2; the mpint 1 with a redundant leading zero octet) *)
Example rigid_gex : rigid_only kinds_gex 34 = Some [KByte; KU32; KU32; KU32] /\ rigid_only kinds_gex 21 = Some [KByte] /\
  rigid_only kinds_gex 31 = None.
Proof. repeat split. Qed.
Example bool_second_spelling : dec_field KBool [z2b 2] = Some (FBool true, []) /\ enc_field (FBool true) = [z2b 1].
Proof. split; reflexivity. Qed.
Example mpint_second_spelling :
  dec_field KMpint (map z2b [0;0;0;2;0;1]) = Some (FMpint 1, []) /\ enc_field (FMpint 1) = map z2b [0;0;0;1;1].
Proof. split; vm_compute; reflexivity. Qed.
