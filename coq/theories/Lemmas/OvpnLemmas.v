(* OpenVPN control-channel header: the specification reads back what it writes, whatever follows; the remote session id is on
   the wire exactly when there are acknowledgements, whatever its value. *)
From Coq Require Import ZArith List Bool Lia.
From CP Require Import Core.Bytes Spec.PL Spec.TlsSpec Spec.OppSpec Lemmas.PLLemmas Lemmas.SliceLemmas.
Import ListNotations.
Open Scope Z_scope.
Local Arguments Z.mul : simpl never.
Local Arguments Z.add : simpl never.
Local Arguments Z.sub : simpl never.
Local Arguments Z.pow : simpl never.
Local Arguments Z.div : simpl never.

Lemma enc_items_length w l : length (enc_items w l) = (w * length l)%nat.
Proof.
  unfold enc_items. induction l as [|z l IH]; [cbn; lia|].
  cbn [map concat]. rewrite app_length, IH. unfold enc_uint. rewrite be_enc_length. cbn [length]. lia.
Qed.

Lemma dec_enc_openvpn_header op session acks remote rest :
  0 <= op < 32 -> 0 <= session < 256 ^ 8 -> 0 <= remote < 256 ^ 8 -> zlen acks <= 255 ->
  Forall (fun z => 0 <= z < 256 ^ Z.of_nat 4) acks ->
  dec_openvpn_header (enc_openvpn_header op session acks remote ++ rest)
  = Some (op, session, acks, match acks with [] => None | _ => Some remote end, rest).
Proof.
  intros Hop Hs Hr Hn Fa. unfold enc_openvpn_header, dec_openvpn_header. rewrite <- !app_assoc.
  rewrite dec_enc_uint by (change (256 ^ Z.of_nat 1) with 256; lia). cbn [obind].
  rewrite dec_enc_uint by (change (Z.of_nat 8) with 8; lia). cbn [obind].
  pose proof (zlen_nonneg acks) as Ln.
  rewrite dec_enc_uint by (change (256 ^ Z.of_nat 1) with 256; lia). cbn [obind].
  replace (op * 8 / 8) with op by (rewrite Z.div_mul; lia).
  destruct acks as [|a acks'].
  - cbn [zlen length Z.of_nat]. change (0 =? 0) with true. cbv iota. reflexivity.
  - remember (a :: acks') as acks eqn:Ea.
    assert (Hpos : 0 < zlen acks) by (subst acks; rewrite zlen_cons; pose proof (zlen_nonneg acks'); lia).
    destruct (Z.eqb_spec (zlen acks) 0) as [E0|_]; [lia|].
    rewrite <- app_assoc.
    assert (Li : length (enc_items 4 acks) = Z.to_nat (4 * zlen acks)).
    { rewrite enc_items_length. unfold zlen. lia. }
    assert (Lz : zlen (enc_items 4 acks ++ enc_uint 8 remote ++ rest) = 4 * zlen acks + 8 + zlen rest).
    { rewrite !zlen_app. unfold zlen at 1 2. rewrite Li. unfold enc_uint. rewrite be_enc_length. unfold zlen. lia. }
    rewrite Lz. pose proof (zlen_nonneg rest) as Lr.
    destruct (Z.ltb_spec (4 * zlen acks + 8 + zlen rest) (4 * zlen acks + 8)) as [Hx|_]; [lia|].
    cbv zeta. rewrite <- Li. rewrite firstn_app_exact, skipn_app_exact.
    rewrite dec_enc_items; [|lia|exact Fa|lia]. cbn [obind].
    rewrite dec_enc_uint by (change (Z.of_nat 8) with 8; lia). cbn [obind].
    subst acks. reflexivity.
Qed.

(* the three packet kinds built on the header, and the control packet: header fields and what follows are recovered *)
Lemma dec_openvpn_packets session acks remote pid payload rest :
  0 <= session < 256 ^ 8 -> 0 <= remote < 256 ^ 8 -> zlen acks <= 255 -> Forall (fun z => 0 <= z < 256 ^ Z.of_nat 4) acks ->
  let r := match acks with [] => None | _ => Some remote end in
  dec_openvpn_header (enc_openvpn_ack session acks remote ++ rest) = Some (5, session, acks, r, rest) /\
  dec_openvpn_header (enc_openvpn_hard_reset_client session pid ++ rest) = Some (7, session, [], None, enc_uint 4 pid ++ rest) /\
  dec_openvpn_header (enc_openvpn_hard_reset_server session acks remote pid ++ rest) = Some (8, session, acks, r, enc_uint 4 pid ++ rest) /\
  dec_openvpn_header (enc_openvpn_control 4 session acks remote pid payload ++ rest)
    = Some (4, session, acks, r, enc_uint 4 pid ++ payload ++ rest).
Proof.
  intros Hs Hr Hn Fa r. unfold enc_openvpn_ack, enc_openvpn_hard_reset_client, enc_openvpn_hard_reset_server, enc_openvpn_control.
  rewrite <- !app_assoc. repeat split.
  - apply dec_enc_openvpn_header; (assumption || lia).
  - apply (dec_enc_openvpn_header 7 session [] 0); [lia|assumption|lia|change (zlen (@nil Z)) with 0; lia|apply Forall_nil].
  - apply dec_enc_openvpn_header; (assumption || lia).
  - apply dec_enc_openvpn_header; (assumption || lia).
Qed.

(* non-vacuity and the point of seeded change C-C09: acknowledgements with a remote session id of zero keep the id on the
   wire, and a header without acknowledgements carries none *)
Example ack_with_zero_remote :
  enc_openvpn_ack 1 [7] 0 = map z2b [40; 0;0;0;0;0;0;0;1; 1; 0;0;0;7; 0;0;0;0;0;0;0;0] /\
  enc_openvpn_ack 1 [] 99 = map z2b [40; 0;0;0;0;0;0;0;1; 0].
Proof. split; vm_compute; reflexivity. Qed.
