From Coq Require Import ZArith List Bool Lia.
From Coq.Strings Require Import Byte.
From CP Require Import Core.Bytes Core.Result Text.Field Spec.FieldSpec Text.Cookie Lemmas.FieldLemmas.
Import ListNotations.
Open Scope Z_scope.

Lemma skip_ws_app_ws x b : all_ws b = true ->
  skip_ws (x ++ b) = match skip_ws x with [] => [] | y => y ++ b end.
Proof.
  intros Hb. induction x as [|c x IH]; cbn [app skip_ws].
  - apply skip_ws_all_nil. exact Hb.
  - destruct (is_ws c); [exact IH|reflexivity].
Qed.

Lemma rstrip_ws_app_ws y b : all_ws b = true -> rstrip_ws (y ++ b) = rstrip_ws y.
Proof.
  intros Hb. unfold rstrip_ws. rewrite rev_app_distr. rewrite skip_ws_all by (rewrite all_ws_rev; exact Hb). reflexivity.
Qed.

(* white space on either side of a text does not change what strip returns *)
Lemma strip_ws_around a x b : all_ws a = true -> all_ws b = true -> strip (a ++ x ++ b) = strip x.
Proof.
  intros Ha Hb. unfold strip. rewrite skip_ws_all by exact Ha. rewrite skip_ws_app_ws by exact Hb.
  destruct (skip_ws x) as [|c y] eqn:E; [reflexivity|]. apply rstrip_ws_app_ws. exact Hb.
Qed.

Lemma no_sep_app3 s a b c : no_sep s (a ++ b ++ c) = no_sep s a && no_sep s b && no_sep s c.
Proof. rewrite !no_sep_app. apply andb_assoc. Qed.

Lemma is_ws_EQS : is_ws EQS = false. Proof. reflexivity. Qed.
Lemma is_ws_SEMI : is_ws SEMI = false. Proof. reflexivity. Qed.

Lemma skip_sep_head_not s l : head_not s l = true -> skip_sep s l = l.
Proof. destruct l as [|c r]; [reflexivity|]. cbn [head_not skip_sep]. intros H. apply negb_true_iff in H. rewrite H. reflexivity. Qed.

Lemma head_not_ws s w : is_ws s = false -> all_ws w = true -> head_not s w = true.
Proof.
  intros Hs Hw. destruct w as [|c r]; [reflexivity|]. cbn [head_not]. cbn [all_ws forallb] in Hw.
  apply andb_true_iff in Hw. destruct Hw as [Hc _]. apply negb_true_iff. apply byte_eqb_neq. intros ->. rewrite Hs in Hc. discriminate.
Qed.

Lemma head_not_app s a b : head_not s a = true -> head_not s b = true -> head_not s (a ++ b) = true.
Proof. destruct a as [|c r]; cbn [app head_not]; intros Ha Hb; [exact Hb|exact Ha]. Qed.

(* every spelling of a cookie pair - white space before and after the name, after the "=", and before the ";" that ends the
   value - gives the name, the value, and the same remainder; the name holds no "=" and the value no ";" *)
Lemma cookie_pair_spelled w1 n w2 w3 v w4 rest :
  all_ws w1 = true -> all_ws w2 = true -> all_ws w3 = true -> all_ws w4 = true ->
  no_sep EQS n = true -> no_sep SEMI v = true -> head_not EQS v = true ->
  cookie_pair (w1 ++ n ++ w2 ++ EQS :: w3 ++ v ++ w4 ++ SEMI :: rest) = Ok (strip n, strip v, cookie_rest (SEMI :: rest)).
Proof.
  intros H1 H2 H3 H4 Hn Hv Hh. unfold cookie_pair.
  replace (w1 ++ n ++ w2 ++ EQS :: w3 ++ v ++ w4 ++ SEMI :: rest)
    with ((w1 ++ n ++ w2) ++ EQS :: (w3 ++ v ++ w4) ++ SEMI :: rest) by (rewrite <- !app_assoc; reflexivity).
  rewrite take_until_app_sep.
  2:{ rewrite no_sep_app3, Hn, !(all_ws_no_sep EQS) by (try exact is_ws_EQS; assumption). reflexivity. }
  rewrite skip_sep_head_not.
  2:{ rewrite <- !app_assoc. repeat apply head_not_app; try (apply head_not_ws; [reflexivity|assumption]); try exact Hh. reflexivity. }
  rewrite take_until_app_sep.
  2:{ rewrite no_sep_app3, Hv, !(all_ws_no_sep SEMI) by (try exact is_ws_SEMI; assumption). reflexivity. }
  rewrite !strip_ws_around by assumption. reflexivity.
Qed.

(* the same when the value is the last thing in the text *)
Lemma cookie_pair_spelled_end w1 n w2 w3 v w4 :
  all_ws w1 = true -> all_ws w2 = true -> all_ws w3 = true -> all_ws w4 = true ->
  no_sep EQS n = true -> no_sep SEMI v = true -> head_not EQS v = true ->
  cookie_pair (w1 ++ n ++ w2 ++ EQS :: w3 ++ v ++ w4) = Ok (strip n, strip v, []).
Proof.
  intros H1 H2 H3 H4 Hn Hv Hh. unfold cookie_pair.
  replace (w1 ++ n ++ w2 ++ EQS :: w3 ++ v ++ w4) with ((w1 ++ n ++ w2) ++ EQS :: (w3 ++ v ++ w4)) by (rewrite <- !app_assoc; reflexivity).
  rewrite take_until_app_sep.
  2:{ rewrite no_sep_app3, Hn, !(all_ws_no_sep EQS) by (try exact is_ws_EQS; assumption). reflexivity. }
  rewrite skip_sep_head_not.
  2:{ repeat apply head_not_app; try (apply head_not_ws; [reflexivity|assumption]); exact Hh. }
  rewrite take_until_no_sep.
  2:{ rewrite no_sep_app3, Hv, !(all_ws_no_sep SEMI) by (try exact is_ws_SEMI; assumption). reflexivity. }
  rewrite !strip_ws_around by assumption. reflexivity.
Qed.

(* hence two spellings of the same pair in front of the same attribute list parse alike *)
Lemma cookie_pair_spellings_agree w1 w2 w3 w4 u1 u2 u3 u4 n v rest :
  all_ws w1 = true -> all_ws w2 = true -> all_ws w3 = true -> all_ws w4 = true ->
  all_ws u1 = true -> all_ws u2 = true -> all_ws u3 = true -> all_ws u4 = true ->
  no_sep EQS n = true -> no_sep SEMI v = true -> head_not EQS v = true ->
  cookie_pair (w1 ++ n ++ w2 ++ EQS :: w3 ++ v ++ w4 ++ SEMI :: rest) =
  cookie_pair (u1 ++ n ++ u2 ++ EQS :: u3 ++ v ++ u4 ++ SEMI :: rest).
Proof. intros. rewrite !cookie_pair_spelled by assumption. reflexivity. Qed.

(* the pinned behaviour the hypothesis on the value excludes: a value that starts with "=" loses it (the run of "=" is one separator) *)
Example cookie_value_leading_equals :
  cookie_pair ("a"%byte :: EQS :: EQS :: "b"%byte :: []) = Ok ("a"%byte :: [], "b"%byte :: [], []).
Proof. reflexivity. Qed.

(* a text without "=" is refused *)
Lemma cookie_pair_no_equals l : no_sep EQS l = true -> cookie_pair l = Err InvalidValue.
Proof. intros H. unfold cookie_pair. rewrite take_until_no_sep by exact H. reflexivity. Qed.

(* non-vacuity: tabs and blanks everywhere, a run of ";" and an attribute after it *)
Example cookie_pair_example :
  cookie_pair (HT :: "s"%byte :: "i"%byte :: "d"%byte :: SP :: EQS :: SP :: "a"%byte :: SP :: "b"%byte :: HT :: SEMI :: SEMI :: SP :: "S"%byte :: [])
  = Ok ("s"%byte :: "i"%byte :: "d"%byte :: [], "a"%byte :: SP :: "b"%byte :: [], "S"%byte :: []).
Proof. reflexivity. Qed.
