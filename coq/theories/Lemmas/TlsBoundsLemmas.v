From Coq Require Import ZArith List Bool String.
From CP Require Import Spec.PL Spec.TlsBounds.
From CPGen Require Import Tables.
Import ListNotations.
Local Open Scope string_scope.
Open Scope Z_scope.

Definition param_of (name : string) : option (Z * Z * Z) :=
  match find (fun t => String.eqb (fst t) name) array_params with
  | Some (_, (_, (mn, mx, num, _))) => Some (mn, mx, num) | None => None end.

(* every vector of the RFC table exists in the library with the RFC's floor and ceiling *)
Definition bounds_match : bool :=
  forallb (fun r => match param_of (fst r) with
                    | Some (mn, mx, _) => (mn =? fst (snd r)) && (mx =? snd (snd r)) | None => false end) rfc_bounds
  && forallb (fun r => match param_of (fst r) with Some (_, mx, _) => mx =? snd (snd r) | None => false end) rfc_ceilings_only.
Lemma bounds_match_true : bounds_match = true.
Proof. vm_compute. reflexivity. Qed.

(* the length prefix of every length-prefixed vector class of the library (TLS or not) is the width the presentation
   language derives from the ceiling; the library computes it with floating-point logarithms *)
Definition prefix_widths_ok : bool :=
  forallb (fun t => let '(_, (kind, (_, mx, num, _))) := t in
                    String.eqb kind "ListParsable" || (num =? Z.of_nat (width_of_ceiling mx))) array_params.
Lemma prefix_widths_ok_true : prefix_widths_ok = true.
Proof. vm_compute. reflexivity. Qed.
