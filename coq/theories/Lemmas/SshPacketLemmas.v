(* SSH binary packets: consumed length = 4 + packet_length, self-delimiting, honest prefix rejection. *)
From Coq Require Import ZArith List Bool Lia.
From Coq.Strings Require Import Byte.
From CP Require Import Core.Bytes Core.Result Ssh.Record Frame.SshPacket Lemmas.SliceLemmas Lemmas.SshLemmas.
Import ListNotations.
Open Scope Z_scope.
Local Arguments Z.add : simpl never.
Local Arguments Z.mul : simpl never.
Local Arguments Z.sub : simpl never.

Section SshPacketLemmas.
  Variable msg : bytes -> result unit.

  Lemma zlen_firstn_le' {A} (l : list A) n : 0 <= n <= zlen l -> zlen (firstn (Z.to_nat n) l) = n.
  Proof. intros H. unfold zlen in *. rewrite firstn_length. lia. Qed.

  Lemma firstn_firstn_app' {A} (l s : list A) a n : (a <= n)%nat -> (n <= length l)%nat -> firstn a (firstn n l ++ s) = firstn a l.
  Proof.
    intros H1 H2. rewrite firstn_app. rewrite firstn_length. replace (a - Nat.min n (length l))%nat with 0%nat by lia.
    cbn [firstn]. rewrite app_nil_r. rewrite firstn_firstn. f_equal. lia.
  Qed.

  Lemma skipn_firstn_app' {A} (l s : list A) a b n : (a + b <= n)%nat -> (n <= length l)%nat ->
    firstn b (skipn a (firstn n l ++ s)) = firstn b (skipn a l).
  Proof.
    intros H1 H2. rewrite skipn_app. rewrite firstn_length. replace (a - Nat.min n (length l))%nat with 0%nat by lia.
    cbn [skipn]. rewrite firstn_app. rewrite skipn_length, firstn_length.
    replace (b - (Nat.min n (length l) - a))%nat with 0%nat by lia. cbn [firstn]. rewrite app_nil_r.
    rewrite skipn_firstn_comm. rewrite firstn_firstn. f_equal. lia.
  Qed.

  Lemma u32_range b0 b1 b2 b3 : 0 <= u32 b0 b1 b2 b3 < 4294967296.
  Proof. unfold u32. pose proof (b2z_range b0). pose proof (b2z_range b1). pose proof (b2z_range b2). pose proof (b2z_range b3). lia. Qed.

  Lemma ssh_body_ok pl rest x n : ssh_body msg pl rest = Ok (x, n) -> n = 4 + pl /\ 1 <= pl <= zlen rest.
  Proof.
    unfold ssh_body. destruct (Z.ltb_spec (zlen rest) pl) as [|Hl]; [discriminate|].
    destruct rest as [|p r]; [discriminate|]. pose proof (b2z_range p) as Rp.
    cbv zeta. destruct (Z.ltb_spec (pl - b2z p - 1) 0) as [|Hm]; [discriminate|].
    destruct (msg (firstn (Z.to_nat (pl - b2z p - 1)) r)) as [u|e]; cbn [bind]; [|discriminate].
    intros H. inversion H; subst. lia.
  Qed.

  Lemma ssh_body_suffix pl rest x n sfx :
    ssh_body msg pl rest = Ok (x, n) -> ssh_body msg pl (firstn (Z.to_nat pl) rest ++ sfx) = Ok (x, n).
  Proof.
    intros H. pose proof (ssh_body_ok _ _ _ _ H) as [_ Hr].
    unfold ssh_body in *. destruct (Z.ltb_spec (zlen rest) pl) as [|Hl]; [discriminate|].
    destruct rest as [|p r]; [discriminate|]. pose proof (b2z_range p) as Rp.
    assert (Hpl: (Z.to_nat pl = S (Z.to_nat (pl - 1)))%nat) by lia. rewrite Hpl. cbn [firstn app].
    rewrite zlen_cons in Hl. pose proof (zlen_nonneg r) as Hr0. pose proof (zlen_nonneg sfx) as Hs0.
    rewrite zlen_cons, zlen_app, zlen_firstn_le' by lia.
    destruct (Z.ltb_spec (1 + (pl - 1 + zlen sfx)) pl) as [Hx|_]; [lia|].
    cbv zeta in *. destruct (Z.ltb_spec (pl - b2z p - 1) 0) as [|Hm]; [discriminate|].
    assert (E1: firstn (Z.to_nat (pl - b2z p - 1)) (firstn (Z.to_nat (pl - 1)) r ++ sfx) = firstn (Z.to_nat (pl - b2z p - 1)) r).
    { apply firstn_firstn_app'; unfold zlen in *; lia. }
    assert (E2: firstn (Z.to_nat (b2z p)) (skipn (Z.to_nat (pl - b2z p - 1)) (firstn (Z.to_nat (pl - 1)) r ++ sfx))
                = firstn (Z.to_nat (b2z p)) (skipn (Z.to_nat (pl - b2z p - 1)) r)).
    { apply skipn_firstn_app'; unfold zlen in *; lia. }
    rewrite E1, E2. exact H.
  Qed.

  Lemma ssh_parse_declared buf x n :
    ssh_parse msg buf = Ok (x, n) -> ssh_declared buf = Some n /\ 4 < n <= zlen buf.
  Proof.
    unfold ssh_parse, ssh_declared. destruct buf as [|b0 [|b1 [|b2 [|b3 rest]]]]; try discriminate.
    intros H. apply ssh_body_ok in H. destruct H as [-> Hr]. rewrite !zlen_cons. split; [reflexivity|lia].
  Qed.

  Lemma ssh_self_delimiting buf x n sfx :
    ssh_parse msg buf = Ok (x, n) -> ssh_parse msg (firstn (Z.to_nat n) buf ++ sfx) = Ok (x, n).
  Proof.
    intros H. unfold ssh_parse in *. destruct buf as [|b0 [|b1 [|b2 [|b3 rest]]]]; try discriminate.
    pose proof (ssh_body_ok _ _ _ _ H) as [En Hr]. pose proof (u32_range b0 b1 b2 b3) as Ru.
    assert (E: Z.to_nat n = S (S (S (S (Z.to_nat (u32 b0 b1 b2 b3)))))) by lia.
    rewrite E. cbn [firstn app]. apply ssh_body_suffix. exact H.
  Qed.

  Lemma ssh_prefix_rejected f x k :
    ssh_parse msg f = Ok (x, zlen f) -> 0 <= k < zlen f ->
    exists m, ssh_parse msg (firstn (Z.to_nat k) f) = Err (NotEnoughData m) /\ 1 <= m <= zlen f - k.
  Proof.
    intros H Hk. unfold ssh_parse in *. destruct f as [|b0 [|b1 [|b2 [|b3 rest]]]]; try discriminate.
    pose proof (ssh_body_ok _ _ _ _ H) as [En Hr]. pose proof (u32_range b0 b1 b2 b3) as Ru.
    rewrite !zlen_cons in *. pose proof (zlen_nonneg rest) as L.
    destruct (Z.eq_dec k 0) as [->|K0]; [exists 4; cbn [Z.to_nat firstn]; split; [reflexivity|lia]|].
    destruct (Z.eq_dec k 1) as [->|K1]; [exists 3; cbn [Z.to_nat Pos.to_nat firstn]; split; [reflexivity|lia]|].
    destruct (Z.eq_dec k 2) as [->|K2]; [exists 2; cbn [Z.to_nat Pos.to_nat firstn]; split; [reflexivity|lia]|].
    destruct (Z.eq_dec k 3) as [->|K3]; [exists 1; cbn [Z.to_nat Pos.to_nat firstn]; split; [reflexivity|lia]|].
    assert (E: Z.to_nat k = S (S (S (S (Z.to_nat (k - 4)))))) by lia. rewrite E. cbn [firstn].
    unfold ssh_body. rewrite zlen_firstn_le' by lia.
    destruct (Z.ltb_spec (k - 4) (u32 b0 b1 b2 b3)) as [Hx|Hx]; [|lia].
    eexists. split; [reflexivity|lia].
  Qed.

  Lemma u32_be_enc z : 0 <= z < 4294967296 ->
    match be_enc 4 z with b0 :: b1 :: b2 :: b3 :: nil => u32 b0 b1 b2 b3 = z | _ => False end.
  Proof.
    intros H. pose proof (be_enc_small_roundtrip 4 z) as R. change (256 ^ Z.of_nat 4) with 4294967296 in R. specialize (R H).
    pose proof (be_enc_length 4 z) as L.
    destruct (be_enc 4 z) as [|b0 [|b1 [|b2 [|b3 [|b4 r]]]]]; try discriminate.
    rewrite <- R. unfold u32. rewrite !be_val_cons. rewrite !zlen_cons, zlen_nil. unfold be_val. cbn [be_val_acc].
    change (256 ^ (1 + (1 + (1 + 0)))) with 16777216. change (256 ^ (1 + (1 + 0))) with 65536. change (256 ^ (1 + 0)) with 256.
    change (256 ^ 0) with 1. lia.
  Qed.

  (* what compose writes parses back to the payload and the padding, consuming exactly the packet, whatever follows *)
  Lemma ssh_roundtrip payload sfx :
    msg payload = Ok tt -> zlen payload < 4294967000 ->
    ssh_parse msg (ssh_compose payload ++ sfx)
    = Ok ((payload, repeat x00 (Z.to_nat (padding_length (zlen payload)))), zlen (ssh_compose payload)).
  Proof.
    intros Hm Hl. pose proof (zlen_nonneg payload) as L0.
    destruct (padding_rule (zlen payload) L0) as [[Hwf _] Hpad].
    unfold ssh_compose. set (pad := padding_length (zlen payload)) in *. set (pl := packet_length (zlen payload)) in *.
    assert (Hpl: pl = zlen payload + pad + 1) by reflexivity.
    assert (Rpl: 0 <= pl < 4294967296) by lia.
    pose proof (u32_be_enc pl Rpl) as Hu. pose proof (be_enc_length 4 pl) as Le.
    destruct (be_enc 4 pl) as [|b0 [|b1 [|b2 [|b3 [|b4 r]]]]]; try discriminate; try contradiction.
    cbn [app ssh_parse]. rewrite Hu. unfold ssh_body.
    assert (Lr: zlen (repeat x00 (Z.to_nat pad)) = pad) by (unfold zlen; rewrite repeat_length; lia).
    rewrite zlen_cons, !zlen_app, Lr. pose proof (zlen_nonneg sfx) as Ls.
    destruct (Z.ltb_spec (1 + (zlen payload + pad + zlen sfx)) pl) as [Hx|_]; [lia|].
    assert (Hb: b2z (z2b pad) = pad) by (rewrite b2z_z2b; apply Z.mod_small; lia).
    rewrite Hb. cbv zeta. replace (pl - pad - 1) with (zlen payload) by lia.
    destruct (Z.ltb_spec (zlen payload) 0) as [Hx|_]; [lia|].
    rewrite <- app_assoc.
    assert (E1: firstn (Z.to_nat (zlen payload)) (payload ++ repeat x00 (Z.to_nat pad) ++ sfx) = payload)
      by (unfold zlen; rewrite Nat2Z.id; apply firstn_app_exact).
    assert (E2: skipn (Z.to_nat (zlen payload)) (payload ++ repeat x00 (Z.to_nat pad) ++ sfx) = repeat x00 (Z.to_nat pad) ++ sfx)
      by (unfold zlen; rewrite Nat2Z.id; apply skipn_app_exact).
    assert (Ef: firstn (Z.to_nat pad) (repeat x00 (Z.to_nat pad) ++ sfx) = repeat x00 (Z.to_nat pad)).
    { rewrite <- (repeat_length x00 (Z.to_nat pad)) at 1. apply firstn_app_exact. }
    rewrite E1, E2, Hm. cbn [bind]. rewrite Ef. f_equal. f_equal. rewrite !zlen_cons, !zlen_app, Lr. lia.
  Qed.
End SshPacketLemmas.
