From Coq Require Import ZArith List Bool Lia.
From CP Require Import Core.Bytes Core.Result Base.Array Store.Store.
Import ListNotations.
Open Scope Z_scope.

Definition all_fresh (kinds : list dkind) : Prop := Forall (fun k => k = Fresh) kinds.
Definition owns (o : instance) : Prop := Forall (fun c => exists v, c = Own v) o.

Lemma construct_from_owns i kinds pristine : all_fresh kinds -> owns (construct_from i kinds pristine).
Proof.
  revert i. induction kinds as [|k r IH]; intros i F; [constructor|]. inversion F as [|? ? Hk F']; subst. cbn [construct_from].
  constructor; [eauto|apply IH; exact F'].
Qed.

Lemma construct_from_reads w i kinds pristine : all_fresh kinds ->
  read_instance w (construct_from i kinds pristine) = map (fun j => nth j pristine []) (seq i (length kinds)).
Proof.
  revert i. induction kinds as [|k r IH]; intros i F; [reflexivity|]. inversion F as [|? ? Hk F']; subst. cbn [construct_from read_instance map length seq read].
  f_equal. apply IH. exact F'.
Qed.

Lemma set_nth_owns (o : instance) n c : owns o -> (exists v, c = Own v) -> owns (set_nth n c o).
Proof.
  revert n. induction o as [|y r IH]; intros n Ho Hc; [destruct n; constructor|]. inversion Ho; subst. destruct n; cbn [set_nth]; constructor; auto.
  apply IH; assumption.
Qed.

Lemma mutate_owns w o f x : owns o -> fst (mutate_field w o f x) = w /\ owns (snd (mutate_field w o f x)).
Proof.
  intros Ho. unfold mutate_field. destruct (nth_error o f) as [c|] eqn:N; [|auto].
  assert (Hc : exists v, c = Own v) by (unfold owns in Ho; rewrite Forall_forall in Ho; apply Ho; eapply nth_error_In; eassumption).
  destruct Hc as [v ->]. cbn [fst snd]. split; [reflexivity|]. apply set_nth_owns; eauto.
Qed.

Lemma set_nth_forall {A} (P : A -> Prop) n x l : Forall P l -> P x -> Forall P (set_nth n x l).
Proof. revert n. induction l as [|y r IH]; intros n Hl Hx; [destruct n; constructor|]. inversion Hl; subst. destruct n; cbn [set_nth]; constructor; auto. Qed.

(* when every defaulted field is built fresh per instance: no history of constructions and in-place edits changes the
   class-level defaults, and every instance created at any point reads the pristine default values *)
Theorem defaults_isolated kinds pristine hs : all_fresh kinds ->
  let s := hrun kinds pristine hs in
  hworld s = pristine /\ Forall owns (hinstances s) /\
  read_instance (hworld s) (construct kinds pristine) = map (fun j => nth j pristine []) (seq 0 (length kinds)).
Proof.
  intros F. unfold hrun.
  assert (G : forall s0, hworld s0 = pristine -> Forall owns (hinstances s0) ->
              hworld (fold_left (hstep kinds pristine) hs s0) = pristine /\ Forall owns (hinstances (fold_left (hstep kinds pristine) hs s0))).
  { induction hs as [|h r IH]; intros s0 Hw Ho; [auto|]. cbn [fold_left]. apply IH.
    - destruct h as [|i f x]; cbn [hstep]; [exact Hw|]. destruct (nth_error (hinstances s0) i) as [o|] eqn:N; [|exact Hw].
      assert (Oo : owns o) by (rewrite Forall_forall in Ho; apply Ho; eapply nth_error_In; eassumption).
      destruct (mutate_owns (hworld s0) o f x Oo) as [E _]. destruct (mutate_field (hworld s0) o f x) as [w' o']. cbn in *. congruence.
    - destruct h as [|i f x]; cbn [hstep].
      + cbn. apply Forall_app. split; [exact Ho|]. constructor; [apply construct_from_owns; exact F|constructor].
      + destruct (nth_error (hinstances s0) i) as [o|] eqn:N; [|exact Ho].
        assert (Oo : owns o) by (rewrite Forall_forall in Ho; apply Ho; eapply nth_error_In; eassumption).
        destruct (mutate_owns (hworld s0) o f x Oo) as [_ E]. destruct (mutate_field (hworld s0) o f x) as [w' o']. cbn in *.
        apply set_nth_forall; assumption. }
  destruct (G {| hworld := pristine; hinstances := [] |} eq_refl (Forall_nil _)) as [A B].
  split; [exact A|]. split; [exact B|]. apply construct_from_reads. exact F.
Qed.

(* with one shared mutable default the claim is false: construct, append in place, construct again *)
Theorem shared_default_refuted :
  let s := hrun [SharedObject] [[]] [Construct; Mutate 0 0 1] in
  read_instance (hworld s) (construct [SharedObject] [[]]) <> [[]].
Proof. vm_compute. discriminate. Qed.

(* ---- ClientHello.compose ---- *)
(* the repaired compose never touches the vector; the pinned one restores it when both appends fit ... *)
Lemma compose_suites_pure (v : @vec Z) fb rn : snd (compose_suites v fb rn) = v.
Proof. reflexivity. Qed.

(* ... but left the first signalling suite in the caller's vector when the second append was refused *)
Theorem compose_suites_orig_refuted :
  let v := {| items := [49199; 49200]; isz := 4 |} in
  snd (compose_suites_orig 2 6 v true true) <> v.
Proof. vm_compute. intro H. discriminate. Qed.
