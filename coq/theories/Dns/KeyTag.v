(* Model of DnsRecordDnskey.key_tag (dnsrec/record.py:71-87): a ParserBinary over self.compose() read as 16-bit
   big-endian words, then the odd trailing byte - which the code adds UNSHIFTED (RFC 4034: as the high byte). The
   repair (`<< 8`) cannot be made as a fix: commit because test_record.TestDnsRecordDnskey.test_asdict pins the key tag
   1540 of a key with 391 bytes of RDATA; the defect is a known finding. `key_tag_of true` is the repaired function. *)
From Coq Require Import ZArith List Bool.
From CP Require Import Core.Bytes.
Import ListNotations.
Open Scope Z_scope.

Fixpoint words_sum (shift_tail : bool) (l : bytes) : Z :=
  match l with
  | a :: b :: r => be_val [a; b] + words_sum shift_tail r          (* while unparsed_length > 1: parse_numeric('value', 2) *)
  | [a] => if shift_tail then Z.shiftl (b2z a) 8 else b2z a         (* if unparsed_length: parse_numeric('value', 1) *)
  | [] => 0
  end.
Definition key_tag_of (shift_tail : bool) (rdata : bytes) : Z :=
  let k := words_sum shift_tail rdata in Z.land (k + Z.land (Z.shiftr k 16) 65535) 65535.
Definition key_tag (rdata : bytes) : Z := key_tag_of false rdata.            (* the code as it is *)
Definition key_tag_repaired (rdata : bytes) : Z := key_tag_of true rdata.
Definition key_tag_alg1 (modulus : Z) : Z := Z.shiftr (Z.land modulus 16777215) 8.  (* RSAMD5 *)
