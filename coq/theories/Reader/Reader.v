(* The incremental reader of property C04, generic over a framing unit: it accumulates delivered chunks, and on every
   not-enough-data error waits for exactly the reported number of bytes before it retries. *)
From Coq Require Import ZArith List Bool.
From CP Require Import Core.Bytes Core.Result.
Import ListNotations.
Open Scope Z_scope.

Section Reader.
  Variable A : Type.
  Variable parse : bytes -> result (A * Z).      (* Class.parse_immutable *)

  Inductive rstatus := Running | Failed (e : err).
  Record rstate := { rbuf : bytes; need : Z; out : list A; status : rstatus }.

  (* retry loop: take complete frames off the front of the buffer until the parser asks for more bytes *)
  Fixpoint drain (fuel : nat) (buf : bytes) (o : list A) : rstate :=
    match buf with
    | [] => {| rbuf := []; need := 0; out := o; status := Running |}          (* nothing buffered: just wait for data *)
    | _ :: _ =>
      match fuel with
      | O => {| rbuf := buf; need := 0; out := o; status := Failed OutOfFuel |}
      | S f =>
        match parse buf with
        | Ok (v, n) => drain f (skipn (Z.to_nat n) buf) (o ++ [v])            (* parse_mutable: del buf[:n] *)
        | Err (NotEnoughData k) => {| rbuf := buf; need := k; out := o; status := Running |}
        | Err e => {| rbuf := buf; need := 0; out := o; status := Failed e |}
        end
      end
    end.

  (* a chunk arrives *)
  Definition feed (st : rstate) (chunk : bytes) : rstate :=
    match status st with
    | Failed _ => st
    | Running =>
      let buf := rbuf st ++ chunk in
      let need' := need st - zlen chunk in
      if need' >? 0 then {| rbuf := buf; need := need'; out := out st; status := Running |}   (* still waiting *)
      else drain (S (length buf)) buf (out st)
    end.

  Definition rinit : rstate := {| rbuf := []; need := 0; out := []; status := Running |}.
  Definition run_reader (chunks : list bytes) : rstate := fold_left feed chunks rinit.
End Reader.

Arguments rbuf {A} _.
Arguments need {A} _.
Arguments out {A} _.
Arguments status {A} _.
