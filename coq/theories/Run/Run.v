(* The correspondence runner: one textual command per line -> one canonical outcome line.
   Evaluated either by vm_compute inside coqc or by the OCaml program extracted from this file. *)
From Coq Require Import ZArith List Bool String Ascii.
From Coq.Strings Require Import Byte.
From CP Require Import Core.Bytes Core.Result Core.Show Prim.Int Prim.Mpint Prim.Timestamp.
From CPGen Require Import Tables.
Import ListNotations.
Open Scope string_scope.
Open Scope Z_scope.

Definition order_of (s : string) : order :=
  if String.eqb s "=" then Native else if String.eqb s "<" then LittleEndian
  else if String.eqb s ">" then BigEndian else Network.

Definition show_zn (p : Z * Z) : string := string_of_Z (fst p) ++ " n=" ++ string_of_Z (snd p).

Definition show_ts (p : option dt * Z) : string :=
  match fst p with
  | None => "none"
  | Some d => string_of_Z (secs d) ++ " " ++ string_of_Z (micros d)
  end ++ " n=" ++ string_of_Z (snd p).

Definition flag_table (name : string) : list Z :=
  match find (fun t => String.eqb (fst t) name) flag_tables with Some t => snd t | None => [] end.

Definition zlist_of_string (s : string) : list Z :=
  if String.eqb s "-" then [] else map z_of_string (split_on "," s "").

Definition run_words (ws : list string) : string :=
  match ws with
  | ["cts"; ms; w; "none"] => show_result hex_of_bytes (compose_timestamp (String.eqb ms "1") (z_of_string w) None)
  | ["cts"; ms; w; sec; mic] =>
      show_result hex_of_bytes (compose_timestamp (String.eqb ms "1") (z_of_string w)
                                  (Some {| secs := z_of_string sec; micros := z_of_string mic |}))
  | ["pts"; ms; w; h] => show_result show_ts (parse_timestamp (String.eqb ms "1") (z_of_string w) (bytes_of_hex h) 0)
  | ["pflags"; t; w; sh; h] =>
      show_result (fun p => show_list string_of_Z (parse_flags (flag_table t) (z_of_string sh) (fst p)))
                  (parse_numeric Network (z_of_string w) (bytes_of_hex h) 0)
  | ["cflags"; t; w; sh; vs] =>
      show_result hex_of_bytes (compose_numeric Network (z_of_string w) (compose_flags (z_of_string sh) (zlist_of_string vs)))
  | ["cnum"; o; w; z] => show_result hex_of_bytes (compose_numeric (order_of o) (z_of_string w) (z_of_string z))
  | ["pnum"; o; w; h] => show_result show_zn (parse_numeric (order_of o) (z_of_string w) (bytes_of_hex h) 0)
  | ["cmpint"; len; z] => show_result hex_of_bytes (compose_mpint (z_of_string z) (z_of_string len))
  | ["pmpint"; len; h] => show_result show_zn (parse_mpint (bytes_of_hex h) 0 (z_of_string len))
  | ["csshmpint"; z] => show_result hex_of_bytes (compose_ssh_mpint (z_of_string z))
  | ["psshmpint"; h] => show_result show_zn (parse_ssh_mpint (bytes_of_hex h) 0)
  | _ => "BADCMD"
  end.

Definition run_line (s : string) : string := run_words (words s).
