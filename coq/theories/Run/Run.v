(* The correspondence runner: one textual command per line -> one canonical outcome line.
   Evaluated either by vm_compute inside coqc or by the OCaml program extracted from this file. *)
From Coq Require Import ZArith List Bool String Ascii.
From Coq.Strings Require Import Byte.
From CP Require Import Core.Bytes Core.Result Core.Show Prim.Int Prim.Mpint Prim.Timestamp Base.Enum Base.Array Frame.LVFrame Frame.Units Frame.Entry Reader.Reader Spec.PL Spec.TlsSpec Spec.Ja3 Tls.Ja3Model Spec.KeyTag Spec.DnsSpec Dns.KeyTag Spec.SshSpec Spec.SshMsgSpec Ssh.Record Spec.OppSpec Opp.Rdp Text.Field Text.Cookie Ssh.Software Frame.Ssl2 Frame.SshPacket.
From CPGen Require Import Tables.
Import ListNotations.
Local Open Scope string_scope.
Open Scope Z_scope.

Definition order_of (s : string) : order :=
  if String.eqb s "=" then Native else if String.eqb s "<" then LittleEndian
  else if String.eqb s ">" then BigEndian else Network.

Definition show_zn (p : Z * Z) : string := string_of_Z (fst p) ++ " n=" ++ string_of_Z (snd p).

Definition show_ts (p : option dt * Z) : string :=
  match fst p with
  | None => "none"
  | Some d => string_of_Z (secs d) ++ " " ++ string_of_Z (micros d)
  end ++ " n=" ++ string_of_Z (snd p).

Definition flag_table (name : string) : list Z :=
  match find (fun t => String.eqb (fst t) name) flag_tables with Some t => snd t | None => [] end.

Definition zlist_of_string (s : string) : list Z :=
  if String.eqb s "-" then [] else map z_of_string (split_on "," s "").

(* ---- coded enumerations (tables and vector parameters come from the generated CPGen.Tables) ---- *)
Definition enum_table (name : string) : Z * list Z :=
  match find (fun t => String.eqb (fst t) name) enum_tables with Some t => snd t | None => (0, []) end.
Definition grease_of (g : Z) : option (list Z) :=
  if g =? 1 then Some grease_one_byte else if g =? 2 then Some grease_two_byte else None.
Definition enum_vector (name : string) : option (vparam * (list Z) * option (list Z) * Z) :=
  match find (fun t => String.eqb (fst t) name) enum_vectors with
  | Some (_, ((mn, mx, nm), (fac, g, w))) => Some ({| vmin := mn; vmax := mx; vnum := nm |}, snd (enum_table fac), grease_of g, w)
  | None => None
  end.
Definition show_eitem (it : eitem) : string :=
  match it with
  | Known i => "K" ++ string_of_Z (Z.of_nat i)
  | Invalid c Grease => "G" ++ string_of_Z c
  | Invalid c Unknown => "U" ++ string_of_Z c
  end.
Definition eitem_of_string (s : string) : eitem :=
  match s with
  | String "K" r => Known (Z.to_nat (z_of_string r))
  | String "G" r => Invalid (z_of_string r) Grease
  | String _ r => Invalid (z_of_string r) Unknown
  | EmptyString => Known 0
  end.
Definition eitems_of_string (s : string) : list eitem :=
  if String.eqb s "-" then [] else map eitem_of_string (split_on "," s "").
Definition show_in (p : nat * Z) : string := string_of_Z (Z.of_nat (fst p)) ++ " n=" ++ string_of_Z (snd p).
Definition show_items_n (p : list eitem * Z) : string := show_list show_eitem (fst p) ++ " n=" ++ string_of_Z (snd p).
Definition show_inv (p : (Z * invalid_kind) * Z) : string :=
  show_eitem (Invalid (fst (fst p)) (snd (fst p))) ++ " n=" ++ string_of_Z (snd p).

Definition opaque_enum (name : string) : option (vparam * list bytes) :=
  match find (fun t => String.eqb (fst t) name) opaque_enums with
  | Some (_, ((mn, mx, nm), codes)) => Some ({| vmin := mn; vmax := mx; vnum := nm |}, map bytes_of_hex codes)
  | None => None
  end.

(* ---- vector edit histories: items are (tag, size) pairs; bounds come from the generated array_params ---- *)
Definition vitem := (Z * Z)%type.
Definition vitem_sz (x : vitem) : Z := snd x.
Definition vitem_eqb (a b : vitem) : bool := (fst a =? fst b) && (snd a =? snd b).
Definition vitem_of_string (s : string) : vitem :=
  match split_on ":" s "" with [a; b] => (z_of_string a, z_of_string b) | _ => (0, 0) end.
Definition vitems_of_string (s : string) : list vitem :=
  if String.eqb s "-" then [] else map vitem_of_string (split_on "," s "").
Definition show_vitem (x : vitem) : string := string_of_Z (fst x) ++ ":" ++ string_of_Z (snd x).
Definition optz (s : string) : option Z := if String.eqb s "_" then None else Some (z_of_string s).
Definition vop_of_string (s : string) : option (@op vitem) :=
  match split_on "/" s "" with
  | ["app"; x] => Some (Append (vitem_of_string x))
  | ["ins"; i; x] => Some (Insert (z_of_string i) (vitem_of_string x))
  | ["del"; i] => Some (DelIdx (z_of_string i))
  | ["set"; i; x] => Some (SetIdx (z_of_string i) (vitem_of_string x))
  | ["dsl"; a; b] => Some (DelSlice (optz a) (optz b))
  | ["ssl"; a; b; xs] => Some (SetSlice (optz a) (optz b) (vitems_of_string xs))
  | ["ext"; xs] => Some (Extend (vitems_of_string xs))
  | ["iadd"; xs] => Some (IAdd (vitems_of_string xs))
  | ["pop"; i] => Some (Pop (optz i))
  | ["rem"; x] => Some (Remove (vitem_of_string x))
  | ["rev"] => Some Reverse
  | ["clr"] => Some Clear
  | _ => None
  end.
Definition show_outcome (o : @outcome) : string :=
  match o with
  | Accepted => "A"
  | Refused (NotEnoughData _) => "R:NotEnoughData"
  | Refused (TooMuchData _) => "R:TooMuchData"
  | Refused (Leak e) => "R:" ++ show_exn e
  | Refused _ => "R:?"
  end.
Fixpoint run_vops (mn mx : Z) (v : @vec vitem) (ops : list string) (acc : list string) : string :=
  match ops with
  | [] => String.concat "," (rev acc) ++ "|" ++ String.concat "," (map show_vitem (items v)) ++ "|" ++ string_of_Z (isz v)
  | o :: r => match vop_of_string o with
              | None => "BADCMD"
              | Some op => let (v', out) := step vitem_sz vitem_eqb mn mx v op in run_vops mn mx v' r (show_outcome out :: acc)
              end
  end.
Definition array_bounds (name : string) : Z * Z :=
  match find (fun t => String.eqb (fst t) name) array_params with
  | Some (_, (_, (mn, mx, _, _))) => (mn, mx)
  | None => (0, -1)
  end.

(* ---- framing units: every unit is presented as a parser to (header description, payload) ---- *)
Definition frame := (string * bytes)%type.
Definition show_frame (f : frame) : string := fst f ++ ";" ++ hex_of_bytes (snd f).
Definition lift {H} (sh : H -> string) (p : bytes -> result ((H * bytes) * Z)) (buf : bytes) : result (frame * Z) :=
  let* (x, n) := p buf in Ok ((sh (fst x), snd x), n).
Definition show_zz (x : Z * Z) : string := string_of_Z (fst x) ++ "," ++ string_of_Z (snd x).
Definition show_unit (_ : unit) : string := "".
Definition unit_parser (u : string) : option (bytes -> result (frame * Z)) :=
  if String.eqb u "tlsrecord" then Some (lift show_zz parse_tls_record)
  else if String.eqb u "hskex" then Some (lift show_unit (parse_handshake 12))
  else if String.eqb u "mysql" then Some (lift string_of_Z parse_mysql_record)
  else if String.eqb u "tpkt" then Some (lift string_of_Z parse_tpkt)
  else if String.eqb u "ovpn" then Some (lift show_unit parse_ovpn_tcp)
  else if String.eqb u "pgssl" then Some (lift show_unit parse_pg_sslrequest)
  else if String.eqb u "pgsync" then Some (lift show_unit parse_pg_sync)
  else None.
Definition zz_of_string (s : string) : Z * Z :=
  match split_on "," s "" with [a; b] => (z_of_string a, z_of_string b) | _ => (0, 0) end.
Definition unit_composer (u : string) (hd : string) (pl : bytes) : option (result bytes) :=
  if String.eqb u "tlsrecord" then Some (compose_tls_record (zz_of_string hd, pl))
  else if String.eqb u "hskex" then Some (compose_handshake 12 (tt, pl))
  else if String.eqb u "mysql" then Some (compose_mysql_record (z_of_string hd, pl))
  else if String.eqb u "tpkt" then Some (compose_tpkt (z_of_string hd, pl))
  else if String.eqb u "ovpn" then Some (compose_ovpn_tcp (tt, pl))
  else if String.eqb u "pgssl" then Some (compose_pg_sslrequest (tt, pl))
  else if String.eqb u "pgsync" then Some (compose_pg_sync (tt, pl))
  else None.
Definition show_frame_n (x : frame * Z) : string := show_frame (fst x) ++ " n=" ++ string_of_Z (snd x).
Definition show_frame_rest (x : frame * bytes) : string := show_frame (fst x) ++ " rest=" ++ hex_of_bytes (snd x).
Definition show_rstate (st : rstate frame) : string :=
  match status st with
  | Running => "RUN"
  | Failed e => "FAIL " ++ show_err e
  end ++ " out=" ++ show_list show_frame (out st) ++ " buf=" ++ hex_of_bytes (rbuf st) ++ " need=" ++ string_of_Z (need st).
(* the reader fed with the given chunks; the trace lists the wait target after every chunk *)
Fixpoint reader_trace (p : bytes -> result (frame * Z)) (st : rstate frame) (chunks : list bytes) (acc : list string) : string :=
  match chunks with
  | [] => String.concat "," (rev acc) ++ " " ++ show_rstate st
  | c :: r => let st' := feed frame p st c in reader_trace p st' r (string_of_Z (need st') :: acc)
  end.

(* ---- TLS specification encoders / decoders and JA3 ---- *)
Definition hexlist_of_string (s : string) : list bytes :=
  if String.eqb s "-" then [] else map bytes_of_hex (split_on "," s "").
Definition ext_of_string (s : string) : extension :=
  match split_on ":" s "" with [t; h] => (z_of_string t, bytes_of_hex h) | _ => (0, []) end.
Definition exts_of_string (s : string) : list extension :=
  if String.eqb s "-" then [] else map ext_of_string (split_on ";" s "").
Definition show_ext (e : extension) : string := string_of_Z (fst e) ++ ":" ++ hex_of_bytes (snd e).
Definition show_exts (l : list extension) : string := match l with [] => "-" | _ => String.concat ";" (map show_ext l) end.
Definition show_zs (l : list Z) : string := match l with [] => "-" | _ => String.concat "," (map string_of_Z l) end.
Definition dash_hex (b : bytes) : string := match b with [] => "-" | _ => hex_of_bytes b end.
(* ---- SSH transport-layer messages in the layout language of Spec/SshMsgSpec.v ---- *)
Definition ssh_msg_of (name : string) (args : list string) : option (list sfield) :=
  match name, args with
  | "disc", [r; d; l] => Some (msg_disconnect (z_of_string r) (if String.eqb d "-" then [] else bytes_of_hex d) (if String.eqb l "-" then [] else bytes_of_hex l))
  | "unimpl", [q] => Some (msg_unimplemented (z_of_string q))
  | "newkeys", [] => Some msg_newkeys
  | "dhinit", [e] => Some (msg_kexdh_init (z_of_string e))
  | "dhreply", [ks; f; sg] => Some (msg_kexdh_reply (bytes_of_hex ks) (z_of_string f) (if String.eqb sg "-" then [] else bytes_of_hex sg))
  | "gexreq", [mn; n; mx] => Some (msg_gex_request (z_of_string mn) (z_of_string n) (z_of_string mx))
  | "gexgroup", [p; g] => Some (msg_gex_group (z_of_string p) (z_of_string g))
  | "gexinit", [e] => Some (msg_gex_init (z_of_string e))
  | "gexreply", [ks; f; sg] => Some (msg_gex_reply (bytes_of_hex ks) (z_of_string f) (if String.eqb sg "-" then [] else bytes_of_hex sg))
  | _, _ => None
  end.
Definition show_sfield (f : sfield) : string :=
  match f with
  | FByte z => "B" ++ string_of_Z z
  | FBool b => if b then "T" else "F"
  | FU32 z => "U" ++ string_of_Z z
  | FStr t => "S" ++ hex_of_bytes t
  | FMpint z => "M" ++ string_of_Z z
  end.
Definition ssh_kinds_of (ctx : string) : Z -> option (list skind) :=
  if String.eqb ctx "kexdh" then kinds_kexdh else if String.eqb ctx "gex" then kinds_gex else kinds_init.

Definition show_opt (o : option bytes) : string := match o with Some b => "OK " ++ hex_of_bytes b | None => "NONE" end.
Definition hex_or_empty (s : string) : bytes := if String.eqb s "-" then [] else bytes_of_hex s.
Definition show_ch (h : client_hello) : string :=
  string_of_Z (ch_version h) ++ " " ++ hex_of_bytes (ch_random h) ++ " " ++ dash_hex (ch_session_id h) ++ " "
  ++ show_zs (filter (fun c => negb (is_scsv c)) (ch_suites h)) ++ " "
  ++ (if memzb FALLBACK_SCSV (ch_suites h) then "1" else "0") ++ " " ++ (if memzb EMPTY_RENEGOTIATION_INFO_SCSV (ch_suites h) then "1" else "0") ++ " "
  ++ show_zs (ch_compressions h) ++ " " ++ show_exts (ch_extensions h).

Definition namelists_of_string (s : string) : list (list bytes) := map hexlist_of_string (split_on "|" s "").
Definition show_names (l : list bytes) : string := match l with [] => "-" | _ => String.concat "," (map hex_of_bytes l) end.
Definition show_kex (k : bytes * list (list bytes) * Z * Z) : string :=
  let '(cookie, ls, f, res) := k in
  hex_of_bytes cookie ++ " " ++ String.concat "|" (map show_names ls) ++ " " ++ (if f =? 0 then "0" else "1") ++ " " ++ string_of_Z res.   (* RFC 4251 5: every non-zero octet is TRUE *)


(* certificate options: name:data|name:_ with hex fields, "-" for none *)
Definition cert_options_of_string (s : string) : list (bytes * option bytes) :=
  if String.eqb s "-" then []
  else map (fun t => match split_on ":" t "" with
                     | [n; d] => (bytes_of_hex n, if String.eqb d "_" then None else Some (hex_or_empty d))
                     | _ => ([], None)
                     end) (split_on "|" s "").
(* ---- SSL 2.0 records: message and error types come from the generated IntEnum table; the hello messages are not
   modelled and are reported as such ---- *)
Definition int_enum_codes (name : string) : list Z :=
  match find (fun t => String.eqb (fst t) name) int_enum_members with Some (_, ms) => map snd ms | None => [] end.
Definition ssl2_msg_runner (t : Z) (m : bytes) : result Z :=
  if (t =? 1) || (t =? 4) then Err OutOfFuel else ssl2_msg (int_enum_codes "SslErrorType") t m.
(* the two record layers as units of the reader loop (message type / nothing as the header description, the message bytes) *)
Definition record_parser (u : string) : option (bytes -> result (frame * Z)) :=
  if String.eqb u "ssl2" then
    Some (fun buf => let* (x, n) := ssl2_parse ssl2_msg_runner (int_enum_codes "SslMessageType") buf in
                     Ok ((string_of_Z (fst (fst x)), snd (fst x)), n))
  else if String.eqb u "sshpkt" then
    Some (fun buf => let* (x, n) := ssh_parse (ssh_msg_init (int_enum_codes "SshMessageCode")) buf in Ok (("", fst x), n))
  else unit_parser u.
Definition show_ssl2 (r : (Z * bytes * bytes) * Z) : string :=
  string_of_Z (fst (fst (fst r))) ++ " " ++ hex_of_bytes (snd (fst (fst r))) ++ " n=" ++ string_of_Z (snd r).

(* ---- text fields ---- *)
Definition show_comp (c : comp) : string :=
  hex_of_bytes (fst c) ++ ":" ++ match snd c with None => "-" | Some v => "v" ++ hex_of_bytes v end.
Definition show_param (p : option bytes) : string := match p with None => "-" | Some r => "r" ++ hex_of_bytes r end.
Definition field_schema (name : string) : option (byte * list fattr) :=
  match find (fun t => String.eqb (fst t) name) field_schemas with
  | Some (_, (sep, _, rows)) =>
    match bytes_of_hex sep with
    | [c] => Some (c, map (fun t => {| fa_canon := bytes_of_hex (fst (fst t));
                                       fa_mode := (if snd (fst t) =? 1 then Insens else if snd (fst t) =? 2 then AnyName else Exact);
                                       fa_required := snd t |}) rows)
    | _ => None
    end
  | None => None
  end.
Definition show_sts (r : Z * bool * bool) : string :=
  string_of_Z (fst (fst r)) ++ " " ++ (if snd (fst r) then "1" else "0") ++ " " ++ (if snd r then "1" else "0").
Definition text_cmd (ws : list string) : option string :=
  match ws with
  | ["nvl"; sep; h] =>
      match bytes_of_hex sep with
      | [c] => Some (show_result (show_list show_comp) (nvlist c (hex_or_empty h)))
      | _ => Some "BADCMD"
      end
  | ["fvm"; cls; h] =>
      match field_schema cls with
      | Some (c, sch) => Some (show_result (fun r => show_list show_param (fst r) ++ " " ++ show_list show_comp (snd r))
                                           (fvm c sch (hex_or_empty h)))
      | None => Some "BADCMD"
      end
  | ["pssl2"; h] => Some (show_result show_ssl2 (ssl2_parse ssl2_msg_runner (int_enum_codes "SslMessageType") (hex_or_empty h)))
  | ["pssh"; h] => Some (show_result (fun r => hex_of_bytes (fst (fst r)) ++ " n=" ++ string_of_Z (snd r))
                                     (ssh_parse (ssh_msg_init (int_enum_codes "SshMessageCode")) (hex_or_empty h)))
  | ["cssh"; h] => Some ("OK " ++ hex_of_bytes (ssh_compose (hex_or_empty h)))
  | ["cssl2"; t; h] => Some (show_result hex_of_bytes (ssl2_compose (z_of_string t) (hex_or_empty h)))
  | ["sts"; h] => Some (show_result show_sts (sts_parse (hex_or_empty h)))
  | ["swver"; vendor; sep; h] =>
      match bytes_of_hex sep with
      | [c] => Some (show_result (fun v => match v with Some w => hex_of_bytes w | None => "-" end) (sw_parse (bytes_of_hex vendor) c (hex_or_empty h)))
      | _ => Some "BADCMD"
      end
  | ["cookiepair"; h] =>
      Some (show_result (fun r => dash_hex (fst (fst r)) ++ " " ++ dash_hex (snd (fst r)) ++ " " ++ dash_hex (snd r)) (cookie_pair (hex_or_empty h)))
  | ["hline"; strict; h] =>
      Some (show_result (fun r => hex_of_bytes (fst (fst r)) ++ " " ++ hex_of_bytes (snd (fst r)) ++ " n=" ++ string_of_Z (snd r))
                        (if String.eqb strict "1" then
                           (* the Server value class (FieldValueString) rejects an empty value; the field class reports InvalidValue *)
                           match parsed_header_line (list_byte_of_string "server") (hex_or_empty h) with
                           | Ok (_, [], _) => Err InvalidValue
                           | r => r
                           end
                         else header_line false (hex_or_empty h)))
  | _ => None
  end.

Definition run_words (ws : list string) : string :=
  match text_cmd ws with Some r => r | None =>
  match ws with
  | ["tpktenc"; h] => show_opt (enc_tpkt (hex_or_empty h))
  | ["cotpenc"; code; dst; src; h] => show_opt (enc_cotp (z_of_string code) (z_of_string dst) (z_of_string src) (hex_or_empty h))
  | ["pcotp"; ty; h] => show_result (fun x => show_zz (fst (fst x)) ++ ";" ++ hex_of_bytes (snd (fst x)) ++ " n=" ++ string_of_Z (snd x))
                                    (parse_cotp (z_of_string ty) (bytes_of_hex h))
  | ["rdpnegenc"; ty; flags; protos] => "OK " ++ hex_of_bytes (enc_rdp_neg (z_of_string ty) (z_of_string flags) (z_of_string protos))
  | ["rdpnegdec"; ty; h] =>
      match dec_rdp_neg (bytes_of_hex h) with
      | Some (t, f, p, r) => if t =? z_of_string ty then "OK " ++ string_of_Z t ++ " " ++ string_of_Z f ++ " " ++ string_of_Z p ++ " n=" ++ string_of_Z (zlen (bytes_of_hex h) - zlen r) else "NONE"
      | None => "NONE"
      end
  | ["mysqlpktenc"; seq; h] => show_opt (enc_mysql_packet (z_of_string seq) (hex_or_empty h))
  | ["mysqlssl41"; caps; mx; cs] => "OK " ++ hex_of_bytes (enc_mysql_ssl_request41 (z_of_string caps) (z_of_string mx) (z_of_string cs))
  | ["mysqlhs"; ver; cid; a1; caps; cs; st; a2; pl] =>
      "OK " ++ hex_of_bytes (enc_mysql_handshake_v10 (hex_or_empty ver) (z_of_string cid) (hex_or_empty a1) (z_of_string caps) (z_of_string cs)
                                                     (z_of_string st) (hex_or_empty a2) (if String.eqb pl "_" then None else Some (hex_or_empty pl)))
  | ["mysqlssl320"; caps; mx] => "OK " ++ hex_of_bytes (enc_mysql_ssl_request320 (z_of_string caps) (z_of_string mx))
  | ["ovpnctl"; op; sess; acks; remote; pid; h] =>
      "OK " ++ hex_of_bytes (enc_openvpn_control (z_of_string op) (z_of_string sess) (zlist_of_string acks) (z_of_string remote) (z_of_string pid) (hex_or_empty h))
  | ["ovpnack"; sess; acks; remote] => "OK " ++ hex_of_bytes (enc_openvpn_ack (z_of_string sess) (zlist_of_string acks) (z_of_string remote))
  | ["ovpnhrc"; sess; pid] => "OK " ++ hex_of_bytes (enc_openvpn_hard_reset_client (z_of_string sess) (z_of_string pid))
  | ["ovpnhrs"; sess; acks; remote; pid] =>
      "OK " ++ hex_of_bytes (enc_openvpn_hard_reset_server (z_of_string sess) (zlist_of_string acks) (z_of_string remote) (z_of_string pid))
  | ["ovpndec"; h] =>
      match dec_openvpn_header (bytes_of_hex h) with
      | Some (op, s, acks, r, body) =>
          "OK " ++ string_of_Z op ++ " " ++ string_of_Z s ++ " " ++ (match acks with [] => "-" | _ => String.concat "," (map string_of_Z acks) end)
               ++ " " ++ (match r with Some z => string_of_Z z | None => "_" end) ++ " " ++ (match body with [] => "-" | _ => hex_of_bytes body end)
      | None => "NONE"
      end
  | ["ovpntcp"; h] => show_opt (enc_openvpn_tcp (hex_or_empty h))
  | ["pgssl"] => "OK " ++ hex_of_bytes enc_pg_ssl_request
  | ["bannerenc"; proto; sw; c] =>
      show_opt (enc_banner (hex_or_empty proto) (hex_or_empty sw) (if String.eqb c "_" then None else Some (hex_or_empty c)))
  | ["bannerline"; h] =>
      match dec_banner (hex_or_empty h) with
      | Some (proto, sw, c, n) =>
          "OK " ++ hex_of_bytes (banner_prefix ++ proto ++ [b_dash] ++ sw ++ match c with Some c' => b_sp :: c' | None => [] end)%list
               ++ " n=" ++ string_of_Z n
      | None => "NONE"
      end
  | ["bannerdec"; h] =>
      match dec_banner (hex_or_empty h) with
      | Some (proto, sw, c, n) =>
          match enc_banner proto sw c with
          | Some b => "OK " ++ hex_of_bytes b ++ " n=" ++ string_of_Z n
          | None => "NONE"
          end
      | None => "NONE"
      end
  | ["certed"; nonce; pk; serial; ctype; keyid; principals; after; before; crit; ext; reserved; sigkey; sigdata] =>
      "OK " ++ hex_of_bytes (enc_cert_ed25519 (hex_or_empty nonce) (hex_or_empty pk) (z_of_string serial) (z_of_string ctype) (hex_or_empty keyid)
                                              (hexlist_of_string principals) (z_of_string after) (z_of_string before)
                                              (cert_options_of_string crit) (cert_options_of_string ext) (hex_or_empty reserved)
                                              (hex_or_empty sigkey) (hex_or_empty sigdata))
  | ["ssl2chenc"; ciphers; sid; ch] =>
      "OK " ++ hex_of_bytes (enc_ssl2_client_hello 2 (zlist_of_string ciphers) (hex_or_empty sid) (hex_or_empty ch))
  | ["ssl2recenc"; t; h] => show_opt (enc_ssl2_record (z_of_string t) (hex_or_empty h))
  | ["ssl2shenc"; hit; ct; cert; ciphers; cid] =>
      "OK " ++ hex_of_bytes (enc_ssl2_server_hello (z_of_string hit) (z_of_string ct) 2 (hex_or_empty cert) (zlist_of_string ciphers) (hex_or_empty cid))
  | "sshmsg" :: name :: args => match ssh_msg_of name args with Some fs => "OK " ++ hex_of_bytes (enc_fields fs) | None => "BADCMD" end
  | ["sshmsgdec"; ctx; h] =>
      match dec_msg (ssh_kinds_of ctx) (bytes_of_hex h) with
      | Some (fs, r) => "OK " ++ String.concat " " (map show_sfield fs) ++ " n=" ++ string_of_Z (zlen (bytes_of_hex h) - zlen r)
      | None => "NONE"
      end
  | ["sshpad"; l] => "OK " ++ string_of_Z (padding_length (z_of_string l)) ++ " " ++ string_of_Z (packet_length (z_of_string l))
  | ["mpintspec"; z] => "OK " ++ hex_of_bytes (enc_mpint (z_of_string z))
  | ["kexenc"; cookie; lists; f; res] =>
      show_opt (enc_kexinit (bytes_of_hex cookie) (namelists_of_string lists) (String.eqb f "1") (z_of_string res))
  | ["kexdec"; h] => match dec_kexinit (bytes_of_hex h) with Some k => "OK " ++ show_kex k | None => "NONE" end
  | ["hasshpre"; h; side] => match dec_kexinit (bytes_of_hex h) with
                             | Some (_, ls, _, _) => "OK " ++ hex_of_bytes (hassh_text ls (String.eqb side "s"))
                             | None => "NONE" end
  | ["rsablobn"; nm; e; n] => "OK " ++ hex_of_bytes (enc_rsa_blob_named (bytes_of_hex nm) (z_of_string e) (z_of_string n))
  | ["rsablob"; e; n] => "OK " ++ hex_of_bytes (enc_rsa_blob (z_of_string e) (z_of_string n))
  | ["dssblob"; p; q; g; y] => "OK " ++ hex_of_bytes (enc_dss_blob (z_of_string p) (z_of_string q) (z_of_string g) (z_of_string y))
  | ["ecblob"; ident; size; x; y] =>
      "OK " ++ hex_of_bytes (enc_ecdsa_blob (bytes_of_hex ident) (Z.to_nat (z_of_string size)) (z_of_string x) (z_of_string y))
  | ["edblob"; k] => "OK " ++ hex_of_bytes (enc_ed25519_blob (bytes_of_hex k))
  | ["keytag"; h] => "OK " ++ string_of_Z (key_tag (bytes_of_hex h))
  | ["keytagref"; h] => "OK " ++ string_of_Z (rfc4034_keytag (bytes_of_hex h))
  | ["keytag1"; m] => "OK " ++ string_of_Z (key_tag_alg1 (z_of_string m))
  | ["dsenc"; kt; a; d; dg] => "OK " ++ hex_of_bytes (enc_ds (z_of_string kt) (z_of_string a) (z_of_string d) (hex_or_empty dg))
  | ["mxenc"; pref; name] => show_opt (enc_mx (z_of_string pref) (hexlist_of_string name))
  | ["mxdec"; h] =>
      match dec_mx (hex_or_empty h) with
      | Some (p, ls) => "OK " ++ string_of_Z p ++ " " ++ show_names ls
      | None => "NONE" end
  | ["nameenc"; name] => show_opt (enc_labels (hexlist_of_string name))
  | ["txtenc"; h] => show_opt (enc_txt (hex_or_empty h))
  | ["txtdec"; h] => match dec_txt (hex_or_empty h) with Some t => "OK " ++ dash_hex t | None => "NONE" end
  | ["rrsigenc"; ty; alg; labels; ttl; ex; inc; kt; name; sig] =>
      show_opt (enc_rrsig (z_of_string ty) (z_of_string alg) (z_of_string labels) (z_of_string ttl) (z_of_string ex) (z_of_string inc)
                          (z_of_string kt) (hexlist_of_string name) (hex_or_empty sig))
  | ["dnskeyecenc"; flags; alg; x; y] =>
      match enc_ecdsa_key (z_of_string alg) (z_of_string x) (z_of_string y) with
      | Some k => "OK " ++ hex_of_bytes (enc_dnskey (z_of_string flags) (z_of_string alg) k) | None => "NONE" end
  | ["dnskeyedenc"; flags; alg; k] =>
      match enc_eddsa_key (z_of_string alg) (bytes_of_hex k) with
      | Some k' => "OK " ++ hex_of_bytes (enc_dnskey (z_of_string flags) (z_of_string alg) k') | None => "NONE" end
  | ["dnskeydec"; h] =>
      match dec_dnskey (bytes_of_hex h) with
      | Some (f, p, a, k) =>
          if negb (p =? 3) then "NONE" else
          match dec_ecdsa_key a k, ecdsa_curve_oid a with
          | Some (x, y), Some oid => "OK " ++ string_of_Z f ++ " " ++ string_of_Z a ++ " EC " ++ String.concat "." (map string_of_Z oid)
                                      ++ " " ++ string_of_Z x ++ " " ++ string_of_Z y
          | _, _ => match enc_eddsa_key a k with
                    | Some k' => "OK " ++ string_of_Z f ++ " " ++ string_of_Z a ++ " ED " ++ hex_of_bytes k'
                    | None => "NONE" end
          end
      | None => "NONE"
      end
  | ["dnskeyrsaenc"; flags; alg; e; m] => "OK " ++ hex_of_bytes (enc_dnskey (z_of_string flags) (z_of_string alg) (enc_rsa_key (z_of_string e) (bytes_of_hex m)))
  | ["chenc"; ver; rnd; sid; suites; comps; exts] =>
      show_opt (enc_client_hello {| ch_version := z_of_string ver; ch_random := bytes_of_hex rnd; ch_session_id := hex_or_empty sid;
                                    ch_suites := zlist_of_string suites; ch_compressions := zlist_of_string comps; ch_extensions := exts_of_string exts |})
  | ["chdec"; h] => match dec_client_hello (bytes_of_hex h) with
                    | Some (c, r) => "OK " ++ show_ch c ++ " n=" ++ string_of_Z (zlen (bytes_of_hex h) - zlen r)
                    | None => "NONE" end
  | ["ja3ref"; h] => match ja3_ref (bytes_of_hex h) with Some s => "OK " ++ s | None => "NONE" end
  | ["ja3impl"; h] => match dec_client_hello (bytes_of_hex h) with Some (c, _) => "OK " ++ ja3_impl c | None => "NONE" end
  | ["shenc"; ver; rnd; sid; suite; comp; exts] =>
      show_opt (enc_server_hello {| sh_version := z_of_string ver; sh_random := bytes_of_hex rnd; sh_session_id := hex_or_empty sid;
                                    sh_suite := z_of_string suite; sh_compression := z_of_string comp; sh_extensions := exts_of_string exts |})
  | ["hrrenc"; ver; rnd; sid; suite; comp; exts] =>
      show_opt (enc_hello_retry_request {| sh_version := z_of_string ver; sh_random := bytes_of_hex rnd; sh_session_id := hex_or_empty sid;
                                           sh_suite := z_of_string suite; sh_compression := z_of_string comp; sh_extensions := exts_of_string exts |})
  | ["shdec"; ty; h] => match dec_server_hello_typed (z_of_string ty) (bytes_of_hex h) with
                        | Some (c, r) => "OK " ++ string_of_Z (sh_version c) ++ " " ++ hex_of_bytes (sh_random c) ++ " " ++ dash_hex (sh_session_id c) ++ " "
                                         ++ string_of_Z (sh_suite c) ++ " " ++ string_of_Z (sh_compression c) ++ " " ++ show_exts (sh_extensions c)
                                         ++ " n=" ++ string_of_Z (zlen (bytes_of_hex h) - zlen r)
                        | None => "NONE" end
  | ["certenc"; certs] => show_opt (enc_certificate (hexlist_of_string certs))
  | ["shdenc"] => show_opt enc_server_hello_done
  | ["certreqenc"; types; sa; cas] =>
      show_opt (enc_certificate_request (zlist_of_string types) (if String.eqb sa "_" then None else Some (zlist_of_string sa)) (hexlist_of_string cas))
  | ["certreqdec"; w; h] =>
      match dec_certificate_request (String.eqb w "1") (bytes_of_hex h) with
      | Some ((types, sa, cas), r) =>
          "OK " ++ String.concat "," (map string_of_Z types) ++ ";" ++ match sa with None => "_" | Some l => String.concat "," (map string_of_Z l) end
               ++ ";" ++ String.concat "," (map hex_of_bytes cas) ++ " n=" ++ string_of_Z (zlen (bytes_of_hex h) - zlen r)
      | None => "NONE"
      end
  | ["certstenc"; ty; h] => show_opt (enc_certificate_status (z_of_string ty) (hex_or_empty h))
  | ["certstdec"; h] =>
      match dec_certificate_status (bytes_of_hex h) with
      | Some ((ty, resp), r) => "OK " ++ string_of_Z ty ++ " " ++ hex_of_bytes resp ++ " n=" ++ string_of_Z (zlen (bytes_of_hex h) - zlen r)
      | None => "NONE"
      end
  | ["recenc"; ct; ver; frag] => show_opt (enc_record (z_of_string ct) (z_of_string ver) (hex_or_empty frag))
  | ["alertenc"; l; d] => "OK " ++ hex_of_bytes (enc_alert (z_of_string l) (z_of_string d))
  | ["ccsenc"] => "OK " ++ hex_of_bytes enc_ccs
  | ["extenc"; "G"; l] => show_opt (enc_supported_groups (zlist_of_string l))
  | ["extenc"; "P"; l] => show_opt (enc_point_formats (zlist_of_string l))
  | ["extenc"; "V"; l] => show_opt (enc_supported_versions_client (zlist_of_string l))
  | ["extenc"; "S"; l] => show_opt (enc_signature_algorithms (zlist_of_string l))
  (* whole extensions (type and length included) whose data is a SignatureSchemeList: signature_algorithms_cert (RFC 8446 4.2.3, 50)
     and delegated_credential (RFC 9345, 34) *)
  | ["extenc"; "C"; l] => match enc_signature_algorithms (zlist_of_string l) with Some d => show_opt (enc_extension (50, d)) | None => "NONE" end
  | ["extenc"; "D"; l] => match enc_signature_algorithms (zlist_of_string l) with Some d => show_opt (enc_extension (34, d)) | None => "NONE" end
  | ["extenc"; "A"; l] => show_opt (enc_alpn (hexlist_of_string l))
  | ["extenc"; "N"; h] => show_opt (enc_sni (bytes_of_hex h))
  | ["extenc"; "K"; l] => show_opt (enc_psk_modes (zlist_of_string l))
  | ["extenc"; "L"; n] => "OK " ++ hex_of_bytes (enc_record_size_limit (z_of_string n))
  | ["extenc"; "R"; h] => show_opt (enc_renegotiation_info (hex_or_empty h))
  | ["pframe"; u; h] => match unit_parser u with
                        | Some p => show_result show_frame_n (p (bytes_of_hex h)) | None => "BADCMD" end
  | ["xframe"; u; h] => match unit_parser u with
                        | Some p => show_result show_frame (parse_exact_size frame p (bytes_of_hex h)) | None => "BADCMD" end
  | ["mframe"; u; h] => match unit_parser u with
                        | Some p => show_result show_frame_rest (parse_mutable frame p (bytes_of_hex h)) | None => "BADCMD" end
  | ["cframe"; u; hd; h] => match unit_composer u hd (bytes_of_hex h) with
                            | Some r => show_result hex_of_bytes r | None => "BADCMD" end
  | ["reader"; u; chunks] => match record_parser u with
                             | Some p => reader_trace p (rinit frame) (map bytes_of_hex (if String.eqb chunks "-" then [] else split_on "," chunks "")) []
                             | None => "BADCMD" end
  | ["vec"; cls; init; ops] =>
      let (mn, mx) := array_bounds cls in
      match mk_vec vitem_sz mn mx (vitems_of_string init) with
      | Ok v => run_vops mn mx v (if String.eqb ops "-" then [] else split_on ";" ops "") []
      | Err e => show_err e
      end
  | ["popq"; t; h] => match opaque_enum t with
                      | Some (p, tbl) => show_result show_in (parse_opaque_enum p tbl (bytes_of_hex h))
                      | None => "BADCMD" end
  | ["copq"; t; i] => match opaque_enum t with
                      | Some (p, tbl) => show_result hex_of_bytes (compose_opaque_enum tbl (Z.to_nat (z_of_string i)))
                      | None => "BADCMD" end
  | ["penum"; t; h] => let (w, tbl) := enum_table t in show_result show_in (parse_enum tbl w (bytes_of_hex h))
  | ["cenum"; t; i] => let (w, tbl) := enum_table t in show_result hex_of_bytes (compose_enum tbl w (Z.to_nat (z_of_string i)))
  | ["pinv"; g; h] => match grease_of (z_of_string g) with
                      | Some gt => show_result show_inv (parse_invalid gt (z_of_string g) (bytes_of_hex h))
                      | None => "BADCMD" end
  | ["pevec"; v; h] => match enum_vector v with
                       | Some (p, tbl, g, w) => show_result show_items_n (parse_enum_vector p tbl g w (bytes_of_hex h))
                       | None => "BADCMD" end
  | ["cevec"; v; its] => match enum_vector v with
                         | Some (p, tbl, g, w) => show_result hex_of_bytes (mk_compose_enum_vector p tbl w (eitems_of_string its))
                         | None => "BADCMD" end
  | ["cts"; ms; w; "none"] => show_result hex_of_bytes (compose_timestamp (String.eqb ms "1") (z_of_string w) None)
  | ["cts"; ms; w; sec; mic] =>
      show_result hex_of_bytes (compose_timestamp (String.eqb ms "1") (z_of_string w)
                                  (Some {| secs := z_of_string sec; micros := z_of_string mic |}))
  | ["pts"; ms; w; h] => show_result show_ts (parse_timestamp (String.eqb ms "1") (z_of_string w) (bytes_of_hex h) 0)
  | ["pflags"; t; w; sh; h] =>
      show_result (fun p => show_list string_of_Z (parse_flags (flag_table t) (z_of_string sh) (fst p)))
                  (parse_numeric Network (z_of_string w) (bytes_of_hex h) 0)
  | ["cflags"; t; w; sh; vs] =>
      show_result hex_of_bytes (compose_numeric Network (z_of_string w) (compose_flags (z_of_string sh) (zlist_of_string vs)))
  | ["cnum"; o; w; z] => show_result hex_of_bytes (compose_numeric (order_of o) (z_of_string w) (z_of_string z))
  | ["pnum"; o; w; h] => show_result show_zn (parse_numeric (order_of o) (z_of_string w) (bytes_of_hex h) 0)
  | ["cmpint"; len; z] => show_result hex_of_bytes (compose_mpint (z_of_string z) (z_of_string len))
  | ["pmpint"; len; h] => show_result show_zn (parse_mpint (bytes_of_hex h) 0 (z_of_string len))
  | ["csshmpint"; z] => show_result hex_of_bytes (compose_ssh_mpint (z_of_string z))
  | ["psshmpint"; h] => show_result show_zn (parse_ssh_mpint (bytes_of_hex h) 0)
  | _ => "BADCMD"
  end end.

Definition run_line (s : string) : string := run_words (words s).
