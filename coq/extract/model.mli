
type nat =
| O
| S of nat

val fst : ('a1 * 'a2) -> 'a1

val snd : ('a1 * 'a2) -> 'a2

val length : 'a1 list -> nat

val app : 'a1 list -> 'a1 list -> 'a1 list

type comparison =
| Eq
| Lt
| Gt

val compOpp : comparison -> comparison

val add : nat -> nat -> nat

type byte =
| X00
| X01
| X02
| X03
| X04
| X05
| X06
| X07
| X08
| X09
| X0a
| X0b
| X0c
| X0d
| X0e
| X0f
| X10
| X11
| X12
| X13
| X14
| X15
| X16
| X17
| X18
| X19
| X1a
| X1b
| X1c
| X1d
| X1e
| X1f
| X20
| X21
| X22
| X23
| X24
| X25
| X26
| X27
| X28
| X29
| X2a
| X2b
| X2c
| X2d
| X2e
| X2f
| X30
| X31
| X32
| X33
| X34
| X35
| X36
| X37
| X38
| X39
| X3a
| X3b
| X3c
| X3d
| X3e
| X3f
| X40
| X41
| X42
| X43
| X44
| X45
| X46
| X47
| X48
| X49
| X4a
| X4b
| X4c
| X4d
| X4e
| X4f
| X50
| X51
| X52
| X53
| X54
| X55
| X56
| X57
| X58
| X59
| X5a
| X5b
| X5c
| X5d
| X5e
| X5f
| X60
| X61
| X62
| X63
| X64
| X65
| X66
| X67
| X68
| X69
| X6a
| X6b
| X6c
| X6d
| X6e
| X6f
| X70
| X71
| X72
| X73
| X74
| X75
| X76
| X77
| X78
| X79
| X7a
| X7b
| X7c
| X7d
| X7e
| X7f
| X80
| X81
| X82
| X83
| X84
| X85
| X86
| X87
| X88
| X89
| X8a
| X8b
| X8c
| X8d
| X8e
| X8f
| X90
| X91
| X92
| X93
| X94
| X95
| X96
| X97
| X98
| X99
| X9a
| X9b
| X9c
| X9d
| X9e
| X9f
| Xa0
| Xa1
| Xa2
| Xa3
| Xa4
| Xa5
| Xa6
| Xa7
| Xa8
| Xa9
| Xaa
| Xab
| Xac
| Xad
| Xae
| Xaf
| Xb0
| Xb1
| Xb2
| Xb3
| Xb4
| Xb5
| Xb6
| Xb7
| Xb8
| Xb9
| Xba
| Xbb
| Xbc
| Xbd
| Xbe
| Xbf
| Xc0
| Xc1
| Xc2
| Xc3
| Xc4
| Xc5
| Xc6
| Xc7
| Xc8
| Xc9
| Xca
| Xcb
| Xcc
| Xcd
| Xce
| Xcf
| Xd0
| Xd1
| Xd2
| Xd3
| Xd4
| Xd5
| Xd6
| Xd7
| Xd8
| Xd9
| Xda
| Xdb
| Xdc
| Xdd
| Xde
| Xdf
| Xe0
| Xe1
| Xe2
| Xe3
| Xe4
| Xe5
| Xe6
| Xe7
| Xe8
| Xe9
| Xea
| Xeb
| Xec
| Xed
| Xee
| Xef
| Xf0
| Xf1
| Xf2
| Xf3
| Xf4
| Xf5
| Xf6
| Xf7
| Xf8
| Xf9
| Xfa
| Xfb
| Xfc
| Xfd
| Xfe
| Xff

type positive =
| XI of positive
| XO of positive
| XH

type n =
| N0
| Npos of positive

type z =
| Z0
| Zpos of positive
| Zneg of positive

val eqb : bool -> bool -> bool

module Pos :
 sig
  val succ : positive -> positive

  val add : positive -> positive -> positive

  val add_carry : positive -> positive -> positive

  val pred_double : positive -> positive

  val pred_N : positive -> n

  val mul : positive -> positive -> positive

  val iter : ('a1 -> 'a1) -> 'a1 -> positive -> 'a1

  val div2 : positive -> positive

  val div2_up : positive -> positive

  val size : positive -> positive

  val compare_cont : comparison -> positive -> positive -> comparison

  val compare : positive -> positive -> comparison

  val eqb : positive -> positive -> bool

  val coq_Nsucc_double : n -> n

  val coq_Ndouble : n -> n

  val coq_lor : positive -> positive -> positive

  val coq_land : positive -> positive -> n

  val ldiff : positive -> positive -> n

  val iter_op : ('a1 -> 'a1 -> 'a1) -> positive -> 'a1 -> 'a1

  val to_nat : positive -> nat

  val of_succ_nat : nat -> positive
 end

module N :
 sig
  val succ_pos : n -> positive

  val add : n -> n -> n

  val mul : n -> n -> n

  val coq_lor : n -> n -> n

  val ldiff : n -> n -> n
 end

module Z :
 sig
  val double : z -> z

  val succ_double : z -> z

  val pred_double : z -> z

  val pos_sub : positive -> positive -> z

  val add : z -> z -> z

  val opp : z -> z

  val sub : z -> z -> z

  val mul : z -> z -> z

  val pow_pos : z -> positive -> z

  val pow : z -> z -> z

  val compare : z -> z -> comparison

  val leb : z -> z -> bool

  val ltb : z -> z -> bool

  val gtb : z -> z -> bool

  val eqb : z -> z -> bool

  val abs : z -> z

  val to_nat : z -> nat

  val to_N : z -> n

  val of_nat : nat -> z

  val of_N : n -> z

  val pos_div_eucl : positive -> z -> z * z

  val div_eucl : z -> z -> z * z

  val div : z -> z -> z

  val modulo : z -> z -> z

  val div2 : z -> z

  val log2 : z -> z

  val shiftl : z -> z -> z

  val shiftr : z -> z -> z

  val coq_land : z -> z -> z
 end

val nth_error : 'a1 list -> nat -> 'a1 option

val rev : 'a1 list -> 'a1 list

val map : ('a1 -> 'a2) -> 'a1 list -> 'a2 list

val fold_left : ('a1 -> 'a2 -> 'a1) -> 'a2 list -> 'a1 -> 'a1

val firstn : nat -> 'a1 list -> 'a1 list

val skipn : nat -> 'a1 list -> 'a1 list

val seq : nat -> nat -> nat list

val repeat : 'a1 -> nat -> 'a1 list

val to_N0 : byte -> n

val of_N0 : n -> byte option

type ascii =
| Ascii of bool * bool * bool * bool * bool * bool * bool * bool

val zero : ascii

val one : ascii

val shift : bool -> ascii -> ascii

val eqb0 : ascii -> ascii -> bool

val ascii_of_pos : positive -> ascii

val ascii_of_N : n -> ascii

val n_of_digits : bool list -> n

val n_of_ascii : ascii -> n

type string =
| EmptyString
| String of ascii * string

val eqb1 : string -> string -> bool

val append : string -> string -> string

type bytes = byte list

val b2z : byte -> z

val z2b : z -> byte

val zlen : 'a1 list -> z

val be_val_acc : z -> bytes -> z

val be_val : bytes -> z

val be_enc : nat -> z -> bytes

val le_val : bytes -> z

val le_enc : nat -> z -> bytes

type exn =
| IndexError
| KeyError
| AttributeError
| TypeError
| UnicodeError
| StructError
| ValueError
| OverflowError
| StopIteration
| NotImplementedError
| RecursionError
| OtherExn

type err =
| NotEnoughData of z
| TooMuchData of z
| InvalidValue
| InvalidType
| Leak of exn
| OutOfFuel

type 'a result =
| Ok of 'a
| Err of err

val bind : 'a1 result -> ('a1 -> 'a2 result) -> 'a2 result

val digit_char : z -> ascii

val pos_digits : nat -> z -> string -> string

val string_of_Z : z -> string

val hex_of_byte : byte -> string

val hex_of_bytes : bytes -> string

val hexval : ascii -> z

val bytes_of_hex : string -> bytes

val z_of_digits : string -> z -> z

val z_of_string : string -> z

val split_on : ascii -> string -> string -> string list

val words : string -> string list

val show_exn : exn -> string

val show_err : err -> string

val show_result : ('a1 -> string) -> 'a1 result -> string

type order =
| Native
| LittleEndian
| BigEndian
| Network

val is_big : order -> bool

val fmt_size : z -> nat option

val struct_pack : order -> nat -> z -> bytes result

val compose_numeric : order -> z -> z -> bytes result

val compose_numeric_array : order -> z -> z list -> bytes result

val slice : bytes -> z -> z -> bytes

val unpack : order -> bytes -> z

val parse_items : order -> z -> bytes -> z -> nat -> z list

val parse_numeric_array : order -> z -> z -> bytes -> z -> (z list * z) result

val parse_numeric : order -> z -> bytes -> z -> (z * z) result

val bit_length : z -> z

val is_zero_byte : byte -> bool

val lstrip0 : bytes -> bytes

val limbs : z -> nat -> z list

val positive_image : z -> z

val compose_mpint_raw : z -> z -> bytes result

val compose_mpint : z -> z -> bytes result

val compose_ssh_mpint : z -> bytes result

val parse_mpint_raw : bytes -> z -> z -> z -> bool -> z result

val parse_mpint : bytes -> z -> z -> (z * z) result

val parse_ssh_mpint : bytes -> z -> (z * z) result

val order_of : string -> order

val show_zn : (z * z) -> string

val run_words : string list -> string

val run_line : string -> string
