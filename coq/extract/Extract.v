(* Extraction of the correspondence runner. Only ExtrOcamlBasic's directives are used (bool, option, unit, list,
   prod, sumbool, sumor mapped to OCaml's); Z, positive, N, nat, byte, ascii, string stay the extracted inductives. *)
From Coq Require Import Extraction ExtrOcamlBasic.
From CP Require Import Run.Run.
Extraction Language OCaml.
Extraction "model.ml" run_line.
