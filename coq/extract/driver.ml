(* reads one command per line on stdin, prints Model.run_line's answer per line *)
let bools_of_char c =
  let n = Char.code c in
  let b i = (n lsr i) land 1 = 1 in
  Model.Ascii (b 0, b 1, b 2, b 3, b 4, b 5, b 6, b 7)
let char_of_ascii = function
  | Model.Ascii (b0, b1, b2, b3, b4, b5, b6, b7) ->
    let v b i = if b then 1 lsl i else 0 in
    Char.chr (v b0 0 + v b1 1 + v b2 2 + v b3 3 + v b4 4 + v b5 5 + v b6 6 + v b7 7)
let to_coq s =
  let r = ref Model.EmptyString in
  for i = String.length s - 1 downto 0 do r := Model.String (bools_of_char s.[i], !r) done; !r
let of_coq s =
  let b = Buffer.create 64 in
  let rec go = function Model.EmptyString -> () | Model.String (c, r) -> Buffer.add_char b (char_of_ascii c); go r in
  go s; Buffer.contents b
let () =
  try while true do
    let l = input_line stdin in
    print_string (of_coq (Model.run_line (to_coq l))); print_char '\n'
  done with End_of_file -> ()
