# generators for framing-unit streams (valid frames, suffixes, concatenations, prefixes, corruptions, chunkings)
from harness import gen_tables

UNITS = ['tlsrecord', 'hskex', 'mysql', 'tpkt', 'ovpn', 'pgssl', 'pgsync']


def rnd_bytes(rng, n):
    return bytes(rng.getrandbits(8) for _ in range(n))


def rnd_payload(rng, big=False):
    n = rng.choice([0, 0, 1, 2, 3, 5, 8, 16, 40, 255, 256, 257] + ([1000, 16383, 16384, 65535] if big else []))
    r = rng.random()
    if r < 0.2:
        return bytes(n)
    if r < 0.3:
        return b'\xff' * n
    return rnd_bytes(rng, n)


def rnd_header(rng, u):
    if u == 'tlsrecord':
        cts = [v for _, v in dict(gen_tables.local_int_enums())['TlsContentType']]
        vers = [m.value.code for m in gen_tables.enum_factories()['TlsVersionFactory'][2]]
        return '%d,%d' % (rng.choice(cts), rng.choice(vers))
    if u == 'mysql':
        return str(rng.choice([0, 1, 2, 255, rng.randrange(256)]))
    if u == 'tpkt':
        return '3'
    return '-'


def valid_frame(rng, u, big=False):
    """(header description, payload) of a frame the class can compose."""
    if u in ('pgssl', 'pgsync'):
        return rnd_header(rng, u), b''
    return rnd_header(rng, u), rnd_payload(rng, big)


def corrupt(rng, b):
    b = bytearray(b)
    k = rng.choice(['flip', 'len', 'trunc', 'extend', 'splice', 'random'])
    if k == 'flip' and b:
        i = rng.randrange(min(len(b), 8)) if rng.random() < 0.7 else rng.randrange(len(b))
        b[i] ^= 1 << rng.randrange(8)
    elif k == 'len' and len(b) >= 2:
        i = rng.randrange(min(len(b), 6))
        b[i] = rng.choice([0, 1, 2, 3, 4, 0x7f, 0x80, 0xff, (b[i] + 1) % 256, (b[i] - 1) % 256])
    elif k == 'trunc':
        b = b[:rng.randrange(len(b) + 1)]
    elif k == 'extend':
        b += rnd_bytes(rng, rng.randint(1, 4))
    elif k == 'splice' and len(b) > 2:
        i = rng.randrange(len(b))
        b = b[:i] + rnd_bytes(rng, rng.randint(1, 3)) + b[i:]
    else:
        b = bytearray(rnd_bytes(rng, rng.randint(0, 12)))
    return bytes(b)


def chunkings(rng, stream, n):
    res = [[stream[i:i + 1] for i in range(len(stream))]] if len(stream) <= 200 else []
    for _ in range(n):
        cuts = sorted(set(rng.randrange(len(stream) + 1) for _ in range(rng.choice([1, 2, 3, 6, 12]))))
        parts = [stream[a:b] for a, b in zip([0] + cuts, cuts + [len(stream)])]
        res.append([p for p in parts if p] or [b''])
    return res
