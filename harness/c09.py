# C09: opportunistic-TLS application messages match their protocol specifications.
import json

from harness import common, framegen, gen_tables

LEVEL = 'proof'


def gen_lines(rng, tier):
    n = 150 if tier == 'quick' else 4000
    flags = dict(gen_tables.gen_flags())
    caps = [v for _, v in flags['MySQLCapability']]
    charsets = [int(m.value.code) for m in gen_tables.enum_factories()['MySQLCharacterSetFactory'][2]]
    lines = ['pgssl', 'tpktenc -', 'ovpntcp -', 'mysqlpktenc 0 -']
    for _ in range(n):
        lines.append('tpktenc %s' % (framegen.rnd_payload(rng).hex() or '-'))
        code = rng.choice([14, 13])
        ref = rng.choice([0, 1, 0x1234, 65535])
        ud = framegen.rnd_bytes(rng, rng.choice([0, 1, 8, 40, 249])).hex() or '-'
        lines.append('cotpenc %d %d %d %s' % (code, ref, ref if rng.random() < 0.5 else rng.randrange(65536), ud))
        rq = [v for _, v in flags['RDPNegotiationRequestFlags']]
        rs = [v for _, v in flags['RDPNegotiationResponseFlags']]
        pr = [v for _, v in flags['RDPProtocol'] if v]
        ty = rng.choice([1, 2])
        fl = sum(f for f in (rq if ty == 1 else rs) if rng.random() < 0.4)
        lines.append('rdpnegenc %d %d %d' % (ty, fl, sum(p for p in pr if rng.random() < 0.5)))
        lines.append('mysqlpktenc %d %s' % (rng.randrange(256), framegen.rnd_payload(rng, big=rng.random() < 0.05).hex() or '-'))
        c41 = 512 | sum(c for c in caps if rng.random() < 0.4)
        lines.append('mysqlssl41 %d %d %d' % (c41, rng.choice([0, 0xffff, 2 ** 24, 2 ** 32 - 1]), rng.choice(charsets)))
        # initial handshake: every capability subset (PLUGIN_AUTH decides the auth-data tail and the plugin name)
        hc = sum(c for c in caps if rng.random() < 0.5)
        if rng.random() < 0.3:
            hc = rng.choice(caps) | rng.choice(caps)
        if hc & 32768:
            hc |= 524288
        stf = [v for _, v in flags['MySQLStatusFlag']]
        plugin = hc & 524288
        lines.append('mysqlhs %s %d %s %d %d %d %s %s' % (
            rng.choice(['8.0.33', '5.7.42-log', '10.6.12-MariaDB', '5']).encode().hex(), rng.randrange(2 ** 32), framegen.rnd_bytes(rng, 8).hex(), hc,
            rng.choice(charsets), sum(f for f in stf if rng.random() < 0.3),
            (framegen.rnd_bytes(rng, rng.choice([0, 1, 4, 12, 12, 13, 14, 21])).hex() or '-') if plugin else '-', rng.choice(['mysql_native_password', 'caching_sha2_password']).encode().hex() if plugin else '_'))
        c320 = sum(c for c in caps if c < 65536 and c != 512 and rng.random() < 0.4)
        lines.append('mysqlssl320 %d %d' % (c320, rng.choice([0, 0xffff, 2 ** 24 - 1])))
        acks = [rng.randrange(2 ** 32) for _ in range(rng.choice([0, 0, 1, 2, 5, 255]))]
        lines.append('ovpnctl 4 %d %s %d %d %s' % (rng.getrandbits(64), ','.join(map(str, acks)) or '-', rng.choice([0, 0, 1, 2 ** 64 - 1, rng.getrandbits(64), rng.getrandbits(64)]), rng.randrange(2 ** 32),
                                                  framegen.rnd_bytes(rng, rng.choice([0, 1, 100])).hex() or '-'))
        remote = lambda: rng.choice([0, 0, 1, 2 ** 64 - 1, rng.getrandbits(64)])
        acks2 = [rng.randrange(2 ** 32) for _ in range(rng.choice([0, 1, 3, 255]))]
        lines.append('ovpnack %d %s %d' % (rng.getrandbits(64), ','.join(map(str, acks2)) or '-', remote()))
        lines.append('ovpnhrc %d %d' % (rng.getrandbits(64), rng.randrange(2 ** 32)))
        lines.append('ovpnhrs %d %s %d %d' % (rng.getrandbits(64), ','.join(map(str, acks)) or '-', remote(), rng.randrange(2 ** 32)))
        lines.append('ovpntcp %s' % (framegen.rnd_payload(rng).hex() or '-'))
    return lines


def swap_refs(line):
    ws = line.split(' ')
    return ' '.join([ws[0], ws[1], ws[3], ws[2], ws[4]])


def run(chk):
    from harness import impl
    rng = chk.rng
    lines = gen_lines(rng, chk.tier)
    proved = common.proof_stage(chk, 'Props.C09', [], None)
    br = common.build_runner()
    impl_out = [impl.impl_line(l) for l in lines]
    extra = []
    if br.ok:
        model_out = common.run_model(lines)
        nv = 0
        for l, m, i in zip(lines, model_out, impl_out):
            mm = 'REFUSED' if m == 'NONE' else m
            ii = 'REFUSED' if (i.startswith('ERR') or i.startswith('LEAK')) else i
            if mm == ii:
                continue
            key = None
            if l.startswith('cotpenc') and common.run_model([swap_refs(l)])[0] == i:
                key = 'COTPConnectionBase/src-ref-before-dst-ref'
            if key or nv < 5:
                nv += 0 if key else 1
                chk.violation('implementation composes %s where the specification gives %s: "%s"' % (i[:80], m[:80], l[:120]), {'cmd': l, 'impl': i, 'spec': m}, key, True)
        # type preservation on the wire: every composed COTP PDU through both classes, model vs implementation
        for l, o in zip(lines, impl_out):
            if l.startswith('cotpenc') and o.startswith('OK '):
                for ty in (14, 13):
                    extra.append('pcotp %d %s' % (ty, o[3:]))
                    extra.append('pcotp %d %s' % (ty, framegen.corrupt(rng, bytes.fromhex(o[3:])).hex()))
        # OpenVPN: the specification's packets parsed through the packet variant (alone and followed by other bytes): opcode,
        # session id, acknowledgements, remote session id (present exactly when there are acknowledgements) and body
        ov = []
        for l, m in zip(lines, model_out):
            if l.startswith(('ovpnack', 'ovpnhrc', 'ovpnhrs', 'ovpnctl')) and m.startswith('OK '):
                ov.append('ovpndec ' + m[3:])
                if not l.startswith('ovpnctl'):     # a control packet's payload is whatever follows
                    ov.append('ovpndec ' + m[3:] + 'a1b2c3')
        # RDP negotiation: the specification's bytes through the class of their type, and through the other class (refused);
        # flags must come back with their value and as members of the flag set of that message type
        for l, m in zip(lines, model_out):
            if l.startswith('rdpnegenc') and m.startswith('OK '):
                ty = l.split(' ')[1]
                ov += ['rdpnegdec %s %s' % (ty, m[3:]), 'rdpnegdec %s %s' % (ty, m[3:] + 'ffff'), 'rdpnegdec %s %s' % ('2' if ty == '1' else '1', m[3:])]
        # the transport wrappers in the decode direction: a TPKT / MySQL packet / OpenVPN-over-TCP packet of the specification, alone
        # and followed by the beginning of the next packet, gives back its payload and consumes exactly the declared length
        wrap = []
        for l, m in zip(lines, model_out):
            unit = {'tpktenc': 'tpkt', 'mysqlpktenc': 'mysql', 'ovpntcp': 'ovpn'}.get(l.split(' ')[0])
            if unit and m.startswith('OK '):
                wrap += ['pframe %s %s' % (unit, m[3:]), 'pframe %s %s' % (unit, m[3:] + '0300'), 'pframe %s %s' % (unit, m[3:] + 'a1b2c3d4e5')]
        for l, m in zip(wrap, common.run_model(wrap)):
            i = impl.impl_line(l)
            if m != i and nv < 10:
                nv += 1
                chk.violation('parsing a conformant transport packet (alone or followed by more bytes) does not give its payload and length: "%s": implementation %s, specification %s' % (l[:80], i[:100], m[:100]),
                              {'cmd': l, 'impl': i, 'spec': m}, None, True)
        chk.coverage['wrappers_decoded'] = len(wrap)
        for l, m in zip(ov, common.run_model(ov)):
            m = 'REFUSED' if m == 'NONE' else m
            i = impl.impl_line(l)
            i = 'REFUSED' if i.startswith('ERR ') else i
            if m != i and nv < 10:
                nv += 1
                chk.violation('parsing a conformant OpenVPN packet / RDP negotiation message does not recover the encoded values: implementation %s, specification %s' % (i[:120], m[:120]),
                              {'cmd': l, 'impl': i, 'spec': m}, None, True)
        extra += ov
        m2 = common.run_model(extra[:len(extra) - len(ov)])
        for l, m in zip(extra[:len(extra) - len(ov)], m2):
            i = impl.impl_line(l)
            if i.startswith('WRONGTYPE'):
                chk.violation('a PDU parsed by %s is returned as %s' % ('COTPConnectionRequest' if ' 14 ' in l else 'COTPConnectionConfirm', i.split(' ')[1]), {'cmd': l, 'impl': i}, None, True)
            elif m != i and nv < 8:
                nv += 1
                chk.violation('correspondence Opp/Rdp.v vs COTPConnectionBase broke on "%s": model %s implementation %s' % (l[:100], m[:80], i[:80]),
                              {'cmd': l, 'model': m, 'impl': i, 'correspondence': 'parse_cotp'}, None, False)
    else:
        chk.violation('model runner does not build: %s' % br.failed_file, {'error': br.error}, None, False)
    # LDAP StartTLS: each class accepts its own operation only, and gives back what was composed
    try:
        from cryptoparser.tls.ldap import LDAPExtendedRequestStartTLS, LDAPExtendedResponseStartTLS, LDAPResultCode
        req = bytes(LDAPExtendedRequestStartTLS().compose())
        for code in LDAPResultCode:
            resp = bytes(LDAPExtendedResponseStartTLS(code).compose())
            r1 = impl.outcome(lambda: type(LDAPExtendedRequestStartTLS.parse_exact_size(resp)).__name__)
            r2 = impl.outcome(lambda: type(LDAPExtendedResponseStartTLS.parse_exact_size(req)).__name__)
            r3 = impl.outcome(lambda: LDAPExtendedResponseStartTLS.parse_exact_size(resp).result_code.name)
            if r1.startswith('OK') or r2.startswith('OK') or r1.startswith('LEAK') or r2.startswith('LEAK') or r3 != 'OK ' + code.name:
                chk.violation('LDAP StartTLS: a response (%s) given to the request parser: %s; a request given to the response parser: %s; the response parsed by its '
                              'own class: %s' % (code.name, r1, r2, r3), {'ldap_result_code': code.name}, None, True)
                break
        extra.append('ldap')
        # conformant ExtendedResponse encodings written here from RFC 4511 4.12 / 4.1.9 (IMPLICIT TAGS): resultCode, matchedDN,
        # diagnosticMessage, then optionally referral [3] (a SEQUENCE OF LDAPURL, for resultCode referral(10)) and
        # responseName [10]; every result code the library knows, with and without the optional parts
        def tlv(tag, body, form=0):
            # form 0: the definite form DER prescribes; form k > 0: the long form with k length octets (valid BER, what Active
            # Directory writes with k = 4)
            if form == 0 and len(body) < 128:
                return bytes([tag, len(body)]) + body
            k = form or (1 if len(body) < 256 else 2)
            return bytes([tag, 0x80 | k]) + len(body).to_bytes(k, 'big') + body
        nl = 0
        for code in LDAPResultCode:
            for refs in ([], [b'ldap://a.example/'], [b'ldap://a.example/', b'ldaps://b.example:636/dc=x']):
                if refs and code.value != 10:
                    continue
                for name in (b'', b'1.3.6.1.4.1.1466.20037'):
                    body = tlv(0x0a, bytes([code.value])) + tlv(0x04, b'') + tlv(0x04, b'')
                    if refs:
                        body += tlv(0xa3, b''.join(tlv(0x04, r) for r in refs))
                    if name:
                        body += tlv(0x8a, name)
                    wires = [tlv(0x30, tlv(0x02, b'\x01') + tlv(0x78, body))]
                    if code.value in (0, 2, 10, 52):
                        # the outer lengths in the long forms, and a diagnostic message that makes the message longer than 127 octets
                        wires += [tlv(0x30, tlv(0x02, b'\x01') + tlv(0x78, body, k), k) for k in (1, 2, 4)]
                        long_body = tlv(0x0a, bytes([code.value])) + tlv(0x04, b'') + tlv(0x04, b'd' * chk.rng.choice([116, 150, 300]))
                        wires.append(tlv(0x30, tlv(0x02, b'\x01') + tlv(0x78, long_body)))
                    for wire in wires:
                        r = impl.outcome(lambda: LDAPExtendedResponseStartTLS.parse_exact_size(wire).result_code.name)
                        r2 = impl.outcome(lambda: LDAPExtendedResponseStartTLS.parse_immutable(wire + b'\x16\x03\x03')[1])
                        extra.append('ldapresp')
                        if (r != 'OK ' + code.name or r2 != 'OK %d' % len(wire)) and nl < 3:
                            nl += 1
                            chk.violation('a conformant LDAP ExtendedResponse (resultCode %s, %d referral URIs, responseName %s, %d octets, starts %s) parses to %s; followed by a TLS record '
                                          'it is consumed as %s' % (code.name, len(refs), 'present' if name else 'absent', len(wire), wire[:6].hex(), r, r2),
                                          {'wire': wire.hex(), 'ldap_result_code': code.name, 'impl': r}, None, True)
    except ImportError:
        pass
    chk.coverage['evaluations'] = len(lines) + len(extra)
    chk.coverage['distinct_nontrivial'] = len(set(l for l, o in zip(lines, impl_out) if o.startswith('OK')))
    chk.coverage['traces_validated_against_impl'] = len(lines) + len(extra)
    chk.coverage['rule'] = ('TPKT, COTP CR/CC, RDP negotiation request/response (all flag and protocol subsets), MySQL packets (3-byte little-endian '
                            'length), MySQL SSLRequest in the 4.1 and pre-4.1 layouts (all capability subsets, split flags), OpenVPN control, acknowledgement and hard-reset packets (both directions) '
                            '(ack arrays of 0..255 entries) and the TCP wrapper, PostgreSQL SSLRequest: composed by the implementation and compared '
                            'with the Coq specification; every composed COTP PDU and a corrupted variant parsed by both COTP classes, model vs '
                            'implementation incl. the class of the returned object')
    for i in range(0, len(lines), max(1, len(lines) // 8)):
        chk.sample({'cmd': lines[i][:140], 'outcome': impl_out[i][:100]})
    chk.assumptions += ['LDAP StartTLS messages rest on asn1crypto (oracle for BER); only the operation check and the result code are compared']


def replay(path):
    from harness import impl
    with open(path) as f:
        r = json.load(f)
    if 'cmd' not in r:
        print(json.dumps(r, indent=1)[:3000])
        return 1
    o = impl.impl_line(r['cmd'])
    spec = common.run_model([r['cmd']])[0] if common.build_runner().ok else r.get('spec', r.get('model'))
    print('%s\n implementation: %s\n specification:  %s' % (r['cmd'][:200], o[:200], spec[:200]))
    ok = o == spec and not o.startswith('WRONGTYPE')
    print('replay: property %s' % ('holds on this input' if ok else 'FAILS on this input'))
    return 0 if ok else 1
