# C12: length-prefixed vectors stay within bounds through any edit sequence.
import json

from harness import common, c12gen

LEVEL = 'proof'


def impl_run(impl, line):
    ws = line.split(' ')
    try:
        v, trace, fails = impl.vec_run(*ws[1:])
        return trace, fails
    except Exception as e:  # construction refused (bounds) or machinery problem: rendered like the model does
        return impl.impl_line(line), []


def shrink(impl, line):
    """Greedy removal of operations while the implementation still violates the property."""
    ws = line.split(' ')
    ops = ws[3].split(';')
    changed = True
    while changed and len(ops) > 1:
        changed = False
        for i in range(len(ops)):
            cand = ops[:i] + ops[i + 1:]
            l2 = ' '.join(ws[:3] + [';'.join(cand)])
            if impl_run(impl, l2)[1]:
                ops = cand
                changed = True
                break
    return ' '.join(ws[:3] + [';'.join(ops)])


def run(chk):
    from harness import impl

    n_hist = 300 if chk.tier == 'quick' else 6000
    lines = []
    corpus = ['vec TlsSessionIdVector 1:1,2:1,3:1,4:1,5:1 dsl/0/3',
              'vec TlsCipherSuiteVector 0:2,1:2 clr',
              'vec TlsSessionIdVector %s ext/1:1,2:1' % ','.join('%d:1' % (i % 24) for i in range(31)),
              'vec TlsCertificateStatusRequestResponderIdList 1:3,2:9 dsl/0/1;rev;ssl/_/_/3:300',
              'vec TlsCompressionMethodVector 0:1 pop/_;app/1:1;rem/0:1']
    lines += corpus
    for cls in impl.VEC_CLASSES:
        for _ in range(n_hist):
            lines.append(c12gen.history(chk.rng, cls, 14 if chk.tier == 'quick' else 40))

    def search(_br):
        found = []
        for l in lines:
            _, fails = impl_run(impl, l)
            if fails:
                s = shrink(impl, l)
                found.append((impl_run(impl, s)[1][0], {'cmd': s, 'original': l}, None, True))
                break
        return found

    # extended slices (del v[::2], v[::-1] = ..., step 0): implementation against the plain-list semantics only
    stepped = [c12gen.stepped_history(chk.rng, cls, 4) for cls in impl.VEC_CLASSES for _ in range(60 if chk.tier == 'quick' else 1500)]
    proved = common.proof_stage(chk, 'Props.C12', [], search)
    ns = 0
    for l in stepped:
        _, fails = impl_run(impl, l)
        if fails and ns < 3:
            ns += 1
            s = shrink(impl, l)
            chk.violation('%s: %s' % (s.split(' ')[1], impl_run(impl, s)[1][0]), {'cmd': s, 'original': l, 'stage': 'extended-slices'}, None, True)
    chk.coverage['extended_slice_histories'] = len(stepped)
    br = common.build_runner()
    results = [impl_run(impl, l) for l in lines]
    nv = 0
    out_kinds = {}
    nontrivial = set()
    for l, (trace, fails) in zip(lines, results):
        if fails and nv < 5:
            nv += 1
            s = shrink(impl, l)
            chk.violation('%s: %s' % (s.split(' ')[1], impl_run(impl, s)[1][0]), {'cmd': s, 'original': l}, None, True)
        for o in trace.split('|')[0].split(','):
            out_kinds[o] = out_kinds.get(o, 0) + 1
        if 'R:NotEnoughData' in trace or 'R:TooMuchData' in trace:
            nontrivial.add(l)
    if br.ok:
        model_out = common.run_model(lines)
        diffs = [(l, m, r[0]) for l, m, r in zip(lines, model_out, results) if m != r[0]]
        chk.coverage['disagreements'] = len(diffs)
        for l, m, i in diffs[:3]:
            if not chk.violations:
                chk.violation('correspondence Base/Array.v vs ArrayBase broke on "%s": model %s, implementation %s' % (l[:200], m[:200], i[:200]),
                              {'cmd': l, 'model': m, 'impl': i, 'correspondence': 'Run.run_line vec'}, None, False)
    else:
        chk.violation('model runner does not build: %s' % br.failed_file, {'error': br.error}, None, False)
    chk.coverage['evaluations'] = len(lines)
    chk.coverage['distinct_nontrivial'] = len(nontrivial)
    chk.coverage['traces_validated_against_impl'] = len(lines)
    chk.coverage['operation_outcomes'] = out_kinds
    chk.coverage['rule'] = ('edit histories of 1..14 (quick) / 1..40 (thorough) operations (append, insert, del, item assignment, slice '
                            'deletion/assignment, extend, +=, pop, remove, reverse, clear; integer and slice positions incl. negative and '
                            'out-of-range ones) on %d real vector classes (numeric, opaque, coded enum with fallback, variable-size parsable '
                            'items, SSH name-list), started near the floor / near the ceiling / small; trace of accept/refuse outcomes, '
                            'final items and _items_size compared with the extracted Coq model, and independently against a shadow plain '
                            'list; non-trivial = distinct histories in which at least one edit is refused with a data-length error' % len(impl.VEC_CLASSES))
    for i in range(0, len(lines), max(1, len(lines) // 10)):
        chk.sample({'cmd': lines[i][:160], 'trace': results[i][0][:160]})
    chk.assumptions += ['items are modelled abstractly as (tag, size); get_item_size of the real item classes is what the harness maps sizes to',
                        'slices are modelled and generated for step 1 only',
                        'for VectorString (SSH name-lists) _items_size does not count the separators, so only the list refinement and the '
                        'bookkeeping invariant are compared there, not the body size']


def replay(path):
    from harness import impl
    with open(path) as f:
        r = json.load(f)
    if 'cmd' not in r:
        print(json.dumps(r, indent=1)[:3000])
        return 1
    trace, fails = impl_run(impl, r['cmd'])
    print('%s\n -> %s' % (r['cmd'], trace))
    for x in fails:
        print('  ' + x)
    print('replay: property %s' % ('holds on this input' if not fails else 'FAILS on this input'))
    return 1 if fails else 0
