# Implementation side of the correspondence: executes the same textual commands as coq/theories/Run/Run.v
# against the library in REPO and renders the outcome in the same canonical form.
import struct

from harness import common

common.use_repo()

from cryptodatahub.common.exception import InvalidValue  # noqa: E402
from cryptoparser.common.exception import InvalidType, NotEnoughData, TooMuchData  # noqa: E402
from cryptoparser.common.parse import ByteOrder, ComposerBinary, ParserBinary  # noqa: E402

EXN_NAMES = {'IndexError', 'KeyError', 'AttributeError', 'TypeError', 'ValueError', 'OverflowError', 'StopIteration',
             'NotImplementedError', 'RecursionError'}


def exn_name(e):
    if isinstance(e, UnicodeError):
        return 'UnicodeError'
    if isinstance(e, struct.error):
        return 'StructError'
    n = type(e).__name__
    return n if n in EXN_NAMES else 'OtherExn'


def outcome(fn, show=lambda v: str(v)):
    try:
        v = fn()
    except NotEnoughData as e:
        return 'ERR NotEnoughData %d' % e.bytes_needed
    except TooMuchData:
        return 'ERR TooMuchData'
    except InvalidValue:
        return 'ERR InvalidValue'
    except InvalidType:
        return 'ERR InvalidType'
    except RecursionError:
        return 'LEAK RecursionError'
    except Exception as e:  # pylint: disable=broad-except
        return 'LEAK ' + exn_name(e)
    return 'OK ' + show(v)


ORDERS = {'=': ByteOrder.NATIVE, '<': ByteOrder.LITTLE_ENDIAN, '>': ByteOrder.BIG_ENDIAN, '!': ByteOrder.NETWORK}


def hx(b):
    return bytes(b).hex()


def c_num(o, w, z):
    c = ComposerBinary(byte_order=ORDERS[o])
    c.compose_numeric(int(z), int(w))
    return hx(c.composed_bytes)


def p_num(o, w, h):
    p = ParserBinary(bytes.fromhex(h), byte_order=ORDERS[o])
    p.parse_numeric('v', int(w))
    return '%d n=%d' % (p['v'], p.parsed_length)


def c_mpint(length, z):
    c = ComposerBinary()
    c.compose_mpint(int(z), int(length))
    return hx(c.composed_bytes)


def p_mpint(length, h):
    p = ParserBinary(bytes.fromhex(h))
    p.parse_mpint('v', int(length))
    return '%d n=%d' % (p['v'], p.parsed_length)


def c_sshmpint(z):
    c = ComposerBinary()
    c.compose_ssh_mpint(int(z))
    return hx(c.composed_bytes)


def p_sshmpint(h):
    p = ParserBinary(bytes.fromhex(h))
    p.parse_ssh_mpint('v')
    return '%d n=%d' % (p['v'], p.parsed_length)


def mk_dt(sec, mic):
    import datetime
    import dateutil.tz
    return datetime.datetime.fromtimestamp(int(sec), dateutil.tz.UTC) + datetime.timedelta(microseconds=int(mic))


def c_ts(ms, w, *rest):
    c = ComposerBinary()
    v = None if rest[0] == 'none' else mk_dt(rest[0], rest[1])
    c.compose_timestamp(v, milliseconds=(ms == '1'), item_size=int(w))
    return hx(c.composed_bytes)


def show_dt(v):
    import calendar
    if v is None:
        return 'none'
    return '%d %d' % (calendar.timegm(v.utctimetuple()), v.microsecond)


def p_ts(ms, w, h):
    p = ParserBinary(bytes.fromhex(h))
    p.parse_timestamp('v', milliseconds=(ms == '1'), item_size=int(w))
    return '%s n=%d' % (show_dt(p['v']), p.parsed_length)


def flag_class(name):
    import importlib
    from harness.gen_tables import FLAG_CLASSES
    for mod, n in FLAG_CLASSES:
        if n == name:
            return getattr(importlib.import_module(mod), n)
    raise KeyError(name)


def p_flags(t, w, sh, h):
    cls = flag_class(t)
    p = ParserBinary(bytes.fromhex(h))
    p.parse_numeric_flags('v', int(w), cls, shift_left=int(sh))
    order = [int(m) for m in cls]
    return '[' + ','.join(str(v) for v in sorted((int(x) for x in p['v']), key=order.index)) + ']'


def c_flags(t, w, sh, vs):
    cls = flag_class(t)
    vals = [] if vs == '-' else [cls(int(v)) for v in vs.split(',')]
    c = ComposerBinary()
    c.compose_numeric_flags(vals, int(w), shift_right=int(sh))
    return hx(c.composed_bytes)


COMMANDS = {
    'cts': c_ts, 'pts': p_ts, 'pflags': p_flags, 'cflags': c_flags,
    'cnum': c_num, 'pnum': p_num, 'cmpint': c_mpint, 'pmpint': p_mpint, 'csshmpint': c_sshmpint, 'psshmpint': p_sshmpint,
}


def impl_line(line):
    ws = line.split(' ')
    fn = COMMANDS.get(ws[0])
    if fn is None:
        return 'BADCMD'
    return outcome(lambda: fn(*ws[1:]))
