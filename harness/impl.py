# Implementation side of the correspondence: executes the same textual commands as coq/theories/Run/Run.v
# against the library in REPO and renders the outcome in the same canonical form.
import struct

from harness import common

common.use_repo()

from cryptodatahub.common.exception import InvalidValue  # noqa: E402
from cryptoparser.common.exception import InvalidType, NotEnoughData, TooMuchData  # noqa: E402
from cryptoparser.common.parse import ByteOrder, ComposerBinary, ParserBinary  # noqa: E402

EXN_NAMES = {'IndexError', 'KeyError', 'AttributeError', 'TypeError', 'ValueError', 'OverflowError', 'StopIteration',
             'NotImplementedError', 'RecursionError'}


class RoundTripError(Exception):
    """raised by the constructed-message commands when the composed bytes do not parse back to the composed values"""


def parse_back(cls, composed):
    try:
        return cls.parse_exact_size(composed)
    except Exception as e:  # pylint: disable=broad-except
        raise RoundTripError('composed bytes are not accepted: %s' % type(e).__name__)


PARSE_BACK = True     # switched off where the command is used as a generator of bytes for another oracle


def rt_hex(obj, cls=None):
    """hex of compose(obj), after checking that the bytes are accepted back by the class, entirely, as an equal object: every
    encoder command is thereby also a decode-direction check of the bytes the specification agrees on"""
    from harness import rt
    b = bytes(obj.compose())
    if not PARSE_BACK:
        return b.hex()
    back = parse_back(cls or type(obj), b)
    if not rt.same(back, obj):
        raise RoundTripError('parse(compose(o)) != o')
    return b.hex()


def exn_name(e):
    if isinstance(e, RoundTripError):
        return 'RoundTripError'
    if isinstance(e, UnicodeError):
        return 'UnicodeError'
    if isinstance(e, struct.error):
        return 'StructError'
    n = type(e).__name__
    return n if n in EXN_NAMES else 'OtherExn'


def outcome(fn, show=lambda v: str(v)):
    try:
        v = fn()
    except NotEnoughData as e:
        return 'ERR NotEnoughData %d' % e.bytes_needed
    except TooMuchData:
        return 'ERR TooMuchData'
    except InvalidValue:
        return 'ERR InvalidValue'
    except InvalidType:
        return 'ERR InvalidType'
    except RecursionError:
        return 'LEAK RecursionError'
    except Exception as e:  # pylint: disable=broad-except
        return 'LEAK ' + exn_name(e)
    return 'OK ' + show(v)


ORDERS = {'=': ByteOrder.NATIVE, '<': ByteOrder.LITTLE_ENDIAN, '>': ByteOrder.BIG_ENDIAN, '!': ByteOrder.NETWORK}


def hx(b):
    return bytes(b).hex()


def c_num(o, w, z):
    c = ComposerBinary(byte_order=ORDERS[o])
    c.compose_numeric(int(z), int(w))
    return hx(c.composed_bytes)


def p_num(o, w, h):
    p = ParserBinary(bytes.fromhex(h), byte_order=ORDERS[o])
    p.parse_numeric('v', int(w))
    return '%d n=%d' % (p['v'], p.parsed_length)


def c_mpint(length, z):
    c = ComposerBinary()
    c.compose_mpint(int(z), int(length))
    return hx(c.composed_bytes)


def p_mpint(length, h):
    p = ParserBinary(bytes.fromhex(h))
    p.parse_mpint('v', int(length))
    return '%d n=%d' % (p['v'], p.parsed_length)


def c_sshmpint(z):
    c = ComposerBinary()
    c.compose_ssh_mpint(int(z))
    return hx(c.composed_bytes)


def p_sshmpint(h):
    p = ParserBinary(bytes.fromhex(h))
    p.parse_ssh_mpint('v')
    return '%d n=%d' % (p['v'], p.parsed_length)


def mk_dt(sec, mic):
    import datetime
    import dateutil.tz
    return datetime.datetime.fromtimestamp(int(sec), dateutil.tz.UTC) + datetime.timedelta(microseconds=int(mic))


def c_ts(ms, w, *rest):
    c = ComposerBinary()
    v = None if rest[0] == 'none' else mk_dt(rest[0], rest[1])
    if v is not None and len(rest) > 2:
        # the same instant expressed in a zone with the given offset (minutes): the wire value must not change
        import dateutil.tz
        v = v.astimezone(dateutil.tz.tzoffset(None, int(rest[2]) * 60))
    c.compose_timestamp(v, milliseconds=(ms == '1'), item_size=int(w))
    return hx(c.composed_bytes)


def show_dt(v):
    import calendar
    if v is None:
        return 'none'
    return '%d %d' % (calendar.timegm(v.utctimetuple()), v.microsecond)


def p_ts(ms, w, h):
    p = ParserBinary(bytes.fromhex(h))
    p.parse_timestamp('v', milliseconds=(ms == '1'), item_size=int(w))
    return '%s n=%d' % (show_dt(p['v']), p.parsed_length)


def flag_class(name):
    import importlib
    from harness.gen_tables import FLAG_CLASSES
    for mod, n in FLAG_CLASSES:
        if n == name:
            return getattr(importlib.import_module(mod), n)
    raise KeyError(name)


def p_flags(t, w, sh, h):
    cls = flag_class(t)
    p = ParserBinary(bytes.fromhex(h))
    p.parse_numeric_flags('v', int(w), cls, shift_left=int(sh))
    order = [int(m) for m in cls]
    return '[' + ','.join(str(v) for v in sorted((int(x) for x in p['v']), key=order.index)) + ']'


def c_flags(t, w, sh, vs):
    cls = flag_class(t)
    vals = [] if vs == '-' else [cls(int(v)) for v in vs.split(',')]
    c = ComposerBinary()
    c.compose_numeric_flags(vals, int(w), shift_right=int(sh))
    return hx(c.composed_bytes)


_FAC = {}


def factories():
    if not _FAC:
        from harness import gen_tables
        _FAC['f'] = gen_tables.enum_factories()
        _FAC['v'] = gen_tables.enum_vectors()
    return _FAC


def show_eitem(it, enum_members):
    from cryptoparser.tls.grease import TlsInvalidTypeBase, TlsInvalidType
    from cryptoparser.tls.version import TlsProtocolVersion
    if isinstance(it, TlsInvalidTypeBase):
        return ('G' if it.value.value_type == TlsInvalidType.GREASE else 'U') + str(it.value.code)
    if isinstance(it, TlsProtocolVersion):
        it = it.version
    return 'K%d' % enum_members.index(it)


def p_enum(t, h):
    cls, w, e = factories()['f'][t]
    obj, n = cls.parse_immutable(bytes.fromhex(h))
    return '%d n=%d' % (list(e).index(obj), n)


def c_enum(t, i):
    from cryptoparser.common.parse import ComposerBinary as CB
    cls, w, e = factories()['f'][t]
    members = list(e)
    if int(i) >= len(members):
        raise IndexError(i)
    m = members[int(i)]
    if hasattr(m, 'compose'):
        return hx(m.compose())
    c = CB()
    c.compose_numeric_enum_coded(m)
    return hx(c.composed_bytes)


def p_inv(g, h):
    from cryptoparser.tls.grease import TlsInvalidTypeOneByte, TlsInvalidTypeTwoByte
    cls = TlsInvalidTypeOneByte if g == '1' else TlsInvalidTypeTwoByte
    obj, n = cls.parse_immutable(bytes.fromhex(h))
    return '%s n=%d' % (show_eitem(obj, []), n)


def p_evec(v, h):
    d = factories()['v'][v]
    members = list(factories()['f'][d['factory']][2])
    obj, n = d['cls'].parse_immutable(bytes.fromhex(h))
    return '[' + ','.join(show_eitem(it, members) for it in obj) + '] n=%d' % n


def mk_eitems(d, its):
    from cryptoparser.tls.grease import TlsInvalidTypeOneByte, TlsInvalidTypeTwoByte
    from cryptoparser.tls.version import TlsProtocolVersion
    members = list(factories()['f'][d['factory']][2])
    inv = TlsInvalidTypeOneByte if d['w'] == 1 else TlsInvalidTypeTwoByte
    items = []
    for s in ([] if its == '-' else its.split(',')):
        if s[0] == 'K':
            m = members[int(s[1:])]
            items.append(TlsProtocolVersion(m) if d['item_is_version'] else m)
        else:
            items.append(inv(int(s[1:])))
    return items


def c_evec(v, its):
    d = factories()['v'][v]
    return hx(d['cls'](mk_eitems(d, its)).compose())


def p_opq(t, h):
    from harness import gen_tables
    d = gen_tables.opaque_enum_factories()[t]
    obj, n = d['cls'].parse_immutable(bytes.fromhex(h))
    return '%d n=%d' % (list(d['enum']).index(obj), n)


def c_opq(t, i):
    from harness import gen_tables
    d = gen_tables.opaque_enum_factories()[t]
    members = list(d['enum'])
    if int(i) >= len(members):
        raise IndexError(i)
    c = ComposerBinary()
    c.compose_string_enum_coded(members[int(i)], d['num'])  # what VectorEnumCodeString.compose does per item
    return hx(c.composed_bytes)


# ---- TLS structures against the specification -----------------------------------------------------------
def _zs(s):
    return [] if s == '-' else [int(x) for x in s.split(',')]


def _member_or_invalid(enum_cls, code, width):
    from cryptoparser.tls.grease import TlsInvalidTypeOneByte, TlsInvalidTypeTwoByte
    for m in enum_cls:
        if m.value.code == code:
            return m
    return (TlsInvalidTypeOneByte if width == 1 else TlsInvalidTypeTwoByte)(code)


def _exts_bytes(exts):
    out = b''
    for e in ([] if exts == '-' else exts.split(';')):
        t, h = e.split(':')
        d = bytes.fromhex(h)
        out += int(t).to_bytes(2, 'big') + len(d).to_bytes(2, 'big') + d
    return out


def _show_exts(exts):
    items = []
    for e in exts:
        items.append('%d:%s' % (e.extension_type.value.code, hx(bytes(e.compose())[4:])))
    return ';'.join(items) or '-'


def _version(code):
    from cryptodatahub.tls.version import TlsVersion
    from cryptoparser.tls.version import TlsProtocolVersion
    for m in TlsVersion:
        if m.value.code == code:
            return TlsProtocolVersion(m)
    raise TypeError('not constructible: version %d' % code)


def _ssl2_kinds(ciphers):
    from cryptodatahub.tls.algorithm import SslCipherKind
    out = []
    for c in _zs(ciphers):
        ms = [m for m in SslCipherKind if m.value.code == c]
        if not ms:
            raise TypeError('not constructible')
        out.append(ms[0])
    return out


def ssl2_ch_enc(ciphers, sid, ch):
    """compose from the field values; the composed bytes must parse back to exactly these values (the decode direction)"""
    from cryptoparser.tls.subprotocol import SslHandshakeClientHello
    kinds, s, c = _ssl2_kinds(ciphers), bytes.fromhex('' if sid == '-' else sid), bytes.fromhex('' if ch == '-' else ch)
    b = bytes(SslHandshakeClientHello(kinds, s, c).compose())
    back = parse_back(SslHandshakeClientHello, b)
    if list(back.cipher_kinds) != kinds or bytes(back.session_id) != s or bytes(back.challenge) != c:
        raise RoundTripError('parse does not recover the encoded values')
    return hx(b)


def ssl2_big_record(n):
    """an SSL 2.0 record whose body has n bytes (a client hello with a long session id): compose, parse back, compare"""
    from cryptoparser.tls.record import SslRecord
    from cryptoparser.tls.subprotocol import SslHandshakeClientHello
    n = int(n)
    fixed = 1 + 2 + 2 + 2 + 2 + 3 + 16      # type, version, three lengths, one cipher kind, challenge
    hello = SslHandshakeClientHello(_ssl2_kinds('65664'), bytes(i % 251 for i in range(n - fixed)), bytes(range(16)))
    rec = SslRecord(hello)
    b = bytes(rec.compose())
    back = parse_back(SslRecord, b)
    if bytes(back.message.compose()) != bytes(hello.compose()):
        raise RoundTripError('parse does not recover the encoded message')
    return '%d %s' % (len(b), hx(b[:2]))


def ssl2_sh_enc(hit, ct, cert, ciphers, cid):
    from cryptoparser.tls.subprotocol import SslHandshakeServerHello
    kinds, ce, ci = _ssl2_kinds(ciphers), bytes.fromhex('' if cert == '-' else cert), bytes.fromhex('' if cid == '-' else cid)
    if int(ct) != 1:
        raise TypeError('not constructible')
    b = bytes(SslHandshakeServerHello(ce, kinds, ci, bool(int(hit))).compose())
    back = parse_back(SslHandshakeServerHello, b)
    if list(back.cipher_kinds) != kinds or bytes(back.certificate) != ce or bytes(back.connection_id) != ci or back.session_id_hit != bool(int(hit)):
        raise RoundTripError('parse does not recover the encoded values')
    return hx(b)


def ch_enc(ver, rnd, sid, suites, comps, exts):
    from cryptodatahub.tls.algorithm import TlsCipherSuite, TlsCompressionMethod
    from cryptoparser.tls.subprotocol import (TlsHandshakeClientHello, TlsHandshakeHelloRandom, TlsSessionIdVector,
                                               TlsCipherSuiteVector, TlsCompressionMethodVector)
    from cryptoparser.tls.extension import TlsExtensionsClient
    codes = _zs(suites)
    plain = [c for c in codes if c not in (0x5600, 0x00ff)]
    eb = _exts_bytes(exts)
    ext_objs = TlsExtensionsClient.parse_exact_size(len(eb).to_bytes(2, 'big') + eb)
    hello = TlsHandshakeClientHello(
        cipher_suites=TlsCipherSuiteVector([_member_or_invalid(TlsCipherSuite, c, 2) for c in plain]),
        protocol_version=_version(int(ver)),
        random=TlsHandshakeHelloRandom.parse_exact_size(bytes.fromhex(rnd)),
        session_id=TlsSessionIdVector(list(bytes.fromhex('' if sid == '-' else sid))),
        compression_methods=TlsCompressionMethodVector([_member_or_invalid(TlsCompressionMethod, c, 1) for c in _zs(comps)]),
        extensions=ext_objs,
        fallback_scsv=0x5600 in codes,
        empty_renegotiation_info_scsv=0x00ff in codes,
    )
    return rt_hex(hello)


def show_ch(h, n):
    return '%d %s %s %s %d %d %s %s n=%d' % (
        h.protocol_version.version.value.code, hx(h.random.compose()), hx(bytes(bytearray(list(h.session_id)))) or '-',
        ','.join(str(c.value.code) for c in h.cipher_suites) or '-', int(h.fallback_scsv), int(h.empty_renegotiation_info_scsv),
        ','.join(str(c.value.code) for c in h.compression_methods) or '-', _show_exts(h.extensions), n)


def ch_dec(h):
    from cryptoparser.tls.subprotocol import TlsHandshakeClientHello
    obj, n = TlsHandshakeClientHello.parse_immutable(bytes.fromhex(h))
    return show_ch(obj, n)


def ja3_cmd(h):
    from cryptoparser.tls.subprotocol import TlsHandshakeClientHello
    obj, _ = TlsHandshakeClientHello.parse_immutable(bytes.fromhex(h))
    j = obj.ja3()
    # the value must not change when the hello is composed and parsed again (wire order kept by compose)
    try:
        again = TlsHandshakeClientHello.parse_exact_size(bytes(obj.compose())).ja3()
    except Exception as e:  # pylint: disable=broad-except
        raise RoundTripError('the parsed hello cannot be composed and parsed again: %s' % type(e).__name__)
    if again != j:
        raise RoundTripError('ja3 after compose and parse again: %s' % again)
    return j


def sh_dec(ty, h):
    """the fields of a server hello (type 2) / hello retry request (type 6) as the parser returns them"""
    from cryptoparser.tls.subprotocol import TlsHandshakeServerHello, TlsHandshakeHelloRetryRequest
    cls = {'2': TlsHandshakeServerHello, '6': TlsHandshakeHelloRetryRequest}[ty]
    o, n = cls.parse_immutable(bytes.fromhex(h))
    rnd = o.random if ty == '2' else o.random_bytes
    return '%d %s %s %d %d %s n=%d' % (o.protocol_version.version.value.code, hx(rnd.compose()), hx(bytes(bytearray(list(o.session_id)))) or '-',
                                       o.cipher_suite.value.code, o.compression_method.value.code, _show_exts(o.extensions), n)


def sh_enc(ver, rnd, sid, suite, comp, exts):
    from cryptodatahub.tls.algorithm import TlsCipherSuite, TlsCompressionMethod
    from cryptoparser.tls.subprotocol import TlsHandshakeServerHello, TlsHandshakeHelloRandom, TlsSessionIdVector
    from cryptoparser.tls.extension import TlsExtensionsServer
    eb = _exts_bytes(exts)
    ext_objs = TlsExtensionsServer.parse_exact_size(len(eb).to_bytes(2, 'big') + eb)
    hello = TlsHandshakeServerHello(
        protocol_version=_version(int(ver)),
        random=TlsHandshakeHelloRandom.parse_exact_size(bytes.fromhex(rnd)),
        session_id=TlsSessionIdVector(list(bytes.fromhex('' if sid == '-' else sid))),
        compression_method=_member_or_invalid(TlsCompressionMethod, int(comp), 1),
        cipher_suite=_member_or_invalid(TlsCipherSuite, int(suite), 2),
        extensions=ext_objs,
    )
    return rt_hex(hello)


def hrr_enc(ver, rnd, sid, suite, comp, exts):
    from cryptodatahub.tls.algorithm import TlsCipherSuite, TlsCompressionMethod
    from cryptoparser.tls.subprotocol import TlsHandshakeHelloRetryRequest, TlsHandshakeHelloRandom, TlsSessionIdVector
    from cryptoparser.tls.extension import TlsExtensionsServer
    eb = _exts_bytes(exts)
    ext_objs = TlsExtensionsServer.parse_exact_size(len(eb).to_bytes(2, 'big') + eb)
    hello = TlsHandshakeHelloRetryRequest(
        protocol_version=_version(int(ver)),
        random_bytes=TlsHandshakeHelloRandom.parse_exact_size(bytes.fromhex(rnd)),
        session_id=TlsSessionIdVector(list(bytes.fromhex('' if sid == '-' else sid))),
        compression_method=_member_or_invalid(TlsCompressionMethod, int(comp), 1),
        cipher_suite=_member_or_invalid(TlsCipherSuite, int(suite), 2),
        extensions=ext_objs,
    )
    return rt_hex(hello)


def cert_enc(certs):
    from cryptoparser.tls.subprotocol import TlsHandshakeCertificate, TlsCertificates, TlsCertificate
    return rt_hex(TlsHandshakeCertificate(TlsCertificates([TlsCertificate(bytes.fromhex(c)) for c in ([] if certs == '-' else certs.split(','))])))


def certreq_enc(types, sa, cas):
    from cryptodatahub.tls.algorithm import TlsSignatureAndHashAlgorithm
    from cryptoparser.tls.subprotocol import TlsHandshakeCertificateRequest, TlsDistinguishedName, TlsClientCertificateType
    ts = []
    for c in _zs(types):
        ms = [m for m in TlsClientCertificateType if int(m) == c]
        ts.append(ms[0] if ms else c)
    algs = None if sa == '_' else [_member_or_invalid(TlsSignatureAndHashAlgorithm, c, 2) for c in _zs(sa)]
    names = [TlsDistinguishedName(list(bytes.fromhex(h))) for h in ([] if cas == '-' else cas.split(','))]
    return rt_hex(TlsHandshakeCertificateRequest(ts, names, algs))


def certreq_dec(w, h):
    from cryptoparser.tls.subprotocol import TlsHandshakeCertificateRequest
    o, n = TlsHandshakeCertificateRequest.parse_immutable(bytes.fromhex(h))
    sa = o.supported_signature_algorithms
    if (sa is not None) != (w == '1'):
        raise RoundTripError('supported_signature_algorithms %s' % ('missing' if sa is None else 'invented'))
    return '%s;%s;%s n=%d' % (','.join(str(int(t)) for t in o.certificate_types),
                              '_' if sa is None else ','.join(str(x.value.code if hasattr(x.value, 'code') else int.from_bytes(bytes(x.compose()), 'big')) for x in sa),
                              ','.join(hx(bytes(bytearray(x))) for x in o.certificate_authorities), n)


def certst_enc(ty, h):
    from cryptoparser.tls.subprotocol import TlsHandshakeCertificateStatus
    from cryptoparser.tls.extension import TlsCertificateStatusType
    ms = [m for m in TlsCertificateStatusType if int(m) == int(ty)]
    if not ms:
        raise TypeError('not constructible')
    return rt_hex(TlsHandshakeCertificateStatus(ms[0], bytes.fromhex('' if h == '-' else h)))


def certst_dec(h):
    from cryptoparser.tls.subprotocol import TlsHandshakeCertificateStatus
    o, n = TlsHandshakeCertificateStatus.parse_immutable(bytes.fromhex(h))
    return '%d %s n=%d' % (int(o.status_type), hx(o.status), n)


def shd_enc():
    from cryptoparser.tls.subprotocol import TlsHandshakeServerHelloDone
    return rt_hex(TlsHandshakeServerHelloDone())


def rec_enc(ct, ver, frag):
    return c_frame('tlsrecord', '%s,%s' % (ct, ver), '' if frag == '-' else frag)


def alert_enc(level, desc):
    from cryptoparser.tls.subprotocol import TlsAlertMessage
    return rt_hex(TlsAlertMessage(int(level), int(desc)))


def ccs_enc():
    from cryptoparser.tls.subprotocol import TlsChangeCipherSpecMessage
    return rt_hex(TlsChangeCipherSpecMessage())


def ext_enc(kind, arg):
    from cryptodatahub.tls.algorithm import (TlsNamedCurve, TlsECPointFormat, TlsSignatureAndHashAlgorithm, TlsPskKeyExchangeMode,
                                             TlsProtocolName)
    from cryptodatahub.tls.version import TlsVersion
    from cryptoparser.tls import extension as ex
    from cryptoparser.tls.version import TlsProtocolVersion
    from cryptoparser.tls.grease import TlsInvalidTypeTwoByte
    if kind == 'G':
        obj = ex.TlsExtensionEllipticCurves([_member_or_invalid(TlsNamedCurve, c, 2) for c in _zs(arg)])
    elif kind == 'P':
        obj = ex.TlsExtensionECPointFormats([_member_or_invalid(TlsECPointFormat, c, 1) for c in _zs(arg)])
    elif kind == 'V':
        items = []
        for c in _zs(arg):
            ms = [m for m in TlsVersion if m.value.code == c]
            items.append(TlsProtocolVersion(ms[0]) if ms else TlsInvalidTypeTwoByte(c))
        obj = ex.TlsExtensionSupportedVersionsClient(items)
    elif kind == 'S':
        obj = ex.TlsExtensionSignatureAlgorithms([_member_or_invalid(TlsSignatureAndHashAlgorithm, c, 2) for c in _zs(arg)])
    elif kind in ('C', 'D'):
        cls = ex.TlsExtensionSignatureAlgorithmsCert if kind == 'C' else ex.TlsExtensionDelegatedCredentials
        return rt_hex(cls([_member_or_invalid(TlsSignatureAndHashAlgorithm, c, 2) for c in _zs(arg)]))     # the whole extension, type included
    elif kind == 'A':
        names = []
        for h in ([] if arg == '-' else arg.split(',')):
            code = bytes.fromhex(h).decode('utf-8')
            ms = [m for m in TlsProtocolName if m.value.code == code]
            if not ms:
                raise TypeError('not constructible: unknown protocol name')
            names.append(ms[0])
        obj = ex.TlsExtensionApplicationLayerProtocolNegotiation(names)
    elif kind == 'N':
        obj = ex.TlsExtensionServerNameClient(bytes.fromhex(arg).decode('ascii'))
    elif kind == 'K':
        obj = ex.TlsExtensionPskKeyExchangeModes([_member_or_invalid(TlsPskKeyExchangeMode, c, 1) for c in _zs(arg)])
    elif kind == 'L':
        obj = ex.TlsExtensionRecordSizeLimit(int(arg))
    elif kind == 'R':
        obj = ex.TlsExtensionRenegotiationInfo(ex.TlsRenegotiatedConnection(list(bytes.fromhex('' if arg == '-' else arg))))
    else:
        raise KeyError(kind)
    return rt_hex(obj)[8:]


# ---- opportunistic TLS ------------------------------------------------------------------------------
def tpkt_enc(h):
    return c_frame('tpkt', '3', '' if h == '-' else h)


def _cotp_cls(code):
    from cryptoparser.tls.rdp import COTPConnectionRequest, COTPConnectionConfirm
    return {14: COTPConnectionRequest, 13: COTPConnectionConfirm}[int(code)]


def cotp_enc(code, dst, src, h):
    return rt_hex(_cotp_cls(code)(src_ref=int(src), dst_ref=int(dst), user_data=bytes.fromhex('' if h == '-' else h)))


def p_cotp(ty, h):
    cls = _cotp_cls(ty)
    obj, n = cls.parse_immutable(bytes.fromhex(h))
    if type(obj) is not cls:
        return 'WRONGTYPE %s' % type(obj).__name__
    return '%d,%d;%s n=%d' % (obj.src_ref, obj.dst_ref, hx(obj.user_data), n)


def rdp_neg_enc(ty, flags, protos):
    from cryptoparser.tls import rdp
    cls, fcls = {1: (rdp.RDPNegotiationRequest, rdp.RDPNegotiationRequestFlags), 2: (rdp.RDPNegotiationResponse, rdp.RDPNegotiationResponseFlags)}[int(ty)]
    fl = [f for f in fcls if int(flags) & int(f)]
    if sum(int(f) for f in fl) != int(flags):
        raise TypeError('not constructible: unknown flag bits')
    pr = [p for p in rdp.RDPProtocol if int(protos) & int(p)]
    if sum(int(p) for p in pr) != int(protos):
        raise TypeError('not constructible: unknown protocol bits')
    return rt_hex(cls(set(fl), set(pr)))


def rdp_neg_dec(ty, h):
    """parse with the class of the given type; the type shown is that of the flag members when there are any (a response must
    carry response flags), else that of the class"""
    from cryptoparser.tls import rdp
    cls = {1: rdp.RDPNegotiationRequest, 2: rdp.RDPNegotiationResponse}[int(ty)]
    o, n = cls.parse_immutable(bytes.fromhex(h))
    kinds = {{'RDPNegotiationRequestFlags': 1, 'RDPNegotiationResponseFlags': 2}[type(f).__name__] for f in o.flags}
    shown = int(ty) if kinds in (set(), {int(ty)}) else min(kinds ^ {int(ty)} or kinds)
    return '%d %d %d n=%d' % (shown, sum(int(f) for f in o.flags), sum(int(p) for p in o.protocol), n)


def mysql_pkt_enc(seq, h):
    return c_frame('mysql', seq, '' if h == '-' else h)


def mysql_ssl41(caps, mx, cs):
    from cryptoparser.tls import mysql
    cl = [c for c in mysql.MySQLCapability if int(caps) & int(c)]
    if sum(int(c) for c in cl) != int(caps) or not int(caps) & int(mysql.MySQLCapability.CLIENT_PROTOCOL_41):
        raise TypeError('not constructible')
    csm = [m for m in mysql.MySQLCharacterSet if m.value.code == int(cs)]
    if not csm:
        raise TypeError('not constructible')
    return rt_hex(mysql.MySQLHandshakeSslRequest(set(cl), int(mx), csm[0]))


def mysql_hs(ver, cid, a1, caps, cs, st, a2, pl):
    from cryptoparser.tls import mysql
    cl = [c for c in mysql.MySQLCapability if int(caps) & int(c)]
    sl = [c for c in mysql.MySQLStatusFlag if int(st) & int(c)]
    csm = [m for m in mysql.MySQLCharacterSet if m.value.code == int(cs)]
    if sum(int(c) for c in cl) != int(caps) or sum(int(c) for c in sl) != int(st) or not csm:
        raise TypeError('not constructible')
    msg = mysql.MySQLHandshakeV10(
        mysql.MySQLVersion.MYSQL_10, bytes.fromhex('' if ver == '-' else ver).decode('ascii'), int(cid), bytes.fromhex(a1), set(cl), csm[0], set(sl),
        None if a2 == '-' else bytes.fromhex(a2), None if pl == '_' else bytes.fromhex(pl).decode('ascii'))
    composed = bytes(msg.compose())
    back = parse_back(mysql.MySQLHandshakeV10, composed)
    if (set(back.capabilities) != set(cl) or set(back.states) != set(sl) or back.connection_id != int(cid)
            or bytes(back.auth_plugin_data_2 or b'') != bytes(msg.auth_plugin_data_2 or b'') or back.auth_plugin_name != msg.auth_plugin_name
            or back.server_version != msg.server_version or bytes(back.auth_plugin_data) != bytes(msg.auth_plugin_data)):
        raise RoundTripError('parse(compose(x)) differs from x')
    return hx(composed)


def mysql_ssl320(caps, mx):
    from cryptoparser.tls import mysql
    cl = [c for c in mysql.MySQLCapability if int(caps) & int(c)]
    if sum(int(c) for c in cl) != int(caps) or int(caps) & int(mysql.MySQLCapability.CLIENT_PROTOCOL_41):
        raise TypeError('not constructible')
    return rt_hex(mysql.MySQLHandshakeSslRequest(set(cl), int(mx)))


def ovpn_ctl(op, sess, acks, remote, pid, h):
    from cryptoparser.tls import openvpn
    if int(op) != int(openvpn.OpenVpnPacketControlV1.get_op_code()):
        raise TypeError('not constructible')
    a = _zs(acks)
    # without acknowledgements the remote session id is not on the wire whatever the object holds (None or, for odd values, a number)
    obj = openvpn.OpenVpnPacketControlV1(int(sess), a, int(remote) if a or int(remote) % 2 else None, int(pid), bytes.fromhex('' if h == '-' else h))
    return hx(obj.compose())


def ovpn_ack(sess, acks, remote):
    from cryptoparser.tls import openvpn
    a = _zs(acks)
    return hx(openvpn.OpenVpnPacketAckV1(int(sess), int(remote) if a or int(remote) % 2 else None, a).compose())


def ovpn_hrc(sess, pid):
    from cryptoparser.tls import openvpn
    return hx(openvpn.OpenVpnPacketHardResetClientV2(int(sess), int(pid)).compose())


def ovpn_hrs(sess, acks, remote, pid):
    from cryptoparser.tls import openvpn
    a = _zs(acks)
    return hx(openvpn.OpenVpnPacketHardResetServerV2(int(sess), int(remote) if a or int(remote) % 2 else None, a, int(pid)).compose())


def ovpn_dec(h):
    """parse through the packet variant; the body (what follows the header) is re-assembled from the fields of the class"""
    from cryptoparser.tls import openvpn
    data = bytes.fromhex(h)
    o, n = openvpn.OpenVpnPacketVariant.parse_immutable(data)
    body = b''
    if hasattr(o, 'packet_id'):
        body += int(o.packet_id).to_bytes(4, 'big')
    if hasattr(o, 'payload'):
        body += bytes(o.payload)
    body += data[n:]
    return '%d %d %s %s %s' % (int(o.get_op_code()), o.session_id, ','.join(str(x) for x in o.packet_id_array) or '-',
                               '_' if o.remote_session_id is None else str(o.remote_session_id), hx(body) or '-')


def ovpn_tcp(h):
    return c_frame('ovpn', '-', '' if h == '-' else h)


def pg_ssl():
    return c_frame('pgssl', '-', '')


# ---- SSH ------------------------------------------------------------------------------------------------
def ssh_pad(L):
    from cryptoparser.ssh.record import SshRecordInit
    from cryptoparser.ssh.subprotocol import SshMessageBase

    class Dummy(SshMessageBase):   # a message whose payload has exactly L bytes
        @classmethod
        def _parse(cls, parsable):
            raise NotImplementedError()

        def compose(self):
            return b'\x05' * int(L)

        @classmethod
        def get_message_code(cls):
            return 5
    b = bytes(SshRecordInit(Dummy()).compose())
    plen, pad = int.from_bytes(b[:4], 'big'), b[4]
    if len(b) != 4 + plen or b[5 + int(L):] != bytes(pad):
        raise ValueError('record layout')
    return '%d %d' % (pad, plen)


def mpint_spec(z):
    return c_sshmpint(z)


_KEX_VECTORS = ['SshKexAlgorithmVector', 'SshHostKeyAlgorithmVector', 'SshEncryptionAlgorithmVector', 'SshEncryptionAlgorithmVector',
                'SshMacAlgorithmVector', 'SshMacAlgorithmVector', 'SshCompressionAlgorithmVector', 'SshCompressionAlgorithmVector']


def _ssh_names(vector_name, names_hex):
    from harness import gen_tables
    enum_cls = gen_tables.ssh_name_enums()[vector_name]['enum']
    out = []
    for h in ([] if names_hex == '-' else names_hex.split(',')):
        name = bytes.fromhex(h).decode('ascii')
        ms = [m for m in enum_cls if m.value.code == name]
        out.append(ms[0] if ms else name)
    return out


def kex_enc(cookie, lists, follows, reserved):
    from cryptoparser.ssh.subprotocol import SshKeyExchangeInit
    ls = lists.split('|')
    args = [_ssh_names(v, l) for v, l in zip(_KEX_VECTORS, ls[:8])]
    from cryptoparser.common.classes import LanguageTag
    langs = [[LanguageTag.parse_exact_size(bytes.fromhex(h)) for h in ([] if l == '-' else l.split(','))] for l in ls[8:10]]
    k = SshKeyExchangeInit(*args, languages_client_to_server=langs[0], languages_server_to_client=langs[1],
                           first_kex_packet_follows=int(follows), cookie=bytes.fromhex(cookie), reserved=int(reserved))
    return rt_hex(k)


def _show_vec(v):
    items = []
    for x in v:
        if isinstance(x, str):
            items.append(x.encode('ascii').hex())
        elif hasattr(x, 'value') and hasattr(x.value, 'code'):
            items.append(x.value.code.encode('ascii').hex())
        else:
            items.append(bytes(x.compose()).hex())
    return ','.join(items) or '-'


def kex_dec(h):
    from cryptoparser.ssh.subprotocol import SshKeyExchangeInit
    k, _ = SshKeyExchangeInit.parse_immutable(bytes.fromhex(h))
    vs = [k.kex_algorithms, k.host_key_algorithms, k.encryption_algorithms_client_to_server, k.encryption_algorithms_server_to_client,
          k.mac_algorithms_client_to_server, k.mac_algorithms_server_to_client, k.compression_algorithms_client_to_server,
          k.compression_algorithms_server_to_client, k.languages_client_to_server, k.languages_server_to_client]
    return '%s %s %d %d' % (hx(k.cookie), '|'.join(_show_vec(v) for v in vs), int(k.first_kex_packet_follows), k.reserved)


def _mp_payload(z):
    """RFC 4251 mpint payload of a non-negative integer, computed here independently of library and model"""
    z = int(z)
    return z.to_bytes(z.bit_length() // 8 + 1, 'big') if z else b''


def _mp_value(b):
    return int.from_bytes(bytes(b), 'big', signed=True)


def _ssh_variant(ctx):
    from cryptoparser.ssh import subprotocol as sp
    return {'init': sp.SshMessageVariantInit, 'kexdh': sp.SshMessageVariantKexDH, 'gex': sp.SshMessageVariantKexDHGroup}[ctx]


def _hx_or_empty(h):
    return bytes.fromhex('' if h == '-' else h)


def ssh_msg(name, *a):
    """compose a transport-layer message from its field values; the composed bytes must parse back, through the message
    variant of its key-exchange context, to an equal object"""
    from cryptoparser.ssh import subprotocol as sp
    from cryptoparser.ssh.key import SshHostPublicKeyVariant
    ctx = 'init'
    if name == 'disc':
        rs = [m for m in sp.SshReasonCode if int(m) == int(a[0])]
        if not rs:
            raise TypeError('not constructible')
        obj = sp.SshDisconnectMessage(rs[0], _hx_or_empty(a[1]).decode('utf-8'), _hx_or_empty(a[2]).decode('ascii'))
    elif name == 'unimpl':
        obj = sp.SshUnimplementedMessage(int(a[0]))
    elif name == 'newkeys':
        obj, ctx = sp.SshNewKeys(), 'kexdh'
    elif name == 'dhinit':
        obj, ctx = sp.SshDHKeyExchangeInit(_mp_payload(a[0])), 'kexdh'
    elif name == 'gexinit':
        obj, ctx = sp.SshDHGroupExchangeInit(_mp_payload(a[0])), 'gex'
    elif name in ('dhreply', 'gexreply'):
        cls, ctx = (sp.SshDHKeyExchangeReply, 'kexdh') if name == 'dhreply' else (sp.SshDHGroupExchangeReply, 'gex')
        obj = cls(SshHostPublicKeyVariant.parse_exact_size(bytes.fromhex(a[0])), _mp_payload(a[1]), _hx_or_empty(a[2]))
    elif name == 'gexreq':
        obj, ctx = sp.SshDHGroupExchangeRequest(int(a[0]), int(a[1]), int(a[2])), 'gex'
    elif name == 'gexgroup':
        obj, ctx = sp.SshDHGroupExchangeGroup(_mp_payload(a[0]), _mp_payload(a[1])), 'gex'
    else:
        raise KeyError(name)
    composed = bytes(obj.compose())
    for c in ([ctx, 'gex'] if name == 'newkeys' else [ctx]):
        back = parse_back(_ssh_variant(c), composed)
        if type(back) is not type(obj) or back != obj:
            raise RoundTripError('parse(compose(x)) differs from x')
    return hx(composed)


def ssh_msg_dec(ctx, h):
    """parse through the message variant of the context and show the fields in the layout language of the specification"""
    from cryptoparser.ssh import subprotocol as sp
    data = bytes.fromhex(h)
    obj, n = _ssh_variant(ctx).parse_immutable(data)
    # the same message inside an RFC 4253 binary packet (padding to a multiple of 8, at least 4 octets), through the record class of
    # the key-exchange context: it must come back as the same message
    from cryptoparser.ssh import record as sr
    from harness import rt
    payload = data[:n]
    pad = 8 - (5 + len(payload)) % 8
    pad += 8 if pad < 4 else 0
    packet = (1 + len(payload) + pad).to_bytes(4, 'big') + bytes([pad]) + payload + bytes(pad)
    rec_cls = {'init': sr.SshRecordInit, 'kexdh': sr.SshRecordKexDH, 'gex': sr.SshRecordKexDHGroup}[ctx]
    try:
        rec = rec_cls.parse_exact_size(packet)
    except Exception as e:  # pylint: disable=broad-except
        raise RoundTripError('the message is refused inside a binary packet of its context: %s' % type(e).__name__)
    if not rt.same(rec.packet, obj):
        raise RoundTripError('the message comes back as another one from a binary packet of its context')
    code = int(obj.get_message_code())
    # the messages made of byte, uint32 and string fields only have a single spelling (Props/C07.v: C07_rigid_messages_one_encoding):
    # what was accepted must be composed back to exactly the octets that were consumed
    if isinstance(obj, (sp.SshDisconnectMessage, sp.SshUnimplementedMessage, sp.SshNewKeys, sp.SshDHGroupExchangeRequest)):
        if bytes(obj.compose()) != payload:
            raise RoundTripError('an accepted message of single-spelling fields is not composed back to the octets received')
    if isinstance(obj, sp.SshDisconnectMessage):
        fs = ['U%d' % int(obj.reason), 'S' + obj.description.encode('utf-8').hex(), 'S' + str(obj.language).encode('ascii').hex()]
    elif isinstance(obj, sp.SshUnimplementedMessage):
        fs = ['U%d' % obj.sequence_number]
    elif isinstance(obj, sp.SshNewKeys):
        fs = []
    elif isinstance(obj, sp.SshDHKeyExchangeInitBase):
        fs = ['M%d' % _mp_value(obj.ephemeral_public_key)]
    elif isinstance(obj, sp.SshDHKeyExchangeReplyBase):
        fs = ['S' + hx(obj.host_public_key.key_bytes), 'M%d' % _mp_value(obj.ephemeral_public_key), 'S' + hx(obj.signature)]
    elif isinstance(obj, sp.SshDHGroupExchangeRequest):
        fs = ['U%d' % obj.gex_min, 'U%d' % obj.gex_number, 'U%d' % obj.gex_max]
    elif isinstance(obj, sp.SshDHGroupExchangeGroup):
        fs = ['M%d' % _mp_value(obj.p), 'M%d' % _mp_value(obj.g)]
    else:
        raise TypeError('unexpected class %s' % type(obj).__name__)
    return ' '.join(['B%d' % code] + fs) + ' n=%d' % n


def hassh_cmd(h, side):
    from cryptoparser.ssh.subprotocol import SshKeyExchangeInit
    k, _ = SshKeyExchangeInit.parse_immutable(bytes.fromhex(h))
    return k.hassh_server if side == 's' else k.hassh


def _host_key(cls, alg, key):
    return cls(alg, key)


def rsa_blob(e, n):
    from cryptodatahub.common.key import PublicKey, PublicKeyParamsRsa
    from cryptodatahub.ssh.algorithm import SshHostKeyAlgorithm
    from cryptoparser.ssh.key import SshHostKeyRSA
    k = SshHostKeyRSA(SshHostKeyAlgorithm.SSH_RSA, PublicKey.from_params(PublicKeyParamsRsa(public_exponent=int(e), modulus=int(n))))
    return k


def dss_blob(p, q, g, y):
    from cryptodatahub.common.key import PublicKey, PublicKeyParamsDsa
    from cryptodatahub.ssh.algorithm import SshHostKeyAlgorithm
    from cryptoparser.ssh.key import SshHostKeyDSS
    return SshHostKeyDSS(SshHostKeyAlgorithm.SSH_DSS, PublicKey.from_params(PublicKeyParamsDsa(prime=int(p), generator=int(g), order=int(q), public_key_value=int(y))))


def ec_blob(ident, size, x, y):
    from cryptodatahub.common.key import PublicKey, PublicKeyParamsEcdsa
    from cryptodatahub.ssh.algorithm import SshHostKeyAlgorithm, SshEllipticCurveIdentifier
    from cryptoparser.ssh.key import SshHostKeyECDSA
    name = bytes.fromhex(ident).decode('ascii')
    alg = [a for a in SshHostKeyAlgorithm if a.value.code == 'ecdsa-sha2-' + name][0]
    group = [c for c in SshEllipticCurveIdentifier if c.value.code == name][0].value.named_group
    assert (group.value.size + 7) // 8 == int(size)
    return SshHostKeyECDSA(alg, PublicKey.from_params(PublicKeyParamsEcdsa(named_group=group, point_x=int(x), point_y=int(y))))


def ed_blob(kh):
    from cryptodatahub.common.key import PublicKey, PublicKeyParamsEddsa
    from cryptodatahub.common.algorithm import NamedGroup
    from cryptodatahub.ssh.algorithm import SshHostKeyAlgorithm
    from cryptoparser.ssh.key import SshHostKeyEDDSA
    return SshHostKeyEDDSA(SshHostKeyAlgorithm.SSH_ED25519, PublicKey.from_params(PublicKeyParamsEddsa(curve_type=NamedGroup.CURVE25519, key_data=bytes.fromhex(kh))))


def blob_cmd(fn):
    return lambda *a: hx(fn(*a).key_bytes)


# ---- DNS records ---------------------------------------------------------------------------------------
def _labels(name):
    return [] if name == '-' else [bytes.fromhex(h).decode('ascii') for h in name.split(',')]


def _dns_enum(enum_cls, code):
    for m in enum_cls:
        if m.value.code == code:
            return m
    raise TypeError('not constructible')


def keytag_cmd(h):
    from cryptoparser.dnsrec.record import DnsRecordDnskey
    rec = DnsRecordDnskey.parse_exact_size(bytes.fromhex(h))
    if bytes(rec.compose()) != bytes.fromhex(h):
        raise TypeError('rdata is not in canonical form')
    return str(rec.key_tag)


def ds_enc(kt, a, d, dg):
    from cryptodatahub.dnsrec.algorithm import DnsSecAlgorithm, DnsSecDigestType
    from cryptoparser.dnsrec.record import DnsRecordDs
    return rt_hex(DnsRecordDs(int(kt), _dns_enum(DnsSecAlgorithm, int(a)), _dns_enum(DnsSecDigestType, int(d)), bytes.fromhex('' if dg == '-' else dg)))


def mx_enc(pref, name):
    from cryptoparser.dnsrec.record import DnsRecordMx, DnsNameUncompressed
    return rt_hex(DnsRecordMx(int(pref), DnsNameUncompressed(_labels(name))))


def name_enc(name):
    from cryptoparser.dnsrec.record import DnsNameUncompressed
    return rt_hex(DnsNameUncompressed(_labels(name)))


def txt_enc(h):
    from cryptoparser.dnsrec.record import DnsRecordTxt
    return rt_hex(DnsRecordTxt(bytes.fromhex('' if h == '-' else h).decode('ascii')))


def rrsig_enc(ty, alg, labels, ttl, ex, inc, kt, name, sig):
    from cryptodatahub.dnsrec.algorithm import DnsSecAlgorithm, DnsRrType
    from cryptoparser.dnsrec.record import DnsRecordRrsig, DnsNameUncompressed, DnsRrTypePrivate
    tys = [m for m in DnsRrType if m.value.code == int(ty)]

    def zoned(t):
        # RFC 4034 3.1.5 counts seconds since the epoch in UTC: the same instant spelled in another zone is the same wire
        # value (records with an odd key tag are built from such spellings)
        import dateutil.tz
        v = mk_dt(t, 0)
        return v.astimezone(dateutil.tz.tzoffset(None, (int(t) % 57 - 28) * 1800)) if int(kt) % 2 else v
    rec = DnsRecordRrsig(tys[0] if tys else DnsRrTypePrivate(int(ty)), _dns_enum(DnsSecAlgorithm, int(alg)), int(labels), int(ttl),
                         zoned(ex), zoned(inc), int(kt), DnsNameUncompressed(_labels(name)), bytes.fromhex('' if sig == '-' else sig))
    composed = bytes(rec.compose())
    back = parse_back(DnsRecordRrsig, composed)
    if back != rec:     # datetimes compare as instants: 13:00+01:00 equals 12:00Z
        raise RoundTripError('parse(compose(x)) differs from x')
    return hx(composed)


def dnskey_rsa_enc(flags, alg, e, m):
    from cryptodatahub.common.key import PublicKey, PublicKeyParamsRsa
    from cryptodatahub.dnsrec.algorithm import DnsSecAlgorithm
    from cryptoparser.dnsrec.record import DnsRecordDnskey, DnsSecFlag, DnsSecProtocol
    fl = [f for f in DnsSecFlag if int(flags) & int(f)]
    key = PublicKey.from_params(PublicKeyParamsRsa(public_exponent=int(e), modulus=int.from_bytes(bytes.fromhex(m), 'big')))
    return rt_hex(DnsRecordDnskey(set(fl), _dns_enum(DnsSecAlgorithm, int(alg)), key, DnsSecProtocol.V3))


def dnskey_ec_enc(flags, alg, x, y):
    """an ECDSA DNSKEY built from a point on the curve RFC 6605 assigns to the algorithm number"""
    from cryptodatahub.common.algorithm import NamedGroup
    from cryptodatahub.common.key import PublicKey, PublicKeyParamsEcdsa
    from cryptodatahub.dnsrec.algorithm import DnsSecAlgorithm
    from cryptoparser.dnsrec.record import DnsRecordDnskey, DnsSecFlag, DnsSecProtocol
    fl = [f for f in DnsSecFlag if int(flags) & int(f)]
    group = {13: NamedGroup.PRIME256V1, 14: NamedGroup.SECP384R1}[int(alg)]
    key = PublicKey.from_params(PublicKeyParamsEcdsa(named_group=group, point_x=int(x), point_y=int(y)))
    return hx(DnsRecordDnskey(fl, _dns_enum(DnsSecAlgorithm, int(alg)), key, DnsSecProtocol.V3).compose())


def dnskey_ed_enc(flags, alg, k):
    from cryptodatahub.common.algorithm import NamedGroup
    from cryptodatahub.common.key import PublicKey, PublicKeyParamsEddsa
    from cryptodatahub.dnsrec.algorithm import DnsSecAlgorithm
    from cryptoparser.dnsrec.record import DnsRecordDnskey, DnsSecFlag, DnsSecProtocol
    fl = [f for f in DnsSecFlag if int(flags) & int(f)]
    curve = {15: NamedGroup.CURVE25519, 16: NamedGroup.CURVE448}[int(alg)]
    key = PublicKey.from_params(PublicKeyParamsEddsa(curve_type=curve, key_data=bytes.fromhex(k)))
    return hx(DnsRecordDnskey(fl, _dns_enum(DnsSecAlgorithm, int(alg)), key, DnsSecProtocol.V3).compose())


def txt_dec(h):
    from cryptoparser.dnsrec.record import DnsRecordTxt
    return DnsRecordTxt.parse_exact_size(bytes.fromhex('' if h == '-' else h)).value.encode('ascii').hex() or '-'


def mx_dec(h):
    from cryptoparser.dnsrec.record import DnsRecordMx
    o = DnsRecordMx.parse_exact_size(bytes.fromhex(h))
    return '%d %s' % (o.priority, ','.join(l.encode('idna').hex() for l in o.exchange.labels) or '-')


def dnskey_dec(h):
    from cryptodatahub.common.key import PublicKeyParamsEcdsa, PublicKeyParamsEddsa
    from cryptoparser.dnsrec.record import DnsRecordDnskey
    o = DnsRecordDnskey.parse_exact_size(bytes.fromhex(h))
    head = '%d %d' % (sum(int(f) for f in o.flags), int(o.algorithm.value.code))
    p = o.key.params
    if isinstance(p, PublicKeyParamsEcdsa):
        return '%s EC %s %d %d' % (head, p.named_group.value.oid, p.point_x, p.point_y)
    if isinstance(p, PublicKeyParamsEddsa):
        return '%s ED %s' % (head, hx(p.key_data))
    raise TypeError('unexpected key type')


# ---- framing units -----------------------------------------------------------------------------------
def unit_class(u):
    from cryptoparser.tls.record import TlsRecord
    from cryptoparser.tls.subprotocol import TlsHandshakeServerKeyExchange
    from cryptoparser.tls.mysql import MySQLRecord
    from cryptoparser.tls.rdp import TPKT
    from cryptoparser.tls.openvpn import OpenVpnPacketWrapperTcp
    from cryptoparser.tls.postgresql import SslRequest, Sync
    from cryptoparser.tls.record import SslRecord
    from cryptoparser.ssh.record import SshRecordInit
    return {'tlsrecord': TlsRecord, 'hskex': TlsHandshakeServerKeyExchange, 'mysql': MySQLRecord, 'tpkt': TPKT,
            'ovpn': OpenVpnPacketWrapperTcp, 'pgssl': SslRequest, 'pgsync': Sync, 'ssl2': SslRecord, 'sshpkt': SshRecordInit}[u]


def show_frame(u, obj):
    if u == 'tlsrecord':
        return '%d,%d;%s' % (int(obj.content_type), obj.protocol_version.version.value.code, hx(obj.fragment))
    if u == 'hskex':
        return ';' + hx(obj.param_bytes)
    if u == 'mysql':
        return '%d;%s' % (obj.packet_number, hx(obj.packet_bytes))
    if u == 'tpkt':
        return '%d;%s' % (obj.version, hx(obj.message))
    if u == 'ovpn':
        return ';' + hx(obj.payload)
    if u in ('pgssl', 'pgsync'):
        return ';'
    if u == 'ssl2':
        return '%d;%s' % (int(obj.message.get_message_type()), hx(obj.message.compose()))
    if u == 'sshpkt':
        return ';' + hx(obj.packet.compose())
    raise KeyError(u)


def mk_frame(u, hd, payload):
    cls = unit_class(u)
    if u == 'tlsrecord':
        from cryptodatahub.tls.version import TlsVersion
        from cryptoparser.tls.version import TlsProtocolVersion
        from cryptoparser.tls.subprotocol import TlsContentType
        ct, ver = (int(x) for x in hd.split(','))
        version = [m for m in TlsVersion if m.value.code == ver]
        if not version or ct not in [int(m) for m in TlsContentType]:
            raise TypeError('not constructible')
        return cls(fragment=payload, protocol_version=TlsProtocolVersion(version[0]), content_type=TlsContentType(ct))
    if u == 'hskex':
        return cls(payload)
    if u == 'mysql':
        return cls(packet_number=int(hd), packet_bytes=payload)
    if u == 'tpkt':
        return cls(int(hd), payload)
    if u == 'ovpn':
        return cls(payload)
    if payload:
        raise TypeError('not constructible')
    return cls()


def p_frame(u, h):
    obj, n = unit_class(u).parse_immutable(bytes.fromhex(h))
    return '%s n=%d' % (show_frame(u, obj), n)


def x_frame(u, h):
    return show_frame(u, unit_class(u).parse_exact_size(bytes.fromhex(h)))


def m_frame(u, h):
    buf = bytearray.fromhex(h)
    obj = unit_class(u).parse_mutable(buf)
    return '%s rest=%s' % (show_frame(u, obj), hx(buf))


def c_frame(u, hd, h):
    return hx(mk_frame(u, hd, bytes.fromhex(h)).compose())


def reader_loop(parse_mutable, chunks):
    """The reader of property C04: on every NotEnoughData it waits for exactly bytes_needed more bytes."""
    buf = bytearray()
    need = 0
    out = []
    needs = []
    status = 'RUN'
    for c in chunks:
        if status == 'RUN':
            buf += c
            need -= len(c)
            if need <= 0:
                need = 0
                guard = len(buf) + 1
                while buf and status == 'RUN':
                    if guard == 0:
                        status = 'FAIL OUTOFFUEL'
                        break
                    guard -= 1
                    try:
                        before = len(buf)
                        out.append(parse_mutable(buf))
                    except NotEnoughData as e:
                        need = e.bytes_needed
                        break
                    except TooMuchData:
                        status = 'FAIL ERR TooMuchData'
                    except InvalidValue:
                        status = 'FAIL ERR InvalidValue'
                    except InvalidType:
                        status = 'FAIL ERR InvalidType'
                    except Exception as e:  # pylint: disable=broad-except
                        status = 'FAIL LEAK ' + exn_name(e)
        needs.append(need)
    return status, out, bytes(buf), need, needs


def reader_cmd(u, chunks):
    cls = unit_class(u)
    cs = [] if chunks == '-' else [bytes.fromhex(c) for c in chunks.split(',')]
    status, out, buf, need, needs = reader_loop(cls.parse_mutable, cs)
    return '%s %s out=[%s] buf=%s need=%d' % (','.join(str(n) for n in needs), status, ','.join(show_frame(u, o) for o in out), hx(buf), need)


# ---- vector edit histories ---------------------------------------------------------------------------
VEC_CLASSES = ['TlsSessionIdVector', 'TlsRenegotiatedConnection', 'TlsCipherSuiteVector', 'TlsCompressionMethodVector',
               'TlsCertificateStatusRequestResponderIdList', 'SshKexAlgorithmVector', 'TlsEllipticCurveVector',
               'TlsClientCertificateTypeVector', 'TlsDistinguishedNameVector', 'TlsProtocolNameList']


def vec_item(cls_name, tag, size):
    """The library object standing for item (tag, size) of a vector class; None if that class has no such item."""
    from harness import gen_tables
    from cryptoparser.tls.grease import TlsInvalidTypeOneByte, TlsInvalidTypeTwoByte
    if cls_name in ('TlsSessionIdVector', 'TlsRenegotiatedConnection', 'TlsClientCertificateTypeVector'):
        return tag % 256 if size == 1 else None
    if cls_name in ('TlsCipherSuiteVector', 'TlsEllipticCurveVector', 'TlsCompressionMethodVector'):
        d = gen_tables.enum_vectors()[cls_name]
        members = list(factories()['f'][d['factory']][2])
        if size != d['w']:
            return None
        if tag < min(len(members), 40):
            return members[tag]
        return (TlsInvalidTypeOneByte if d['w'] == 1 else TlsInvalidTypeTwoByte)((0x0a0a + tag) % (256 ** d['w']))
    if cls_name == 'TlsCertificateStatusRequestResponderIdList':
        from cryptoparser.tls.extension import TlsCertificateStatusRequestResponderId
        return TlsCertificateStatusRequestResponderId([tag % 256] * (size - 2)) if size >= 3 else None
    if cls_name == 'TlsDistinguishedNameVector':
        from cryptoparser.tls.subprotocol import TlsDistinguishedName
        return TlsDistinguishedName([tag % 256] * (size - 2)) if size >= 3 else None
    if cls_name == 'TlsProtocolNameList':
        # protocol names are encoded as a one-octet length and the name (RFC 7301 3.1): the members whose encoding has `size` octets
        from cryptodatahub.tls.algorithm import TlsProtocolName
        ms = sorted((m for m in TlsProtocolName if len(m.value.code.encode('utf-8')) + 1 == size), key=lambda m: m.name)
        return ms[tag] if tag < len(ms) else None
    if cls_name == 'SshKexAlgorithmVector':
        return chr(97 + tag % 26) + 'x' * (size - 1) if size >= 1 else None
    raise KeyError(cls_name)


def vec_run(cls_name, init, ops):
    from harness import gen_tables
    cls = gen_tables.array_classes()[cls_name]['cls']
    universe = {}

    def item(s):
        tag, size = (int(x) for x in s.split(':'))
        obj = vec_item(cls_name, tag, size)
        if obj is None:
            raise KeyError('no item %s for %s' % (s, cls_name))
        universe[s] = obj
        return obj

    def items(s):
        return [] if s == '-' else [item(x) for x in s.split(',')]

    def name(obj):
        for k, v in universe.items():
            if v is obj:
                return k
        for k, v in universe.items():
            if type(v) is type(obj) and v == obj:
                return k
        return '?'

    def optz(s):
        return None if s == '_' else int(s)

    d = gen_tables.array_classes()[cls_name]
    param = cls.get_param()

    def total(l):
        return sum(param.get_item_size(x) for x in l)

    v = cls(items(init))
    ref = list(v)
    fails = []
    outs = []
    for o in ([] if ops == '-' else ops.split(';')):
        a = o.split('/')
        cand = list(ref)
        list_exc = None
        try:    # the plain-list semantics the property compares with
            if a[0] == 'app':
                args = (item(a[1]),)
                cand.append(*args)
                act = lambda: v.append(*args)
            elif a[0] == 'ins':
                args = (int(a[1]), item(a[2]))
                cand.insert(*args)
                act = lambda: v.insert(*args)
            elif a[0] == 'del':
                args = (int(a[1]),)
                act = lambda: v.__delitem__(*args)
                del cand[args[0]]
            elif a[0] == 'set':
                args = (int(a[1]), item(a[2]))
                act = lambda: v.__setitem__(*args)
                cand[args[0]] = args[1]
            elif a[0] == 'dsl':
                args = (slice(optz(a[1]), optz(a[2])),)
                act = lambda: v.__delitem__(*args)
                del cand[args[0]]
            elif a[0] == 'ssl':
                args = (slice(optz(a[1]), optz(a[2])), items(a[3]))
                act = lambda: v.__setitem__(*args)
                cand[args[0]] = list(args[1])
            elif a[0] == 'dst':     # deletion of a slice with a step (extended slice)
                args = (slice(optz(a[1]), optz(a[2]), optz(a[3])),)
                act = lambda: v.__delitem__(*args)
                del cand[args[0]]
            elif a[0] == 'sst':     # assignment to a slice with a step: a plain list insists on as many items as positions
                args = (slice(optz(a[1]), optz(a[2]), optz(a[3])), items(a[4]))
                act = lambda: v.__setitem__(*args)
                cand[args[0]] = list(args[1])
            elif a[0] == 'ext':
                args = (items(a[1]),)
                act = lambda: v.extend(*args)
                cand.extend(*args)
            elif a[0] == 'iadd':
                args = (items(a[1]),)
                act = lambda: v.__iadd__(*args)
                cand += args[0]
            elif a[0] == 'pop':
                args = () if a[1] == '_' else (int(a[1]),)
                act = lambda: v.pop(*args)
                cand.pop(*args)
            elif a[0] == 'rem':
                args = (item(a[1]),)
                act = lambda: v.remove(*args)
                cand.remove(*args)
            elif a[0] == 'rev':
                act = v.reverse
                cand.reverse()
            elif a[0] == 'clr':
                act = v.clear
                cand.clear()
            else:
                return None, 'BADCMD', []
        except (IndexError, ValueError) as e:
            list_exc = type(e).__name__
        before = list(v)
        try:
            act()
            outs.append('A')
            if list_exc is not None:
                fails.append('%s accepted although a plain list raises %s' % (o, list_exc))
            elif len(cand) != len(v) or any(x is not y and x != y for x, y in zip(cand, v)):
                fails.append('%s: vector holds %d items, a plain list would hold %d (or different ones)' % (o, len(v), len(cand)))
            ref = cand if list_exc is None else ref
        except (NotEnoughData, TooMuchData) as e:
            outs.append('R:' + type(e).__name__)
            if list(v) != before or len(v) != len(before):
                fails.append('%s refused with %s but changed the vector from %d to %d items' % (o, type(e).__name__, len(before), len(v)))
                ref = list(v)
            if list_exc is None and d['min'] <= total(cand) <= d['max']:
                fails.append('%s refused with %s although the result (%d bytes) is within %d..%d' % (
                    o, type(e).__name__, total(cand), d['min'], d['max']))
        except (IndexError, ValueError, AttributeError, TypeError) as e:
            outs.append('R:' + type(e).__name__)
            if type(e).__name__ != list_exc:
                fails.append('%s raised %s (a plain list: %s)' % (o, type(e).__name__, list_exc or 'succeeds'))
            if list(v) != before:
                fails.append('%s raised %s and changed the vector' % (o, type(e).__name__))
                ref = list(v)
        real = total(list(v))
        if v._items_size != real:  # pylint: disable=protected-access
            fails.append('after %s: _items_size=%d but the items take %d bytes' % (o, v._items_size, real))  # pylint: disable=protected-access
        if not d['min'] <= real <= d['max']:
            fails.append('after %s: body size %d outside %d..%d' % (o, real, d['min'], d['max']))
    if d['num'] and d['kind'] != 'VectorString':
        try:
            c = bytes(v.compose())
            if int.from_bytes(c[:d['num']], 'big') != len(c) - d['num']:
                fails.append('composed prefix %d but %d body bytes follow' % (int.from_bytes(c[:d['num']], 'big'), len(c) - d['num']))
            if len(c) - d['num'] != total(list(v)):
                fails.append('composed body has %d bytes, the size bookkeeping says %d' % (len(c) - d['num'], total(list(v))))
        except InvalidValue:
            fails.append('compose() of a vector within its bounds raised InvalidValue')
    return v, ','.join(outs) + '|' + ','.join(name(x) for x in v) + '|' + str(v._items_size), fails  # pylint: disable=protected-access


def vec_cmd(cls_name, init, ops):
    return vec_run(cls_name, init, ops)[1]


def impl_vec_line(line):
    """vec commands print their outcome without the OK prefix (the model prints the trace directly)."""
    ws = line.split(' ')
    r = outcome(lambda: vec_cmd(*ws[1:]))
    return r[3:] if r.startswith('OK ') else r


# ---- text fields ----
def show_comp(k, v):
    return '%s:%s' % (k.encode('ascii').hex(), '-' if v is None else 'v' + v.encode('ascii').hex())


def show_comps(d):
    return '[' + ','.join(show_comp(k, v) for k, v in d.items()) + ']'


def nvl_cmd(sep, h):
    from cryptoparser.common.field import NameValuePairListCommaSeparated, NameValuePairListSemicolonSeparated
    cls = {'3b': NameValuePairListSemicolonSeparated, '2c': NameValuePairListCommaSeparated}[sep]
    return show_comps(cls.parse_exact_size(bytes.fromhex('' if h == '-' else h)).value)


class RawComponent(object):
    def __init__(self, raw):
        self.raw = bytes(raw)


def component_proxy(real):
    """The real component class's name matching, with the value parser replaced by a recorder."""
    return type('Proxy' + real.__name__, (object,), {
        '_check_name': staticmethod(real._check_name),  # pylint: disable=protected-access
        'get_canonical_name': staticmethod(real.get_canonical_name),
        'parse_exact_size': staticmethod(RawComponent),
    })


def field_class(name):
    import cryptoparser.dnsrec.txt
    import cryptoparser.httpx.header
    for m in (cryptoparser.httpx.header, cryptoparser.dnsrec.txt):
        if hasattr(m, name):
            return getattr(m, name)
    raise KeyError(name)


def fvm_cmd(clsname, h):
    import collections
    import attr
    cls = field_class(clsname)
    fields = attr.fields_dict(cls)
    basic = collections.OrderedDict((n, a) for n, a in fields.items() if not a.metadata.get('extension', False))
    real = cls._get_attr_to_validator_type_dict(fields)  # pylint: disable=protected-access
    proxies = collections.OrderedDict(
        (n, component_proxy(c) if n in basic else c) for n, c in real.items())
    components = cls._get_header_value_list_class().parse_exact_size(  # pylint: disable=protected-access
        bytes.fromhex('' if h == '-' else h)).value
    params = {}
    cls._parse_basic_params(proxies, basic, components, params)  # pylint: disable=protected-access
    shown = []
    for n in basic:
        v = params[n]
        shown.append('r' + v.raw.hex() if isinstance(v, RawComponent) else '-')
    return '[' + ','.join(shown) + '] ' + show_comps(components)


def pssl2_cmd(h):
    from cryptoparser.tls.record import SslRecord
    obj, n = SslRecord.parse_immutable(bytes.fromhex('' if h == '-' else h))
    return '%d %s n=%d' % (int(obj.message.get_message_type()), hx(obj.message.compose()), n)


def cssl2_cmd(t, h):
    from cryptoparser.tls.record import SslRecord
    from cryptoparser.tls.subprotocol import SslErrorMessage, SslErrorType
    if int(t) != 0:
        raise TypeError('not constructible')
    code = int.from_bytes(bytes.fromhex(h), 'big')
    return hx(SslRecord(SslErrorMessage(SslErrorType(code))).compose())


def pssh_cmd(h):
    from cryptoparser.ssh.record import SshRecordInit
    obj, n = SshRecordInit.parse_immutable(bytes.fromhex('' if h == '-' else h))
    return '%s n=%d' % (hx(obj.packet.compose()), n)


def cssh_cmd(h):
    from cryptoparser.ssh.record import SshRecordInit
    from cryptoparser.ssh.subprotocol import SshUnimplementedMessage
    payload = bytes.fromhex(h)
    if len(payload) != 5 or payload[0] != 3:
        raise TypeError('not constructible')
    return hx(SshRecordInit(SshUnimplementedMessage(int.from_bytes(payload[1:], 'big'))).compose())


def sts_cmd(h):
    from cryptoparser.httpx.header import HttpHeaderFieldValueSTS
    o = HttpHeaderFieldValueSTS.parse_exact_size(bytes.fromhex('' if h == '-' else h))
    return '%d %d %d' % (o.max_age.value.days * 86400 + o.max_age.value.seconds, int(o.include_subdomains.value), int(o.preload.value))


def _cookie_params_hex(obj):
    from cryptoparser.httpx.header import HttpHeaderFieldValueSetCookieParams
    import attr
    params = HttpHeaderFieldValueSetCookieParams(**{n: getattr(obj, n) for n in attr.fields_dict(HttpHeaderFieldValueSetCookieParams)})
    return 'P' + hx(params.compose())


def cookiepair_cmd(h):
    """name, value and (as the composed attribute list) what the attribute-list parser made of the remainder"""
    from cryptoparser.httpx.header import HttpHeaderFieldValueSetCookie
    o = HttpHeaderFieldValueSetCookie.parse_exact_size(bytes.fromhex('' if h == '-' else h))
    return '%s %s %s' % (o.name.encode('ascii').hex() or '-', o.value.encode('ascii').hex() or '-', _cookie_params_hex(o))


def cookieenc_cmd(nh, vh):
    """a cookie constructed from name and value: composed, parsed back, compared"""
    from cryptoparser.httpx.header import HttpHeaderFieldValueSetCookie
    o = HttpHeaderFieldValueSetCookie(bytes.fromhex('' if nh == '-' else nh).decode('ascii'), bytes.fromhex('' if vh == '-' else vh).decode('ascii'))
    b = bytes(o.compose())
    if parse_back(HttpHeaderFieldValueSetCookie, b) != o:
        raise RoundTripError('parse(compose(o)) != o')
    return hx(b)


def cookieparams_cmd(h):
    from cryptoparser.httpx.header import HttpHeaderFieldValueSetCookieParams
    return 'P' + hx(HttpHeaderFieldValueSetCookieParams.parse_exact_size(bytes.fromhex('' if h == '-' else h)).compose())


def hline_cmd(strict, h):
    from cryptoparser.httpx.header import HttpHeaderFieldUnparsed, HttpHeaderFieldServer
    data = bytes.fromhex('' if h == '-' else h)
    if strict == '1':
        obj, n = HttpHeaderFieldServer._parse(data)  # pylint: disable=protected-access
        return '%s %s n=%d' % (data[:data.index(b':')].hex(), obj.value.value.encode('ascii').hex(), n)
    obj, n = HttpHeaderFieldUnparsed._parse(data)  # pylint: disable=protected-access
    return '%s %s n=%d' % (obj.name.encode('ascii').hex(), obj.value.encode('ascii').hex(), n)


# ---- SSH identification string ----
def swver_cmd(vendor, sep, h):
    """the version the vendor's software version class splits off ('-' when there is none)"""
    from cryptoparser.ssh import version as sv
    cls = {'OpenSSH': sv.SshSoftwareVersionOpenSSH, 'dropbear': sv.SshSoftwareVersionDropbear, 'IPSSH': sv.SshSoftwareVersionIPSSH}[bytes.fromhex(vendor).decode('ascii')]
    assert cls._get_version_separator() == bytes.fromhex(sep).decode('ascii')  # pylint: disable=protected-access
    o = cls.parse_exact_size(bytes.fromhex('' if h == '-' else h))
    return '-' if o.version is None else o.version.encode('ascii').hex()


def banner_enc(proto, sw, c):
    from cryptoparser.ssh.subprotocol import SshProtocolMessage
    from cryptoparser.ssh.version import SshProtocolVersion, SshSoftwareVersionUnparsed
    major, minor = bytes.fromhex(proto).decode('ascii').split('.')
    comment = None if c == '_' else bytes.fromhex('' if c == '-' else c).decode('ascii')
    msg = SshProtocolMessage(SshProtocolVersion(int(major), int(minor)), SshSoftwareVersionUnparsed(bytes.fromhex(sw).decode('ascii')), comment)
    return hx(msg.compose())


def banner_dec(h):
    from cryptoparser.ssh.subprotocol import SshProtocolMessage
    msg, n = SshProtocolMessage.parse_immutable(bytes.fromhex('' if h == '-' else h))
    return '%s n=%d' % (hx(msg.compose()), n)


def banner_line(h):
    """the identification string without its line end, as the parsed message writes it, and the consumed length"""
    from cryptoparser.ssh.subprotocol import SshProtocolMessage
    msg, n = SshProtocolMessage.parse_immutable(bytes.fromhex('' if h == '-' else h))
    c = bytes(msg.compose())
    assert c.endswith(b'\r\n')
    return '%s n=%d' % (hx(c[:-2]), n)


COMMANDS = {
    'swver': swver_cmd, 'bannerenc': banner_enc, 'bannerdec': banner_dec, 'bannerline': banner_line,
    'nvl': nvl_cmd, 'fvm': fvm_cmd, 'hline': hline_cmd, 'pssl2': pssl2_cmd, 'cssl2': cssl2_cmd, 'pssh': pssh_cmd, 'cssh': cssh_cmd, 'sts': sts_cmd,
    'tpktenc': tpkt_enc, 'cotpenc': cotp_enc, 'pcotp': p_cotp, 'rdpnegenc': rdp_neg_enc, 'rdpnegdec': rdp_neg_dec, 'mysqlpktenc': mysql_pkt_enc,
    'mysqlssl41': mysql_ssl41, 'mysqlhs': mysql_hs, 'mysqlssl320': mysql_ssl320, 'ovpnctl': ovpn_ctl, 'ovpntcp': ovpn_tcp, 'ovpnack': ovpn_ack, 'ovpnhrc': ovpn_hrc, 'ovpnhrs': ovpn_hrs, 'ovpndec': ovpn_dec, 'pgssl': pg_ssl,
    'sshpad': ssh_pad, 'mpintspec': mpint_spec, 'kexenc': kex_enc, 'kexdec': kex_dec, 'sshmsg': ssh_msg, 'sshmsgdec': ssh_msg_dec,
    'rsablob': blob_cmd(rsa_blob), 'dssblob': blob_cmd(dss_blob), 'edblob': blob_cmd(ed_blob), 'ecblob': blob_cmd(ec_blob),
    'keytag': keytag_cmd, 'dsenc': ds_enc, 'mxenc': mx_enc, 'mxdec': mx_dec, 'txtdec': txt_dec, 'cookiepair': cookiepair_cmd, 'cookieenc': cookieenc_cmd, 'cookieparams': cookieparams_cmd, 'nameenc': name_enc, 'txtenc': txt_enc, 'rrsigenc': rrsig_enc,
    'dnskeyrsaenc': dnskey_rsa_enc, 'dnskeyecenc': dnskey_ec_enc, 'dnskeyedenc': dnskey_ed_enc, 'dnskeydec': dnskey_dec,
    'chenc': ch_enc, 'ssl2chenc': ssl2_ch_enc, 'ssl2bigrec': ssl2_big_record, 'ssl2shenc': ssl2_sh_enc, 'chdec': ch_dec, 'ja3impl': ja3_cmd, 'shenc': sh_enc, 'hrrenc': hrr_enc, 'shdec': sh_dec, 'certenc': cert_enc, 'shdenc': shd_enc, 'certreqenc': certreq_enc, 'certreqdec': certreq_dec, 'certstenc': certst_enc, 'certstdec': certst_dec,
    'recenc': rec_enc, 'alertenc': alert_enc, 'ccsenc': ccs_enc, 'extenc': ext_enc,
    'pframe': p_frame, 'xframe': x_frame, 'mframe': m_frame, 'cframe': c_frame,
    'popq': p_opq, 'copq': c_opq,
    'penum': p_enum, 'cenum': c_enum, 'pinv': p_inv, 'pevec': p_evec, 'cevec': c_evec,
    'cts': c_ts, 'pts': p_ts, 'pflags': p_flags, 'cflags': c_flags,
    'cnum': c_num, 'pnum': p_num, 'cmpint': c_mpint, 'pmpint': p_mpint, 'csshmpint': c_sshmpint, 'psshmpint': p_sshmpint,
}


def impl_line(line):
    ws = line.split(' ')
    if ws[0] == 'vec':
        return impl_vec_line(line)
    if ws[0] == 'reader':
        return reader_cmd(ws[1], ws[2])
    fn = COMMANDS.get(ws[0])
    if fn is None:
        return 'BADCMD'
    return outcome(lambda: fn(*ws[1:]))
