# C06: SSL/TLS messages are laid out exactly as the RFCs specify (implementation against the Coq specification).
import json

from harness import common, framegen, tlsgen, gen_tables

LEVEL = 'proof'


# AlertDescription of RFC 5246 7.2 (TLS 1.2) in full, whatever the library declares
RFC5246_ALERTS = [0, 10, 20, 21, 22, 30, 40, 41, 42, 43, 44, 45, 46, 47, 48, 49, 50, 51, 60, 70, 71, 80, 90, 100, 110]


def gen_lines(rng, impl, tier):
    n = 150 if tier == 'quick' else 4000
    lines = []
    for _ in range(n):
        l, cmds = tlsgen.client_hello(rng, impl, scsv_at_end=True)
        lines += cmds
        lines.append(l)
        ws = l.split(' ')
        # server hello with the same material
        exts = ';'.join(e for e in ([] if ws[6] == '-' else ws[6].split(';')) if e.split(':')[0] in ('65281', '23', '22', '11', '16', '0')) or '-'
        if exts != '-' and '0:' in exts:
            exts = ';'.join(e for e in exts.split(';') if not e.startswith('0:')) or '-'
        # and the extensions the repository tests parse on their own, inside a server hello and in front of others
        sx = [] if exts == '-' else exts.split(';')
        for _ in range(rng.choice([0, 1, 2])):
            t, pl = rng.choice(tlsgen.harvested_server_extensions())
            if all(not e.startswith('%d:' % t) for e in sx):
                sx.insert(rng.randrange(len(sx) + 1), '%d:%s' % (t, pl))
        exts = ';'.join(sx) or '-'
        known = tlsgen.codes_of('TlsCipherSuiteFactory')
        suite = ([int(c) for c in ws[4].split(',') if int(c) in known and int(c) not in (0x5600, 0x00ff)] or [0xc02f])[0]
        comp = ([int(c) for c in ws[5].split(',') if int(c) in tlsgen.codes_of('TlsCompressionMethodFactory')] or [0])[0]
        lines.append('shenc %s %s %s %d %d %s' % (ws[1], ws[2], ws[3], suite, comp, exts))
        # the library's hello retry request (ServerHello layout, handshake type 6), every compression method code of the table
        hrr_random = 'cf21ad74e59a6111be1d8c021e65b891c2a211167abb8c5e079e09e2c8a8339c' if rng.random() < 0.5 else ws[2]
        lines.append('hrrenc %s %s %s %d %d %s' % (ws[1], hrr_random, ws[3], suite, rng.choice(tlsgen.codes_of('TlsCompressionMethodFactory')), exts))
        for kind in ('C', 'D'):
            lines.append('extenc %s %s' % (kind, ','.join(map(str, tlsgen.rnd_codes(rng, tlsgen.codes_of('TlsSignatureAndHashAlgorithmFactory'), 2, rng.choice([1, 3, 8]), grease=False, unknown=False)))))
        lines.append('certenc %s' % (','.join(framegen.rnd_bytes(rng, rng.choice([1, 5, 300])).hex() for _ in range(rng.choice([0, 1, 2, 3]))) or '-'))    # RFC 5246 7.4.2: certificate_list<0..2^24-1>, a client without a certificate sends an empty list
        cts = [v for _, v in dict(gen_tables.local_int_enums())['TlsContentType']]
        lines.append('recenc %d %d %s' % (rng.choice(cts), rng.choice(tlsgen.codes_of('TlsVersionFactory')), framegen.rnd_payload(rng).hex() or '-'))
        lines.append('alertenc %d %d' % (rng.choice([1, 2]), rng.choice(sorted(set([v for _, v in dict(gen_tables.local_int_enums())['TlsAlertDescription']] + RFC5246_ALERTS)))))
    # SSL 2.0 hello messages: cipher kinds of the library's table, session / connection ids and challenges of 0..32 bytes
    kinds = tlsgen.codes_of('SslCipherKindFactory')
    for _ in range(max(20, n // 3)):
        ck = ','.join(str(rng.choice(kinds)) for _ in range(rng.randint(0, 5))) or '-'
        lines.append('ssl2chenc %s %s %s' % (ck, framegen.rnd_bytes(rng, rng.choice([0, 0, 8, 16, 32])).hex() or '-', framegen.rnd_bytes(rng, rng.choice([16, 24, 32])).hex()))
        lines.append('ssl2shenc %d 1 %s %s %s' % (rng.randint(0, 1), framegen.rnd_bytes(rng, rng.choice([0, 1, 300])).hex() or '-', ck,
                                                 framegen.rnd_bytes(rng, rng.choice([0, 16, 32])).hex() or '-'))
    # CertificateRequest (RFC 5246 7.4.4 with, RFC 2246 / 4346 without supported_signature_algorithms) and CertificateStatus
    # (RFC 6066 8): known and unknown certificate types, signature schemes incl. unknown ones, 0..3 distinguished names
    ctypes = [v for _, v in dict(gen_tables.local_int_enums())['TlsClientCertificateType']]
    sigs = tlsgen.codes_of('TlsSignatureAndHashAlgorithmFactory')
    for _ in range(max(20, n // 3)):
        ts = ','.join(str(rng.choice(ctypes)) for _ in range(rng.choice([1, 1, 2, 5])))
        sa = '_' if rng.random() < 0.35 else ','.join(str(rng.choice(sigs + [0x0909, 0xfefe])) for _ in range(rng.choice([1, 2, 9])))
        cas = ','.join(framegen.rnd_bytes(rng, rng.choice([1, 2, 30, 300])).hex() for _ in range(rng.choice([0, 0, 1, 3]))) or '-'
        lines.append('certreqenc %s %s %s' % (ts, sa, cas))
        lines.append('certstenc 1 %s' % framegen.rnd_bytes(rng, rng.choice([1, 2, 5, 300, 70000 if rng.random() < 0.1 else 9])).hex())
    lines += ['shdenc', 'ccsenc', 'recenc 22 771 ' + '00' * 65535, 'recenc 22 771 ' + '00' * 65536]
    # vectors at their floor / ceiling
    for kind, w, lo, hi in (('G', 2, 1, 32766), ('P', 1, 1, 255), ('S', 2, 1, 32766), ('V', 2, 1, 127), ('K', 1, 1, 255)):
        for k in (lo, lo + 1, hi, hi + (1 if kind in 'PVK' else 0)):
            lines.append('extenc %s %s' % (kind, ','.join(str((i * 7 + 1) % 256 ** w) for i in range(k))))
    return lines


def run(chk):
    from harness import impl
    rng = chk.rng

    lines = gen_lines(rng, impl, chk.tier)

    def compare(model_out, impl_out):
        res = []
        for l, m, i in zip(lines, model_out, impl_out):
            # the spec answers NONE where the RFC has no encoding; the implementation must then refuse as well
            mm = 'REFUSED' if m == 'NONE' else m
            ii = 'REFUSED' if (i.startswith('ERR') or i.startswith('LEAK TypeError')) else i   # RoundTripError (parse-back differs) is not a refusal
            if mm != ii:
                res.append((l, m, i))
        return res

    def search(_br):
        impl_out = [impl.impl_line(l) for l in lines]
        if common.build_runner().ok:
            d = compare(common.run_model(lines), impl_out)
            if d:
                l, m, i = d[0]
                return [('implementation differs from the RFC encoding on "%s": %s, RFC %s' % (l[:150], i[:100], m[:100]), {'cmd': l, 'impl': i, 'spec': m}, None, True)]
        return []

    proved = common.proof_stage(chk, 'Props.C06', [], search)
    br = common.build_runner()
    impl_out = [impl.impl_line(l) for l in lines]
    dec_lines = []
    if br.ok:
        model_out = common.run_model(lines)
        diffs = compare(model_out, impl_out)
        chk.coverage['disagreements'] = len(diffs)
        for l, m, i in diffs[:5]:
            chk.violation('implementation composes %s where the RFC encoding is %s: "%s"' % (i[:100], m[:100], l[:160]),
                          {'cmd': l, 'impl': i, 'spec': m}, None, True)
        # decode direction: specification encodings (signalling suites anywhere in the list) through the implementation's parser
        for _ in range(len(lines) // 12):
            l, cmds = tlsgen.client_hello(rng, impl, scsv_at_end=False)
            o = common.run_model([l])[0]
            if o.startswith('OK '):
                dec_lines.append('chdec ' + o[3:])
                dec_lines.append('chdec ' + o[3:] + framegen.rnd_bytes(rng, 2).hex())
        for l, m in zip(lines, model_out):
            if l.startswith('certreqenc') and m.startswith('OK '):
                w = '0' if l.split(' ')[2] == '_' else '1'
                dec_lines += ['certreqdec %s %s' % (w, m[3:]), 'certreqdec %s %s' % (w, m[3:] + framegen.rnd_bytes(rng, 3).hex())]
            elif l.startswith('certstenc') and m.startswith('OK '):
                dec_lines += ['certstdec ' + m[3:], 'certstdec ' + m[3:] + '0b000000']
            elif l.startswith(('shenc ', 'hrrenc ')) and m.startswith('OK '):
                ty = '2' if l.startswith('shenc') else '6'
                dec_lines += ['shdec %s %s' % (ty, m[3:]), 'shdec %s %s' % (ty, m[3:] + '0e000000')]
        # SSL 2.0 records over the whole 15-bit length of the two-byte header: server hellos with certificates of up to ~32 KiB
        # encoded by the specification, wrapped in a record by the specification, parsed by the implementation
        sh = ['ssl2shenc 0 1 %s 65664 %s' % (bytes(i % 253 for i in range(L)).hex(), framegen.rnd_bytes(rng, 16).hex())
              for L in (100, 16000, 16352, 16353, 17000, 30000, 32730)]
        msgs = [m[3:] for m in common.run_model(sh) if m.startswith('OK ')]
        recs = common.run_model(['ssl2recenc 4 ' + m for m in msgs])
        for m, r in zip(msgs, recs):
            if not r.startswith('OK '):
                continue
            i = impl.impl_line('pssl2 ' + r[3:])
            want = 'OK 4 %s n=%d' % (m, len(r[3:]) // 2)
            dec_lines.append('ssl2recenc 4 <%d bytes>' % (len(m) // 2))
            if i != want:
                chk.violation('a conformant SSL 2.0 record of %d bytes (two-byte header %s) is parsed as %s' % (len(r[3:]) // 2, r[3:7], i[:80]),
                              {'cmd': 'pssl2 ' + r[3:], 'impl': i[:200], 'spec': want[:200], 'kind': 'ssl2-record'}, None, True)
        dec_lines2 = [l for l in dec_lines if not l.startswith('ssl2recenc')]
        m2 = common.run_model(dec_lines2)
        i2 = [impl.impl_line(l) for l in dec_lines2]
        for l, m, i in [(l, m, i) for l, m, i in zip(dec_lines2, m2, i2) if m != i][:5]:
            chk.violation('parsing an RFC-conformant client hello / certificate request / certificate status does not recover the encoded fields: implementation %s, specification %s' % (i[:160], m[:160]),
                          {'cmd': l, 'impl': i, 'spec': m}, None, True)
    else:
        chk.violation('model runner does not build: %s' % br.failed_file, {'error': br.error}, None, False)
    chk.coverage['evaluations'] = len(lines) + len(dec_lines)
    chk.coverage['distinct_nontrivial'] = len(set(l for l, o in zip(lines, impl_out) if o.startswith('OK')))
    chk.coverage['traces_validated_against_impl'] = len(lines) + len(dec_lines)
    chk.coverage['rule'] = ('SSL 2.0 client and server hellos (composed from field values, compared with the specification, parsed back and compared with the values); client hellos (all versions; known / unknown / GREASE / signalling suites; 1-6 extensions of nine typed kinds plus '
                            'unknown, GREASE and empty-payload extensions; session ids of 0/16/32 bytes), server hellos, certificate chains, '
                            'certificate requests (with and without signature algorithms), certificate status, records, alerts, CCS, ServerHelloDone and the payloads of supported_groups, ec_point_formats, supported_versions, '
                            'signature_algorithms, ALPN, SNI, psk modes, record size limit, renegotiation info (also at the floor and ceiling of '
                            'their vectors): the implementation composes from the field values, the Coq specification (written from the RFCs) '
                            'encodes the same values, and the bytes must be identical; specification-encoded hellos are parsed by the '
                            'implementation and the recovered fields compared; non-trivial = distinct structures both sides encode')
    for i in range(0, len(lines), max(1, len(lines) // 10)):
        chk.sample({'cmd': lines[i][:160], 'outcome': impl_out[i][:120]})
    chk.assumptions += ['the specification is a transcription of the RFCs from memory, validated against the implementation and proved coherent (decode after encode)',
                        'SSL 2.0 CLIENT-MASTER-KEY and later messages, key_share, status_request, SCT, token binding, ServerKeyExchange parameters and HelloRetryRequest are not yet in the specification']


def replay(path):
    from harness import impl
    with open(path) as f:
        r = json.load(f)
    if 'cmd' not in r:
        print(json.dumps(r, indent=1)[:3000])
        return 1
    o = impl.impl_line(r['cmd'])
    if r.get('kind') == 'ssl2-record':
        print('%s...\n implementation: %s\n specification:  %s' % (r['cmd'][:60], o[:120], r['spec'][:120]))
        ok = o[:200] == r['spec']
        print('replay: property %s' % ('holds on this input' if ok else 'FAILS on this input'))
        return 0 if ok else 1
    spec = common.run_model([r['cmd']])[0] if common.build_runner().ok else r.get('spec')
    print('%s\n implementation: %s\n specification:  %s' % (r['cmd'][:200], o[:200], spec[:200]))
    ok = (o == spec) or (spec == 'NONE' and not o.startswith('OK'))
    print('replay: property %s' % ('holds on this input' if ok else 'FAILS on this input'))
    return 0 if ok else 1
