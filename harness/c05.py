# C05: re-serialising an accepted input is a stable canonical form.
import json

from harness import common, framegen, rt, sweep, gen_tables
from harness.c01 import family

LEVEL = 'proof'


def run(chk):
    from harness import impl
    rng = chk.rng
    per_vector = 8 if chk.tier == 'quick' else 150

    def class_sweep():
        vectors = sweep.library_vectors()
        evals = 0
        accepted = 0
        for cls in sorted(vectors, key=sweep.qualname):
            name = sweep.qualname(cls)
            for v in vectors[cls]:
                for k, b in enumerate([v] + [sweep.mutate(rng, v) for _ in range(per_vector)]):
                    evals += 1
                    for pred, detail in rt.roundtrip_failures(cls, b):
                        yield name, b, pred, detail, ('orig' if k == 0 else 'mut')
            for b in rt.extra_vectors(name, rng):
                evals += 1
                for pred, detail in rt.roundtrip_failures(cls, b):
                    yield name, b, pred, detail, 'orig'
        chk.coverage['class_sweep'] = {'classes': len(vectors), 'buffers': evals}

    def search(_br):
        for name, b, pred, detail, kind in class_sweep():
            key = rt.finding_key(family(name), name, pred, kind, b)
            if chk.known(key) is None:
                return [('%s: %s' % (name, detail), {'class': name, 'input': b.hex(), 'predicate': pred}, key, True)]
        return []

    proved = common.proof_stage(chk, 'Props.C05', [], search)
    br = common.build_runner()
    # accepted, mostly non-canonical inputs of the modelled classes: parse, compose what was parsed, parse again
    F = gen_tables.enum_factories()
    V = gen_tables.enum_vectors()
    lines = []
    n = 200 if chk.tier == 'quick' else 5000
    for _ in range(n):
        v = rng.choice(sorted(V))
        d = V[v]
        codes = [int(m.value.code) for m in F[d['factory']][2]]
        k = rng.choice([1, 2, 3, 8])
        body = b''.join((rng.choice(codes) if rng.random() < 0.5 else rng.randrange(256 ** d['w'])).to_bytes(d['w'], 'big') for _ in range(k))
        lines.append('pevec %s %s' % (v, len(body).to_bytes(d['num'], 'big').hex() + body.hex() + framegen.rnd_bytes(rng, rng.choice([0, 0, 2])).hex()))
        u = rng.choice(framegen.UNITS)
        hd, pl = framegen.valid_frame(rng, u)
        o = impl.impl_line('cframe %s %s %s' % (u, hd, pl.hex()))
        if o.startswith('OK '):
            b = bytearray.fromhex(o[3:])
            if u == 'tpkt' and len(b) > 1:
                b[1] = rng.getrandbits(8)       # the reserved byte is not canonical
            lines.append('pframe %s %s' % (u, bytes(b).hex() + framegen.rnd_bytes(rng, rng.choice([0, 1, 3])).hex()))
    # accepted non-canonical forms of the units of C05_ssl2_record / C05_ssh_packet / C05_ssh_mpint: SSL 2.0 records with the
    # 3-byte header and padding, SSH packets with more padding than the rule gives and arbitrary padding bytes, SSH mpints
    # with unnecessary leading 00 / ff bytes
    for _ in range(max(20, n // 5)):
        body = b'\x00' + rng.choice([1, 2, 4, 6]).to_bytes(2, 'big')
        pad = rng.choice([0, 1, 3, 7, 200])
        rec = (bytes([((len(body) + pad) >> 8) & 0x3f, (len(body) + pad) & 0xff, pad]) + body + framegen.rnd_bytes(rng, pad)
               if rng.random() < 0.7 else bytes([0x80, len(body)]) + body)
        lines.append('pssl2 %s' % (rec + framegen.rnd_bytes(rng, rng.choice([0, 0, 3]))).hex())
        payload = b'\x03' + framegen.rnd_bytes(rng, 4)
        pad = rng.choice([4, 6, 7, 14, 22, 255, 0, 1])
        lines.append('pssh %s' % ((len(payload) + pad + 1).to_bytes(4, 'big') + bytes([pad]) + payload + framegen.rnd_bytes(rng, pad)
                                  + framegen.rnd_bytes(rng, rng.choice([0, 0, 2]))).hex())
        z = rng.choice([0, 1, 127, 128, 255, 256, -1, -128, -129, -256, rng.getrandbits(64), -rng.getrandbits(64)])
        raw = z.to_bytes(z.bit_length() // 8 + 1, 'big', signed=True) if z else b''
        raw = bytes([0xff if z < 0 else 0]) * rng.choice([0, 1, 2, 5]) + raw
        lines.append('psshmpint %s' % (len(raw).to_bytes(4, 'big') + raw + framegen.rnd_bytes(rng, rng.choice([0, 0, 2]))).hex())
    second = []
    impl_first = [impl.impl_line(l) for l in lines]
    for l, o in zip(lines, impl_first):
        if not o.startswith('OK '):
            continue
        ws = l.split(' ')
        if ws[0] == 'pevec':
            items = o[3:].rsplit(' n=', 1)[0].strip('[]') or '-'
            second.append(('cevec %s %s' % (ws[1], items), 'pevec %s' % ws[1], items))
        elif ws[0] == 'pssl2':
            t, m = o[3:].rsplit(' n=', 1)[0].split(' ')
            second.append(('cssl2 %s %s' % (t, m), 'pssl2', '%s %s' % (t, m)))
        elif ws[0] == 'pssh':
            m = o[3:].rsplit(' n=', 1)[0]
            second.append(('cssh %s' % m, 'pssh', m))
        elif ws[0] == 'psshmpint':
            z = o[3:].rsplit(' n=', 1)[0]
            second.append(('csshmpint %s' % z, 'psshmpint', z))
        else:
            hd, rest = o[3:].split(';', 1)
            pl = rest.split(' n=')[0]
            second.append(('cframe %s %s %s' % (ws[1], hd or '-', pl), 'pframe %s' % ws[1], '%s;%s' % (hd, pl)))
    lines2 = []
    nv = 0
    for ccmd, pcmd, desc in second:
        o = impl.impl_line(ccmd)
        lines2.append(ccmd)
        if not o.startswith('OK '):
            if nv < 3:
                nv += 1
                chk.violation('the object parsed from an accepted input cannot be composed: %s -> %s' % (ccmd[:140], o), {'cmd': ccmd, 'impl': o}, None, True)
            continue
        pl = '%s %s' % (pcmd, o[3:])
        lines2.append(pl)
        o2 = impl.impl_line(pl)
        want = 'OK %s n=%d' % (('[%s]' % ('' if desc == '-' else desc)) if pcmd.startswith('pevec') else desc, len(o[3:]) // 2)
        if o2 != want and nv < 3:
            nv += 1
            chk.violation('re-serialised input parses to a different object: %s -> %s, expected %s' % (pl[:140], o2[:100], want[:100]),
                          {'cmd': pl, 'impl': o2, 'expected': want}, None, True)
    all_lines = lines + lines2
    impl_out = impl_first + [impl.impl_line(l) for l in lines2]
    if br.ok:
        model_out = common.run_model(all_lines)
        diffs = [(l, m, i) for l, m, i in zip(all_lines, model_out, impl_out) if m != i]
        chk.coverage['disagreements'] = len(diffs)
        for l, m, i in diffs[:3]:
            chk.violation('correspondence broke on "%s": model %s, implementation %s' % (l[:160], m[:100], i[:100]),
                          {'cmd': l, 'model': m, 'impl': i, 'correspondence': 'Run.run_line parse/compose/parse'}, None, False)
    else:
        chk.violation('model runner does not build: %s' % br.failed_file, {'error': br.error}, None, False)
    seen = set()
    for name, b, pred, detail, kind in class_sweep():
        key = rt.finding_key(family(name), name, pred, kind, b)
        if key in seen:
            continue
        seen.add(key)
        chk.violation('%s: %s' % (name, detail), {'class': name, 'input': b.hex(), 'predicate': pred}, key, True)
    chk.coverage['evaluations'] = len(all_lines) + chk.coverage.get('class_sweep', {}).get('buffers', 0)
    chk.coverage['distinct_nontrivial'] = len(set(lines2))
    chk.coverage['traces_validated_against_impl'] = len(all_lines)
    chk.coverage['rule'] = ('accepted and mostly non-canonical inputs of the modelled classes (enum vectors with unknown / GREASE codes and trailing '
                            'bytes, frames with non-canonical header bytes and suffixes, SSL 2.0 records with 3-byte header and padding, SSH packets with '
                            'any padding, SSH mpints with unnecessary leading bytes): parse, compose the parsed object, parse again, on model '
                            'and implementation; plus an implementation-only sweep over all classes reached by the repository tests (each vector '
                            'and several mutations of it that are still accepted): compose succeeds, composed bytes accepted entirely, equal '
                            'object, second compose identical; non-trivial = distinct second-round commands')
    for i in range(0, len(all_lines), max(1, len(all_lines) // 10)):
        chk.sample({'cmd': all_lines[i][:140], 'outcome': impl_out[i][:100]})
    chk.assumptions += ["known findings of text classes are matched per (class family, predicate, original vector | mutated vector)"]


def replay(path):
    from harness import c01
    return c01.replay(path)
