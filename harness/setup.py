# setup: regenerate tables, build the whole Coq development (full .vo build) and the extracted runner.
import sys

from harness import common, gen_tables


def main():
    common.use_repo()
    gen_tables.main()
    br = common.coq_make(['all'], timeout=3000)
    sys.stdout.write(br.log[-3000:])
    if not br.ok:
        print('SETUP: Coq build failed (this is reported per property by the checks)')
    else:
        br = common.build_runner()
        if not br.ok:
            print('SETUP: runner build failed: ' + str(br.error))
    return 0


if __name__ == '__main__':
    sys.exit(main())
