# round-trip / canonical-form predicates on the implementation (shared by C01 and C05)
from harness import sweep


def same(a, b, depth=0):
    """Field-by-field equality that also works for the few classes without __eq__ (compares __dict__ recursively)."""
    try:
        if a == b:
            return True
    except Exception:  # pylint: disable=broad-except
        pass
    if type(a) is not type(b) or depth > 8:
        return False
    if isinstance(a, (list, tuple)):
        return len(a) == len(b) and all(same(x, y, depth + 1) for x, y in zip(a, b))
    if isinstance(a, dict):
        return a.keys() == b.keys() and all(same(a[k], b[k], depth + 1) for k in a)
    da, db = getattr(a, '__dict__', None), getattr(b, '__dict__', None)
    if da is None or db is None or da.keys() != db.keys():
        return False
    return all(same(da[k], db[k], depth + 1) for k in da)


def roundtrip_failures(cls, buf):
    """For an input the class accepts: compose succeeds, the composed bytes are accepted again entirely and give an
    equal object, and composing that object gives the very same bytes. Yields (predicate, detail)."""
    from cryptodatahub.common.exception import InvalidValue
    from cryptoparser.common.exception import InvalidType, NotEnoughData, TooMuchData
    try:
        o1, n = cls.parse_immutable(buf)
    except Exception:  # pylint: disable=broad-except
        return
    if not hasattr(o1, 'compose'):
        return   # enum members of cryptodatahub: composed by their container (covered by C10)
    try:
        b2 = o1.compose()
        if isinstance(b2, str):
            b2 = b2.encode('ascii')
        b2 = bytes(b2)
    except NotImplementedError:
        return
    except Exception as e:  # pylint: disable=broad-except
        yield 'compose-of-parsed-fails', 'the object parsed from the input cannot be composed (%s: %s)' % (type(e).__name__, str(e)[:60])
        return
    try:
        o2, n2 = cls.parse_immutable(b2)
    except Exception as e:  # pylint: disable=broad-except
        yield 'composed-not-accepted', 'the composed bytes %s are rejected by the parser (%s)' % (b2.hex()[:60], type(e).__name__)
        return
    if n2 != len(b2):
        yield 'composed-not-consumed', 'parsing the composed bytes consumes %d of %d bytes' % (n2, len(b2))
    if not same(o1, o2):
        yield 'roundtrip-unequal', 'parse(compose(o)) differs from o'
    try:
        b3 = o2.compose()
        if isinstance(b3, str):
            b3 = b3.encode('ascii')
        if bytes(b3) != b2:
            yield 'compose-not-stable', 'composing the re-parsed object gives different bytes'
    except Exception as e:  # pylint: disable=broad-except
        yield 'compose-not-stable', 'composing the re-parsed object fails (%s)' % type(e).__name__


def class_sweep(chk, rng, per_vector):
    vectors = sweep.library_vectors()
    evals = 0
    accepted = 0
    for cls in sorted(vectors, key=sweep.qualname):
        name = sweep.qualname(cls)
        for v in vectors[cls]:
            bufs = [v] + [sweep.mutate(rng, v) for _ in range(per_vector)]
            for b in bufs:
                evals += 1
                for pred, detail in roundtrip_failures(cls, b):
                    yield cls, name, b, pred, detail
    chk.coverage['class_sweep'] = {'classes': len(vectors), 'buffers': evals}
