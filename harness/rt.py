# round-trip / canonical-form predicates on the implementation (shared by C01 and C05)
import re
from harness import sweep


def same(a, b, depth=0):
    """Field-by-field equality that also works for the few classes without __eq__ (compares __dict__ recursively)."""
    try:
        if a == b:
            return True
    except Exception:  # pylint: disable=broad-except
        pass
    if type(a) is not type(b) or depth > 8:
        return False
    if isinstance(a, (list, tuple)):
        return len(a) == len(b) and all(same(x, y, depth + 1) for x, y in zip(a, b))
    if isinstance(a, dict):
        return a.keys() == b.keys() and all(same(a[k], b[k], depth + 1) for k in a)
    da, db = getattr(a, '__dict__', None), getattr(b, '__dict__', None)
    if da is None or db is None or da.keys() != db.keys():
        return False
    return all(same(da[k], db[k], depth + 1) for k in da)


def roundtrip_failures(cls, buf):
    """For an input the class accepts: compose succeeds, the composed bytes are accepted again entirely and give an
    equal object, and composing that object gives the very same bytes. Yields (predicate, detail)."""
    from cryptodatahub.common.exception import InvalidValue
    from cryptoparser.common.exception import InvalidType, NotEnoughData, TooMuchData
    try:
        o1, n = cls.parse_immutable(buf)
    except Exception:  # pylint: disable=broad-except
        return
    if not hasattr(o1, 'compose'):
        return   # enum members of cryptodatahub: composed by their container (covered by C10)
    try:
        b2 = o1.compose()
        if isinstance(b2, str):
            b2 = b2.encode('ascii')
        b2 = bytes(b2)
    except NotImplementedError:
        return
    except Exception as e:  # pylint: disable=broad-except
        yield 'compose-of-parsed-fails', 'the object parsed from the input cannot be composed (%s: %s)' % (type(e).__name__, str(e)[:60])
        return
    try:
        o2, n2 = cls.parse_immutable(b2)
    except Exception as e:  # pylint: disable=broad-except
        yield 'composed-not-accepted', 'the composed bytes %s are rejected by the parser (%s)' % (b2.hex()[:60], type(e).__name__)
        return
    if n2 != len(b2):
        yield 'composed-not-consumed', 'parsing the composed bytes consumes %d of %d bytes' % (n2, len(b2))
    if not same(o1, o2):
        yield 'roundtrip-unequal', 'parse(compose(o)) differs from o'
    try:
        b3 = o2.compose()
        if isinstance(b3, str):
            b3 = b3.encode('ascii')
        if bytes(b3) != b2:
            yield 'compose-not-stable', 'composing the re-parsed object gives different bytes'
    except Exception as e:  # pylint: disable=broad-except
        yield 'compose-not-stable', 'composing the re-parsed object fails (%s)' % type(e).__name__


IMF_DATE = re.compile(rb'(Mon|Tue|Wed|Thu|Fri|Sat|Sun), \d{2} (Jan|Feb|Mar|Apr|May|Jun|Jul|Aug|Sep|Oct|Nov|Dec) [12]\d{3} \d{2}:\d{2}:\d{2} GMT')
DATE_CLASSES = ('FieldValueDateTime', 'HttpHeaderFieldValueDate', 'HttpHeaderFieldValueExpires', 'HttpHeaderFieldValueLastModified')
COOKIE_CLASSES = ('HttpHeaderFieldValueSetCookie', 'HttpHeaderFieldValueSetCookieParams', 'HttpHeaderFieldValueComponentExpires')


def shape(name, buf):
    """A discriminator of the input's form for the families whose known findings concern one form only, so that the
    listed finding (e.g. dates that are not in the preferred IMF-fixdate form) does not hide a defect on the other form."""
    short = name.rsplit('.', 1)[1]
    if short in DATE_CLASSES:
        return 'imf-date' if IMF_DATE.fullmatch(bytes(buf)) else 'other-date'
    if short in COOKIE_CLASSES:
        m = re.search(rb'(?i)expires=([^;]*)', bytes(buf))
        if m is None:
            return 'no-date'
        return 'imf-date' if IMF_DATE.fullmatch(m.group(1).strip()) else 'other-date'
    if short == 'HttpHeaderFields':
        # a header block: the finding about dates applies when the block holds date lines that are not in the preferred form
        # and the block without those lines round-trips (so that another defect in such a block is still reported)
        lines = bytes(buf).split(b'\r\n')
        odd = [l for l in lines if DATE_LINE.match(l) and not IMF_DATE.fullmatch(DATE_LINE.match(l).group(2))]
        if odd:
            import importlib
            cls = getattr(importlib.import_module(name.rsplit('.', 1)[0]), short)
            rest = b'\r\n'.join(l for l in lines if l not in odd)
            if not list(roundtrip_failures(cls, rest)):
                return 'other-date'
    return ''


DATE_LINE = re.compile(rb'(?i)(date|expires|last-modified):[ \t]*(.*?)[ \t]*$', re.S)


def finding_key(fam, name, pred, kind, buf):
    sh = shape(name, buf)
    return '%s/%s/%s%s' % (fam, pred, kind, '/' + sh if sh else '')


def imf_dates(rng, n):
    """Well-formed IMF-fixdate values around the places where calendars disagree: the days around New Year (ISO week
    years), leap days, month ends, midnight and the last second, the epoch, 2038."""
    import datetime
    out = []
    years = [1970, 1971, 1999, 2000, 2019, 2020, 2021, 2024, 2025, 2026, 2032, 2038, 2100, 2999]
    for _ in range(n):
        y = rng.choice(years + [rng.randint(1000, 2999)])
        k = rng.random()
        if k < 0.4:
            d = datetime.datetime(y, 12, 28) + datetime.timedelta(days=rng.randint(0, 7))
        elif k < 0.55:
            d = datetime.datetime(y, 2, 27) + datetime.timedelta(days=rng.randint(0, 3))
        else:
            d = datetime.datetime(y, 1, 1) + datetime.timedelta(days=rng.randint(0, 364))
        d = d.replace(hour=rng.choice([0, 12, 23, rng.randrange(24)]), minute=rng.choice([0, 59, rng.randrange(60)]), second=rng.choice([0, 59, rng.randrange(60)]))
        out.append(('%s, %02d %s %04d %02d:%02d:%02d GMT' % (('Mon', 'Tue', 'Wed', 'Thu', 'Fri', 'Sat', 'Sun')[d.weekday()], d.day,
                    ('Jan', 'Feb', 'Mar', 'Apr', 'May', 'Jun', 'Jul', 'Aug', 'Sep', 'Oct', 'Nov', 'Dec')[d.month - 1], d.year, d.hour, d.minute, d.second)).encode('ascii'))
    return out


def extra_vectors(name, rng, n=6):
    """Generated, well-formed inputs for value classes whose repository vectors are a single date."""
    short = name.rsplit('.', 1)[1]
    if short in DATE_CLASSES:
        return imf_dates(rng, n)
    if short == 'HttpHeaderFieldValueComponentExpires':
        return [b'expires=' + d for d in imf_dates(rng, n)]
    if short == 'HttpHeaderFieldValueSetCookieParams':
        return [b'expires=' + d + b'; max-age=1; Path=/' for d in imf_dates(rng, n)]
    if short == 'HttpHeaderFieldValueSetCookie':
        return [b'sid=31d4; expires=' + d + b'; Secure' for d in imf_dates(rng, n)]
    if short == 'DnsRecordTxtValueSpf':
        return [b'v=spf1 ' + b' '.join(spf_terms(rng)) for _ in range(n)]
    if short in ('DnsRecordTxtValueSpfDirectiveA', 'DnsRecordTxtValueSpfDirectiveMx'):
        mech = b'a' if short.endswith('A') else b'mx'
        return [rng.choice([b'', b'+', b'-', b'~', b'?']) + mech + rng.choice([b'', b':example.com']) + spf_cidr(rng) for _ in range(n)]
    if short in ('SshHostKeyECDSA', 'SshHostPublicKeyVariant'):
        # nistp521: the one curve of the library's tests whose field size is not a whole number of bytes; coordinates with
        # and without the top bits set (RFC 5656 3.1: 66 octets each)
        def s4(b):
            return len(b).to_bytes(4, 'big') + b
        out = []
        for x, y in ((2 ** 520 + 12345, 2 ** 521 - 99), (2 ** 519 + 7, 2 ** 518 + 5), (rng.getrandbits(521) | (1 << 520), rng.getrandbits(512) | 3)):
            out.append(s4(b'ecdsa-sha2-nistp521') + s4(b'nistp521') + s4(b'\x04' + x.to_bytes(66, 'big') + y.to_bytes(66, 'big')))
        return out
    if short == 'SshKeyExchangeInit':
        # a boolean octet other than 0 / 1 is TRUE (RFC 4251 section 5): accepted, and canonicalised by compose in one step
        from harness import sweep as _sweep
        vs = [v for c, l in _sweep.library_vectors().items() if _sweep.qualname(c) == name for v in l][:2]
        return [v[:-5] + bytes([b]) + v[-4:] for v in vs for b in (2, 0x80, 0xff) if len(v) > 5]
    if short == 'HttpHeaderFieldValueNetworkErrorLogging':
        # sampling fractions (NEL section 5.2: a number between 0.0 and 1.0): small ones are the realistic ones
        out = []
        for sf, ff in ((0.00001, 1.0), (0.0005, 0.25), (1e-7, 0.999999), (rng.random() / 10 ** rng.randint(3, 9), rng.random())):
            out.append(('{"report_to": "default", "max_age": 2592000, "success_fraction": %s, "failure_fraction": %s}' % (format(sf, '.12f').rstrip('0'), repr(ff))).encode('ascii'))
        return out
    if short == 'MySQLHandshakeV10':
        # every bit of the two capability halves and of the status word, one at a time, on top of the repository's greetings (a
        # real server sets most of them; bit 15 of the lower half is CLIENT_SECURE_CONNECTION)
        from harness import sweep as _sweep
        out = []
        for v in [v for c, l in _sweep.library_vectors().items() if _sweep.qualname(c) == name for v in l][:2]:
            try:
                off = v.index(b'\x00', 1) + 1 + 4 + 8 + 1      # protocol, version string, connection id, auth data part 1, filler
            except ValueError:
                continue
            for field in (off, off + 3, off + 5):             # capability flags (lower), status flags, capability flags (upper)
                for bit in range(16):
                    i = field + bit // 8
                    if i < len(v):
                        out.append(v[:i] + bytes([v[i] | (1 << (bit % 8))]) + v[i + 1:])
        return out
    if short == 'DnsRecordDnskey':
        # RFC 3110 section 2: exponent length in one octet, or 0 followed by two octets; exponents that are zero, that carry
        # leading zero octets, and the two-octet form for a short exponent (all of which compose must write in a form its parser reads)
        mod = b'\xc3' + bytes(rng.getrandbits(8) for _ in range(62)) + b'\x01'
        head = bytes.fromhex('01000305')
        return [head + e + mod for e in (b'\x01\x00', b'\x03\x00\x00\x00', b'\x00\x00\x00', b'\x00\x00\x01\x00', b'\x00\x00\x03\x01\x00\x01',
                                         b'\x04\x00\x01\x00\x01', b'\x03\x01\x00\x01', b'\x01\x03')]
    if short == 'DnsRecordTxt':
        # TXT data beyond 255 octets: several character-strings (DKIM keys, long SPF policies)
        def strings(*ls):
            return b''.join(bytes([n]) + bytes(rng.choice(b'abc=; v1') for _ in range(n)) for n in ls)
        return [strings(255, 1), strings(200, 200), strings(255, 255, 90), strings(0, 255, 0, 7), strings(0), strings(0, 0), strings(0, 0, 0)]
    if short == 'SignedCertificateTimestamp':
        # RFC 6962 3.2: a 64-bit count of milliseconds; far-future values, where a double no longer holds a millisecond exactly
        from harness import sweep as _sweep
        vs = [v for c, l in _sweep.library_vectors().items() if _sweep.qualname(c) == name for v in l if len(v) >= 43][:2]
        stamps = [8589934591999, 8589934592001, 12515071833071, 193337143925430, 253402300799998, rng.randrange(2 ** 33 * 1000, 253402300799999)]
        return [v[:35] + t.to_bytes(8, 'big') + v[43:] for v in vs for t in stamps]
    if short == 'TlsHandshakeClientHello':
        # client hellos carrying the signalling suites (RFC 7507 TLS_FALLBACK_SCSV, RFC 5746 TLS_EMPTY_RENEGOTIATION_INFO_SCSV),
        # one, the other, both: the repository vectors carry neither
        from harness import impl, tlsgen
        out = []
        impl.PARSE_BACK = False
        try:
            for scsv in ([0x5600], [0x00ff], [0x5600, 0x00ff], [0x00ff, 0x5600]):
                o = impl.impl_line(tlsgen.client_hello(rng, impl, scsv=scsv)[0])
                if o.startswith('OK '):
                    out.append(bytes.fromhex(o[3:]))
        finally:
            impl.PARSE_BACK = True
        return out
    if short in ('DnsNameUncompressed', 'DnsRecordMx'):
        # internationalised names: A-labels (xn--) on the wire, U-labels in the object
        names = [[b'xn--bcher-kva', b'example'], [b'xn--r8jz45g', b'xn--zckzah'], [b'www', b'xn--mnchen-3ya', b'de']]
        wire = [b''.join(bytes([len(l)]) + l for l in labels) + b'\x00' for labels in names]
        return wire[:n] if short == 'DnsNameUncompressed' else [b'\x00\x0a' + w for w in wire[:n]]
    return []


def spf_cidr(rng):
    """Optional prefix lengths in the form the library writes them (/v4 then /v6), boundary values included."""
    v4 = rng.choice([None, None, 0, 1, 8, 24, 31, 32])
    v6 = rng.choice([None, None, 0, 1, 64, 127, 128])
    return (b'' if v4 is None else b'/%d' % v4) + (b'' if v6 is None or v4 is None else b'/%d' % v6)


def spf_terms(rng):
    terms = []
    for _ in range(rng.randint(1, 5)):
        q = rng.choice([b'', b'', b'+', b'-', b'~', b'?'])
        k = rng.randrange(7)
        if k == 0:
            terms.append(q + b'a' + rng.choice([b'', b':example.com']) + spf_cidr(rng))
        elif k == 1:
            terms.append(q + b'mx' + rng.choice([b'', b':mail.example.com']) + spf_cidr(rng))
        elif k == 2:
            terms.append(q + b'ip4:' + rng.choice([b'192.0.2.0/24', b'198.51.100.7', b'0.0.0.0/0', b'10.0.0.0/8']))
        elif k == 3:
            terms.append(q + b'ip6:' + rng.choice([b'2001:db8::/32', b'::1', b'::/0']))
        elif k == 4:
            terms.append(q + b'include:_spf.example.com')
        elif k == 5:
            terms.append(q + rng.choice([b'ptr', b'ptr:example.com', b'exists:%{ir}._spf.%{d}']))
        else:
            terms.append(rng.choice([b'x-unknown=1', b'moo=']))
    terms.append(rng.choice([b'-all', b'~all', b'?all', b'redirect=_spf.example.net', b'all exp=explain.example.com']))
    return terms


def class_sweep(chk, rng, per_vector):
    vectors = sweep.library_vectors()
    evals = 0
    accepted = 0
    for cls in sorted(vectors, key=sweep.qualname):
        name = sweep.qualname(cls)
        for v in vectors[cls]:
            bufs = [v] + [sweep.mutate(rng, v) for _ in range(per_vector)]
            for b in bufs:
                evals += 1
                for pred, detail in roundtrip_failures(cls, b):
                    yield cls, name, b, pred, detail
        for b in extra_vectors(name, rng):
            evals += 1
            for pred, detail in roundtrip_failures(cls, b):
                yield cls, name, b, pred, detail
    chk.coverage['class_sweep'] = {'classes': len(vectors), 'buffers': evals}


def nested_values(obj, depth=0, seen=None, path=''):
    """(path, value) for the parsable and composable values nested in an object (attrs fields, lists, tuples, protocol vectors)"""
    import attr
    seen = set() if seen is None else seen
    if depth > 6 or id(obj) in seen or isinstance(obj, (type, str, bytes, bytearray, int, float)) or obj is None:
        return
    seen.add(id(obj))
    if depth and hasattr(type(obj), 'parse_exact_size') and hasattr(obj, 'compose'):
        yield path, obj
    if attr.has(type(obj)):
        for f in attr.fields(type(obj)):
            try:
                v = getattr(obj, f.name)
            except Exception:  # pylint: disable=broad-except
                continue
            yield from nested_values(v, depth + 1, seen, path + '.' + f.name)
    elif isinstance(obj, (list, tuple)) or (hasattr(obj, '_items') and hasattr(obj, 'get_param')):
        for i, v in enumerate(list(obj)[:8]):
            yield from nested_values(v, depth + 1, seen, path + '[%d]' % i)


def nested_failures(obj):
    """C01 for the nested values of an object the parser returned: each composes to bytes its own class accepts back, entirely, as an equal value"""
    from cryptodatahub.common.exception import InvalidValue
    from cryptoparser.common.exception import InvalidType, NotEnoughData, TooMuchData
    for path, v in nested_values(obj):
        tname = sweep.qualname(type(v))
        try:
            b = v.compose()
            b = b.encode('ascii') if isinstance(b, str) else bytes(b)
        except (NotImplementedError, InvalidValue, InvalidType, NotEnoughData, TooMuchData):
            continue
        except Exception as e:  # pylint: disable=broad-except
            yield tname, path, 'nested-compose-raises', 'compose of the nested %s raises %s' % (tname, type(e).__name__)
            continue
        try:
            back = type(v).parse_exact_size(b)
        except NotImplementedError:
            continue
        except Exception as e:  # pylint: disable=broad-except
            yield tname, path, 'nested-composed-not-accepted', 'the bytes %r composed by the nested %s are not accepted by its own parser (%s)' % (b[:40], tname, type(e).__name__)
            continue
        if not same(back, v):
            yield tname, path, 'nested-roundtrip-unequal', 'parse(compose(v)) differs from the nested %s' % tname
