# pytest plugin (loaded with -p) that records every buffer the repository's own tests hand to a parse entry point.
import json
import os

_SEEN = {}


def _wrap(name, orig):
    def wrapper(cls, parsable):
        key = None
        try:
            data = bytes(parsable)
            key = (cls.__module__, cls.__qualname__, data.hex())
        except Exception:  # pylint: disable=broad-except
            pass
        try:
            res = orig.__func__(cls, parsable)
        except BaseException:
            if key is not None:
                _SEEN.setdefault(key, False)
            raise
        if key is not None:
            _SEEN[key] = True
        return res
    return classmethod(wrapper)


def pytest_configure(config):
    from cryptoparser.common.parse import ParsableBaseNoABC
    for name in ('parse_exact_size', 'parse_immutable', 'parse_mutable'):
        orig = ParsableBaseNoABC.__dict__[name]
        setattr(ParsableBaseNoABC, name, _wrap(name, orig))


def pytest_unconfigure(config):
    out = os.environ.get('VERIF_HARVEST_OUT')
    if out:
        with open(out, 'w') as f:
            json.dump([[m, q, h, ok] for (m, q, h), ok in sorted(_SEEN.items())], f)
