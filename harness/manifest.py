# Writes MANIFEST.json from the list of implemented checks (kept in one place so it is always valid).
import json
import os

from harness import common

BASE_OFF = "cd /repo && env -u CRYPTOPARSER_VERIF /venv/bin/python -m pytest -ra -q -p no:cacheprovider --timeout=900 --continue-on-collection-errors"

CHECKS = {
    'C18': dict(
        category='proof',
        text='Coq model of the NameValuePairList tokeniser (separator_spaces, skip_empty), NameValuePair, the OrderedDict and '
             'FieldValueMultiple._parse_basic_params, proved equal to split/trim/drop-empty and to one case-insensitive lookup per '
             'attribute; theorems: every spelling (blanks, empty elements) of an item list tokenises to the items, the composed spelling '
             'is one of them, quoting, letter case of names, order, unknown directives, optional white space and name case of header '
             'lines, for every FieldValueMultiple class of the table regenerated from the library. Tied by running the extracted model '
             'and the real _parse_basic_params/_check_name on the same texts; value classes, CSP, NEL and SPF are compared with the '
             'RFC grammar directly (spelling generators per family and rule), header blocks against their lines parsed one by one.',
        design_ref='DESIGN.md section 6, C18',
        note='Trusted: Coq kernel + vm_compute; extraction (ExtrOcamlBasic); gen_tables.field_schemas (probes _check_name); the spelling '
             'generators of harness/c18gen.py as a reading of RFC 6797/7469/9163/7234/6265/7231/7489/8461/8460/7208 and CSP3. '
             'Component value classes, CSP source lists, the JSON decoder and the SPF term grammar are not modelled.',
        technique='Coq proof (refinement to split/trim/filter and to per-attribute lookup, induction over spellings) over a generated '
                  'schema table; model/implementation correspondence; grammar-driven spelling comparison on the implementation'),
    'C17': dict(
        category='proof',
        text='Coq theorems over the generated TlsVersion table: strict total order / trichotomy / derived operators / '
             'hash consistency for every valid code (generic key lemma) and for all 38^3 triples (vm_compute sweep), the '
             'chain of the property text, order-independence of max. The model of __lt__/__eq__/total_ordering is tied '
             'to tls/version.py by an exhaustive comparison of all ordered pairs x 6 operators on every run.',
        design_ref='DESIGN.md section 6, C17',
        note='Trusted: Coq kernel + vm_compute; gen_tables.py; the exhaustive pair correspondence; hash() modelled as '
             'identity of the hashed enum member.',
        technique='Coq proof (key lemma + finite sweep) over generated table; exhaustive model/implementation correspondence'),
    'C11': dict(
        category='proof',
        text='Coq theorems for all values: exact positional encoding and round trip of 1/2/3/4/8-byte integers in all four byte '
             'orders, rejection (never truncation) of values that do not fit, flag-set round trips over the generated flag tables, '
             'fixed-length mpints exact and rejecting, SSH mpints of non-negative integers canonical (RFC 4251), SSH mpints of either sign round-tripping, '
             'timestamps (seconds / milliseconds / forever sentinel). The model of common/parse.py primitives is tied to the code by '
             'running the OCaml program extracted from it and the implementation on the same boundary + random commands; the '
             'time-zone clause is decided by a 12-zone sweep of the implementation (runtime behaviour, not modelled).',
        design_ref='DESIGN.md section 6, C11',
        note='Trusted: Coq kernel; extraction (ExtrOcamlBasic only) + OCaml; the differential harness; struct native order = little endian; '
             'TZ behaviour is decided by a sweep, not by a theorem.',
        technique='Coq proof over a hand-written model of the primitives; extracted-model vs implementation differential run; TZ sweep'),
    'C10': dict(
        category='proof',
        text='Coq theorems, generic over any code table and instantiated at every factory / vector regenerated from the live library: '
             'for the whole code space of each width a known code decodes to the member carrying it and re-encodes to the same bytes, '
             'any other code is rejected as InvalidValue or kept bit-for-bit by the GREASE/unknown fallback, and the items of any accepted '
             'enum vector re-compose to exactly the consumed bytes (nothing redirected, dropped or added). NoDup / range / no-alias side '
             'conditions are decided by vm_compute on the generated tables (all factory enums and every IntEnum, over __members__). Tie: '
             'extracted model vs implementation on members, GREASE, neighbours, random codes (quick) or the full 2^8/2^16 spaces (thorough).',
        design_ref='DESIGN.md section 6, C10',
        note='Trusted: Coq kernel; gen_tables.py; extraction + OCaml; differential harness. String-coded enums are covered by the NoDup '
             'side condition and the ALPN/NPN exact-match model only; their text parsers belong to C07/C16/C18.',
        technique='Coq proof (generic lemmas + vm_compute side conditions on generated tables); extracted-model vs implementation differential run'),
    'C12': dict(
        category='proof',
        text='Coq theorems over the ArrayBase state machine, generic in item type, size function and bounds (hence for every vector '
             'class at once) and by induction over arbitrary operation sequences: the size bookkeeping stays exact and within bounds, an '
             'accepted edit leaves exactly the plain-list result, a refused edit changes nothing and is refused exactly when the plain-list '
             'result would leave the bounds (or where a plain list raises itself), no spurious refusals, and the composed prefix equals the '
             'body length and fits its width (side condition decided on the generated parameters of all 44 vector classes). Tie: edit '
             'histories on 8 real vector classes, extracted model vs implementation, plus a shadow plain-list oracle.',
        design_ref='DESIGN.md section 6, C12',
        note='Trusted: Coq kernel; gen_tables.py; extraction + OCaml; differential harness. Slices with step != 1 are not modelled; for '
             'SSH name-lists the separators are not part of _items_size (observation recorded in DESIGN.md).',
        technique='Coq proof (invariant by induction over operation sequences + refinement to plain lists); extracted-model vs implementation histories'),
    'C03': dict(
        category='proof',
        text='Coq theorems for a generic header+declared-length frame (proved once) instantiated at TlsRecord, the TLS handshake message '
             'header, MySQLRecord, TPKT, OpenVPN-TCP, PostgreSQL SslRequest and Sync: for every buffer 0 < n <= len, n = the length the '
             'header declares, the result depends only on the first n bytes (any suffix), composed frames parse back with any suffix; and '
             'the entry-point laws (exact-size iff n = len, in-place removes exactly n bytes, failure leaves the buffer). Tie: extracted '
             'model vs implementation on composed / suffixed / concatenated / corrupted frames through the three entry points. SSL 2.0 '
             'records, SSH packets and banner, LDAP and all non-framing classes are covered by an implementation-only sweep of the same '
             'predicates over all 367 classes reached by the repository tests (exploration supporting the search, not a theorem).',
        design_ref='DESIGN.md section 6, C03',
        note='Trusted: Coq kernel; gen_tables.py; extraction + OCaml; differential harness; payloads of framing units modelled as opaque bytes.',
        technique='Coq proof (generic frame lemmas + per-unit instantiation); extracted-model vs implementation differential run; all-class predicate sweep'),
    'C04': dict(
        category='proof',
        text='Coq theorem by induction over the chunk list: for any framing unit whose frames round-trip with a suffix and whose proper '
             'prefixes are rejected with 1 <= missing <= really missing, and for every fragmentation of the stream, the reader (wait exactly '
             'the reported bytes, retry) never fails, never accepts a proper prefix, never waits beyond the record in progress and emits '
             'exactly the original sequence; instantiated for all LV framing units through their prefix lemmas. Tie: every proper prefix of '
             'composed frames and reader traces (wait target after each chunk) on 1-byte / few / many-chunk deliveries, extracted model vs a '
             'Python reader loop over parse_mutable; plus an implementation-only sweep (all prefixes, random chunkings) over all '
             'framing-unit classes reached by the repository tests (SSL 2.0, SSH, LDAP included).',
        design_ref='DESIGN.md section 6, C04',
        note='Trusted: Coq kernel; extraction + OCaml; differential harness. Known finding: the SSH identification string parser answers '
             'InvalidValue for a banner not yet terminated by LF (pinned by an existing test).',
        technique='Coq proof (reader invariant by induction over chunks, generic in the framing unit); extracted reader vs Python reader loop; prefix sweep'),
    'C01': dict(
        category='proof',
        text='Coq theorems: compose-then-parse with an arbitrary suffix returns the value and consumes exactly the composed bytes, for '
             'the engine primitives (integers, fixed and SSH mpints), every member of every generated enum factory, and the seven LV '
             'framing units (generic frame lemma instantiated). Tie: constructed objects of all modelled classes composed and re-parsed on '
             'the extracted model and the implementation, compared with each other and with the value composed. Classes without a model are '
             'covered by an implementation-only round trip of the objects parsed from the repository tests\' vectors (367 classes; '
             'exploration supporting the search).',
        design_ref='DESIGN.md section 6, C01',
        note='Trusted: Coq kernel; gen_tables.py; extraction + OCaml; differential harness. Theorems exist only for the modelled classes '
             '(listed in DESIGN.md section 9); known findings listed in known_findings.json.',
        technique='Coq proof (round-trip lemmas with suffix); extracted-model vs implementation differential run; all-class round-trip sweep'),
    'C02': dict(
        category='proof',
        text='Coq theorems: in the model every partial Python operation carries its failure as Leak <exception>; for every buffer no '
             'modelled parse function (integers, mpints, timestamps, enum factories, fallback classes, enum vectors, ALPN names, the seven '
             'framing units) ends in a Leak. Tie: malformed stream through the extracted model and the implementation, outcome kind and '
             'leaked exception class compared. All other classes: implementation-only mutation sweep over the vectors of the repository '
             'tests (367 classes), every undocumented exception reported by root cause (innermost cryptoparser frame + calling class code + '
             'exception class + source line); 14 root causes were repaired by fix: commits, 8 are listed as known findings.',
        design_ref='DESIGN.md section 6, C02',
        note='Trusted: Coq kernel; extraction + OCaml; differential harness. No theorem for classes without a model.',
        technique='Coq proof (no Leak outcome for any buffer) over the modelled classes; differential malformed stream; all-class mutation sweep keyed by root cause'),
    'C05': dict(
        category='proof',
        text='Coq theorems: for every accepted buffer (canonical or not) of the enum factories, the enum vectors (known / unknown / GREASE '
             'items) and the seven LV framing units, composing the parsed object succeeds and the composed bytes parse back to the same '
             'object consuming all of them (compose is a function, so the second compose is identical). Tie: accepted non-canonical inputs '
             'through parse / compose / parse on the extracted model and the implementation. All other classes: implementation-only sweep of '
             'the same predicate over mutated-but-accepted vectors (367 classes); 29 class/predicate findings of text classes are listed.',
        design_ref='DESIGN.md section 6, C05',
        note='Trusted: Coq kernel; extraction + OCaml; differential harness. Known findings are matched per (class family, predicate, '
             'original | mutated vector).',
        technique='Coq proof (canonical-form lemmas) over the modelled classes; differential parse/compose/parse run; all-class sweep'),
    'C19': dict(
        category='proof',
        text='Coq theorems over an explicit cost semantics (one step per engine primitive, per table entry compared, per loop iteration) '
             'for the only loop of the modelled vector parsers: at most one iteration per byte present, termination within the provided '
             'fuel, steps <= (2 + |table| + |grease|) * len + 3 for every buffer accepted or rejected, two steps and no iteration when a '
             'declared length exceeds the data, and termination of the reader retry loop. Tie and the rest of the library: sys.monitoring '
             'line-event counts and call depth of parse_immutable on 19 scalable shapes at n..8n (marginal events per byte must not grow, '
             'depth must not grow) and a global events <= K*len + K0 bound on all 367 classes reached by the repository tests.',
        design_ref='DESIGN.md section 6, C19',
        note='Partial: that a model step corresponds to a bounded number of interpreter line events is measured, not proved; work inside C '
             'primitives is invisible to the metric; K, K0 and the slope tolerance are calibrated constants reported in the evidence.',
        technique='Coq proof over a cost semantics of the modelled loops; sys.monitoring step counts at growing sizes on the implementation'),
    'C06': dict(
        category='proof',
        text='An encoder/decoder for the TLS presentation language and for records, alerts, CCS, the handshake header, client/server '
             'hello, certificate, ServerHelloDone and nine extension payloads is written in Coq from the RFC text, importing nothing from '
             'the model of the implementation. Theorems: the models of TlsRecord.compose, of the handshake header and of every vector of '
             'coded enum members produce exactly the specification encoding (model = spec, all values); the specification decodes what it '
             'encodes (client hello with SCSVs anywhere, vectors); the floors/ceilings regenerated from the live library equal the RFC '
             'table (22 vectors, 2 more on the ceiling) and every length prefix is the width the RFC derives from the ceiling. Tie: the '
             'implementation composes generated structures and the bytes are compared with the specification encoding; specification '
             'encodings are parsed by the implementation and the recovered fields compared (an error made consistently in parse and '
             'compose is therefore visible).',
        design_ref='DESIGN.md section 6, C06',
        note='Trusted: Coq kernel; gen_tables.py; extraction + OCaml; differential harness; the RFC transcription (from memory, validated on '
             'the implementation and proved coherent). Not yet specified: SSL 2.0 messages, key_share, status_request, SCT, token binding, '
             'certificate request, hello retry request.',
        technique='Coq proof (model = RFC specification, specification coherence, generated bounds = RFC table); implementation-vs-specification differential run'),
    'C15': dict(
        category='proof',
        text='The published JA3 algorithm is written in Coq over the wire bytes (through the specification decoder) and the ja3() method '
             'is modelled as a function of the hello. Theorems: the method equals the reference for every hello without GREASE cipher '
             'suites, signalling suites, repeated group/format extensions or one-byte-GREASE point formats (all other sections, GREASE '
             'extension types and groups included); the library GREASE table is RFC 8701 on the whole 2-byte space; the value is stable '
             'under compose + parse; the full statement is refuted by two witnesses (known findings pinned by the suite). Tie: generated '
             'hellos, hello.ja3() vs the model of the method vs the reference on the bytes.',
        design_ref='DESIGN.md section 6, C15',
        note='Trusted: Coq kernel; gen_tables.py; extraction + OCaml; differential harness. The parse step between bytes and hello object is '
             'tied by the C06 decode correspondence, not modelled.',
        technique='Coq proof (partial statement + refutation of the full one + stability); three-way differential run implementation / model / reference'),
    'C07': dict(
        category='proof',
        text='Coq theorems: the SSH padding rule for every payload length (packet_length counts padding-length byte + payload + padding, '
             'padding 4..255 - in fact 4..11 -, total a multiple of 8); what compose_ssh_mpint emits for any non-negative integer IS the RFC '
             '4251 mpint of an independent specification (model = spec), is canonical in the RFC\'s words and parses back; splitting a '
             'name-list at commas and re-joining is the identity on the wire string; the specification strings decode back. Tie: packets '
             'for all payload lengths 0..1999 (0..35000 thorough), boundary and random mpints, KEXINIT messages and RSA / Ed25519 key blobs: '
             'implementation vs the Coq specification, both directions. The transport-layer messages (DISCONNECT, UNIMPLEMENTED, NEWKEYS, '
             'KEXDH / KEX_DH_GEX messages) are written in a layout language of the RFC 4251 types: uniquely decodable whatever follows, and - '
             'for byte, uint32 and string fields - the converse: whatever the decoder accepts is exactly the encoding of what it returned '
             '(one spelling only); tie: the specification\'s encodings, and encodings with an octet replaced or cut short, through the '
             'message variants of the implementation, with a compose-back comparison for the single-spelling messages.',
        design_ref='DESIGN.md section 6, C07',
        note='Trusted: Coq kernel; gen_tables.py; extraction + OCaml; differential harness; RFC transcription. Banner, DH/GEX messages, '
             'DSS/ECDSA keys and OpenSSH certificates are covered by the C01/C05 sweeps, not by the specification.',
        technique='Coq proof (padding rule by lia, mpint model = RFC specification, name-list identity); implementation-vs-specification differential run'),
    'C08': dict(
        category='proof',
        text='Coq theorems: the model of DnsRecordDnskey.key_tag equals the RFC 4034 Appendix B byte loop for every RDATA of even length '
             '(induction two bytes at a time), the repaired function for every RDATA, B.1 for algorithm 1; the full statement is refuted '
             'for odd lengths (known finding: the suite pins a key tag of an odd-length key); the specification of names and DS RDATA is '
             'coherent. Tie: DS, MX, names, TXT, RRSIG and RSA DNSKEY records composed by the implementation vs the Coq specification; key '
             'tags compared three ways (implementation, model, Appendix B) on odd and even RDATA.',
        design_ref='DESIGN.md section 6, C08',
        note='Trusted: Coq kernel; extraction + OCaml; differential harness; RFC transcription. DSA/ECDSA/EdDSA/GOST DNSKEY layouts are '
             'covered by the C01/C05 sweeps only; IDNA beyond ASCII labels is an oracle.',
        technique='Coq proof (key tag = RFC 4034 App. B, partial + refuted + repaired-full); implementation-vs-specification differential run'),
    'C16': dict(
        category='proof',
        text='Coq theorems: for any four name-list strings on the wire the text the model of _hassh hashes is exactly '
             'kex;encryption;mac;compression as they appear on the wire (split/join identity: order and unknown names preserved); the mpints '
             'inside host-key blobs are the RFC 4251 mpints. Tie: real digests - hassh / hassh_server vs MD5 of the text the Coq reference '
             'extracts from specification-encoded KEXINIT bytes; fingerprints (SHA-256/SHA-1 base64, MD5 colon-hex) and known_hosts of RSA '
             'and Ed25519 host keys vs digests / base64 of the specification\'s RFC 4253 blob.',
        design_ref='DESIGN.md section 6, C16',
        note='Trusted: Coq kernel; extraction + OCaml; hashlib and base64 (oracles on both sides). DSS/ECDSA keys and certificates not in the '
             'specification yet.',
        technique='Coq proof (hashed pre-image = wire bytes); differential run with real digests'),
    'C09': dict(
        category='proof',
        text='Coq theorems: for COTP connection request / confirm (modelled as a frame with a type check after the length check) and RDP '
             'negotiation PDUs the message type on the wire is the type of the class that accepted it - no PDU is accepted both as request '
             'and as confirm; MySQL packets (3-byte little-endian length), TPKT, OpenVPN-TCP and PostgreSQL SSLRequest satisfy the framing '
             'lemma family (round trip, n = declared, self-delimiting, prefix rejection). Tie: TPKT, COTP, RDP negotiation, MySQL packet '
             'and SSLRequest (4.1 and pre-4.1 layouts, all capability subsets), OpenVPN control packets with 0..255 acks and the TCP '
             'wrapper, PostgreSQL SSLRequest composed by the implementation vs an independent Coq specification; COTP PDUs parsed by both '
             'classes incl. the class of the returned object.',
        design_ref='DESIGN.md section 6, C09',
        note='Trusted: Coq kernel; gen_tables.py; extraction + OCaml; differential harness; the transcription of X.224 / MS-RDPBCGR / MySQL / '
             'OpenVPN layouts. LDAP rests on asn1crypto (oracle; sweeps only); MySQLHandshakeV10 not yet specified. Known finding: COTP '
             'reference order (pinned by a test).',
        technique='Coq proof (wire type preserved; framing lemma family) + implementation-vs-specification differential run'),
    'C13': dict(
        category='proof',
        text='Partial by nature. Coq theorems over an explicit-store model: when every defaulted field is built per instance, no history of '
             'constructions and in-place edits changes the class-level defaults and every instance reads the pristine values (induction over '
             'histories); the hypothesis is decided on the table of all 35 default sites regenerated from the live library (attr.Factory / '
             'rebuilt by converter / shared object); one shared mutable default refutes the claim; the repaired ClientHello.compose leaves '
             'the cipher suite vector alone for all vectors, bounds and flags, the pinned one did not. Tie (what decides the runtime facts): '
             'every default site exhaustively (construct, edit in place, construct again, identity), every class: parse from a bytearray, '
             'overwrite / clear it, compare with a deep copy; random observer histories with a deep-copy comparison after every call.',
        design_ref='DESIGN.md section 6, C13',
        note='Object identity and aliasing are CPython runtime behaviour; the model cannot exhibit aliasing introduced in code it '
             'transcribes as a copy - the exhaustive per-site / per-class runs are what catch that. 4 Set-Cookie default sites are known findings.',
        technique='Coq proof over an explicit-store model + generated default-site table; exhaustive per-site and per-class aliasing / observer-history runs on the implementation'),
    'C14': dict(
        category='proof',
        text='Partial by nature. Coq model of the dispatch of Serializable._json_traverse over a universe of Python values producing a '
             'JSON tree (well-formed by construction, total). Theorems: set-valued fields and plain dicts render identically for every '
             'iteration / insertion order (insertion sort by the library\'s sort key is invariant under permutation: proved via strong '
             'sortedness + uniqueness), refuted for the pinned unsorted emission. Tie: 400 / 4000 parsed objects converted to the model\'s '
             'universe and the rendered model output compared with as_json(); for all 367 classes: as_json succeeds and json.loads accepts '
             'it, as_markdown returns text, stable on repeated calls, identical for the parse-compose round trip; the whole corpus '
             'serialised under several PYTHONHASHSEED values and in shuffled order must be byte-identical; a DNSKEY flag set built in six '
             'insertion orders must serialise identically.',
        design_ref='DESIGN.md section 6, C14',
        note='Hash order, float repr and json.dumps rendering are runtime behaviour (seed sweep only); the Markdown dispatch is not modelled '
             '(implementation-only predicates). 4 CSP classes whose as_markdown returns an object are known findings.',
        technique='Coq proof (order-independence of the serialiser model) + model-vs-implementation comparison via vm_compute + hash-seed / insertion-order sweep'),
}

NOT_YET = {}


def main():
    props = [json.loads(l) for l in open(os.path.join(common.VERIF, 'properties.jsonl'))]
    checks = []
    na = []
    for p in props:
        pid = p['id']
        if pid in CHECKS:
            c = CHECKS[pid]
            checks.append({
                'property_id': pid,
                'quick_cmd': './check %s --tier quick' % pid,
                'thorough_cmd': './check %s --tier thorough' % pid,
                'evidence_file': 'evidence/%s.json' % pid,
                'replay_cmd_template': './check %s --replay {path}' % pid,
                'engine': 'coq-model+correspondence',
                'level_claimed': {'category': c['category'], 'text': c['text'], 'design_ref': c['design_ref']},
                'level_note': c['note'],
                'technique': c['technique'],
            })
        else:
            na.append({'property_id': pid, 'reason': NOT_YET.get(pid, 'not claimed yet: model and proofs for this property are not built in this revision (see DESIGN.md section 9, build order)')})
    m = {
        'version': 1,
        'setup_cmd': 'make -C /verif setup',
        'hooks': {
            'guard': 'CRYPTOPARSER_VERIF',
            'enable': 'checks set CRYPTOPARSER_VERIF=1 in the environment of every process that imports /repo; no source hook exists today',
            'baseline_off_cmd': BASE_OFF,
            'source_commits': [],
            'add_only': True,
        },
        'engines': [{
            'name': 'coq-model+correspondence', 'path': 'coq/ harness/ check',
            'serves_properties': sorted(CHECKS),
            'kind_free_text': 'Coq 8.16.1 development (hand-written Gallina model + generated tables + theorems) and a '
                              'Python differential harness that runs model (vm_compute / extracted OCaml) and implementation on the same inputs',
        }],
        'checks': checks,
        'not_applicable': na,
        'notes': 'See DESIGN.md. Fix commits in /repo are listed in known_findings.json (status fixed).',
    }
    with open(os.path.join(common.VERIF, 'MANIFEST.json'), 'w') as f:
        json.dump(m, f, indent=1)


if __name__ == '__main__':
    main()
