# Constructed objects for the round-trip property (C01): objects a caller can build, not only objects a parser returned.
# Every attrs field of an object parsed from a repository vector is replaced, one at a time, by other values of its type
# (attr.evolve runs the converters and validators, so only constructible objects are produced).
import datetime
import enum


def field_variants(value, rng):
    """Other values of the type of `value` (small, boundary-like); the caller discards those the class refuses."""
    import dateutil.tz
    if isinstance(value, bool):
        return [not value]
    if isinstance(value, enum.Enum):
        members = [m for m in type(value) if m is not value]
        return members[:2] + members[-1:]
    if isinstance(value, int):
        return [v for v in (0, 1, value + 1, value - 1, 255, 256, 65535, 65536, 2 ** 32 - 1) if v != value and v >= 0][:6]
    if isinstance(value, (bytes, bytearray)):
        t = type(value)
        return [t(b''), t(b'\x00'), t(value[:-1]), t(bytes(value) + bytes(value[:1] or b'\x01')), t(bytes(len(value)))]
    if isinstance(value, str):
        return ['', 'a', value + 'x', value[:1]]
    if isinstance(value, datetime.datetime):
        out = [datetime.datetime(1970, 1, 1, tzinfo=dateutil.tz.UTC), value + datetime.timedelta(seconds=1)]
        if value.tzinfo is not None:
            out += [value.astimezone(dateutil.tz.tzoffset(None, 19800)), value.astimezone(dateutil.tz.tzoffset(None, -3600))]
        return out
    if isinstance(value, datetime.timedelta):
        return [datetime.timedelta(0), datetime.timedelta(seconds=1), value + datetime.timedelta(seconds=1), value + datetime.timedelta(days=1), value + datetime.timedelta(days=365)]
    if isinstance(value, (list, tuple)) and type(value) in (list, tuple):
        t = type(value)
        return [t(), t(value[:1]), t(list(value) + list(value[:1])), t(reversed(value))]
    if hasattr(value, '_items') and hasattr(value, 'get_param'):      # protocol vectors
        items = list(value)
        out = []
        for new in ([], items[:1], items + items[:1], list(reversed(items))):
            try:
                out.append(type(value)(new))
            except Exception:  # pylint: disable=broad-except
                pass
        return out
    return []


def variants(obj, rng=None, per_field=6):
    """(field name, candidate index, evolved object) for every attrs field and some of its other values; unconstructible ones are skipped."""
    import attr
    if not attr.has(type(obj)):
        return
    for f in attr.fields(type(obj)):
        if not f.init:
            continue
        try:
            value = getattr(obj, f.name)
        except Exception:  # pylint: disable=broad-except
            continue
        cands = field_variants(value, rng)
        if rng is not None:
            rng.shuffle(cands)
        for idx, new in enumerate(cands[:per_field]):
            try:
                yield f.name, idx, attr.evolve(obj, **{f.name.lstrip('_'): new})
            except Exception:  # pylint: disable=broad-except
                continue


def constructed_failures(cls, obj):
    """C01 on one constructed object: compose, parse_exact_size of the composed bytes, equality. A refusal to compose with one
    of the documented errors means the object is not a message of the protocol (not a failure)."""
    from cryptodatahub.common.exception import InvalidValue
    from cryptoparser.common.exception import InvalidType, NotEnoughData, TooMuchData
    from harness import rt
    documented = (InvalidValue, InvalidType, NotEnoughData, TooMuchData)
    try:
        b = obj.compose()
        b = b.encode('ascii') if isinstance(b, str) else bytes(b)
    except documented:
        return
    except NotImplementedError:
        return
    except Exception as e:  # pylint: disable=broad-except
        yield 'compose-raises', 'compose of a constructible object raises %s (%s)' % (type(e).__name__, str(e)[:60])
        return
    try:
        back = cls.parse_exact_size(b)
    except Exception as e:  # pylint: disable=broad-except
        yield 'composed-not-accepted', 'the composed bytes %s are not accepted back (%s)' % (b.hex()[:60], type(e).__name__)
        return
    if not rt.same(back, obj):
        yield 'roundtrip-unequal', 'parse(compose(o)) differs from o'


TEXT_MODULES = ('.httpx.', '.dnsrec.txt', '.common.field')


def finding_key(name, field, pred):
    """Known findings of constructed objects are listed per class and field; the host key classes share one entry for the
    algorithm field (no constructor checks that the algorithm belongs to the key type)."""
    if field == 'host_key_algorithm' and name.startswith('cryptoparser.ssh.key.'):
        return 'cryptoparser.ssh.key.*.host_key_algorithm/constructed-%s' % pred
    return '%s.%s/constructed-%s' % (name, field, pred)


def sweep_constructed(vectors_per_class=3):
    """(class, name, vector, field, index, predicate, detail) over the binary protocol classes reached by the repository tests."""
    from harness import sweep
    vectors = sweep.library_vectors()
    n = 0
    for cls in sorted(vectors, key=sweep.qualname):
        name = sweep.qualname(cls)
        if any(t in name for t in TEXT_MODULES):
            continue     # constructors of text classes take arbitrary strings; their spellings are C18's subject
        for v in vectors[cls][:vectors_per_class]:
            try:
                obj, _ = cls.parse_immutable(v)
            except Exception:  # pylint: disable=broad-except
                continue
            for field, idx, o2 in variants(obj):
                n += 1
                for pred, detail in constructed_failures(cls, o2):
                    yield cls, name, sweep.qualname(type(o2)), v, field, idx, pred, detail
    sweep_constructed.count = n
