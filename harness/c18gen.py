# C18 generators: semantic values of the text-field families and their spellings, produced from the RFC grammars.
# A value is a head (positional tokens) plus a list of directives (name, value, quotable); each rule rewrites the
# spelling only.  Every random choice comes from the rng handed in.
import collections
import json

Directive = collections.namedtuple('Directive', 'name value quotable')
WS = [' ', '\t']

URLS = ['https://example.com/report', 'http://r.example.org/a/b?c=d', 'https://a.example/r']
TOKENS = ['utf-8', 'iso-8859-1', 'boundary_pattern', 'abc123', 'x']
B64 = ['cGluLXNoYTI1Ng==', 'AAAAAAAAAAAAAAAAAAAAAAAAAAAAAAAAAAAAAAAAAAA=', 'LPJNul+wow4m6DsqxbninhsWHlwfp0JecwQzYpOLmCQ=']
DATES = ['Thu, 01 Jan 1970 00:00:00 GMT', 'Wed, 09 Jun 2021 10:18:14 GMT', 'Fri, 31 Dec 1999 23:59:59 GMT']


def rnd_case(rng, s):
    k = rng.choice(['upper', 'lower', 'swap', 'random', 'title'])
    if k == 'upper':
        return s.upper()
    if k == 'lower':
        return s.lower()
    if k == 'swap':
        return s.swapcase()
    if k == 'title':
        return s.title()
    return ''.join(c.upper() if rng.random() < 0.5 else c.lower() for c in s)


def ws_run(rng, tabs=True, maxn=3):
    return ''.join(rng.choice(WS if tabs else [' ']) for _ in range(rng.randint(0, maxn)))


def example_value(rng, comp):
    """(value text or None for a flag, quotable) for a component class, by its base class."""
    from cryptoparser.common import field as f
    names = [c.__name__ for c in comp.__mro__]
    if 'FieldValueComponentOption' in names:
        return None, False
    if 'FieldValueComponentStringBase64' in names:
        return '"%s"' % rng.choice(B64), False
    if 'FieldValueComponentPercent' in names:
        return str(rng.choice([0, 1, 50, 100])), True
    if 'FieldValueComponentFloat' in names:
        return rng.choice(['0.5', '1.0', '0.25']), False
    if 'FieldValueComponentTimeDelta' in names or 'FieldValueComponentNumber' in names:
        return str(rng.choice([0, 1, 5, 86400, 31536000, 63072000])), True
    if 'FieldValueComponentDateTime' in names:
        return rng.choice(DATES), False
    if 'FieldValueComponentUrl' in names:
        return rng.choice(URLS + ['mailto:dmarc@example.com']), False
    if 'FieldValueComponentQuotedString' in names:
        return '"%s"' % rng.choice(URLS), False
    if 'FieldValueComponentBool' in names:
        return rng.choice(['yes', 'no']), False
    if 'FieldValueComponentStringEnum' in names:
        e = comp._get_value_type()  # pylint: disable=protected-access
        return rng.choice([m.value.code for m in e]), False
    if 'FieldValueComponentParsableBase' in names:
        vc = comp._get_value_class()  # pylint: disable=protected-access
        if hasattr(vc, '__members__'):
            return rng.choice([m.value.code for m in vc]), False
        return None, None
    if 'FieldValueComponentString' in names:
        return rng.choice(TOKENS), True
    del f
    return None, None


class Family(object):
    """A FieldValueMultiple subclass driven from its attrs schema."""
    def __init__(self, name, cls, quoting, empties, unknown, tabs=True, wrapper=None, head=None, head_sep=None):
        self.name = name
        self.cls = cls
        self.quoting = quoting      # the grammar allows token and quoted-string forms of a value
        self.empties = empties      # 'any' (empty elements anywhere), 'trailing' (one optional trailing separator)
        self.unknown = unknown      # unknown directives are to be ignored
        self.tabs = tabs
        self.wrapper = wrapper      # (class, head generator) when the list is embedded (Set-Cookie)
        self.head = head
        self.head_sep = head_sep

    def schema(self):
        import attr
        fields = attr.fields_dict(self.cls)
        comps = self.cls._get_attr_to_validator_type_dict(fields)  # pylint: disable=protected-access
        rows = []
        for n, c in comps.items():
            if fields[n].metadata.get('extension', False):
                continue
            rows.append((n, c, fields[n].default is attr.NOTHING))
        return rows

    def sep(self):
        return self.cls._get_header_value_list_class().get_separator()  # pylint: disable=protected-access

    def value(self, rng):
        """(head directives, free directives): heads keep their position."""
        heads, free = [], []
        for n, comp, required in self.schema():
            canon = comp.get_canonical_name()
            if canon == '':
                v, _ = example_value(rng, comp)
                if v is None:
                    return None
                heads.append(Directive('', v, False))
                continue
            if not required and rng.random() < 0.45:
                continue
            v, q = example_value(rng, comp)
            if q is None:
                if required:
                    return None
                continue
            d = Directive(canon, v, bool(q) and self.quoting)
            if required and self.name in ('DMARC', 'MTA-STS', 'TLSRPT'):
                heads.append(d)
            else:
                free.append(d)
        return heads, free


def render_directive(d, name=None, quote=False):
    n = d.name if name is None else name
    if d.value is None:
        return n
    v = '"%s"' % d.value if quote else d.value
    return v if n == '' else '%s=%s' % (n, v)


def render(sep, items, lead='', gaps=None, trail=''):
    """items joined by the separator; gaps[i] = text between item i and i+1 (contains at least one separator)."""
    out = lead
    for i, it in enumerate(items):
        out += it
        if i + 1 < len(items):
            out += gaps[i] if gaps else sep + ' '
    return out + trail


UNKNOWN = ['x-unknown', 'x-unknown=1', 'x-future="a b"', 'zzz=abc']


def spellings(rng, fam, heads, free, n_each=2):
    """[(rule, text)] for one value; the canonical text is render(heads + free)."""
    sep = fam.sep()
    res = []
    base = heads + free

    def plain(ds, **kw):
        return render(sep, [render_directive(d) for d in ds], **kw)

    for _ in range(n_each):
        # letter case of directive names
        res.append(('name-case', render(sep, [render_directive(d, rnd_case(rng, d.name)) for d in base])))
        # white space around separators
        gaps = [ws_run(rng, fam.tabs) + sep + ws_run(rng, fam.tabs) for _ in base]
        res.append(('ows', render(sep, [render_directive(d) for d in base], ws_run(rng, fam.tabs), gaps, ws_run(rng, fam.tabs))))
        # empty list elements
        if fam.empties == 'any':
            gaps = [sep * rng.randint(1, 3) + ' ' for _ in base]
            res.append(('empty-elements', render(sep, [render_directive(d) for d in base], rng.choice(['', sep, sep + ' ']) if not heads else '',
                                                 gaps, rng.choice(['', sep, sep + sep, sep + ' ']))))
        else:
            res.append(('trailing-separator', plain(base, trail=rng.choice([sep, sep + ' ']))))
        # order of independent directives
        if len(free) > 1:
            perm = list(free)
            rng.shuffle(perm)
            res.append(('order', plain(heads + perm)))
        # optional quoting
        qs = [d for d in base if d.quotable]
        if qs:
            res.append(('quoting', render(sep, [render_directive(d, quote=d.quotable and rng.random() < 0.7) for d in base])))
        # unknown directives
        if fam.unknown:
            ds = [render_directive(d) for d in free]
            for _ in range(rng.randint(1, 2)):
                ds.insert(rng.randint(0, len(ds)), rng.choice(UNKNOWN))
            res.append(('unknown-directive', render(sep, [render_directive(d) for d in heads] + ds)))
        # everything at once
        perm = list(free)
        rng.shuffle(perm)
        ds = [render_directive(d, rnd_case(rng, d.name), d.quotable and rng.random() < 0.5) for d in perm]
        if fam.unknown and rng.random() < 0.5:
            ds.insert(rng.randint(0, len(ds)), rng.choice(UNKNOWN))
        items = [render_directive(d, rnd_case(rng, d.name)) for d in heads] + ds
        gaps = [ws_run(rng, fam.tabs) + (sep * rng.randint(1, 2) if fam.empties == 'any' else sep) + ws_run(rng, fam.tabs) for _ in items]
        res.append(('combined', render(sep, items, '', gaps, rng.choice(['', sep]))))
    return res


def families():
    from cryptoparser.httpx import header as h
    from cryptoparser.dnsrec import txt as t
    return [
        Family('HSTS', h.HttpHeaderFieldValueSTS, True, 'any', True),
        Family('Expect-CT', h.HttpHeaderFieldValueExpectCT, True, 'any', True),
        Family('Expect-Staple', h.HttpHeaderFieldValueExpectStaple, True, 'any', True),
        Family('HPKP', h.HttpHeaderFieldValuePublicKeyPinning, True, 'any', True),
        Family('Cache-Control', h.HttpHeaderFieldValueCacheControlResponse, True, 'any', True),
        Family('Set-Cookie-params', h.HttpHeaderFieldValueSetCookieParams, False, 'any', True),
        Family('Content-Type', h.HttpHeaderFieldValueContentType, True, 'any', True),
        Family('X-XSS-Protection', h.HttpHeaderFieldValueXXSSProtection, False, 'any', False),
        Family('DMARC', t.DnsRecordTxtValueDmarc, False, 'trailing', True),
        Family('MTA-STS', t.DnsRecordTxtValueMtaSts, False, 'trailing', False),
        Family('TLSRPT', t.DnsRecordTxtValueTlsRpt, False, 'trailing', False),
    ]


# ---- families outside FieldValueMultiple ----
def cookie_cases(rng):
    """Set-Cookie: name=value then the attribute list."""
    from cryptoparser.httpx import header as h
    fam = Family('Set-Cookie', h.HttpHeaderFieldValueSetCookieParams, False, 'any', True, tabs=False)
    v = fam.value(rng)
    if v is None:
        return None
    heads, free = v
    pair = '%s=%s' % (rng.choice(['name', 'SID', 'a']), rng.choice(['value', '31d4d96e407aad42', 'b', '', '']))    # an empty value deletes the cookie
    canon = pair + ''.join('; ' + render_directive(d) for d in free)
    out = []
    for rule, text in spellings(rng, fam, heads, free, 1):
        if text.strip(' \t;') == '' and free:
            continue
        out.append((rule, pair + ('; ' + text.lstrip(' \t') if text.strip() else '')))
    # RFC 6265 section 5.2 steps 2-4: the name-value pair ends at the first ";", and leading or trailing WSP (SP / HTAB) of the
    # name and of the value are removed
    rest = ''.join('; ' + render_directive(d) for d in free)
    name, value = pair.split('=')
    out.append(('pair-ows', pair + rng.choice([' ', '\t', ' \t', '  ']) + (rest or ';')))
    out.append(('pair-ows', '%s%s=%s%s%s' % (name, rng.choice(['', ' ', '\t']), rng.choice([' ', '\t', '']), value, rest)))
    return h.HttpHeaderFieldValueSetCookie, canon, out


CSP_SOURCES = ["'self'", "'none'", '*', 'https:', 'https://example.com', "'unsafe-inline'", 'data:', '*.example.com']
CSP_DIRECTIVES = ['default-src', 'script-src', 'img-src', 'style-src', 'connect-src', 'font-src', 'frame-src', 'media-src', 'object-src']


def csp_cases(rng):
    from cryptoparser.httpx import header as h
    names = rng.sample(CSP_DIRECTIVES, rng.randint(1, 4))
    ds = [(n, rng.sample(CSP_SOURCES, rng.randint(1, 3))) for n in names]
    if rng.random() < 0.3:
        ds.append(('upgrade-insecure-requests', []))

    def one(n, srcs, sp=' '):
        return n + ''.join(sp + s for s in srcs)
    canon = '; '.join(one(n, s) for n, s in ds)
    out = []
    out.append(('name-case', '; '.join(one(rnd_case(rng, n), s) for n, s in ds)))
    out.append(('ows', ws_run(rng, False) + (ws_run(rng, False) + ';' + ws_run(rng, False)).join(one(n, s) for n, s in ds) + ws_run(rng, False)))
    out.append(('ows-tab', (rng.choice(['\t;', ';\t', ' \t; '])).join(one(n, s) for n, s in ds)))
    out.append(('source-list-ows', '; '.join(one(n, s, ' ' * rng.randint(1, 3)) for n, s in ds)))
    out.append(('empty-elements', rng.choice(['', ';', '; ']) + (';' * rng.randint(1, 3) + ' ').join(one(n, s) for n, s in ds) + rng.choice(['', ';', ';;', '; '])))
    if len(ds) > 1:
        perm = list(ds)
        rng.shuffle(perm)
        out.append(('order', '; '.join(one(n, s) for n, s in perm)))
    k = rng.randint(0, len(ds))
    unk = [one(n, s) for n, s in ds]
    unk.insert(k, rng.choice(['x-future-directive', "x-future-src 'self'"]))
    out.append(('unknown-directive', '; '.join(unk)))
    return h.HttpHeaderFieldValueContentSecurityPolicy, canon, out


def nel_cases(rng):
    from cryptoparser.httpx import header as h
    members = [('report_to', rng.choice(['network-errors', 'default'])), ('max_age', rng.choice([1, 86400, 2592000]))]
    if rng.random() < 0.5:
        members.append(('include_subdomains', rng.choice([True, False])))
    if rng.random() < 0.5:
        members.append(('success_fraction', rng.choice([0.1, 0.5, 1.0])))
    if rng.random() < 0.5:
        members.append(('failure_fraction', rng.choice([0.9, 0.25, 1.0])))
    canon = json.dumps(collections.OrderedDict(members))
    out = []
    out.append(('ows', json.dumps(collections.OrderedDict(members), separators=(rng.choice([',', ' , ', ',\t']), rng.choice([':', ' : ', ':  '])))))
    out.append(('ows', ' ' + json.dumps(collections.OrderedDict(members), indent=rng.choice([1, 2])).replace('\n', ' ') + ' '))
    perm = list(members)
    rng.shuffle(perm)
    out.append(('order', json.dumps(collections.OrderedDict(perm))))
    unk = list(members)
    unk.insert(rng.randint(0, len(unk)), ('x_unknown', rng.choice([1, 'a', None, [1, 2], {'a': 1}])))
    out.append(('unknown-directive', json.dumps(collections.OrderedDict(unk))))
    return h.HttpHeaderFieldValueNetworkErrorLogging, canon, out


SPF_MECH = ['all', 'a', 'mx', 'ptr', 'a:example.com', 'mx:mail.example.com', 'ip4:192.0.2.0/24', 'ip4:198.51.100.7', 'ip6:2001:db8::/32',
            'include:_spf.example.com', 'exists:%{ir}.%{l1r+-}._spf.%{d}', 'a/24', 'ptr:example.com']


def spf_cases(rng):
    from cryptoparser.dnsrec import txt as t
    terms = []
    for m in rng.sample(SPF_MECH[1:], rng.randint(0, 4)):
        terms.append(rng.choice(['', '', '+', '-', '~', '?']) + m)
    mods = []
    if rng.random() < 0.4:
        mods.append('redirect=_spf.example.net')
    else:
        # "all" is usually the last mechanism, but nothing in the grammar of RFC 7208 section 12 makes it so: a record may end
        # with any term, a short one ("mx", "a", "ptr") included
        terms.insert(len(terms) if rng.random() < 0.6 else rng.randint(0, len(terms)), rng.choice(['-', '~', '?', '+', '']) + 'all')
    if rng.random() < 0.3:
        mods.append('exp=explain._spf.example.com')
    canon = ' '.join(['v=spf1'] + terms + mods)
    out = []

    def cased(term):
        i = min([term.find(c) for c in ':/=' if c in term] or [len(term)])
        return rnd_case(rng, term[:i]) + term[i:]
    out.append(('name-case', ' '.join(['v=spf1'] + [cased(x) for x in terms + mods])))
    out.append(('name-case', ' '.join([rnd_case(rng, 'v=spf1')] + terms + mods)))
    out.append(('ows', (' ' * rng.randint(1, 3)).join(['v=spf1'] + terms + mods) + ' ' * rng.randint(0, 2)))
    if mods:
        allterms = terms + mods
        # modifiers may appear anywhere; the order of the mechanisms is significant and is kept
        k = rng.randint(0, len(terms))
        out.append(('order', ' '.join(['v=spf1'] + terms[:k] + mods + terms[k:])))
        if terms:
            out.append(('order', ' '.join(['v=spf1'] + mods + terms)))     # the record ends with a mechanism
        del allterms
    unk = terms + mods
    unk.insert(rng.randint(0, len(unk)), rng.choice(['x-unknown=value', 'moo=%{d}']))
    out.append(('unknown-directive', ' '.join(['v=spf1'] + unk)))
    out.append(('unknown-directive', ' '.join(['v=spf1'] + terms + mods + [rng.choice(['k=v', 'x=', 'n=1'])])))    # a short one, last
    # an unknown modifier is kept in the record; its macro-string may be empty (RFC 7208 section 12: macro-string = *( ... )), and
    # the spelling compose writes must still carry the "="
    if rng.random() < 0.3:
        tail = ' ' + rng.choice(['x-future=', 'x-future=%{d}', 'n='])
        canon += tail
        out = [(rule, text.rstrip(' ') + tail) for rule, text in out]
    return t.DnsRecordTxtValueSpf, canon, out


def header_lines(rng):
    """Header lines of every type the library knows in detail, built from harvested canonical values, and a few it does not."""
    from cryptoparser.httpx import header as h
    from cryptoparser.common.utils import get_leaf_classes
    lines = []
    for cls in get_leaf_classes(h.HttpHeaderFieldParsedBase):
        lines.append((cls, cls.get_header_field_name().value.normalized_name))
    return lines
