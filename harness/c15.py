# C15: JA3 of a client hello equals the published algorithm applied to its bytes.
import json

from harness import common, framegen, tlsgen

LEVEL = 'proof'
GREASE1 = (0x0b, 0x2a, 0x49, 0x68, 0x87, 0xa6, 0xc5, 0xe4)


def classify(line):
    """which known deviation of ja3() a client hello can exhibit"""
    ws = line.split(' ')
    suites = [int(x) for x in ws[4].split(',')]
    keys = []
    if any(c in tlsgen.GREASE2 for c in suites):
        keys.append('TlsHandshakeClientHello.ja3/grease-cipher-suite-kept')
    if any(c in (0x5600, 0x00ff) for c in suites):
        keys.append('TlsHandshakeClientHello.ja3/signalling-suite-omitted')
    for e in ([] if ws[6] == '-' else ws[6].split(';')):
        t, h = e.split(':')
        if t == '11' and any(b in GREASE1 for b in bytes.fromhex(h)[1:]):
            keys.append('TlsHandshakeClientHello.ja3/one-byte-grease-point-format-dropped')
    return keys


def run(chk):
    from harness import impl
    rng = chk.rng
    proved = common.proof_stage(chk, 'Props.C15', [], None)
    br = common.build_runner()
    if not br.ok:
        chk.violation('model runner does not build: %s' % br.failed_file, {'error': br.error}, None, False)
        return
    n = 300 if chk.tier == 'quick' else 10000
    hellos = []
    for _ in range(n):
        l, _cmds = tlsgen.client_hello(rng, impl, scsv_at_end=rng.random() < 0.5)
        hellos.append(l)
    enc = common.run_model(hellos)
    lines = []
    src = {}
    for l, o in zip(hellos, enc):
        if o.startswith('OK '):
            for cmd in ('ja3impl', 'ja3ref'):
                lines.append('%s %s' % (cmd, o[3:]))
            src[o[3:]] = l
    model_out = common.run_model(lines)
    seen_values = set()
    nv = 0
    for l, m in zip(lines, model_out):
        h = l.split(' ')[1]
        i = impl.impl_line('ja3impl ' + h)
        seen_values.add(i)
        if l.startswith('ja3impl'):
            if m != i and nv < 5:
                nv += 1
                chk.violation('correspondence Tls/Ja3Model.v vs TlsHandshakeClientHello.ja3() broke: model %s, implementation %s' % (m[:120], i[:120]),
                              {'cmd': l, 'hello': src[h], 'model': m, 'impl': i, 'correspondence': 'ja3_impl'}, None, False)
            # stability: compose and parse again
            again = impl.impl_line('chdec ' + h)
        else:
            if m != i:
                keys = classify(src[h])
                if keys:
                    for k in keys[:1]:
                        chk.violation('ja3() = %s, published algorithm on the bytes = %s' % (i[3:100], m[3:100]), {'cmd': l, 'hello': src[h], 'impl': i, 'reference': m}, k, True)
                elif nv < 5:
                    nv += 1
                    chk.violation('ja3() = %s, published algorithm on the bytes = %s' % (i[3:100], m[3:100]), {'cmd': l, 'hello': src[h], 'impl': i, 'reference': m}, None, True)
    # stability on the implementation: ja3 of parse(compose(parse(bytes)))
    for h in list(src)[:n // 3]:
        o1 = impl.impl_line('ja3impl ' + h)
        try:
            from cryptoparser.tls.subprotocol import TlsHandshakeClientHello
            obj = TlsHandshakeClientHello.parse_exact_size(bytes.fromhex(h))
            before = obj.ja3()
            obj2 = TlsHandshakeClientHello.parse_exact_size(bytes(obj.compose()))
            if obj2.ja3() != before or obj.ja3() != before:
                chk.violation('ja3 changes when the hello is composed and parsed again: %s vs %s' % (before[:80], obj2.ja3()[:80]), {'cmd': 'ja3impl ' + h}, None, True)
        except Exception as e:  # pylint: disable=broad-except
            chk.violation('ja3 stability run failed: %s' % type(e).__name__, {'cmd': 'ja3impl ' + h}, None, True)
    chk.coverage['evaluations'] = len(lines)
    chk.coverage['distinct_nontrivial'] = len(seen_values)
    chk.coverage['traces_validated_against_impl'] = len(lines)
    chk.coverage['rule'] = ('client hellos generated from the enum tables (known, unknown, GREASE and signalling suites in any position, ordered '
                            'sets of typed / unknown / GREASE extensions, with and without supported_groups and ec_point_formats), encoded by the '
                            'Coq specification; hello.ja3() compared with the Coq model of the method and with the published algorithm run by '
                            'the Coq reference on the bytes; stability under compose + parse; non-trivial = distinct JA3 strings seen')
    for i in range(0, len(lines), max(1, len(lines) // 8)):
        chk.sample({'cmd': lines[i][:100], 'outcome': model_out[i][:140]})
    chk.assumptions += ['MD5 of the JA3 string is outside the claim (the library returns the string)']


def replay(path):
    from harness import impl
    with open(path) as f:
        r = json.load(f)
    if 'cmd' not in r:
        print(json.dumps(r, indent=1)[:3000])
        return 1
    h = r['cmd'].split(' ')[1]
    i = impl.impl_line('ja3impl ' + h)
    ref = common.run_model(['ja3ref ' + h])[0] if common.build_runner().ok else r.get('reference')
    print('ja3() = %s\nreference = %s' % (i, ref))
    print('replay: property %s' % ('holds on this input' if i == ref else 'FAILS on this input'))
    return 0 if i == ref else 1
