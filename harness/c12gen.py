# generator of vector edit histories (shared by the C12 check and its replay)
from harness import gen_tables

SIZES = {'TlsSessionIdVector': [1], 'TlsRenegotiatedConnection': [1], 'TlsClientCertificateTypeVector': [1],
         'TlsCipherSuiteVector': [2], 'TlsEllipticCurveVector': [2], 'TlsCompressionMethodVector': [1],
         'TlsCertificateStatusRequestResponderIdList': [3, 4, 5, 9, 40, 300, 3000], 'SshKexAlgorithmVector': [1, 2, 3, 7, 30],
         'TlsDistinguishedNameVector': [3, 4, 6, 11, 50, 700, 5000], 'TlsProtocolNameList': [3, 4, 5, 6, 7, 9, 10, 12, 19]}


# classes whose items are enum members: the number of distinct members per encoded size (tags beyond it would alias)
TAGS = {'TlsProtocolNameList': {3: 1, 4: 2, 5: 3, 6: 3, 7: 4, 9: 5, 10: 1, 12: 3, 19: 1}}


def rnd_tag(rng, cls, size):
    return rng.randrange(TAGS[cls][size]) if cls in TAGS else rng.randrange(24)


def fill(rng, cls, total):
    """Items of unequal sizes whose sizes add up to exactly `total` (as far as the available sizes allow)."""
    sizes = sorted(SIZES[cls], reverse=True)
    out = []
    left = total
    while left >= sizes[-1]:
        fit = [s for s in sizes if s <= left]
        s = fit[0] if rng.random() < 0.7 else rng.choice(fit)
        out.append('%d:%d' % (rnd_tag(rng, cls, s), s))
        left -= s
    rng.shuffle(out)
    return out


def rnd_item(rng, cls):
    size = rng.choice(SIZES[cls])
    return '%d:%d' % (rnd_tag(rng, cls, size), size)


def rnd_items(rng, cls, n):
    return ','.join(rnd_item(rng, cls) for _ in range(n)) or '-'


def rnd_index(rng, n):
    return rng.choice([0, -1, n - 1, n, -n, -n - 1, n + 1, rng.randint(-n - 2, n + 2)])


def rnd_opt(rng, n):
    return rng.choice(['_', str(rnd_index(rng, n))])


def history(rng, cls, max_ops):
    d = gen_tables.array_classes()[cls]
    avg = sum(SIZES[cls]) / len(SIZES[cls])
    target = rng.choice([0, 1, 2, 3, 5])
    r = rng.random()
    if r < 0.35 and d['max'] < 70000:        # start near the ceiling
        target = max(0, int(d['max'] / avg) - rng.choice([0, 0, 1, 2]))
    elif r < 0.6:                              # start near the floor
        target = int(d['min'] / avg) + rng.choice([0, 0, 1])
    target = min(target, 40 if cls == 'TlsCertificateStatusRequestResponderIdList' else 400)
    init = rnd_items(rng, cls, target)
    n = target
    ops = []
    if len(SIZES[cls]) > 1 and d['max'] < 70000 and rng.random() < 0.25:
        # unequal items that fill the vector to (or just below) its ceiling: whole-vector edits that keep the size must succeed
        its = fill(rng, cls, d['max'] - rng.choice([0, 0, 1, 2, 7]))
        init, n = ','.join(its), len(its)
        ops.append(rng.choice(['rev', 'rev', 'ssl/_/_/' + ','.join(reversed(its)), 'set/0/' + its[0], 'pop/_']))
    for _ in range(rng.randint(1, max_ops)):
        k = rng.choice(['app', 'app', 'ins', 'del', 'set', 'dsl', 'ssl', 'ext', 'iadd', 'pop', 'pop', 'rem', 'rev', 'clr'])
        if k == 'app':
            ops.append('app/' + rnd_item(rng, cls))
        elif k == 'ins':
            ops.append('ins/%d/%s' % (rnd_index(rng, n), rnd_item(rng, cls)))
        elif k == 'del':
            ops.append('del/%d' % rnd_index(rng, n))
        elif k == 'set':
            ops.append('set/%d/%s' % (rnd_index(rng, n), rnd_item(rng, cls)))
        elif k == 'dsl':
            ops.append('dsl/%s/%s' % (rnd_opt(rng, n), rnd_opt(rng, n)))
        elif k == 'ssl':
            ops.append('ssl/%s/%s/%s' % (rnd_opt(rng, n), rnd_opt(rng, n), rnd_items(rng, cls, rng.choice([0, 1, 2, 4]))))
        elif k in ('ext', 'iadd'):
            ops.append('%s/%s' % (k, rnd_items(rng, cls, rng.choice([0, 1, 2, 3, 40]))))
        elif k == 'pop':
            ops.append('pop/%s' % rnd_opt(rng, n))
        elif k == 'rem':
            ops.append('rem/' + rnd_item(rng, cls))
        else:
            ops.append(k)
    return 'vec %s %s %s' % (cls, init, ';'.join(ops) or '-')


def stepped_history(rng, cls, max_ops):
    """Histories with extended slices (a step other than 1, negative steps, step 0): not part of the Coq model's operation
    language; the implementation is compared with the plain-list semantics and the size invariants only."""
    n = rng.choice([0, 1, 2, 3, 5, 8, 12])
    d = gen_tables.array_classes()[cls]
    avg = sum(SIZES[cls]) / len(SIZES[cls])
    n = max(n, int(d['min'] / avg) + rng.choice([0, 1, 2]))
    init = rnd_items(rng, cls, n)
    ops = []
    for _ in range(rng.randint(1, max_ops)):
        k = rng.choice(['dst', 'dst', 'sst', 'sst', 'app', 'pop'])
        step = rng.choice(['2', '-1', '-2', '3', '_', '1', '0', '-3'])
        if k == 'dst':
            ops.append('dst/%s/%s/%s' % (rnd_opt(rng, n), rnd_opt(rng, n), step))
        elif k == 'sst':
            ops.append('sst/%s/%s/%s/%s' % (rnd_opt(rng, n), rnd_opt(rng, n), step, rnd_items(rng, cls, rng.choice([0, 1, 2, 3, (n + 1) // 2, n]))))
        elif k == 'app':
            ops.append('app/' + rnd_item(rng, cls))
        else:
            ops.append('pop/_')
    return 'vec %s %s %s' % (cls, init, ';'.join(ops))
