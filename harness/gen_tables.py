# Translator for the data the model is parameterised by: reads the live library in REPO and writes coq/gen/*.v.
# Fail-closed: a missing attribute is an exception, reported by the caller as a broken tie.
import functools
import json
import os

from harness import common


def coq_string(s):
    return '"' + s.replace('"', '""') + '"'


@functools.lru_cache(maxsize=None)
def gen_versions():
    from cryptodatahub.tls.version import TlsVersion
    rows = []
    for name, member in TlsVersion.__members__.items():
        rows.append((name, member.name, int(member.value.code)))
    return rows


FLAG_CLASSES = [
    ('cryptoparser.dnsrec.record', 'DnsSecFlag'),
    ('cryptoparser.tls.mysql', 'MySQLCapability'),
    ('cryptoparser.tls.mysql', 'MySQLStatusFlag'),
    ('cryptoparser.tls.rdp', 'RDPProtocol'),
    ('cryptoparser.tls.rdp', 'RDPNegotiationRequestFlags'),
    ('cryptoparser.tls.rdp', 'RDPNegotiationResponseFlags'),
]


@functools.lru_cache(maxsize=None)
def gen_flags():
    import importlib
    res = []
    for mod, name in FLAG_CLASSES:
        cls = getattr(importlib.import_module(mod), name)
        res.append((name, [(n, int(m)) for n, m in cls.__members__.items()]))
    return res


@functools.lru_cache(maxsize=None)
def all_modules():
    import importlib
    import pkgutil
    import cryptoparser
    return [importlib.import_module(m.name) for m in pkgutil.walk_packages(cryptoparser.__path__, 'cryptoparser.')]


def all_subclasses(c):
    r = []
    for s in c.__subclasses__():
        r.append(s)
        r += all_subclasses(s)
    seen = []
    for x in r:
        if x not in seen:
            seen.append(x)
    return seen


@functools.lru_cache(maxsize=None)
def enum_factories():
    """Concrete NByteEnumParsable factories: name -> (class, width, enum class)."""
    from cryptoparser.common import base
    all_modules()
    res = {}
    for c in all_subclasses(base.NByteEnumParsable):
        if c.__module__ == 'cryptoparser.common.base' or c.__module__.startswith('test'):
            continue
        res[c.__name__] = (c, int(c.get_byte_num()), c.get_enum_class())
    return dict(sorted(res.items()))


@functools.lru_cache(maxsize=None)
def enum_vectors():
    """Vector classes whose items are coded enum members with an optional TlsInvalidType fallback."""
    from cryptoparser.common import base
    from cryptoparser.tls.version import TlsProtocolVersion, TlsVersionFactory
    from cryptoparser.tls import grease
    all_modules()
    res = {}
    for c in all_subclasses(base.ArrayBase):
        if c.__module__.startswith('test'):
            continue
        try:
            p = c.get_param()
        except (NotImplementedError, TypeError):
            continue
        item_class = getattr(p, 'item_class', None)
        if isinstance(p, base.VectorParamEnumCodeNumeric):
            factory = item_class
        elif item_class is TlsProtocolVersion:
            factory = TlsVersionFactory
        else:
            continue
        fb = p.fallback_class
        if fb is None:
            g = 0
        elif fb is grease.TlsInvalidTypeOneByte:
            g = 1
        elif fb is grease.TlsInvalidTypeTwoByte:
            g = 2
        else:
            raise RuntimeError('unexpected fallback class %r for %s' % (fb, c.__name__))
        res[c.__name__] = dict(cls=c, min=int(p.min_byte_num), max=int(p.max_byte_num), num=int(p.item_num_size),
                               factory=factory.__name__, grease=g, w=int(factory.get_byte_num()),
                               item_is_version=item_class is TlsProtocolVersion)
    return dict(sorted(res.items()))


@functools.lru_cache(maxsize=None)
def opaque_enum_factories():
    from cryptoparser.common import base
    all_modules()
    res = {}
    for c in all_subclasses(base.OpaqueEnumParsable):
        if c.__module__.startswith('test'):
            continue
        p = c.get_param()
        res[c.__name__] = dict(cls=c, enum=c.get_enum_class(), min=int(p.min_byte_num), max=int(p.max_byte_num),
                               num=int(p.item_num_size), encoding=c.get_encoding())
    return dict(sorted(res.items()))


@functools.lru_cache(maxsize=None)
def ssh_name_enums():
    """Item classes of the SSH name-list vectors (string-coded cryptodatahub enums)."""
    from cryptoparser.common import base
    all_modules()
    res = {}
    for c in all_subclasses(base.VectorString):
        if c.__module__.startswith('test'):
            continue
        try:
            p = c.get_param()
        except (NotImplementedError, TypeError):
            continue
        ic = p.item_class
        import enum
        if isinstance(ic, type) and issubclass(ic, enum.Enum):
            res[c.__name__] = dict(cls=c, enum=ic, min=int(p.min_byte_num), max=int(p.max_byte_num), num=int(p.item_num_size),
                                   separator=p.separator, fallback=getattr(p.fallback_class, '__name__', None))
    return dict(sorted(res.items()))


@functools.lru_cache(maxsize=None)
def array_classes():
    """Every concrete ArrayBase subclass of the library with its vector parameters."""
    from cryptoparser.common import base
    all_modules()
    res = {}
    for c in all_subclasses(base.ArrayBase):
        if c.__module__.startswith('test') or c.__module__ == 'cryptoparser.common.base':
            continue
        try:
            p = c.get_param()
        except (NotImplementedError, TypeError):
            continue
        kind = [k.__name__ for k in (base.Vector, base.VectorString, base.VectorEnumCodeNumeric, base.VectorEnumCodeString,
                                     base.VectorParsableDerived, base.VectorParsable, base.Opaque, base.ListParsable)
                if issubclass(c, k)]
        res[c.__name__] = dict(cls=c, kind=(kind[0] if kind else 'ArrayBase'), min=int(p.min_byte_num), max=int(p.max_byte_num),
                               num=int(p.item_num_size), item_size=int(getattr(p, 'item_size', 0) or 0))
    return dict(sorted(res.items()))


@functools.lru_cache(maxsize=None)
@functools.lru_cache(maxsize=None)
def default_sites():
    """(class, field, kind) for every attrs field whose default is an object: 1 = attr.Factory (fresh per instance),
    2 = rebuilt by the field converter, 3 = ONE mutable object shared by all instances, 4 = a validator object passed as
    the default by mistake, 5 = immutable object (type, enum member, tuple, ...)."""
    import collections
    import enum
    import attr
    res = []
    seen = set()
    mutable = (list, bytearray, dict, set, collections.OrderedDict)
    for m in all_modules():
        for n, c in sorted(vars(m).items()):
            if not (isinstance(c, type) and attr.has(c) and c.__module__ == m.__name__) or c in seen:
                continue
            seen.add(c)
            for f in attr.fields(c):
                d = f.default
                if d is attr.NOTHING or d is None or isinstance(d, (int, str, bytes, bool, float, tuple, frozenset, enum.Enum)):
                    continue
                if isinstance(d, attr.Factory):
                    kind = 1
                elif isinstance(d, type):
                    kind = 5
                elif type(d).__module__.startswith('attr'):
                    kind = 4
                else:
                    rebuilt = False
                    if f.converter is not None:
                        try:
                            rebuilt = f.converter(d) is not d
                        except Exception:  # pylint: disable=broad-except
                            rebuilt = False
                    is_mutable = isinstance(d, mutable) or hasattr(d, '__dict__')
                    kind = 2 if rebuilt else (3 if is_mutable else 5)
                res.append((c.__module__ + '.' + c.__name__, f.name, kind))
    return res


def local_int_enums():
    import enum
    res = []
    for m in all_modules():
        for n, c in sorted(vars(m).items()):
            if isinstance(c, type) and issubclass(c, enum.IntEnum) and c.__module__ == m.__name__:
                res.append((c.__name__, [(k, int(v)) for k, v in c.__members__.items()]))
    return res


@functools.lru_cache(maxsize=None)
def field_schemas():
    """Every attrs-decorated FieldValueMultiple subclass: (class name, separator, has extension attribute,
    [(attribute, canonical name, mode, required)]) with mode 0 = exact, 1 = case-insensitive, 2 = any name, as observed by
    calling the component class's own _check_name."""
    import attr
    from cryptoparser.common.exception import InvalidType
    from cryptoparser.common.field import FieldValueMultiple
    all_modules()
    res = []
    for cls in sorted(all_subclasses(FieldValueMultiple), key=lambda c: c.__name__):
        if not attr.has(cls):
            continue
        try:
            sep = cls._get_header_value_list_class().get_separator()
        except NotImplementedError:
            continue
        fields = attr.fields_dict(cls)
        comps = cls._get_attr_to_validator_type_dict(fields)
        rows = []
        has_ext = False
        for name, comp in comps.items():
            if fields[name].metadata.get('extension', False):
                has_ext = True
                continue
            canon = comp.get_canonical_name()

            def accepts(n, comp=comp):
                try:
                    comp._check_name(n)
                    return True
                except InvalidType:
                    return False
            if accepts('zz' + canon + 'zz'):
                mode = 2
            elif all(accepts(v) for v in (canon, canon.swapcase(), canon.upper(), canon.lower())):
                mode = 1
            else:
                mode = 0
            rows.append((name, canon, mode, fields[name].default is attr.NOTHING))
        res.append((cls.__name__, sep, has_ext, rows))
    return res


def emit_tables():
    common.use_repo()
    out = {}
    lines = ['(* GENERATED by harness/gen_tables.py from the live library; do not edit *)',
             'From Coq Require Import ZArith List String.', 'Import ListNotations.', 'Local Open Scope Z_scope.',
             'Local Open Scope string_scope.', '']
    rows = gen_versions()
    out['tls_version_table'] = rows
    lines.append('(* cryptodatahub.tls.version.TlsVersion.__members__: (member name, canonical name, code) *)')
    lines.append('Definition tls_version_table : list (string * string * Z) := [')
    lines.append(';\n'.join('  (%s, %s, %d)' % (coq_string(a), coq_string(b), c) for a, b, c in rows))
    lines.append('].')
    lines.append('Definition tls_version_codes : list Z := map snd tls_version_table.')
    flags = gen_flags()
    out['flag_tables'] = flags
    lines.append('')
    lines.append('(* IntEnum classes used with parse_numeric_flags / compose_numeric_flags: member values in definition order *)')
    from cryptodatahub.tls.algorithm import TlsGreaseOneByte, TlsGreaseTwoByte
    facs = enum_factories()
    out['enum_tables'] = {n: {'width': w, 'members': [(k, int(v.value.code)) for k, v in e.__members__.items()],
                              'canonical': [m.name for m in e]} for n, (c, w, e) in facs.items()}
    lines.append('(* every NByteEnumParsable factory: (factory name, (code width, codes of list(enum_class) in order)) *)')
    lines.append('Definition enum_tables : list (string * (Z * list Z)) := [')
    lines.append(';\n'.join('  (%s, (%d, [%s]))' % (coq_string(n), w, '; '.join(str(int(m.value.code)) for m in e))
                            for n, (c, w, e) in facs.items()))
    lines.append('].')
    lines.append('(* the same tables over __members__ (aliases visible): (factory name, [(member name, code)]) *)')
    lines.append('Definition enum_members : list (string * list (string * Z)) := [')
    lines.append(';\n'.join('  (%s, [%s])' % (coq_string(n), '; '.join('(%s, %d)' % (coq_string(k), int(v.value.code))
                                                                        for k, v in e.__members__.items()))
                            for n, (c, w, e) in facs.items()))
    lines.append('].')
    ints = local_int_enums()
    out['int_enums'] = ints
    lines.append('(* every IntEnum declared in cryptoparser, over __members__ (aliases visible) *)')
    lines.append('Definition int_enum_members : list (string * list (string * Z)) := [')
    lines.append(';\n'.join('  (%s, [%s])' % (coq_string(n), '; '.join('(%s, %d)' % (coq_string(k), v) for k, v in ms))
                            for n, ms in ints))
    lines.append('].')
    lines.append('Definition grease_one_byte : list Z := [%s].' % '; '.join(str(int(m.value.code)) for m in TlsGreaseOneByte))
    lines.append('Definition grease_two_byte : list Z := [%s].' % '; '.join(str(int(m.value.code)) for m in TlsGreaseTwoByte))
    vecs = enum_vectors()
    out['enum_vectors'] = {n: {k: v for k, v in d.items() if k != 'cls'} for n, d in vecs.items()}
    lines.append('(* vectors of coded enum members: (class name, ((min_byte_num, max_byte_num, item_num_size), (factory, grease fallback width or 0, item width))) *)')
    lines.append('Definition enum_vectors : list (string * ((Z * Z * Z) * (string * Z * Z))) := [')
    lines.append(';\n'.join('  (%s, ((%d, %d, %d), (%s, %d, %d)))' % (coq_string(n), d['min'], d['max'], d['num'],
                                                                       coq_string(d['factory']), d['grease'], d['w'])
                            for n, d in vecs.items()))
    lines.append('].')
    ops = opaque_enum_factories()
    out['opaque_enums'] = {n: {'min': d['min'], 'max': d['max'], 'num': d['num'], 'encoding': d['encoding'],
                               'members': [(k, v.value.code) for k, v in d['enum'].__members__.items()]} for n, d in ops.items()}
    lines.append('(* OpaqueEnumParsable factories: (name, ((min, max, item_num_size), hex of the encoded codes of list(enum) in order)) *)')
    lines.append('Definition opaque_enums : list (string * ((Z * Z * Z) * list string)) := [')
    lines.append(';\n'.join('  (%s, ((%d, %d, %d), [%s]))' % (coq_string(n), d['min'], d['max'], d['num'], '; '.join(
        coq_string(m.value.code.encode(d['encoding']).hex()) for m in d['enum'])) for n, d in ops.items()))
    lines.append('].')
    lines.append('Definition opaque_enum_members : list (string * list (string * string)) := [')
    lines.append(';\n'.join('  (%s, [%s])' % (coq_string(n), '; '.join('(%s, %s)' % (coq_string(k), coq_string(v.value.code.encode(d['encoding']).hex()))
                                                                        for k, v in d['enum'].__members__.items()))
                            for n, d in ops.items()))
    lines.append('].')
    names = ssh_name_enums()
    out['ssh_name_lists'] = {n: {'members': [(k, v.value.code) for k, v in d['enum'].__members__.items()], 'separator': d['separator'],
                                 'fallback': d['fallback'], 'min': d['min'], 'max': d['max'], 'num': d['num']} for n, d in names.items()}
    lines.append('(* SSH name-list vectors: (vector class, ((min, max, item_num_size), [(member name, hex of the ascii code)])) over __members__ *)')
    lines.append('Definition ssh_name_lists : list (string * ((Z * Z * Z) * list (string * string))) := [')
    lines.append(';\n'.join('  (%s, ((%d, %d, %d), [%s]))' % (coq_string(n), d['min'], d['max'], d['num'], '; '.join(
        '(%s, %s)' % (coq_string(k), coq_string(v.value.code.encode('ascii').hex())) for k, v in d['enum'].__members__.items()))
        for n, d in names.items()))
    lines.append('].')
    arrs = array_classes()
    out['array_params'] = {n: {k: v for k, v in d.items() if k != 'cls'} for n, d in arrs.items()}
    lines.append('(* every ArrayBase subclass: (class, (kind, (min_byte_num, max_byte_num, item_num_size as computed by the library, item_size or 0))) *)')
    lines.append('Definition array_params : list (string * (string * (Z * Z * Z * Z))) := [')
    lines.append(';\n'.join('  (%s, (%s, (%d, %d, %d, %d)))' % (coq_string(n), coq_string(d['kind']), d['min'], d['max'], d['num'], d['item_size'])
                            for n, d in arrs.items()))
    lines.append('].')
    sites = default_sites()
    out['default_sites'] = sites
    lines.append('(* attrs fields whose default is an object: (class, field, kind) with kind 1 = attr.Factory, 2 = rebuilt by the converter,')
    lines.append('   3 = one mutable object shared by all instances, 4 = a validator object used as default, 5 = immutable object *)')
    lines.append('Definition default_sites : list (string * string * Z) := [')
    lines.append(';\n'.join('  (%s, %s, %d)' % (coq_string(c), coq_string(f), k) for c, f, k in sites))
    lines.append('].')
    schemas = field_schemas()
    out['field_schemas'] = [[c, sep, ext, [list(r) for r in rows]] for c, sep, ext, rows in schemas]
    lines.append('(* FieldValueMultiple subclasses: (class, (separator hex, has extension attribute, [(canonical name hex, mode, required)]))')
    lines.append('   with mode 0 = exact, 1 = case-insensitive, 2 = any name, observed from the component class\'s _check_name *)')
    lines.append('Definition field_schemas : list (string * (string * bool * list (string * Z * bool))) := [')
    lines.append(';\n'.join('  (%s, (%s, %s, [%s]))' % (
        coq_string(c), coq_string(sep.encode('ascii').hex()), 'true' if ext else 'false',
        '; '.join('(%s, %d, %s)' % (coq_string(canon.encode('ascii').hex()), mode, 'true' if req else 'false')
                  for _, canon, mode, req in rows)) for c, sep, ext, rows in schemas))
    lines.append('].')
    lines.append('')
    lines.append('Definition flag_tables : list (string * list Z) := [')
    lines.append(';\n'.join('  (%s, [%s])' % (coq_string(n), '; '.join(str(v) for _, v in ms)) for n, ms in flags))
    lines.append('].')
    return '\n'.join(lines) + '\n', out


def main():
    os.makedirs(common.GEN, exist_ok=True)
    text, data = emit_tables()
    changed = common.write_if_changed(os.path.join(common.GEN, 'Tables.v'), text)
    common.write_if_changed(os.path.join(common.GEN, 'tables.json'), json.dumps(data, indent=1, sort_keys=True))
    return changed


if __name__ == '__main__':
    main()
