# C14: JSON and Markdown output is always well-formed, deterministic and faithful.
import collections
import enum
import ipaddress
import json
import os
import subprocess

from harness import common, rt, sweep

LEVEL = 'proof'
PLAIN = set(range(32, 127)) - {ord('"'), ord('\\')}


class Unsupported(Exception):
    pass


def plain(s):
    if not all(ord(c) in PLAIN for c in s):
        raise Unsupported('text')
    return common.coq_str(s)


def to_pyval(obj, depth=0):
    """the Python value as a Coq term of type pyval, walking exactly what Serializable._json_traverse walks"""
    import attr
    from cryptodatahub.common.types import CryptoDataParamsBase
    if depth > 12:
        raise Unsupported('depth')
    if isinstance(obj, enum.Enum):
        params = isinstance(obj.value, CryptoDataParamsBase)
        return '(PEnum %s %s %s)' % (plain(obj.name), 'true' if params else 'false', 'PNone' if params else to_pyval(obj.value, depth + 1))
    if hasattr(obj, '_asdict'):
        return '(PAsDict %s)' % to_pyval(obj._asdict(), depth + 1)  # pylint: disable=protected-access
    if isinstance(obj, dict):
        ordered = isinstance(obj, collections.OrderedDict)
        return '(PDict %s [%s])' % ('true' if ordered else 'false', '; '.join('(%s, %s)' % (to_pyval(k, depth + 1), to_pyval(v, depth + 1)) for k, v in obj.items()))
    if attr.has(type(obj)):
        fields = [(name, getattr(obj, name)) for name in attr.fields_dict(type(obj))]
        return '(PAttrs [%s])' % '; '.join('(%s, %s)' % (plain(n), to_pyval(v, depth + 1)) for n, v in fields)
    if isinstance(obj, (ipaddress.IPv4Network, ipaddress.IPv6Network)):
        return '(POther %s)' % plain(str(obj))      # rendered as text, like every value that is not a container
    if hasattr(obj, '__dict__') and not isinstance(obj, type):
        raise Unsupported('plain object')
    if isinstance(obj, (list, tuple)):
        return '(PList [%s])' % '; '.join(to_pyval(x, depth + 1) for x in obj)
    if isinstance(obj, (set, frozenset)):
        return '(PSet [%s])' % '; '.join(to_pyval(x, depth + 1) for x in obj)
    if obj is None:
        return 'PNone'
    if isinstance(obj, bool):
        return '(PBool %s)' % ('true' if obj else 'false')
    if isinstance(obj, int):
        return '(PInt %s)' % common.coq_z(obj)
    if isinstance(obj, float):
        raise Unsupported('float')
    if isinstance(obj, str):
        return '(PStr %s)' % plain(obj)
    if isinstance(obj, (bytes, bytearray)):
        return '(PBytes (bytes_of_hex %s))' % common.coq_str(bytes(obj).hex())
    return '(POther %s)' % plain(str(obj))


def canonical(js):
    return json.dumps(json.loads(js, object_pairs_hook=collections.OrderedDict), separators=(',', ':'))


HOSTILE = [b'a{b}', b'{0}', b'{', b'}', b'{result}', b'{{x}}', b'%s', b'%(x)s', b'%', b'a`b', b'a*b_c', b'a\\b', b'a|b', b'#x', b'<b>', b'&amp;']


def hostile_texts(rng, v, n):
    """Text inputs in which a name or value is replaced by characters that mean something to a formatter (str.format fields,
    %-conversions, Markdown and HTML markup): a report generator must print them, not interpret them."""
    import re
    if not v or not all(32 <= c < 127 or c in (9, 10, 13) for c in v):
        return []
    runs = [m.span() for m in re.finditer(rb'[A-Za-z0-9_-]+', v)]
    out = []
    for a, b in rng.sample(runs, min(len(runs), n)):
        out.append(v[:a] + rng.choice(HOSTILE) + v[b:])
    if b';' in v:
        out.append(v + b'; ' + rng.choice(HOSTILE) + b'=' + rng.choice(HOSTILE))
    return out


def x509_vectors():
    """X.509 host keys around a committed public certificate that carries a signed certificate timestamp list (the
    certificates of the library's own vectors carry none): {class name: [bytes]}"""
    import struct
    der = bytes.fromhex(json.load(open(os.path.join(os.path.dirname(os.path.abspath(__file__)), 'corpus_x509.json')))['der'])

    def s(b):
        return struct.pack('!I', len(b)) + b
    return {
        'cryptoparser.ssh.key.SshX509Certificate': [s(b'x509v3-sign-rsa-sha1') + s(der)],
        'cryptoparser.ssh.key.SshX509CertificateChain': [s(b'x509v3-ssh-rsa') + struct.pack('!I', 1) + s(der) + struct.pack('!I', 0)],
    }


def objects(rng, per_vector):
    vectors = sweep.library_vectors()
    extra = x509_vectors()
    for cls in sorted(vectors, key=sweep.qualname):
        name = sweep.qualname(cls)
        for v in list(vectors[cls]) + extra.pop(name, []):
            # directed malformations too (numbers at the ends of their range, members of other types; inside DER: identifiers that
            # are not known, numbers that are not positive, timestamp list lengths): what the parser still accepts must still be
            # serialisable
            for b in [v] + [sweep.mutate(rng, v) for _ in range(per_vector)] + hostile_texts(rng, v, 2 + per_vector) + sweep.directed(rng, v, (), 8 * per_vector, 4) \
                    + sweep.der_directed(v, 16 if per_vector == 1 else 64):
                try:
                    obj, _ = cls.parse_immutable(b)
                except Exception:  # pylint: disable=broad-except
                    continue
                yield cls, name, b, obj


def bytes_variant(obj):
    """A deep copy of an attrs object in which every bytearray (at any depth of attrs fields, lists and tuples) is
    replaced by the equal bytes; None when nothing was replaced."""
    import copy
    import attr
    changed = [False]

    def conv(v, depth=0):
        if depth > 6:
            return v
        if isinstance(v, bytearray):
            changed[0] = True
            return bytes(v)
        if isinstance(v, list):
            return [conv(x, depth + 1) for x in v]
        if isinstance(v, tuple):
            return tuple(conv(x, depth + 1) for x in v)
        if attr.has(type(v)) and not isinstance(v, type):
            c = copy.copy(v)
            for f in attr.fields(type(v)):
                try:
                    object.__setattr__(c, f.name, conv(getattr(v, f.name), depth + 1))
                except Exception:  # pylint: disable=broad-except
                    pass
            return c
        return v
    res = conv(copy.deepcopy(obj))
    return res if changed[0] else None


def render(obj, fn):
    """as_json / as_markdown of a Serializable; for the classes that are serialised only inside a report (SSH host keys: they have
    _asdict but are not Serializable) the same two renderings through the library's JSON hook and Markdown dispatcher"""
    if hasattr(obj, fn):
        return getattr(obj, fn)()
    from cryptoparser.common.base import Serializable
    if fn == 'as_json':
        return json.dumps(obj)
    return Serializable._markdown_result(obj)[1]  # pylint: disable=protected-access


def strict_loads(text):
    """RFC 8259 JSON: the constants NaN / Infinity that Python's encoder writes for non-finite floats are not JSON"""
    def refuse(c):
        raise ValueError('non-JSON constant %s' % c)
    return json.loads(text, parse_constant=refuse)


def foreign_values(obj, depth=0, seen=None):
    """the values the JSON traversal renders from their __dict__ (objects of other libraries: neither attrs classes, nor
    named tuples, enumerations or containers), at any depth of an object"""
    import attr
    seen = set() if seen is None else seen
    if depth > 8 or id(obj) in seen or isinstance(obj, (type, enum.Enum, str, bytes, bytearray, int, float)) or obj is None:
        return
    seen.add(id(obj))
    if hasattr(obj, '_asdict') and not attr.has(type(obj)):
        try:
            obj = obj._asdict()  # pylint: disable=protected-access
        except Exception:  # pylint: disable=broad-except
            return
    if isinstance(obj, dict):
        for v in obj.values():
            yield from foreign_values(v, depth + 1, seen)
    elif attr.has(type(obj)):
        for f in attr.fields(type(obj)):
            try:
                yield from foreign_values(getattr(obj, f.name), depth + 1, seen)
            except Exception:  # pylint: disable=broad-except
                pass
    elif isinstance(obj, (list, tuple, set, frozenset)):
        for v in obj:
            yield from foreign_values(v, depth + 1, seen)
    elif hasattr(obj, '__dict__'):
        yield obj


def observe(value):
    """read every public data attribute of a value (properties included): reading is not a change of the object"""
    for a in dir(value):
        if a.startswith('_'):
            continue
        try:
            getattr(value, a)
        except Exception:  # pylint: disable=broad-except
            pass


def serialisation_failures(cls, name, b, obj):
    if not hasattr(obj, 'as_json') and hasattr(obj, '_asdict') and hasattr(obj, 'compose'):
        # report-only classes: rendered twice, and compared with the rendering of the equal parse-compose round trip
        for fn in ('as_json', 'as_markdown'):
            try:
                o2, _ = cls.parse_immutable(bytes(obj.compose()))     # taken first: rendering must not be able to disturb it
                if not rt.same(obj, o2):
                    o2 = None
            except Exception:  # pylint: disable=broad-except  (round trips are C01 / C05's subject)
                o2 = None
            try:
                out = render(obj, fn)
                if render(obj, fn) != out:
                    yield fn + '-unstable', '%s (through the report serialiser) gives a different result when called again' % fn
                if o2 is not None and render(o2, fn) != out:
                    yield fn + '-roundtrip', '%s differs between an object and its parse-compose round trip' % fn
            except Exception as e:  # pylint: disable=broad-except
                yield fn, '%s (through the report serialiser) fails with %s: %s' % (fn, type(e).__name__, str(e)[:60])
        return
    for fn in ('as_json', 'as_markdown'):
        if not hasattr(obj, fn):
            continue
        try:
            out = getattr(obj, fn)()
        except Exception as e:  # pylint: disable=broad-except
            yield fn, '%s fails with %s: %s' % (fn, type(e).__name__, str(e)[:60])
            continue
        if not isinstance(out, str):
            yield fn + '-not-text', '%s returns a %s instead of text' % (fn, type(out).__name__)
            continue
        if fn == 'as_json':
            try:
                json.loads(out)
            except ValueError:
                yield fn + '-malformed', 'as_json output is not accepted by json.loads'
            else:
                try:
                    strict_loads(out)
                except ValueError as e:
                    yield fn + '-not-rfc8259', 'as_json output is accepted only by a lenient parser (%s)' % e
        try:
            if getattr(obj, fn)() != out:
                yield fn + '-unstable', '%s gives a different result when called again' % fn
        except Exception:  # pylint: disable=broad-except
            pass
    # an equal object holding bytes where the parser stores bytearray (what a caller constructing the object writes)
    if hasattr(obj, 'as_json'):
        try:
            o3 = bytes_variant(obj)
            if o3 is not None and o3 == obj:
                for fn in ('as_json', 'as_markdown'):
                    if getattr(o3, fn)() != getattr(obj, fn)():
                        yield fn + '-bytes-vs-bytearray', '%s differs between equal objects holding the same octets as bytes and as bytearray' % fn
        except Exception:  # pylint: disable=broad-except
            pass
    if hasattr(obj, 'compose') and hasattr(obj, 'as_json'):
        try:
            o2, _ = cls.parse_immutable(bytes(obj.compose()))
            if rt.same(obj, o2):
                for fn in ('as_json', 'as_markdown'):
                    if getattr(o2, fn)() != getattr(obj, fn)():
                        yield fn + '-roundtrip', '%s differs between an object and its parse-compose round trip' % fn
        except Exception:  # pylint: disable=broad-except
            pass

    # an equal object whose foreign field values (ipaddress networks, URLs, ...) have been looked at by the caller
    if hasattr(obj, 'as_json'):
        try:
            before = [getattr(obj, fn)() for fn in ('as_json', 'as_markdown')]
            foreign = list(foreign_values(obj))
            for v in foreign:
                observe(v)
            if foreign:
                for fn, was in zip(('as_json', 'as_markdown'), before):
                    if getattr(obj, fn)() != was:
                        yield fn + '-observer-dependent', ('%s changes after the public attributes of a field value (%s) were read: '
                                                           'equal objects serialise differently' % (fn, type(foreign[0]).__name__))
        except Exception:  # pylint: disable=broad-except
            pass

def faithfulness_failures():
    """Renderings that must keep what they render apart: different durations give different Markdown and JSON, and every term
    of an SPF record (a record may name a mechanism more than once: two include: terms are the common case) is in the report."""
    import datetime
    from cryptoparser.httpx.header import HttpHeaderFieldValueAge
    from cryptoparser.dnsrec.txt import DnsRecordTxtValueSpf
    secs = [0, 1, 59, 3600, 86399, 86400, 86401, 172800, 31536000, 10 ** 9]
    for fn in ('as_markdown', 'as_json'):
        try:
            outs = [getattr(HttpHeaderFieldValueAge(datetime.timedelta(seconds=k)), fn)() for k in secs]
        except Exception as e:  # pylint: disable=broad-except
            yield 'HttpHeaderFieldValueAge/%s' % fn, '%s of a duration fails with %s' % (fn, type(e).__name__), {'seconds': secs}
            continue
        for i, a in enumerate(outs):
            for j in range(i + 1, len(outs)):
                if a == outs[j]:
                    yield ('timedelta/%s-not-injective' % fn, '%s renders the durations of %d s and %d s identically (%r)' % (fn, secs[i], secs[j], a.strip()[:40]),
                           {'seconds': [secs[i], secs[j]], 'output': a})
                    break
            else:
                continue
            break
    for text, needles in ((b'v=spf1 include:_spf.example.com include:spf.example.net ip4:192.0.2.0/24 ip4:198.51.100.0/24 -all',
                           ['_spf.example.com', 'spf.example.net', '192.0.2.0', '198.51.100.0']),
                          (b'v=spf1 a:one.example a:two.example mx:three.example mx:four.example ~all', ['one.example', 'two.example', 'three.example', 'four.example'])):
        try:
            rec = DnsRecordTxtValueSpf.parse_exact_size(text)
        except Exception:  # pylint: disable=broad-except
            continue
        for fn in ('as_markdown', 'as_json'):
            try:
                out = getattr(rec, fn)()
            except Exception as e:  # pylint: disable=broad-except
                yield 'DnsRecordTxtValueSpf/%s' % fn, '%s fails with %s' % (fn, type(e).__name__), {'input': text.decode()}
                continue
            missing = [n for n in needles if n not in out]
            if missing:
                yield ('DnsRecordTxtValueSpf/repeated-mechanism-dropped', '%s of an SPF record that names a mechanism twice leaves out %s' % (fn, ', '.join(missing)),
                       {'input': text.decode(), 'missing': missing, 'fn': fn})
                break


SEED_WORKER = r'''
import sys, json, random
sys.path.insert(0, %(verif)r)
from harness import common; common.use_repo()
from harness import sweep
out = {}
rng = random.Random(%(seed)d)
# an application-installed text encoder (the public hook for colouring values): it must stay installed and be applied to every
# object, whichever objects were serialised before
from cryptoparser.common.base import Serializable
class TickEncoder(object):
    def __call__(self, obj, level):
        return False, '`%%s`' %% (obj if isinstance(obj, str) else str(obj))
tick = TickEncoder()
Serializable.post_text_encoder = tick
items = sorted(sweep.library_vectors().items(), key=lambda kv: sweep.qualname(kv[0]))
if %(shuffle)d:
    rng.shuffle(items)
for cls, vs in items:
    for i, v in enumerate(vs):
        try:
            obj, _ = cls.parse_immutable(v)
            out['%%s/%%d' %% (sweep.qualname(cls), i)] = [obj.as_json() if hasattr(obj, 'as_json') else None, obj.as_markdown() if hasattr(obj, 'as_markdown') else None]
        except Exception as e:
            out['%%s/%%d' %% (sweep.qualname(cls), i)] = 'EXC ' + type(e).__name__
# set-valued fields built in different insertion orders
from cryptodatahub.common.key import PublicKey, PublicKeyParamsEddsa
from cryptodatahub.common.algorithm import NamedGroup
from cryptodatahub.dnsrec.algorithm import DnsSecAlgorithm
from cryptoparser.dnsrec.record import DnsRecordDnskey, DnsSecFlag, DnsSecProtocol
key = PublicKey.from_params(PublicKeyParamsEddsa(curve_type=NamedGroup.CURVE25519, key_data=bytes(32)))
flags = list(DnsSecFlag)
import itertools
perms = {}
for k in (2, 3, len(flags)):
    for combo in itertools.permutations(flags, k) if k < len(flags) else [tuple(rng.sample(flags, len(flags))) for _ in range(6)]:
        for build in (set, frozenset):
            if build is set:
                s = set()
                for f in combo:
                    s.add(f)
            else:
                s = frozenset(combo)
            rec = DnsRecordDnskey(s, DnsSecAlgorithm.ED25519, key, DnsSecProtocol.V3)
            perms.setdefault(','.join(sorted(f.name for f in combo)), []).append([rec.as_json(), rec.as_markdown()])
perms = list(perms.values())
out['__dnskey_flag_permutations__'] = perms
out['__encoder_kept__'] = Serializable.post_text_encoder is tick
print(json.dumps(out))
'''


def seed_sweep(chk, seeds):
    res = {}
    procs = []
    for k, seed in enumerate(seeds):
        script = os.path.join(chk.wd, 'seed_worker_%d.py' % k)
        with open(script, 'w') as f:
            f.write(SEED_WORKER % {'verif': common.VERIF, 'seed': k, 'shuffle': 1 if k % 2 else 0})
        procs.append((seed, subprocess.Popen([common.PY, script], env=common.impl_env({'PYTHONHASHSEED': str(seed)}), stdout=subprocess.PIPE,
                                             stderr=subprocess.DEVNULL, universal_newlines=True)))
    for seed, p in procs:
        out, _ = p.communicate()
        res[seed] = json.loads(out)
    return res


def run(chk):
    rng = chk.rng
    proved = common.proof_stage(chk, 'Props.C14', [], None)
    evals = 0
    seen = set()
    cases = []
    for cls, name, b, obj in objects(rng, 1 if chk.tier == 'quick' else 12):
        evals += 1
        for pred, detail in serialisation_failures(cls, name, b, obj):
            key = '%s/%s' % (name, pred)
            if key not in seen:
                seen.add(key)
                chk.violation('%s: %s' % (name, detail), {'class': name, 'input': b.hex(), 'predicate': pred}, key, True)
        if hasattr(obj, 'as_json') and len(cases) < (400 if chk.tier == 'quick' else 4000):
            try:
                cases.append((name, b, to_pyval(obj), canonical(obj.as_json())))
            except (Unsupported, Exception):  # pylint: disable=broad-except
                pass
    seen_f = set()
    for key, detail, payload in faithfulness_failures():
        if key not in seen_f:
            seen_f.add(key)
            payload = dict(payload, predicate='faithful', key=key)
            chk.violation(detail, payload, key, True)
    # correspondence: the Coq model of _json_traverse on the same objects (vm_compute inside coqc)
    if proved and cases:
        exprs = ['render 40 (traverse 40 %s)' % t for _, _, t, _ in cases]
        try:
            outs = common.eval_model(['From CP Require Import Core.Show Ser.PyVal.', 'Open Scope Z_scope.'], exprs, chk.wd, name='ser')
            nd = 0
            for (name, b, _t, want), got in zip(cases, outs):
                if got != want and nd < 3:
                    nd += 1
                    chk.violation('correspondence Ser/PyVal.v vs Serializable._json_traverse broke on %s: model %s, implementation %s' % (name, got[:120], want[:120]),
                                  {'class': name, 'input': b.hex(), 'model': got, 'impl': want, 'correspondence': 'traverse'}, None, False)
            chk.coverage['model_compared_objects'] = len(cases)
        except RuntimeError as e:
            chk.violation('model evaluation failed: %s' % str(e)[:200], {'error': str(e)[:2000]}, None, False)
    # determinism across hash seeds, serialisation orders and set insertion orders (subprocesses)
    seeds = [0, 1, 2, rng.randrange(3, 10 ** 6)] if chk.tier == 'quick' else [0, 1, 2, 3, 4, 5] + [rng.randrange(10 ** 6) for _ in range(4)]
    sw = seed_sweep(chk, seeds)
    ref = sw[seeds[0]]
    for seed in seeds[1:]:
        for k, v in sw[seed].items():
            if k.startswith('__'):
                continue
            if v != ref.get(k):
                chk.violation('output of %s depends on PYTHONHASHSEED / on which objects were serialised before (seed %d vs %d)' % (k, seed, seeds[0]),
                              {'case': k, 'seeds': [seeds[0], seed], 'predicate': 'hash-seed'}, '%s/hash-seed' % k.split('/')[0], True)
                break
    for seed in seeds:
        if not sw[seed].get('__encoder_kept__', True):
            chk.violation('the text encoder an application installed (Serializable.post_text_encoder) was replaced while objects were serialised: '
                          'Markdown output depends on which objects were serialised before', {'predicate': 'encoder-kept', 'seed': seed}, 'Serializable/encoder-kept', True)
            break
    for seed in seeds:
        perms = sw[seed]['__dnskey_flag_permutations__']
        if any(p != group[0] for group in perms for p in group):
            chk.violation('DnsRecordDnskey with the same flag set (set or frozenset) built in different insertion orders serialises differently (JSON or Markdown)', {'predicate': 'set-order', 'seed': seed},
                          'DnsRecordDnskey/set-order', True)
            break
    chk.coverage['evaluations'] = evals + len(seeds) * len(ref)
    chk.coverage['distinct_nontrivial'] = evals
    chk.coverage['hash_seeds'] = seeds
    chk.coverage['rule'] = ('every object parsed from the vectors of the repository tests (and from mutations of them): as_json succeeds and json.loads '
                            'accepts it, as_markdown succeeds and returns text, both are stable when called again and identical for the '
                            'parse-compose round trip; up to 400 / 4000 of those objects are converted to the value universe of the Coq model and '
                            'the model output compared with the implementation; the whole corpus is serialised in subprocesses under several '
                            'PYTHONHASHSEED values and in shuffled order and must be byte-identical; a DNSKEY whose flag set is built in six '
                            'insertion orders must serialise identically')
    chk.sample({'example_pyval': cases[0][2][:300] if cases else None})
    chk.assumptions += ['json.dumps rendering, float repr and CPython hash order are runtime behaviour (seed sweep only)',
                        'objects containing floats, non-ASCII text, quotes or backslashes are not sent to the Coq model (rendering oracle)']


def replay(path):
    with open(path) as f:
        r = json.load(f)
    if r.get('predicate') == 'faithful':
        fails = [(k, d) for k, d, _ in faithfulness_failures() if k == r.get('key')]
        print(fails or 'no failure')
        ok = not fails
    elif 'class' in r and 'input' in r:
        mod, q = r['class'].rsplit('.', 1)
        cls = sweep.resolve(mod, q)
        obj, _ = cls.parse_immutable(bytes.fromhex(r['input']))
        fails = list(serialisation_failures(cls, r['class'], bytes.fromhex(r['input']), obj))
        print(fails or 'no failure')
        ok = not any(p == r.get('predicate') for p, _ in fails)
    else:
        print(json.dumps(r, indent=1)[:3000])
        ok = False
    print('replay: property %s' % ('holds on this input' if ok else 'FAILS on this input'))
    return 0 if ok else 1
