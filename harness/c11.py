# C11: integer, flag, mpint and timestamp primitives are exact and never truncate.
import json
import os
import subprocess
import sys

from harness import common

LEVEL = 'proof'
ORDERS = '=<>!'
WIDTHS = (1, 2, 3, 4, 8)
TZS = ['UTC', 'Europe/Moscow', 'America/Caracas', 'Australia/Lord_Howe', 'Europe/London', 'America/New_York',
       'Asia/Kolkata', 'Pacific/Apia', 'Africa/Casablanca', 'Asia/Kathmandu', 'Etc/GMT+12', 'Europe/Dublin']


def boundary_values():
    vals = {0, 1, 2, 127, 128, 255, 256, -1, -2, -128, -129, -255, -256}
    for k in list(range(0, 70)) + [95, 96, 127, 128, 255, 256, 511, 512, 1023, 1024, 2047, 2048, 4095, 4096]:
        for d in (-1, 0, 1):
            vals.add(2 ** k + d)
            vals.add(-(2 ** k + d))
    return sorted(vals)


def gen_lines(rng, tier):
    from harness.gen_tables import gen_flags
    n_rand = 1500 if tier == 'quick' else 40000
    lines = []
    vals = boundary_values()
    ints = list(vals)
    for _ in range(n_rand):
        ints.append(rng.getrandbits(rng.choice([3, 8, 9, 16, 17, 24, 25, 31, 32, 33, 63, 64, 65, 130])) * rng.choice([1, 1, 1, -1]))
    for z in ints:
        for o in ORDERS:
            for w in WIDTHS:
                if abs(z) < 2 ** 70:
                    lines.append('cnum %s %d %d' % (o, w, z))
    lines.append('cnum ! 5 7')
    lines.append('pnum ! 5 0102030405')
    if tier == 'thorough':
        for z in range(0, 65536):
            for o in ORDERS:
                lines.append('cnum %s 2 %d' % (o, z))
                lines.append('pnum %s 2 %04x' % (o, z))
    # mpints
    mp = list(vals)
    for _ in range(n_rand // 2):
        mp.append(rng.getrandbits(rng.randint(1, 4200 if rng.random() < 0.1 else 300)) * rng.choice([1, 1, -1]))
    for z in mp:
        lines.append('csshmpint %d' % z)
        for L in (0, 1, 2, 3, 4, 5, 8, 16, 33, (abs(z).bit_length() + 7) // 8, (abs(z).bit_length() + 7) // 8 + 1):
            lines.append('cmpint %d %d' % (L, z))
    # values far too wide for the field whose low-order words are small (2^(32m) + small and their negatives): a composer
    # that drops the top word would write them without complaint
    for m in (1, 2, 3, 8):
        for small in (0, 1, 5, 255, 256, 65535):
            for sign in (1, -1):
                z = sign * (2 ** (32 * m) + small)
                for L in (1, 2, 3, 4, 4 * m, 4 * m + 1):
                    lines.append('cmpint %d %d' % (L, z))
    # parse side: random and structured buffers
    for _ in range(n_rand * 2):
        b = bytes(rng.getrandbits(8) for _ in range(rng.randint(0, 14)))
        if rng.random() < 0.7 and len(b) >= 4:
            b = rng.randint(0, 11).to_bytes(4, 'big') + b[4:]
        lines.append('psshmpint ' + b.hex())
        lines.append('pmpint %d %s' % (rng.randint(0, 12), b.hex()))
        lines.append('pnum %s %d %s' % (rng.choice(ORDERS), rng.choice(WIDTHS), b.hex()))
    # timestamps (model side is zone-free; the TZ sweep below runs the implementation under several zones)
    lines += ts_lines(rng, n_rand // 3)
    # flags
    for name, members in gen_flags():
        mv = [v for _, v in members]
        for w in (1, 2, 4):
            for sh in (0, 16):
                for _ in range(60 if tier == 'quick' else 1500):
                    v = rng.getrandbits(8 * w)
                    lines.append('pflags %s %d %d %s' % (name, w, sh, v.to_bytes(w, 'big').hex()))
                    sel = [x for x in mv if rng.random() < 0.4]
                    lines.append('cflags %s %d %d %s' % (name, w, sh, ','.join(map(str, sel)) or '-'))
    return lines


def ts_lines(rng, n):
    lines = []
    secs = [0, 1, 59, 60, 86399, 86400, 679999388, 2 ** 31 - 1, 2 ** 31, 2 ** 32 - 2, 2 ** 32 - 1, 1000000000, 1199145600,
            1414274399, 1414274400, 354920400, 1301184000]
    for _ in range(n):
        secs.append(rng.randrange(0, 2 ** 32))
    big = [2 ** 32, 2 ** 32 + 1, 2 ** 33, 4294967296 + 1700000000, 253402300799 - 1, 253402300799, 253402300800, 2 ** 40, 2 ** 63]
    for _ in range(max(4, n // 4)):
        big.append(rng.randrange(2 ** 32, 253402300800))
    for s in big:      # beyond 32 bits: 8-byte fields only (certificate validity, SCT)
        if s <= 253402300799:
            lines.append('cts 0 8 %d 0' % s)
        lines.append('pts 0 8 %s' % s.to_bytes(8, 'big').hex())
        if s * 1000 + 999 < 2 ** 64:
            ms = rng.choice([0, 999])
            if s <= 253402300799:
                lines.append('cts 1 8 %d %d' % (s, ms * 1000))
            lines.append('pts 1 8 %s' % (s * 1000 + ms).to_bytes(8, 'big').hex())
    for s in secs[:40]:     # aware datetimes with a non-zero UTC offset (what datetime.now().astimezone() gives)
        if s > 86400:
            off = rng.choice([60, 120, -300, 330, 345, -720, 840])
            lines.append('cts 0 %d %d 0 %d' % (rng.choice([4, 8]), s, off))
            lines.append('cts 1 8 %d %d %d' % (s, rng.choice([0, 999]) * 1000, off))
    for s in secs:
        for w in (4, 8):
            lines.append('cts 0 %d %d 0' % (w, s))
            lines.append('pts 0 %d %s' % (w, s.to_bytes(w, 'big').hex()))
        ms = rng.choice([0, 1, 999, rng.randrange(1000)])
        lines.append('cts 1 8 %d %d' % (s, ms * 1000))
        lines.append('pts 1 8 %s' % (s * 1000 + ms).to_bytes(8, 'big').hex())
    for w in (4, 8):
        lines.append('cts 0 %d none' % w)
        lines.append('cts 1 %d none' % w)
        for ms in (0, 1):   # the "forever" sentinel and its neighbours at either resolution
            lines.append('pts %d %d %s' % (ms, w, 'ff' * w))
            lines.append('pts %d %d %s' % (ms, w, 'ff' * (w - 1)))
            lines.append('pts %d %d %s' % (ms, w, 'ff' * (w - 1) + 'fe'))
            lines.append('pts %d %d %s' % (ms, w, 'ff' * w + '00'))
    lines.append('pts 0 8 000000ffffffffff')
    return lines


def predicate(line, out):
    """The property itself on one implementation outcome (independent of the model). Returns failure text or None."""
    ws = line.split(' ')
    if ws[0] == 'cnum' and int(ws[2]) in WIDTHS:
        w, z = int(ws[2]), int(ws[3])
        fits = 0 <= z < 256 ** w
        if fits:
            exp = 'OK ' + z.to_bytes(w, 'big' if ws[1] in '>!' else 'little').hex()
            if out != exp:
                return 'compose_numeric(%d, %d) order %s gave %s, expected %s' % (z, w, ws[1], out, exp)
        elif out != 'ERR InvalidValue':
            return 'compose_numeric(%d, %d) does not fit but gave %s' % (z, w, out)
    if ws[0] == 'pnum' and int(ws[2]) in WIDTHS:
        w, b = int(ws[2]), bytes.fromhex(ws[3])
        if len(b) >= w:
            exp = 'OK %d n=%d' % (int.from_bytes(b[:w], 'big' if ws[1] in '>!' else 'little'), w)
        else:
            exp = 'ERR NotEnoughData %d' % (w - len(b))
        if out != exp:
            return 'parse_numeric width %d order %s on %s gave %s, expected %s' % (w, ws[1], ws[3], out, exp)
    if ws[0] == 'cmpint':
        L, z = int(ws[1]), int(ws[2])
        if z >= 0:
            exp = 'OK ' + z.to_bytes(L, 'big').hex() if z < 256 ** L else 'ERR InvalidValue'
            if out != exp:
                return 'compose_mpint(%d, %d) gave %s, expected %s' % (z, L, out, exp)
    if ws[0] == 'csshmpint':
        z = int(ws[1])
        if z >= 0:
            n = (z.bit_length() + 8) // 8 if z else 0
            exp = 'OK ' + n.to_bytes(4, 'big').hex() + z.to_bytes(n, 'big').hex()
            if out != exp:
                return 'compose_ssh_mpint(%d) gave %s, expected RFC 4251 %s' % (z, out, exp)
    if ws[0] == 'pts':
        ms, w, b = ws[1] == '1', int(ws[2]), bytes.fromhex(ws[3])
        if len(b) >= w:
            v = int.from_bytes(b[:w], 'big')
            secs = v // 1000 if ms else v
            if v == 256 ** w - 1:
                exp = 'OK none n=%d' % w
            elif secs > 253402300799:
                exp = 'ERR InvalidValue'
            else:
                exp = 'OK %d %d n=%d' % (secs, (v % 1000) * 1000 if ms else 0, w)
            if out != exp:
                return 'parse_timestamp(%s, ms=%s, size %d) gave %s, the field holds %s' % (b[:w].hex(), ms, w, out, exp)
    if ws[0] == 'cts' and ws[3] != 'none':
        ms, w, s, mic = ws[1] == '1', int(ws[2]), int(ws[3]), int(ws[4])
        v = s * 1000 + mic // 1000 if ms else s
        exp = 'OK ' + v.to_bytes(w, 'big').hex() if v < 256 ** w else 'ERR InvalidValue'
        if out != exp:
            return 'compose_timestamp(%d s, %d us, ms=%s, size %d) gave %s, expected %s' % (s, mic, ms, w, out, exp)
    return None


def roundtrip_predicate(impl, line, out):
    """compose then parse on the implementation."""
    ws = line.split(' ')
    if ws[0] == 'csshmpint' and out.startswith('OK '):
        z = int(ws[1])
        back = impl.impl_line('psshmpint ' + out[3:])
        if back != 'OK %d n=%d' % (z, len(out[3:]) // 2):
            return 'ssh mpint %d composes to %s which parses as %s' % (z, out[3:], back), ('neg' if z < 0 else 'nonneg')
    if ws[0] == 'cmpint' and out.startswith('OK '):
        z = int(ws[2])
        if z >= 0:
            back = impl.impl_line('pmpint %s %s' % (ws[1], out[3:]))
            if back != 'OK %d n=%s' % (z, ws[1]):
                return 'mpint %d (len %s) composes to %s which parses as %s' % (z, ws[1], out[3:], back), 'nonneg'
    return None


TZ_WORKER = r'''
import sys, json
sys.path.insert(0, %(verif)r)
from harness import impl
lines = json.load(open(%(inp)r))
print(json.dumps([impl.impl_line(l) for l in lines]))
'''


def tz_sweep(chk, lines):
    inp = os.path.join(chk.wd, 'ts_lines.json')
    with open(inp, 'w') as f:
        json.dump(lines, f)
    script = os.path.join(chk.wd, 'tz_worker.py')
    with open(script, 'w') as f:
        f.write(TZ_WORKER % {'verif': common.VERIF, 'inp': inp})
    procs = [(tz, subprocess.Popen([common.PY, script], env=common.impl_env({'TZ': tz}), stdout=subprocess.PIPE,
                                   universal_newlines=True)) for tz in TZS]
    res = {}
    for tz, p in procs:
        out, _ = p.communicate()
        res[tz] = json.loads(out)
    return res


def run(chk):
    from harness import impl

    lines = gen_lines(chk.rng, chk.tier)

    def search(_br):
        found = []
        for l in lines:
            o = impl.impl_line(l)
            f = predicate(l, o)
            if f:
                found.append((f, {'cmd': l, 'impl': o}, None, True))
                break
        return found

    proved = common.proof_stage(chk, 'Props.C11', [], search)
    br = common.build_runner()
    impl_out = [impl.impl_line(l) for l in lines]
    nontrivial = set()
    n_viol = 0
    for l, o in zip(lines, impl_out):
        f = predicate(l, o)
        if f and n_viol < 5:
            n_viol += 1
            chk.violation(f, {'cmd': l, 'impl': o}, None, True)
        r = roundtrip_predicate(impl, l, o)
        if r:
            what, kind = r
            key = 'ComposerBinary.compose_ssh_mpint/negative-limb-count' if kind == 'neg' else None
            chk.violation(what, {'cmd': l, 'impl': o}, key, True)
        if not (o.startswith('ERR InvalidValue') or o.startswith('LEAK')):
            nontrivial.add(l)
    if br.ok:
        # an instant given in a zone with a UTC offset is the same instant: the model sees the command without the offset
        model_out = common.run_model([' '.join(l.split(' ')[:5]) if l.startswith('cts ') else l for l in lines])
        diffs = [(l, m, i) for l, m, i in zip(lines, model_out, impl_out) if m != i]
        for l, m, i in diffs[:5]:
            if not chk.violations:
                # the model no longer describes the code: search the implementation around the disagreeing input
                f = predicate(l, i)
                chk.violation('correspondence Prim/*.v vs common/parse.py broke on "%s": model %s, implementation %s%s' % (
                    l, m, i, ('; ' + f) if f else ''), {'cmd': l, 'model': m, 'impl': i, 'correspondence': 'Run.run_line'},
                    None, bool(f))
        chk.coverage['disagreements'] = len(diffs)
    else:
        chk.violation('model runner does not build: %s' % br.failed_file, {'error': br.error}, None, False)
    # time zone sweep: implementation under 12 TZ settings must agree with the (zone-free) UTC run
    tsl = ts_lines(chk.rng, 150 if chk.tier == 'quick' else 5000)
    sweep = tz_sweep(chk, tsl)
    ref = sweep['UTC']
    for tz, outs in sweep.items():
        bad = [(l, a, b) for l, a, b in zip(tsl, ref, outs) if a != b]
        if bad:
            l, a, b = bad[0]
            chk.violation('timestamp primitive depends on the time zone: TZ=%s "%s" gives %s, under UTC %s' % (tz, l, b, a),
                          {'cmd': l, 'TZ': tz, 'impl': b, 'impl_utc': a}, None, True)
    for l, o in zip(tsl, ref):
        f = predicate(l, o)
        if f:
            chk.violation(f, {'cmd': l, 'impl': o}, None, True)
            break
    chk.coverage['evaluations'] = len(lines) + len(tsl) * len(TZS)
    chk.coverage['distinct_nontrivial'] = len(nontrivial)
    chk.coverage['traces_validated_against_impl'] = len(lines)
    chk.coverage['rule'] = ('commands (compose/parse of integers for 5 widths x 4 byte orders, fixed and SSH mpints up to 4200 bits of '
                            'both signs, timestamps, flag sets of the 6 generated flag tables) built from boundary values '
                            '2^k-1,2^k,2^k+1 and seeded random values; each is run on the extracted Coq model and on the '
                            'implementation and the outcomes compared, plus an independent int.to_bytes / RFC 4251 oracle; '
                            'timestamps additionally under %d TZ settings; non-trivial = distinct commands whose outcome is not '
                            'an InvalidValue rejection' % len(TZS))
    hist = {}
    for l in lines:
        hist[l.split(' ')[0]] = hist.get(l.split(' ')[0], 0) + 1
    chk.coverage['input_distribution'] = hist
    for i in range(0, len(lines), max(1, len(lines) // 10)):
        chk.sample({'cmd': lines[i][:120], 'outcome': impl_out[i][:120]})
    chk.assumptions += ["struct's native order '=' is little-endian on the machine running the check",
                        'mpints are modelled for big-endian/network byte order only (the only order the library uses them with)',
                        'datetime objects are modelled as UTC instants; tzdata/mktime behaviour is covered by the TZ sweep, not by a theorem']


def replay(path):
    from harness import impl
    with open(path) as f:
        r = json.load(f)
    if 'cmd' not in r:
        print(json.dumps(r, indent=1)[:3000])
        return 1
    if 'TZ' in r:
        out = subprocess.run([common.PY, '-c', 'import sys; sys.path.insert(0, %r); from harness import impl; print(impl.impl_line(%r))' % (
            common.VERIF, r['cmd'])], env=common.impl_env({'TZ': r['TZ']}), stdout=subprocess.PIPE, universal_newlines=True).stdout.strip()
        ref = impl.impl_line(r['cmd'])
        print('TZ=%s: %s; UTC: %s' % (r['TZ'], out, ref))
        ok = out == ref
    else:
        o = impl.impl_line(r['cmd'])
        f = predicate(r['cmd'], o)
        rt = roundtrip_predicate(impl, r['cmd'], o)
        print('%s -> %s' % (r['cmd'], o))
        ok = not f and not rt
        if f or rt:
            print(f or rt[0])
    print('replay: property %s' % ('holds on this input' if ok else 'FAILS on this input'))
    return 0 if ok else 1
