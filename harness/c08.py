# C08: DNSSEC and mail-related DNS record data follow the RFCs, key tag included.
import json

from harness import common, framegen, gen_tables

LEVEL = 'proof'


def rfc4034_keytag(rdata):
    ac = 0
    for i, b in enumerate(rdata):
        ac += b if i & 1 else b << 8
    ac += (ac >> 16) & 0xffff
    return ac & 0xffff


def steer_carry(rd, want):
    """RDATA of even length whose last 16-bit word is changed so that (sum & 0xffff) + (sum >> 16) == want: the place
    where adding the carry overflows 16 bits again (RFC 4034 Appendix B discards that second carry; an Internet-checksum
    style fold does not)."""
    rd = bytearray(rd)
    if len(rd) % 2 or len(rd) < 6:
        return None
    for _ in range(4):
        s = sum(b if i & 1 else b << 8 for i, b in enumerate(rd))
        cur = (s & 0xffff) + (s >> 16)
        if cur == want:
            return bytes(rd)
        w = (rd[-2] << 8) | rd[-1]
        w2 = (w + want - cur) % 0x10000
        rd[-2], rd[-1] = w2 >> 8, w2 & 0xff
    return None


def rnd_label(rng):
    n = rng.choice([1, 2, 3, 7, 20, 63])
    return bytes(rng.choice(b'abcdefghijklmnopqrstuvwxyz0123456789') for _ in range(n))


def rnd_name(rng):
    return ','.join(rnd_label(rng).hex() for _ in range(rng.choice([0, 1, 2, 3, 5]))) or '-'


U_LABELS = ['b\u00fccher', 'm\u00fcnchen', '\u043f\u0440\u0438\u043c\u0435\u0440', '\u4f8b\u3048', 'caf\u00e9', 'stra\u00dfe'.replace('\u00df', 'ss'), '\u03b4\u03bf\u03ba\u03b9\u03bc\u03ae']


def idn_failures(rng, n):
    """DnsNameUncompressed / MX / RRSIG signer names with non-ASCII labels: the wire form is the IDNA A-label form and
    parsing it gives back the labels that were composed (implementation against the stdlib idna codec as the oracle)."""
    from cryptoparser.dnsrec.record import DnsNameUncompressed, DnsRecordMx
    res = []
    for _ in range(n):
        labels = [rng.choice(U_LABELS + ['example', 'mail', 'xn--bcher-kva']) for _ in range(rng.randint(1, 4))]
        try:
            name = DnsNameUncompressed(labels)
            wire = bytes(name.compose())
            want = b''.join(bytes([len(l.encode('idna'))]) + l.encode('idna') for l in labels) + b'\x00'
            back = DnsNameUncompressed.parse_exact_size(wire)
            mx = DnsRecordMx(10, name)
            mx_back = DnsRecordMx.parse_exact_size(bytes(mx.compose()))
        except Exception as e:  # pylint: disable=broad-except
            res.append(('a name with internationalised labels %r cannot be composed and parsed back: %s' % (labels, type(e).__name__), {'labels': labels}))
            continue
        canon = [l.encode('idna').decode('idna') for l in labels]
        if wire != want:
            res.append(('name %r composes to %s, the A-label wire form is %s' % (labels, wire.hex(), want.hex()), {'labels': labels}))
        elif list(back.labels) != canon or list(mx_back.exchange.labels) != canon:
            res.append(('name %r parsed back from its wire form as %r' % (canon, list(back.labels)), {'labels': labels}))
    return res


def gen_lines(rng, tier):
    n = 150 if tier == 'quick' else 4000
    algs = [int(m.value.code) for m in gen_tables.enum_factories()['DnsSecAlgorithmFactory'][2]]
    dts = [int(m.value.code) for m in gen_tables.enum_factories()['DnsSecDigestTypeFactory'][2]]
    rrs = [int(m.value.code) for m in gen_tables.enum_factories()['DnsRrTypeFactory'][2]]
    lines = []
    for _ in range(n):
        lines.append('dsenc %d %d %d %s' % (rng.choice([0, 1, 65535, rng.randrange(65536)]), rng.choice(algs), rng.choice(dts),
                                            framegen.rnd_bytes(rng, rng.choice([0, 20, 32, 48])).hex() or '-'))
        lines.append('mxenc %d %s' % (rng.choice([0, 10, 65535, rng.randrange(65536)]), rnd_name(rng)))
        lines.append('nameenc %s' % rnd_name(rng))
        txt = bytes(rng.choice(b'abc =;v1~') for _ in range(rng.choice([0, 1, 10, 254, 255, 256, 257, 300, 509, 510, 511, 600, 1021])))    # beyond 255 octets: several character-strings
        lines.append('txtenc %s' % (txt.hex() or '-'))
        ts = lambda: rng.choice([0, 1, 2 ** 31, 2 ** 32 - 2, rng.randrange(2 ** 32 - 1)])
        lines.append('rrsigenc %d %d %d %d %d %d %d %s %s' % (rng.choice(rrs + [0xff00, 0xfffe]), rng.choice(algs), rng.randrange(256),
                                                             rng.randrange(2 ** 32), ts(), ts(), rng.randrange(65536), rnd_name(rng),
                                                             framegen.rnd_bytes(rng, rng.choice([0, 1, 64])).hex() or '-'))
        # RSA DNSKEY: 1-byte and 3-byte exponent length forms, modulus of 64..256 bytes
        ebits = rng.choice([2, 17, 32, 64, 2040, 2048, 2056])
        e = rng.getrandbits(ebits) | (1 << (ebits - 1))
        mlen = rng.choice([64, 65, 128, 129, 256])
        m = bytes([rng.randrange(128, 256)]) + framegen.rnd_bytes(rng, mlen - 1)
        alg = rng.choice([5, 7, 8, 10])
        flags = rng.choice([0, 1, 128, 256, 257, 385])
        lines.append('dnskeyrsaenc %d %d %d %s' % (flags, alg, e, m.hex()))
        # ECDSA (RFC 6605) and EdDSA (RFC 8080) DNSKEY: coordinates with leading zero octets, at the ends of the range
        ealg = rng.choice([13, 14])
        size = 32 if ealg == 13 else 48
        def coord():    # the whole width or with leading zero octets; neither tiny nor a power of 256 (asn1crypto cannot hold those points)
            k = rng.choice([8 * size, 8 * size, 8 * size - 9, 8 * size - 17, 8 * size - 30])
            return rng.getrandbits(k) | (1 << (k - 1)) | 3
        lines.append('dnskeyecenc %d %d %d %d' % (flags, ealg, coord(), coord()))
        dalg = rng.choice([15, 16])
        lines.append('dnskeyedenc %d %d %s' % (flags, dalg, framegen.rnd_bytes(rng, 32 if dalg == 15 else 57).hex()))
    return lines


def run(chk):
    from harness import impl
    rng = chk.rng
    lines = gen_lines(rng, chk.tier)

    def diffs_of(model_out, impl_out):
        res = []
        for l, m, i in zip(lines, model_out, impl_out):
            mm = 'REFUSED' if m == 'NONE' else m
            ii = 'REFUSED' if (i.startswith('ERR') or i.startswith('LEAK')) else i
            if mm != ii:
                res.append((l, m, i))
        return res

    proved = common.proof_stage(chk, 'Props.C08', [], None)
    br = common.build_runner()
    impl_out = [impl.impl_line(l) for l in lines]
    tag_lines = []
    dec_lines = []
    if br.ok:
        model_out = common.run_model(lines)
        for l, m, i in diffs_of(model_out, impl_out)[:5]:
            chk.violation('implementation composes %s where the RFC RDATA is %s: "%s"' % (i[:100], m[:100], l[:140]), {'cmd': l, 'impl': i, 'spec': m}, None, True)
        # key tags: implementation vs model of key_tag vs RFC 4034 Appendix B, over the RDATA the implementation composed
        for l, o in zip(lines, impl_out):
            if l.startswith('dnskeyrsaenc') and o.startswith('OK '):
                tag_lines.append('keytag ' + o[3:])
                for want in (0xffff, 0x10000, 0x10001, 0x10000 + rng.randrange(0, 16)):
                    st = steer_carry(bytes.fromhex(o[3:]), want)
                    if st is not None:
                        tag_lines.append('keytag ' + st.hex())
        mt = common.run_model(tag_lines)
        nv = 0
        for l, m in zip(tag_lines, mt):
            i = impl.impl_line(l)
            rd = bytes.fromhex(l.split(' ')[1])
            ref = 'OK %d' % rfc4034_keytag(rd)
            if m != i and nv < 3:
                nv += 1
                chk.violation('correspondence Dns/KeyTag.v vs DnsRecordDnskey.key_tag broke: model %s implementation %s' % (m, i),
                              {'cmd': l, 'model': m, 'impl': i, 'correspondence': 'key_tag'}, None, False)
            if i != ref:
                key = 'DnsRecordDnskey.key_tag/odd-length-rdata' if len(rd) % 2 == 1 else None
                chk.violation('key_tag = %s, RFC 4034 Appendix B over the %d bytes of RDATA = %s' % (i, len(rd), ref),
                              {'cmd': l, 'impl': i, 'reference': ref}, key, True)
        # the decode direction for ECDSA / EdDSA keys: the RDATA of the specification parsed by the implementation must give
        # the flags, the algorithm, the coordinates / key octets and, for ECDSA, the curve RFC 6605 assigns to the algorithm
        dec_lines = ['dnskeydec ' + m[3:] for l, m in zip(lines, model_out) if l.startswith(('dnskeyecenc', 'dnskeyedenc')) and m.startswith('OK ')]
        nd = 0
        reported = set()
        for l, m in zip(dec_lines, common.run_model(dec_lines)):
            i = impl.impl_line(l)
            if m != i:
                mw, iw = m.split(' '), i.split(' ')
                curve_only = len(mw) == len(iw) == 7 and mw[:4] + mw[5:] == iw[:4] + iw[5:]
                key = 'DnsRecordDnskey/ecdsap256-named-group' if curve_only and mw[2] == '13' and iw[4] == '1.3.132.0.10' else None
                if len(mw) == len(iw) == 5 and mw[:4] == iw[:4] and mw[2] == '16' and mw[3] == 'ED' and iw[4] == mw[4][:-2] and len(mw[4]) == 114:
                    key = 'DnsRecordDnskey/ed448-56-octets'
                if key in reported or (key is None and nd >= 3):
                    continue
                reported.add(key)
                nd += key is None
                chk.violation('parsing an RFC-conformant DNSKEY does not recover the encoded key: implementation %s, specification %s' % (i[:160], m[:160]),
                              {'cmd': l, 'impl': i, 'spec': m}, key, True)
        chk.coverage['dnskey_decoded'] = len(dec_lines)
        # MX in the decode direction: the RDATA of the specification (the null MX "0 ." of RFC 7505 and one-label exchanges
        # included) parsed by the implementation gives the preference and the exchange
        mx_lines = ['mxdec ' + m[3:] for l, m in zip(lines, model_out) if l.startswith('mxenc ') and m.startswith('OK ')]
        mx_lines += ['mxdec 000000', 'mxdec 000a00', 'mxdec ffff00', 'mxdec 0000016100', 'mxdec 000a', 'mxdec 000a0161', 'mxdec 000a000000']
        nmx = 0
        for l, m in zip(mx_lines, common.run_model(mx_lines)):
            i = impl.impl_line(l)
            if m.startswith('OK ') and m != i and nmx < 3:
                nmx += 1
                chk.violation('parsing RFC-conformant MX RDATA %s does not recover preference and exchange: implementation %s, specification %s' % (l.split(' ')[1][:60], i[:100], m[:100]),
                              {'cmd': l, 'impl': i, 'spec': m}, None, True)
            elif m == 'NONE' and i.startswith('OK ') and nmx < 3:
                nmx += 1
                chk.violation('MX RDATA %s that is not an encoding of the specification is accepted: %s' % (l.split(' ')[1][:60], i[:100]), {'cmd': l, 'impl': i, 'spec': m}, None, True)
        chk.coverage['mx_decoded'] = len(mx_lines)
        # TXT in the decode direction: the specification's RDATA (one string, or several for texts beyond 255 octets)
        mx_lines += ['txtdec ' + (m[3:] or '-') for l, m in zip(lines, model_out) if l.startswith('txtenc ') and m.startswith('OK ')]
        for l, m in zip(mx_lines, common.run_model(mx_lines)):
            if not l.startswith('txtdec '):
                continue
            i = impl.impl_line(l)
            if m != i and nmx < 6:
                nmx += 1
                chk.violation('parsing RFC-conformant TXT RDATA of %d octets does not give the text: implementation %s, specification %s' % (len(l.split(' ')[1]) // 2, i[:80], m[:80]),
                              {'cmd': l, 'impl': i, 'spec': m}, None, True)
        dec_lines = dec_lines + mx_lines
    else:
        chk.violation('model runner does not build: %s' % br.failed_file, {'error': br.error}, None, False)
    # TXT RDATA is one or more <character-string>s (RFC 1035 3.3.14), empty ones included and anywhere: the conformant encoding
    # must be consumed entirely and give the concatenated text
    from cryptoparser.dnsrec.record import DnsRecordTxt
    ntxt = 0
    for strings in ([b''], [b'value', b''], [b'', b'value'], [b'a', b'', b'b'], [b'x' * 255, b''], [b'x' * 255, b'y'], [b'v=spf1 -all'],
                    [bytes(rng.choice(b'abc =;') for _ in range(rng.randint(0, 40))) for _ in range(rng.randint(1, 4))]):
        rdata = b''.join(bytes([len(x)]) + x for x in strings)
        r = impl.outcome(lambda: DnsRecordTxt.parse_exact_size(rdata).value)
        chk.coverage['txt_rdata'] = chk.coverage.get('txt_rdata', 0) + 1
        if r != 'OK ' + b''.join(strings).decode('ascii') and ntxt < 3:
            ntxt += 1
            chk.violation('conformant TXT RDATA %s (character-strings of %s octets) parses to %s' % (rdata.hex()[:60], [len(x) for x in strings], r[:80]),
                          {'rdata': rdata.hex(), 'impl': r[:200], 'kind': 'txt'}, None, True)
    # internationalised names: U-labels in the object, A-labels (xn--) on the wire, recovered exactly by the parser
    idn = idn_failures(rng, 20 if chk.tier == 'quick' else 400)
    for what, rep in idn[:3]:
        chk.violation(what, rep, None, True)
    chk.coverage['idn_names'] = 20 if chk.tier == 'quick' else 400
    chk.coverage['evaluations'] = len(lines) + len(tag_lines) + len(dec_lines)
    chk.coverage['distinct_nontrivial'] = len(set(l for l, o in zip(lines, impl_out) if o.startswith('OK')))
    chk.coverage['traces_validated_against_impl'] = len(lines) + len(tag_lines) + len(dec_lines)
    chk.coverage['key_tag_rdata_lengths'] = {'odd': sum(1 for l in tag_lines if (len(l.split(' ')[1]) // 2) % 2), 'even': sum(1 for l in tag_lines if not (len(l.split(' ')[1]) // 2) % 2)}
    chk.coverage['rule'] = ('DS, MX, names, TXT, RRSIG (incl. private RR types and the full 32-bit timestamp range) and RSA DNSKEY records (1- and '
                            '3-byte exponent length forms, moduli of 64-256 bytes, all flag combinations) composed by the implementation from '
                            'field values and compared with the RFC encodings of the Coq specification; the key tag of every composed DNSKEY '
                            'compared three ways (implementation, Coq model of key_tag, RFC 4034 Appendix B), RDATA of odd and even length, and RDATA '
                            'steered so that adding the carry just does / just does not overflow 16 bits again; '
                            'non-trivial = distinct records both sides encode')
    for i in range(0, len(lines), max(1, len(lines) // 8)):
        chk.sample({'cmd': lines[i][:140], 'outcome': impl_out[i][:100]})
    chk.assumptions += ['the Coq specification of names covers LDH labels; internationalised labels are checked on the implementation against the stdlib idna codec',
                        'DSA / ECDSA / EdDSA / GOST DNSKEY layouts are covered by the C01/C05 sweeps only, not by the specification yet']


def replay(path):
    from harness import impl
    with open(path) as f:
        r = json.load(f)
    if 'labels' in r:
        from cryptoparser.dnsrec.record import DnsNameUncompressed
        labels = r['labels']
        try:
            back = list(DnsNameUncompressed.parse_exact_size(bytes(DnsNameUncompressed(labels).compose())).labels)
        except Exception as e:  # pylint: disable=broad-except
            back = type(e).__name__
        want = [l.encode('idna').decode('idna') for l in labels]
        print('labels %r -> parsed back as %r' % (want, back))
        print('replay: property %s' % ('holds on this input' if back == want else 'FAILS on this input'))
        return 0 if back == want else 1
    if r.get('kind') == 'txt':
        from cryptoparser.dnsrec.record import DnsRecordTxt
        rdata = bytes.fromhex(r['rdata'])
        o = impl.outcome(lambda: DnsRecordTxt.parse_exact_size(rdata).value)
        want, i = [], 0
        while i < len(rdata):
            want.append(rdata[i + 1:i + 1 + rdata[i]])
            i += 1 + rdata[i]
        ok = o == 'OK ' + b''.join(want).decode('ascii')
        print('TXT RDATA %s -> %s' % (r['rdata'][:60], o[:80]))
        print('replay: property %s' % ('holds on this input' if ok else 'FAILS on this input'))
        return 0 if ok else 1
    if 'cmd' not in r:
        print(json.dumps(r, indent=1)[:3000])
        return 1
    o = impl.impl_line(r['cmd'])
    if r['cmd'].startswith('keytag'):
        ref = 'OK %d' % rfc4034_keytag(bytes.fromhex(r['cmd'].split(' ')[1]))
    else:
        ref = common.run_model([r['cmd']])[0] if common.build_runner().ok else r.get('spec')
    print('%s\n implementation: %s\n reference:      %s' % (r['cmd'][:160], o[:160], ref[:160]))
    print('replay: property %s' % ('holds on this input' if o == ref else 'FAILS on this input'))
    return 0 if o == ref else 1
