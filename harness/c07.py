# C07: SSH banner, packets, key exchange messages and host keys follow the RFCs.
import json

from harness import common, framegen, sshgen

LEVEL = 'proof'


def gen_lines(rng, tier):
    lines = ['sshpad %d' % L for L in (range(0, 2000) if tier == 'quick' else range(0, 35001))]
    n = 80 if tier == 'quick' else 2000
    for k in list(range(0, 70)) + [127, 128, 255, 256, 511, 512, 1023, 1024, 2047, 2048, 4095, 4096]:
        for d in (-1, 0, 1):
            if 2 ** k + d >= 0:
                lines.append('mpintspec %d' % (2 ** k + d))
    for _ in range(n):
        lines.append('mpintspec %d' % rng.getrandbits(rng.choice([1, 7, 8, 15, 16, 31, 32, 33, 64, 255, 256, 1024, 4096])))
        lines.append(sshgen.kexinit(rng))
    # identification strings (RFC 4253 4.2): short ones and every total length around the 255-character limit
    alpha = 'abcdefghijklmnopqrstuvwxyzABCDEFGHIJKLMNOPQRSTUVWXYZ0123456789_.'
    for total in list(range(250, 259)) * (2 if tier == 'quick' else 20) + [rng.randint(12, 249) for _ in range(n // 2)]:
        proto = rng.choice(['2.0', '1.99', '1.5'])
        comment = None if rng.random() < 0.5 else ' '.join(''.join(rng.choice(alpha) for _ in range(rng.randint(1, 8))) for _ in range(rng.randint(1, 3)))
        fixed = 4 + len(proto) + 1 + 2 + (0 if comment is None else 1 + len(comment))
        if total - fixed < 4:
            comment, fixed = None, 4 + len(proto) + 1 + 2
        # software versions of the vendors the library recognises (it splits them into vendor and version) as well as unknown
        # ones; the version part may contain the vendor's own separator again (OpenSSH_for_Windows_8.1, IPSSH-6.9.0-beta)
        pre = rng.choice(['srv', 'srv', 'OpenSSH_', 'OpenSSH_for_Windows_', 'OpenSSH_7.4p1_hpn', 'dropbear_', 'dropbear_2019.78_', 'IPSSH-', 'IPSSH-6.9.0-',
                          'cryptlib', 'Monaca', 'OpenSSH', 'dropbear-', 'IPSSH_', 'OpenSSH__', 'IPSSH--', 'dropbear__'])
        if total - fixed < len(pre) + 1:
            pre = 'srv'
        sw = pre + ''.join(rng.choice(alpha + ('-' if pre != 'srv' else '')) for _ in range(total - fixed - len(pre)))
        c = '_' if comment is None else comment.encode().hex()
        lines.append('bannerenc %s %s %s' % (proto.encode().hex(), sw.encode().hex(), c))
    for _ in range(n // 8):
        bits = rng.choice([1024, 1025, 2047, 2048])
        lines.append('rsablob %d %d' % (rng.choice([3, 17, 65537, 2 ** 31 + 11]), rng.getrandbits(bits) | 1 | (1 << (bits - 1))))
        lines.append('edblob %s' % framegen.rnd_bytes(rng, 32).hex())
        lines.append(sshgen.ec_blob_line(rng))
    lines += msg_lines(rng, n)
    return lines


def msg_lines(rng, n):
    """transport-layer messages of RFC 4253 7.3 / 8 / 11 and RFC 4419: field values at their boundaries and random ones"""
    from harness import gen_tables
    reasons = [v for _, v in dict(gen_tables.local_int_enums())['SshReasonCode']]
    u32 = lambda: rng.choice([0, 1, 255, 256, 65535, 2 ** 31, 2 ** 32 - 1, rng.getrandbits(32)])
    mp = lambda: rng.choice([0, 1, 127, 128, 255, 256, 2 ** 1023, 2 ** 1024 - 1, rng.getrandbits(rng.choice([8, 63, 64, 1024, 2047, 2048])),
                             rng.getrandbits(2048) | (1 << 2047)])
    text = lambda: rng.choice(['', 'bye', 'Too many authentication failures', 'd\u00e9connexion \u2014 \u7d42\u4e86', 'x' * 300])
    blob = lambda: (b'\x00\x00\x00\x0bssh-ed25519\x00\x00\x00\x20' + framegen.rnd_bytes(rng, 32)).hex()
    sig = lambda: (framegen.rnd_bytes(rng, rng.choice([0, 1, 64, 83])).hex() or '-')
    lines = ['sshmsg newkeys']
    for _ in range(max(10, n // 4)):
        lines.append('sshmsg disc %d %s %s' % (rng.choice(reasons), text().encode('utf-8').hex() or '-', rng.choice(['', 'en', 'US', 'en-GB']).encode().hex() or '-'))
        lines.append('sshmsg unimpl %d' % u32())
        lines.append('sshmsg dhinit %d' % mp())
        lines.append('sshmsg dhreply %s %d %s' % (blob(), mp(), sig()))
        lines.append('sshmsg gexreq %d %d %d' % (u32(), u32(), u32()))
        lines.append('sshmsg gexgroup %d %d' % (mp(), rng.choice([2, 5, mp()])))
        lines.append('sshmsg gexinit %d' % mp())
        lines.append('sshmsg gexreply %s %d %s' % (blob(), mp(), sig()))
    return lines


def run(chk):
    from harness import impl
    rng = chk.rng
    lines = gen_lines(rng, chk.tier)
    proved = common.proof_stage(chk, 'Props.C07', [], None)
    br = common.build_runner()
    impl_out = [impl.impl_line(l) for l in lines]
    dec_lines = []
    if br.ok:
        model_out = common.run_model(lines)
        nv = 0
        for l, m, i in zip(lines, model_out, impl_out):
            if l.startswith('bannerenc'):
                continue   # compose() does not enforce the limit; the parse direction below decides
            if m != i and nv < 5:
                nv += 1
                chk.violation('implementation gives %s where the RFC encoding / rule gives %s: "%s"' % (i[:100], m[:100], l[:140]), {'cmd': l, 'impl': i, 'spec': m}, None, True)
        # identification strings composed by the implementation: within the limit they are the RFC string and parse back to
        # it (alone and followed by other bytes); beyond the limit both sides refuse them
        ban = []
        for l, m, i in zip(lines, model_out, impl_out):
            if l.startswith('bannerenc') and i.startswith('OK '):
                if m.startswith('OK ') and m != i and nv < 8:
                    nv += 1
                    chk.violation('identification string composed as %s, RFC 4253 4.2 gives %s' % (i[:120], m[:120]), {'cmd': l, 'impl': i, 'spec': m}, None, True)
                ban += ['bannerdec ' + i[3:], 'bannerdec ' + i[3:] + '0000000c0a14']
        mb = common.run_model(ban)
        for l, m in zip(ban, mb):
            i = impl.impl_line(l)
            mm = 'REFUSED' if m == 'NONE' else m
            ii = 'REFUSED' if (i.startswith('ERR') or i.startswith('LEAK')) else i
            if mm != ii and nv < 10:
                nv += 1
                chk.violation('identification string of %d bytes: implementation %s, RFC 4253 4.2 %s' % (len(bytes.fromhex(l.split(' ')[1])), i[:100], m[:100]),
                              {'cmd': l, 'impl': i, 'spec': m}, None, True)
        chk.coverage['identification_strings'] = len(ban)
        for l, m in zip(lines, model_out):
            if l.startswith('kexenc') and m.startswith('OK '):
                dec_lines.append('kexdec ' + m[3:])
                if rng.random() < 0.5:      # a boolean octet other than 0 / 1 is TRUE (RFC 4251 section 5)
                    h = m[3:]
                    dec_lines.append('kexdec ' + h[:-10] + '%02x' % rng.choice([2, 3, 0x7f, 0x80, 0xff]) + h[-8:])
        m2 = common.run_model(dec_lines)
        for l, m in zip(dec_lines, m2):
            i = impl.impl_line(l)
            if m != i and nv < 8:
                nv += 1
                chk.violation('parsing an RFC-conformant KEXINIT does not recover the encoded values: implementation %s, specification %s' % (i[:140], m[:140]),
                              {'cmd': l, 'impl': i, 'spec': m}, None, True)
        # transport-layer messages: the specification's encoding is parsed through the message variant of each key-exchange
        # context in which the message may occur, alone and followed by other bytes; the fields must be the encoded ones
        msg_dec = []
        native = []   # per decode line: is the context one in which the composed message is defined?
        ctxs = {'disc': ['init', 'kexdh', 'gex'], 'unimpl': ['init', 'kexdh', 'gex'], 'newkeys': ['kexdh', 'gex'], 'dhinit': ['kexdh'], 'dhreply': ['kexdh'],
                'gexreq': ['gex'], 'gexgroup': ['gex'], 'gexinit': ['gex'], 'gexreply': ['gex']}
        for l, m in zip(lines, model_out):
            if l.startswith('sshmsg ') and m.startswith('OK '):
                for ctx in ('init', 'kexdh', 'gex'):
                    native += [ctx in ctxs[l.split(' ')[1]]] * 2
                    # in a context in which the message number is not defined both sides must refuse (or, for number 31, read
                    # the bytes as the other message of that number)
                    msg_dec += ['sshmsgdec %s %s' % (ctx, m[3:]), 'sshmsgdec %s %s' % (ctx, m[3:] + '00000001ff')]
        for l, m, nat in zip(msg_dec, common.run_model(msg_dec), native):
            i = impl.impl_line(l)
            m = 'REFUSED' if m == 'NONE' else m
            i = 'REFUSED' if i.startswith('ERR ') else i
            if m != 'REFUSED' and not nat:
                continue    # number 31 read as the other message of that number: K_S is a host key for the library, a string for the RFC
            if m != i and nv < 12:
                nv += 1
                chk.violation('parsing an RFC-conformant %s message does not recover the encoded values: implementation %s, specification %s' % (
                    l.split(' ')[1], i[:140], m[:140]), {'cmd': l, 'impl': i, 'spec': m}, None, True)
        dec_lines += msg_dec
        chk.coverage['transport_messages'] = len(msg_dec)
        # the converse (C07_rigid_messages_one_encoding): octets that are NOT an encoder's output - one octet of the encoding of a
        # message of byte / uint32 / string fields replaced, or the encoding cut short - through both decoders.  The library may
        # refuse more than the layout language does (reason codes outside its table, descriptions that are not UTF-8); what it
        # accepts must be what the specification decodes, and must be composed back to the octets consumed (checked inside the
        # sshmsgdec command of the implementation, reported as RoundTripError)
        mut = []
        for l, m in zip(lines, model_out):
            if l.startswith('sshmsg ') and m.startswith('OK ') and l.split(' ')[1] in ('disc', 'unimpl', 'newkeys', 'gexreq'):
                raw = bytes.fromhex(m[3:])
                for _ in range(2 if chk.tier == 'quick' else 12):
                    b = bytearray(raw)
                    k = rng.randrange(len(b))
                    b[k] = rng.choice([0, 1, 0x7f, 0x80, 0xff, rng.randrange(256)])
                    if rng.random() < 0.2:
                        b = b[:rng.randrange(1, len(b) + 1)]
                    ctx = rng.choice(ctxs[l.split(' ')[1]])
                    mut.append('sshmsgdec %s %s' % (ctx, bytes(b).hex() + rng.choice(['', '00', 'ff00000001'])))
        n_acc = 0
        for l, m in zip(mut, common.run_model(mut)):
            i = impl.impl_line(l)
            if i.startswith('ERR '):
                continue
            n_acc += 1
            if (m != i or not i.startswith('OK ')) and nv < 16:
                nv += 1
                chk.violation('octets accepted as an SSH message of single-spelling fields are not decoded as the specification decodes them or not composed back verbatim: '
                              'implementation %s, specification %s' % (i[:140], m[:140]), {'cmd': l, 'impl': i, 'spec': m}, None, True)
        dec_lines += mut
        chk.coverage['transport_messages_altered'] = {'inputs': len(mut), 'accepted_by_implementation': n_acc}
        # software versions of the vendors the library splits (model Ssh/Software.v): vendor alone, vendor and version, a version
        # containing the separator, a repeated separator, an empty version, another vendor, a prefix of the vendor
        sw = []
        for vendor, sep in (('OpenSSH', '_'), ('dropbear', '_'), ('IPSSH', '-')):
            for _ in range(20 if chk.tier == 'quick' else 400):
                ver = ''.join(rng.choice('0123456789.p' + sep + 'ab') for _ in range(rng.choice([0, 1, 3, 8, 20])))
                text = rng.choice([vendor + sep + ver, vendor + sep + ver, vendor, vendor + sep, vendor + sep + sep + ver, vendor[:-1] + sep + ver, 'x' + vendor + sep + ver,
                                   vendor + ver, vendor.upper() + sep + ver, sep + ver])
                sw.append('swver %s %s %s' % (vendor.encode().hex(), sep.encode().hex(), text.encode().hex() or '-'))
        for l, m in zip(sw, common.run_model(sw)):
            i = impl.impl_line(l)
            if m != i and nv < 14:
                nv += 1
                chk.violation('correspondence Ssh/Software.v vs SshSoftwareVersionParsedBase broke on "%s" (%s): model %s, implementation %s' % (
                    l[:80], bytes.fromhex(l.split(' ')[3] if l.split(' ')[3] != '-' else '').decode('ascii', 'replace'), m[:60], i[:60]), {'cmd': l, 'model': m, 'impl': i, 'correspondence': 'swver'}, None, False)
        dec_lines += sw
        chk.coverage['software_versions'] = len(sw)
        # OpenSSH v01 certificates encoded by the specification (PROTOCOL.certkeys): parsed through the public key variant, the
        # names of the critical options and extensions (unknown ones included) and the principals must come back in order, and
        # composing the parsed certificate must give the encoding again
        from harness import c16
        from cryptoparser.ssh.key import SshHostPublicKeyVariant
        cert_cmds = [c16.cert_cmd(rng) for _ in range(12 if chk.tier == 'quick' else 300)]
        nc = 0
        for cmd, b in zip(cert_cmds, common.run_model(cert_cmds)):
            ws = cmd.split(' ')
            want = {'principals': [] if ws[6] == '-' else [bytes.fromhex(x) for x in ws[6].split(',')],
                    'critical': [] if ws[9] == '-' else [bytes.fromhex(x.split(':')[0]) for x in ws[9].split('|')],
                    'extensions': [] if ws[10] == '-' else [bytes.fromhex(x.split(':')[0]) for x in ws[10].split('|')]}
            blob = bytes.fromhex(b[3:])
            try:
                key = SshHostPublicKeyVariant.parse_exact_size(blob)

                def names(items):
                    out = []
                    for o in items:
                        c = bytes(o.compose())
                        out.append(c[4:4 + int.from_bytes(c[:4], 'big')])
                    return out
                got = {'principals': [str(p.value).encode() if hasattr(p, 'value') else bytes(p) for p in key.valid_principals],
                       'critical': names(key.critical_options), 'extensions': names(key.extensions)}
                again = bytes(key.compose())
            except Exception as e:  # pylint: disable=broad-except
                got, again = 'EXC ' + type(e).__name__, b''
            dec_lines.append(cmd)
            if (got != want or again != blob) and nc < 3:
                nc += 1
                chk.violation('a conformant ssh-ed25519-cert-v01 certificate: recovered %s, encoded %s; re-composed identically: %s' % (
                    str(got)[:160], str(want)[:160], again == blob), {'cmd': cmd, 'blob': blob.hex(), 'impl': str(got)}, None, True)
        chk.coverage['certificates'] = len(cert_cmds)
    else:
        chk.violation('model runner does not build: %s' % br.failed_file, {'error': br.error}, None, False)
    # the padding rule itself, on the implementation, independent of the model
    for l, o in zip(lines, impl_out):
        if l.startswith('sshpad') and o.startswith('OK '):
            L = int(l.split(' ')[1])
            pad, plen = (int(x) for x in o[3:].split(' '))
            if not (4 <= pad <= 255 and (4 + plen) % 8 == 0 and plen == 1 + L + pad):
                chk.violation('SSH packet for a %d-byte payload: padding %d, packet_length %d' % (L, pad, plen), {'cmd': l, 'impl': o}, None, True)
                break
    chk.coverage['evaluations'] = len(lines) + len(dec_lines)
    chk.coverage['distinct_nontrivial'] = len(set(lines))
    chk.coverage['traces_validated_against_impl'] = len(lines) + len(dec_lines)
    chk.coverage['exhaustive'] = False
    chk.coverage['rule'] = ('binary packets for every payload length 0..1999 (quick) / 0..35000 (thorough) composed by the implementation and the '
                            'padding / packet_length compared with the model and checked against the RFC 4253 rule; mpints at all boundary bit '
                            'lengths 2^k-1, 2^k, 2^k+1 and random ones against the RFC 4251 specification; KEXINIT messages over known and '
                            'unknown names (empty lists included) composed and compared with the specification encoding, specification encodings '
                            'parsed and the values compared; ssh-rsa, ssh-ed25519 and ecdsa-sha2-nistp256/384/521 key blobs against the specification; DISCONNECT, UNIMPLEMENTED, '
                            'NEWKEYS, KEXDH_INIT / REPLY and the four RFC 4419 group-exchange messages composed from field values and compared with '
                            'the specification, the specification encodings parsed through the message variant of every context they occur in')
    for i in range(0, len(lines), max(1, len(lines) // 8)):
        chk.sample({'cmd': lines[i][:140], 'outcome': impl_out[i][:100]})
    chk.assumptions += ['ECDSA keys, ECDH messages and the RSA / DSS / ECDSA certificate types are covered by the C01/C05 sweeps only, not by the '
                        'specification yet; the DH / GEX numbers e, f, p, g are byte strings in the library (the payload of the mpint)']


def replay(path):
    from harness import impl
    with open(path) as f:
        r = json.load(f)
    if 'blob' in r:
        from cryptoparser.ssh.key import SshHostPublicKeyVariant
        blob = bytes.fromhex(r['blob'])
        try:
            ok = bytes(SshHostPublicKeyVariant.parse_exact_size(blob).compose()) == blob
            print('certificate parsed; re-composed identically: %s' % ok)
        except Exception as e:  # pylint: disable=broad-except
            print('certificate not accepted: %s' % type(e).__name__)
            ok = False
        print('replay: property %s' % ('holds on this input' if ok else 'FAILS on this input'))
        return 0 if ok else 1
    if 'cmd' not in r:
        print(json.dumps(r, indent=1)[:3000])
        return 1
    o = impl.impl_line(r['cmd'])
    spec = common.run_model([r['cmd']])[0] if common.build_runner().ok else r.get('spec')
    print('%s\n implementation: %s\n specification:  %s' % (r['cmd'][:200], o[:200], spec[:200]))
    print('replay: property %s' % ('holds on this input' if o == spec else 'FAILS on this input'))
    return 0 if o == spec else 1
