# C03: reported consumed length is exact and framing units are self-delimiting.
import json

from harness import common, framegen, sweep

LEVEL = 'proof'

FRAMING_UNITS = [
    'cryptoparser.tls.record.TlsRecord', 'cryptoparser.tls.record.SslRecord',
    'cryptoparser.tls.subprotocol.TlsHandshakeClientHello', 'cryptoparser.tls.subprotocol.TlsHandshakeServerHello',
    'cryptoparser.tls.subprotocol.TlsHandshakeHelloRetryRequest', 'cryptoparser.tls.subprotocol.TlsHandshakeCertificate',
    'cryptoparser.tls.subprotocol.TlsHandshakeCertificateStatus', 'cryptoparser.tls.subprotocol.TlsHandshakeServerHelloDone',
    'cryptoparser.tls.subprotocol.TlsHandshakeServerKeyExchange', 'cryptoparser.tls.subprotocol.TlsHandshakeCertificateRequest',
    'cryptoparser.tls.subprotocol.TlsHandshakeMessageVariant',
    'cryptoparser.ssh.subprotocol.SshProtocolMessage', 'cryptoparser.ssh.record.SshRecordInit',
    'cryptoparser.ssh.record.SshRecordKexDH', 'cryptoparser.ssh.record.SshRecordKexDHGroup',
    'cryptoparser.tls.mysql.MySQLRecord', 'cryptoparser.tls.rdp.TPKT', 'cryptoparser.tls.openvpn.OpenVpnPacketWrapperTcp',
    'cryptoparser.tls.ldap.LDAPExtendedRequestStartTLS', 'cryptoparser.tls.ldap.LDAPExtendedResponseStartTLS',
    'cryptoparser.tls.postgresql.SslRequest', 'cryptoparser.tls.postgresql.Sync',
]


def declared_length(name, buf):
    """The frame length a header declares, read from the header bytes only (None: no simple header rule)."""
    short = name.rsplit('.', 1)[1]
    try:
        if short == 'TlsRecord':
            return 5 + int.from_bytes(buf[3:5], 'big')
        if short.startswith('TlsHandshake'):
            return 4 + int.from_bytes(buf[1:4], 'big')
        if short == 'MySQLRecord':
            return 4 + int.from_bytes(buf[0:3], 'little')
        if short == 'TPKT':
            return int.from_bytes(buf[2:4], 'big')
        if short == 'OpenVpnPacketWrapperTcp':
            return 2 + int.from_bytes(buf[0:2], 'big')
        if short.startswith('SshRecord'):
            return 4 + int.from_bytes(buf[0:4], 'big')
        if short == 'SslRecord':
            if buf[0] & 0x80:
                return 2 + (((buf[0] & 0x7f) << 8) | buf[1])
            return 3 + (((buf[0] & 0x3f) << 8) | buf[1])
        if short.startswith('LDAP'):
            # BER: tag octet, then a short-form length (< 0x80) or 0x80 | k followed by k length octets
            if buf[1] < 0x80:
                return 2 + buf[1]
            k = buf[1] & 0x7f
            if k == 0 or len(buf) < 2 + k:
                return None
            return 2 + k + int.from_bytes(buf[2:2 + k], 'big')
        if short == 'SslRequest':
            return 8
        if short == 'Sync':
            return 1
    except IndexError:
        return None
    return None


def same(a, b):
    try:
        return a == b or (type(a) is type(b) and getattr(a, '__dict__', None) == getattr(b, '__dict__', 0))
    except Exception:  # pylint: disable=broad-except
        return False


def check_buffer(cls, name, buf, rng, unit):
    """C03 on one buffer of one class, on the implementation. Yields (predicate-name, detail)."""
    from cryptodatahub.common.exception import InvalidValue
    from cryptoparser.common.exception import InvalidType, NotEnoughData, TooMuchData
    documented = (InvalidValue, InvalidType, NotEnoughData, TooMuchData)
    try:
        obj, n = cls.parse_immutable(buf)
    except documented:
        ba = bytearray(buf)
        try:
            cls.parse_mutable(ba)
        except Exception:  # pylint: disable=broad-except
            pass
        if bytes(ba) != buf:
            yield 'failed-parse-changed-buffer', 'a failed parse_mutable left %s of %s' % (bytes(ba).hex()[:40], buf.hex()[:40])
        return
    except Exception:  # pylint: disable=broad-except  (C02's business)
        return
    if not isinstance(n, int) or not 0 <= n <= len(buf):
        yield 'n-out-of-range', 'consumed length %r for a buffer of %d bytes' % (n, len(buf))
        return
    if unit and n <= 0:
        yield 'n-not-positive', 'framing unit reports consumed length %d' % n
    ba = bytearray(buf)
    try:
        cls.parse_mutable(ba)
        if bytes(ba) != buf[n:]:
            yield 'mutable-removes-other', 'parse_mutable left %d bytes, expected the last %d' % (len(ba), len(buf) - n)
    except documented:
        yield 'mutable-disagrees', 'parse_immutable accepts, parse_mutable rejects'
    except Exception:  # pylint: disable=broad-except
        pass
    try:
        cls.parse_exact_size(buf)
        exact_ok = True
    except TooMuchData:
        exact_ok = False
    except Exception:  # pylint: disable=broad-except
        exact_ok = None
    if exact_ok is not None and exact_ok != (n == len(buf)):
        yield 'exact-size-iff', 'parse_exact_size %s although n=%d and len=%d' % ('succeeds' if exact_ok else 'fails', n, len(buf))
    if unit:
        d = declared_length(name, buf)
        if d is not None and d != n:
            yield 'n-differs-from-declared', 'consumed %d, the header declares %d' % (n, d)
        # what follows must not matter: nothing, random bytes, and the bytes a unit's own grammar treats specially (its last
        # byte again, line ends, blanks, zeros)
        for suffix in (b'', bytes(rng.getrandbits(8) for _ in range(rng.randint(1, 5))), buf[n - 1:n] * 2, b'\n', b'\r\n', b' ', b'\x00\x00',
                       bytes(rng.getrandbits(8) for _ in range(300)), buf[:n] * 3):
            try:
                o2, n2 = cls.parse_immutable(buf[:n] + suffix)
                if n2 != n or not same(o2, obj):
                    yield 'not-self-delimiting', 'first %d bytes + %d others parse to n=%d / a different object' % (n, len(suffix), n2)
            except Exception as e:  # pylint: disable=broad-except
                yield 'not-self-delimiting', 'first %d bytes + %d others are rejected (%s)' % (n, len(suffix), type(e).__name__)


def reframed(name, v, rng):
    """Other wire forms of the same frame that the repository's vectors do not contain: SSL 2.0 records with the 3-byte
    header and padding, SSH binary packets with more padding, LDAP messages with long-form BER lengths."""
    short = name.rsplit('.', 1)[1]
    out = []
    if short == 'SslRecord' and len(v) > 2 and v[0] & 0x80:
        for p in (0, 1, rng.randint(2, 7)):
            ln = (((v[0] & 0x7f) << 8) | v[1]) + p
            if ln < 0x4000:
                out.append(bytes([(ln >> 8) & 0x3f, ln & 0xff, p]) + v[2:] + bytes(rng.getrandbits(8) for _ in range(p)))
    if short.startswith('LDAP') and len(v) > 2 and v[0] == 0x30 and v[1] < 0x80 and len(v) == 2 + v[1]:
        # the same message with its outer length in the long forms of BER (0x81 xx ... 0x84 00 00 00 xx, as Active Directory
        # writes them): valid BER, not DER
        for k in (1, 2, 4):
            out.append(bytes([0x30, 0x80 | k]) + v[1].to_bytes(k, 'big') + v[2:])
    if short.startswith('TlsHandshake') and len(v) >= 4 and int.from_bytes(v[1:4], 'big') == len(v) - 4:
        # a handshake message whose declared length covers more than its fields (RFC 5246 7.4: the length is that of the whole
        # message): if it is accepted at all, it is consumed with the declared length
        for k in (1, 3, rng.randint(4, 9)):
            out.append(v[:1] + (len(v) - 4 + k).to_bytes(3, 'big') + v[4:] + bytes(rng.getrandbits(8) for _ in range(k)))
    if short.startswith('SshRecord') and len(v) > 5:
        for k in (1, 8, rng.randint(2, 40)):
            pl = int.from_bytes(v[0:4], 'big')
            if v[4] + k <= 255 and pl + 4 == len(v):
                out.append((pl + k).to_bytes(4, 'big') + bytes([v[4] + k]) + v[5:] + bytes(rng.getrandbits(8) for _ in range(k)))
    return out


def class_sweep(chk, rng, per_vector):
    vectors = sweep.library_vectors()
    evals = 0
    accepted = 0
    try:
        from cryptoparser.common.base import VectorString as vector_string
    except ImportError:
        vector_string = None
    for cls in sorted(vectors, key=sweep.qualname):
        name = sweep.qualname(cls)
        unit = name in FRAMING_UNITS
        for v in vectors[cls]:
            bufs = [v, v + bytes(rng.getrandbits(8) for _ in range(rng.randint(1, 4)))]
            if unit and len(vectors[cls]) > 1:
                bufs.append(v + rng.choice(vectors[cls]))
            if unit:
                for r in reframed(name, v, rng):
                    bufs += [r, r + bytes(rng.getrandbits(8) for _ in range(rng.randint(1, 4))), r + v]
            bufs += [sweep.mutate(rng, v) for _ in range(per_vector)]
            # a length-prefixed text list cut short: the declared length says more is to come
            if vector_string is not None and issubclass(cls, vector_string) and len(v) > 6:
                try:
                    _o, n0 = cls.parse_immutable(v)
                    cls.parse_immutable(v[:n0 - 1])
                    yield cls, 'cryptoparser.common.base.VectorString', v[:n0 - 1], 'short-body-accepted', 'a name-list declaring %d octets is accepted with %d present (%s)' % (
                        int.from_bytes(v[:4], 'big'), n0 - 5, name)
                except Exception:  # pylint: disable=broad-except
                    pass
            for b in bufs:
                evals += 1
                for pred, detail in check_buffer(cls, name, b, rng, unit):
                    accepted += 1
                    yield cls, name, b, pred, detail
    chk.coverage['class_sweep'] = {'classes': len(vectors), 'buffers': evals, 'note': 'implementation-only exploration over all classes reached by the repository tests'}


def ssl2_lines(rng, n):
    """SSL 2.0 records carrying ERROR messages (the message type the model covers): both header forms, every padding,
    suffixes, a second record, corrupted headers / types / codes, truncations, header-only buffers declaring large records."""
    lines = []
    codes = [1, 2, 4, 6, 3, 0, 5, 0xffff]
    for _ in range(n):
        body = bytes([rng.choice([0, 0, 0, 0, 2, 3, 9, 255])]) + rng.choice(codes).to_bytes(2, 'big') + framegen.rnd_bytes(rng, rng.choice([0, 0, 0, 1, 5]))
        pad = rng.choice([0, 0, 1, 3, 7])
        if rng.random() < 0.5:
            rec = bytes([0x80 | (len(body) >> 8), len(body) & 0xff]) + body
        else:
            ln = len(body) + pad
            rec = bytes([(ln >> 8) & 0x3f, ln & 0xff, pad]) + body + framegen.rnd_bytes(rng, pad)
        second = bytes([0x80, 3, 0, 0, 1])
        for v in (rec, rec + framegen.rnd_bytes(rng, rng.randint(1, 4)), rec + second, framegen.corrupt(rng, rec), rec[:rng.randint(0, len(rec))]):
            lines.append('pssl2 %s' % (v.hex() or '-'))
    for ln in (0, 1, 2, 255, 256, 16383, 16384, 32767):
        for hdr in (bytes([0x80 | (ln >> 8), ln & 0xff]), bytes([(ln >> 8) & 0x3f, ln & 0xff, rng.randrange(4)])):
            lines.append('pssl2 %s' % (hdr + framegen.rnd_bytes(rng, rng.randint(0, 6))).hex())
    for code in (1, 2, 4, 6):
        lines.append('cssl2 0 %04x' % code)
    # SSH binary packets carrying UNIMPLEMENTED messages (the variant the model covers): any padding length, suffixes,
    # a second packet, corrupted length / padding / code bytes, truncations, headers declaring large packets
    for _ in range(n):
        payload = bytes([rng.choice([3, 3, 3, 3, 2, 21, 99, 0])]) + framegen.rnd_bytes(rng, rng.choice([4, 4, 4, 3, 5, 0]))
        pad = rng.choice([4, 6, 7, 11, 0, 1, 255])
        pkt = (len(payload) + pad + 1).to_bytes(4, 'big') + bytes([pad]) + payload + framegen.rnd_bytes(rng, pad)
        second = bytes.fromhex('0000000c060300000001000000000000')
        for v in (pkt, pkt + framegen.rnd_bytes(rng, rng.randint(1, 4)), pkt + second, framegen.corrupt(rng, pkt), pkt[:rng.randint(0, len(pkt))]):
            lines.append('pssh %s' % (v.hex() or '-'))
        lines.append('cssh 03%s' % framegen.rnd_bytes(rng, 4).hex())
    for ln in (0, 1, 5, 255, 35000, 2 ** 32 - 1):
        lines.append('pssh %s' % (ln.to_bytes(4, 'big') + framegen.rnd_bytes(rng, rng.randint(0, 8))).hex())
    return lines


def noncanonical_version_only(line, m, i):
    """An identification string whose protocol version is not in the digits the generator writes (a corrupted "2.07"): the library
    reads the numbers and writes "2.7" again, which is the canonical form C05 is about; here only the consumed length is compared."""
    if not (line.startswith('bannerline ') and m.startswith('OK ') and i.startswith('OK ')):
        return False
    try:
        raw = bytes.fromhex(line.split(' ')[1])
    except ValueError:
        return False
    if raw.startswith((b'SSH-2.0-', b'SSH-1.99-', b'SSH-1.5-')):
        return False
    return m.rsplit(' n=', 1)[-1] == i.rsplit(' n=', 1)[-1]


def banner_lines(rng, n):
    """SSH identification strings of all lengths up to the limit, with CR LF and with LF only, alone and followed by other bytes
    (binary data, a second LF, a second banner, a key exchange packet), corrupted and truncated"""
    alpha = 'abcdefghijklmnopqrstuvwxyzABCDEFGHIJKLMNOPQRSTUVWXYZ0123456789_.'
    lines = []
    for _ in range(n):
        proto = rng.choice(['2.0', '1.99', '1.5'])
        sw = 'srv' + ''.join(rng.choice(alpha) for _ in range(rng.choice([0, 1, 5, 20, 200, 236, 237, 238, 240])))
        comment = rng.choice([None, None, 'Debian-5', 'a b c'])
        b = ('SSH-%s-%s%s' % (proto, sw, '' if comment is None else ' ' + comment)).encode('ascii') + rng.choice([b'\r\n', b'\r\n', b'\n'])
        second = b'SSH-2.0-other\r\n'
        for v in (b, b + framegen.rnd_bytes(rng, rng.randint(1, 300)), b + b'\n', b + b'\n\n', b + second, b + bytes.fromhex('0000000c0a14'),
                  framegen.corrupt(rng, b), b[:rng.randint(0, len(b))]):
            lines.append('bannerline %s' % (v.hex() or '-'))
    return lines


def run(chk):
    from harness import impl

    rng = chk.rng
    n_frames = 60 if chk.tier == 'quick' else 1500
    lines = []
    for u in framegen.UNITS:
        for _ in range(n_frames):
            hd, pl = framegen.valid_frame(rng, u, big=(rng.random() < 0.05))
            cl = 'cframe %s %s %s' % (u, hd, pl.hex())
            lines.append(cl)
            o = impl.impl_line(cl)
            if not o.startswith('OK '):
                continue
            b = bytes.fromhex(o[3:])
            hd2, pl2 = framegen.valid_frame(rng, u)
            o2 = impl.impl_line('cframe %s %s %s' % (u, hd2, pl2.hex()))
            variants = [b, b + framegen.rnd_bytes(rng, rng.randint(1, 3)), framegen.corrupt(rng, b), framegen.corrupt(rng, b)]
            if o2.startswith('OK '):
                variants.append(b + bytes.fromhex(o2[3:]))
            for v in variants:
                for op in ('pframe', 'xframe', 'mframe'):
                    lines.append('%s %s %s' % (op, u, v.hex()))
        for _ in range(n_frames // 2):
            lines.append('pframe %s %s' % (u, framegen.rnd_bytes(rng, rng.randint(0, 12)).hex()))
        lines.append('cframe %s %s %s' % (u, {'tlsrecord': '22,769', 'mysql': '0', 'tpkt': '3'}.get(u, '-'), '00' * 70000))

    lines += ssl2_lines(rng, n_frames)
    lines += banner_lines(rng, n_frames)

    def search(_br):
        for cls, name, b, pred, detail in class_sweep(chk, rng, 2):
            key = '%s/%s' % (name, pred)
            if chk.known(key) is None:
                return [('%s: %s' % (name, detail), {'class': name, 'input': b.hex(), 'predicate': pred}, key, True)]
        return []

    proved = common.proof_stage(chk, 'Props.C03', [], search)
    br = common.build_runner()
    impl_out = [impl.impl_line(l) for l in lines]
    if br.ok:
        model_out = common.run_model(lines)
        diffs = [(l, m, i) for l, m, i in zip(lines, model_out, impl_out) if m != i and m not in ('ERR OutOfFuel', 'OUTOFFUEL')   # OutOfFuel: hello messages, not modelled
                 and not (l.startswith('bannerline') and i.startswith(('ERR ', 'LEAK ')))
                 and not noncanonical_version_only(l, m, i)]   # the banner specification has neither error kinds nor the
        # character-set and version checks of the library: what the library accepts must be accepted alike (same string, same n)
        chk.coverage['disagreements'] = len(diffs)
        for l, m, i in diffs[:3]:
            chk.violation('correspondence Frame/Units.v vs the implementation broke on "%s": model %s, implementation %s' % (l[:160], m[:120], i[:120]),
                          {'cmd': l, 'model': m, 'impl': i, 'correspondence': 'Run.run_line frames'}, None, False)
    else:
        chk.violation('model runner does not build: %s' % br.failed_file, {'error': br.error}, None, False)
    # the property itself on the implementation, all classes (framing clause for the framing units)
    seen = set()
    for cls, name, b, pred, detail in class_sweep(chk, rng, 3 if chk.tier == 'quick' else 40):
        key = '%s/%s' % (name, pred)
        if key in seen:
            continue
        seen.add(key)
        chk.violation('%s: %s' % (name, detail), {'class': name, 'input': b.hex(), 'predicate': pred}, key, True)
    nontrivial = set(l for l, o in zip(lines, impl_out) if o.startswith('OK') and not l.startswith('cframe'))
    chk.coverage['evaluations'] = len(lines) + chk.coverage.get('class_sweep', {}).get('buffers', 0)
    chk.coverage['distinct_nontrivial'] = len(nontrivial)
    chk.coverage['traces_validated_against_impl'] = len(lines)
    chk.coverage['rule'] = ('per framing unit (TlsRecord, handshake header, MySQLRecord, TPKT, OpenVPN-TCP, SslRequest, Sync, SSL 2.0 records carrying '
                            'ERROR messages in both header forms with every padding, SSH binary packets carrying UNIMPLEMENTED messages, SSH '
                            'identification strings up to and beyond 255 characters): composed '
                            'frames, the same followed by random suffixes or by a second frame, corrupted variants and random buffers, '
                            'through parse_immutable / parse_exact_size / parse_mutable on the extracted Coq model and the implementation; '
                            'plus an implementation-only sweep of the C03 predicates over every class reached by the repository tests '
                            '(original vectors, vectors with suffixes, mutations); non-trivial = distinct accepted parse commands')
    hist = {}
    for o in impl_out:
        k = o.split(' ')[0] + (' ' + o.split(' ')[1] if o.startswith('ERR') else '')
        hist[k] = hist.get(k, 0) + 1
    chk.coverage['outcome_distribution'] = hist
    for i in range(0, len(lines), max(1, len(lines) // 10)):
        chk.sample({'cmd': lines[i][:120], 'outcome': impl_out[i][:120]})
    chk.coverage['uncovered_classes_note'] = ('Coq theorems cover the seven LV framing units, SSL 2.0 records, SSH packets and the SSH identification string; LDAP and all '
                                              'non-framing classes are covered by the implementation-only sweep (exploration), not by a theorem')
    chk.assumptions += ['payloads of framing units are modelled as opaque bytes']


def replay(path):
    import random
    with open(path) as f:
        r = json.load(f)
    if 'class' in r:
        mod, q = r['class'].rsplit('.', 1)
        cls = sweep.resolve(mod, q)
        fails = [x for x in check_buffer(cls, r['class'], bytes.fromhex(r['input']), random.Random(0), r['class'] in FRAMING_UNITS)]
        for p, d in fails:
            print('%s: %s' % (p, d))
        ok = not any(p == r.get('predicate') for p, _ in fails)
    elif 'cmd' in r:
        from harness import impl
        print('%s -> %s (model said %s)' % (r['cmd'], impl.impl_line(r['cmd']), r.get('model')))
        ok = impl.impl_line(r['cmd']) == r.get('model')
    else:
        print(json.dumps(r, indent=1)[:3000])
        ok = False
    print('replay: property %s' % ('holds on this input' if ok else 'FAILS on this input'))
    return 0 if ok else 1
