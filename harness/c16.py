# C16: HASSH and SSH host-key fingerprints equal their definitions over wire bytes.
import base64
import hashlib
import json

from harness import common, framegen, sshgen

LEVEL = 'proof'


def expected_fingerprints(blob):
    return {
        'SHA256': 'SHA256:' + base64.b64encode(hashlib.sha256(blob).digest()).decode('ascii'),
        'SHA1': 'SHA1:' + base64.b64encode(hashlib.sha1(blob).digest()).decode('ascii'),
        'MD5': 'MD5:' + ':'.join('%02x' % b for b in hashlib.md5(blob).digest()),
    }


def run(chk):
    from harness import impl
    rng = chk.rng
    proved = common.proof_stage(chk, 'Props.C16', [], None)
    br = common.build_runner()
    if not br.ok:
        chk.violation('model runner does not build: %s' % br.failed_file, {'error': br.error}, None, False)
        return
    n = 150 if chk.tier == 'quick' else 5000
    kex = [sshgen.kexinit(rng) for _ in range(n)]
    enc = common.run_model(kex)
    evals = 0
    seen = set()
    nv = 0
    for l, o in zip(kex, enc):
        if not o.startswith('OK '):
            continue
        h = o[3:]
        pre = common.run_model(['hasshpre %s c' % h, 'hasshpre %s s' % h]) if evals < 400 else None
        if pre is None:
            break
        for side, p in zip('cs', pre):
            evals += 1
            ref = hashlib.md5(bytes.fromhex(p[3:])).hexdigest()
            got = impl.outcome(lambda: impl.hassh_cmd(h, side))
            seen.add(got)
            if got != 'OK ' + ref and nv < 5:
                nv += 1
                chk.violation('hassh%s = %s, md5 of the wire name-lists "%s" = %s' % ('_server' if side == 's' else '', got, bytes.fromhex(p[3:]).decode('ascii', 'replace')[:80], ref),
                              {'cmd': 'hasshpre %s %s' % (h, side), 'impl': got, 'reference': ref}, None, True)
    # host keys: fingerprints and known_hosts over the RFC 4253 blob of the specification
    key_cmds = []
    for _ in range(max(6, n // 15)):
        bits = rng.choice([1024, 1025, 2047, 2048])
        key_cmds.append(('rsablob %d %d' % (rng.choice([3, 17, 65537, 2 ** 31 + 11]), rng.getrandbits(bits) | 1 | (1 << (bits - 1))), impl.rsa_blob))
        key_cmds.append(('edblob %s' % framegen.rnd_bytes(rng, 32).hex(), impl.ed_blob))
    blobs = common.run_model([c for c, _ in key_cmds])
    for (cmd, fn), b in zip(key_cmds, blobs):
        evals += 1
        blob = bytes.fromhex(b[3:])
        try:
            key = fn(*cmd.split(' ')[1:])
            got = {k.name if hasattr(k, 'name') else str(k): v for k, v in key.fingerprints.items()}
            kh = key.host_key_asdict()['known_hosts']
        except Exception as e:  # pylint: disable=broad-except
            chk.violation('fingerprints of a constructible host key failed: %s' % type(e).__name__, {'cmd': cmd}, None, True)
            continue
        want = expected_fingerprints(blob)
        flat = sorted(got.values())
        if flat != sorted(want.values()) or kh != base64.b64encode(blob).decode('ascii'):
            chk.violation('fingerprints %s differ from the digests of the RFC 4253 blob %s' % (flat, sorted(want.values())),
                          {'cmd': cmd, 'impl': flat, 'reference': sorted(want.values())}, None, True)
        seen.add(flat[0])
    # wire blobs of RSA keys under every key-type name the implementation accepts for RSA, and DSS blobs, parsed through the
    # public-key variant: key_bytes must be the wire blob itself, the fingerprints its digests, known_hosts its base64
    from cryptoparser.ssh.key import SshHostKeyRSA, SshHostPublicKeyVariant
    wire_cmds = []
    for name in sorted(a.value.code for a in SshHostKeyRSA.get_host_key_algorithms()):
        bits = rng.choice([1024, 1025, 2047, 2048])
        wire_cmds.append('rsablobn %s %d %d' % (name.encode('ascii').hex(), rng.choice([3, 65537]), rng.getrandbits(bits) | 1 | (1 << (bits - 1))))
    for _ in range(3):
        wire_cmds.append('dssblob %d %d %d %d' % (rng.getrandbits(1024) | (1 << 1023), rng.getrandbits(160) | (1 << 159), rng.getrandbits(1023) + 2, rng.getrandbits(1023) + 2))
    wire_cmds += [sshgen.ec_blob_line(rng) for _ in range(12)]
    nwire = 0
    wire_blobs = common.run_model(wire_cmds)
    for cmd, b in zip(wire_cmds, wire_blobs):
        evals += 1
        blob = bytes.fromhex(b[3:])
        try:
            key = SshHostPublicKeyVariant.parse_exact_size(blob)
            kb = bytes(key.key_bytes)
            got = sorted(key.fingerprints.values())
            kh = key.host_key_asdict()['known_hosts']
        except Exception as e:  # pylint: disable=broad-except
            if nwire < 3:
                nwire += 1
                chk.violation('a host key blob encoded per RFC 4253 6.6 is not accepted or has no fingerprints: %s' % type(e).__name__, {'cmd': cmd, 'blob': blob.hex()}, None, True)
            continue
        want = sorted(expected_fingerprints(blob).values())
        if (kb != blob or got != want or kh != base64.b64encode(blob).decode('ascii')) and nwire < 3:
            nwire += 1
            chk.violation('host key "%s": key_bytes / fingerprints %s differ from the wire blob / its digests %s' % (
                bytes.fromhex(cmd.split(' ')[1]).decode('ascii') if cmd.startswith(('rsablobn', 'ecblob')) else 'ssh-dss', got, want),
                {'cmd': cmd, 'blob': blob.hex(), 'impl': got, 'reference': want}, None, True)
        seen.add(got[0])
    chk.coverage['wire_host_keys'] = len(wire_cmds)
    # fingerprints are those of the blob the object composes now: read, replace the key, read again
    try:
        from cryptoparser.ssh.key import SshHostPublicKeyVariant
        from harness import impl as _impl
        for bits in (1024, 2048):
            k1 = _impl.rsa_blob(65537, rng.getrandbits(bits) | 1 | (1 << (bits - 1)))
            k2 = _impl.rsa_blob(3, rng.getrandbits(bits) | 1 | (1 << (bits - 1)))
            b1, b2 = bytes(k1.key_bytes), bytes(k2.key_bytes)
            first = dict(k1.fingerprints)
            k1.public_key = k2.public_key
            got = sorted(dict(k1.fingerprints).values())
            want = sorted(expected_fingerprints(bytes(k1.key_bytes)).values())
            if got != want:
                chk.violation('host key read, edited and read again: fingerprints %s are not those of the blob it composes now %s (the first read gave %s)' % (
                    got, want, sorted(first.values())), {'blob': b1.hex(), 'replaced_with': b2.hex(), 'impl': got, 'reference': want, 'kind': 'edit-after-read'}, None, True)
                break
    except ImportError:
        pass
    # OpenSSH certificates (ssh-ed25519-cert-v01@openssh.com) with and without critical options / extensions: the blob of
    # the specification is parsed by the implementation; key_bytes must be the wire blob and the fingerprints its digests
    cert_cmds = [cert_cmd(rng) for _ in range(max(12, n // 8))]
    cert_blobs = common.run_model(cert_cmds)
    ncert = 0
    for cmd, b in zip(cert_cmds, cert_blobs):
        evals += 1
        blob = bytes.fromhex(b[3:])
        try:
            from cryptoparser.ssh.key import SshHostPublicKeyVariant
            key = SshHostPublicKeyVariant.parse_exact_size(blob)
            kb = bytes(key.key_bytes)
            got = sorted(key.fingerprints.values())
            kh = key.host_key_asdict()['known_hosts']
        except Exception as e:  # pylint: disable=broad-except
            if ncert < 3:
                ncert += 1
                chk.violation('a certificate encoded per PROTOCOL.certkeys is not accepted or has no fingerprints: %s' % type(e).__name__, {'cmd': cmd, 'blob': blob.hex()}, None, True)
            continue
        want = sorted(expected_fingerprints(blob).values())
        if (kb != blob or got != want or kh != base64.b64encode(blob).decode('ascii')) and ncert < 3:
            ncert += 1
            chk.violation('certificate: key_bytes / fingerprints %s differ from the wire blob / its digests %s' % (got, want),
                          {'cmd': cmd, 'blob': blob.hex(), 'impl': got, 'reference': want}, None, True)
        seen.add(got[0])
    chk.coverage['certificates'] = len(cert_cmds)
    chk.coverage['evaluations'] = evals
    chk.coverage['distinct_nontrivial'] = len(seen)
    chk.coverage['traces_validated_against_impl'] = evals
    chk.coverage['rule'] = ('KEXINIT messages over ordered lists of known and unknown algorithm names (empty lists included) encoded by the Coq '
                            'specification; kexinit.hassh / hassh_server compared with the MD5 of the text the Coq reference extracts from the '
                            'wire bytes; RSA and Ed25519 host keys: fingerprints (SHA-256, SHA-1 base64; MD5 colon-hex) and known_hosts value '
                            'compared with real digests / base64 of the RFC 4253 blob composed by the specification; Ed25519 v01 certificates with zero or more '
                            'critical options and extensions (PROTOCOL.certkeys) encoded by the specification and parsed by the implementation: key_bytes = wire '
                            'blob, fingerprints and known_hosts = its digests / base64; non-trivial = distinct values')
    chk.sample({'example': kex[0][:160]})
    chk.assumptions += ['MD5, SHA-1, SHA-256 and base64 are oracles (hashlib / base64 on both sides)', 'the RSA / DSS / ECDSA certificate types are not in the specification yet']


def cert_cmd(rng):
    """A certed command: random serial / validity / principals, none, one or several critical options and extensions."""
    def hx(t):
        return (t.encode() if isinstance(t, str) else t).hex() or '-'

    def opts(pool, unknown):
        chosen = [o for o in pool if rng.random() < 0.4]
        if rng.random() < 0.35:
            chosen.append(unknown)
        return '|'.join('%s:%s' % (hx(nm), '_' if d is None else hx(d)) for nm, d in sorted(chosen)) or '-'
    crit = opts([('force-command', rng.choice(['/bin/true', 'internal-sftp'])), ('source-address', rng.choice(['10.0.0.0/8', '192.0.2.0/24,2001:db8::/32']))],
                rng.choice([('verified-user@example.com', 'x'), ('Force-Command', '/bin/true'), ('SOURCE-ADDRESS', '10.0.0.0/8'), ('force-Command', 'x')]))
    ext = opts([('permit-X11-forwarding', None), ('permit-agent-forwarding', None), ('permit-port-forwarding', None), ('permit-pty', None),
                ('permit-user-rc', None)],
               # names are compared octet by octet (PROTOCOL.certkeys): a name in another letter case is another, unknown, name
               rng.choice([('zz-future@example.com', None), ('permit-x11-forwarding', None), ('Permit-PTY', None), ('PERMIT-USER-RC', None),
                           ('permit-Agent-forwarding', None)]))
    principals = ','.join(hx(rng.choice(['root', 'alice', 'host.example.com', 'deploy'])) for _ in range(rng.choice([0, 1, 1, 2]))) or '-'
    return 'certed %s %s %d %d %s %s %d %d %s %s - %s %s' % (
        framegen.rnd_bytes(rng, 32).hex(), framegen.rnd_bytes(rng, 32).hex(), rng.choice([0, 1, 2 ** 63, rng.getrandbits(64)]), rng.choice([1, 2]),
        hx(rng.choice(['user@example.com', 'key-1', ''])), principals, rng.choice([0, 1600000000]), rng.choice([1700000000, 2 ** 64 - 1, 2 ** 32]),
        crit, ext, framegen.rnd_bytes(rng, 32).hex(), framegen.rnd_bytes(rng, 64).hex())


def replay(path):
    from harness import impl
    with open(path) as f:
        r = json.load(f)
    if 'cmd' not in r:
        print(json.dumps(r, indent=1)[:3000])
        return 1
    ws = r['cmd'].split(' ')
    if ws[0] == 'hasshpre':
        p = common.run_model([r['cmd']])[0]
        ref = hashlib.md5(bytes.fromhex(p[3:])).hexdigest()
        got = impl.hassh_cmd(ws[1], ws[2])
        print('hassh = %s reference = %s' % (got, ref))
        ok = got == ref
    else:
        print(r)
        ok = False
    print('replay: property %s' % ('holds on this input' if ok else 'FAILS on this input'))
    return 0 if ok else 1
